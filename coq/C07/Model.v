(* C07 — executable model of linked-data proof creation and verification as /repo does it.  NO proofs here.
     component/models/verifiable/embedded_proof.go   checkEmbeddedProof, getProofs, getSuites, getProofType
     component/models/signature/verifier/verifier.go VerifyObject, getProofVerifyValue
     component/models/signature/signer/signer.go     signObject
     component/models/ld/proof/{proof,data,jws,utils}.go  NewProof, JSONLdObject, GetProofs, GetCopyWithoutProof,
                                                      CreateVerifyData, CreateVerifyHash, createVerifyJWS
     component/models/ld/validator/validate.go       mapsHaveSameStructure (strict mode)
     component/models/dataintegrity/verifier.go + suite/ecdsa2019/ecdsa2019.go   VerifyProof, proofConfig
   JSON documents are trees (common/Json.v); objects carry their members in the order the harness prints them
   (sorted by key, as encoding/json prints a Go map).  JSON-LD expansion / URDNA2015 / compaction (json-gold), time
   parsing, base64/multibase decoding and the signature primitives are PARAMETERS of the model (Section variables):
   in the correspondence they are instantiated with tables recorded from the real run, in the theorems they are
   arbitrary functions constrained by explicit hypotheses.  The keys removed from the proof options and the
   members a typed proof re-emits are GENERATED from /repo (gen/Gen_C07.v). *)
From Coq Require Import List String Ascii Bool NArith ZArith.
Import ListNotations.
From VF Require Import common.Json gen.Gen_C07.
Open Scope string_scope.
Open Scope list_scope.

(* ---------- JSON helpers ---------- *)
Definition obj := list (string * json).

Fixpoint mem_str (s : string) (l : list string) : bool :=
  match l with [] => false | x :: r => String.eqb s x || mem_str s r end.

Fixpoint remove_key (k : string) (m : obj) : obj :=
  match m with
  | [] => []
  | (k', v) :: r => if String.eqb k k' then remove_key k r else (k', v) :: remove_key k r
  end.
Fixpoint remove_keys (ks : list string) (m : obj) : obj :=
  match m with
  | [] => []
  | (k', v) :: r => if mem_str k' ks then remove_keys ks r else (k', v) :: remove_keys ks r
  end.

(* insertion keeping the members sorted by key (Go prints maps sorted); replaces an existing member *)
Fixpoint str_ltb (a b : string) : bool :=
  match a, b with
  | EmptyString, EmptyString => false
  | EmptyString, _ => true
  | _, EmptyString => false
  | String x r, String y t =>
      let nx := N_of_ascii x in let ny := N_of_ascii y in
      if N.ltb nx ny then true else if N.ltb ny nx then false else str_ltb r t
  end.
Fixpoint set_key (k : string) (v : json) (m : obj) : obj :=
  match m with
  | [] => [(k, v)]
  | (k', v') :: r =>
      if String.eqb k k' then (k, v) :: r
      else if str_ltb k k' then (k, v) :: (k', v') :: r
      else (k', v') :: set_key k v r
  end.

(* structural equality (reflect.DeepEqual on decoded JSON; Go maps are unordered, both sides are printed sorted) *)
Fixpoint json_eqb (a b : json) {struct a} : bool :=
  match a, b with
  | JNull, JNull => true
  | JBool x, JBool y => Bool.eqb x y
  | JNum x, JNum y => Z.eqb x y
  | JStr x, JStr y => String.eqb x y
  | JArr l, JArr l' =>
      (fix go (l l' : list json) {struct l} : bool :=
         match l, l' with
         | [], [] => true
         | x :: r, y :: t => json_eqb x y && go r t
         | _, _ => false
         end) l l'
  | JObj m, JObj m' =>
      (fix go (m m' : list (string * json)) {struct m} : bool :=
         match m, m' with
         | [], [] => true
         | (k, x) :: r, (k', y) :: t => String.eqb k k' && json_eqb x y && go r t
         | _, _ => false
         end) m m'
  | _, _ => false
  end.

(* proof.stringEntry *)
Definition str_entry (o : option json) : string := match o with Some (JStr s) => s | _ => "" end.
Definition nonempty (s : string) : bool := negb (String.eqb s "").

(* strings.Split(s, sep) *)
Fixpoint split_on (sep : ascii) (s : string) : list string :=
  match s with
  | EmptyString => [EmptyString]
  | String a r => if Ascii.eqb a sep then EmptyString :: split_on sep r
                  else match split_on sep r with
                       | p :: ps => String a p :: ps
                       | [] => [String a EmptyString]
                       end
  end.

(* ---------- crypto and messages, symbolically ---------- *)
(* A canonical form is an atom (N): the harness interns the N-Quads byte strings the real canonicaliser returned.
   A digest of a canonical form is identified with the atom (SHA-256 / identity for BBS+: collision freedom). *)
Inductive msg :=
| MHash (opts doc : N)                       (* digest(canon options) ++ digest(canon document) *)
| MJws (hdr : string) (opts doc : N)         (* header segment ++ "." ++ the same *)
| MDI (doc conf : N).                        (* Data Integrity: hash(canon doc) ++ hash(canon config) *)
Definition msg_eqb (a b : msg) : bool :=
  match a, b with
  | MHash o d, MHash o' d' => N.eqb o o' && N.eqb d d'
  | MJws h o d, MJws h' o' d' => String.eqb h h' && N.eqb o o' && N.eqb d d'
  | MDI d c, MDI d' c' => N.eqb d d' && N.eqb c c'
  | _, _ => false
  end.
(* the meaning of a byte string offered as a signature: made by the holder of private key k over m, or not *)
Inductive sigv := SBy (k : N) (m : msg) | SOther.
(* result of decoding a textual signature holder *)
Inductive dec := DErr | DEmpty | DSig (s : sigv).

Inductive repr := RProofValue | RJws.
Inductive variant := AsIs | Fixed.

(* the typed proof (proof.Proof) *)
Record lproof := {
  p_type : string; p_created : string; p_creator : string; p_vm : string;
  p_pv : string;            (* the received proofValue text ("" when absent) *)
  p_pv_len : bool;          (* len(ProofValue) > 0 *)
  p_jws : string; p_purpose : string; p_domain : string;
  p_nonce : string;         (* re-encoded nonce; "" when empty *)
  p_challenge : string; p_repr : repr;
  p_chain : option (list json) }.

Inductive outcome :=
| Unverified                 (* no proof member (or null): parsed without any check *)
| Verified (n : nat)         (* every one of the n proofs verified *)
| Rejected.
Definition outcome_eqb (a b : outcome) : bool :=
  match a, b with
  | Unverified, Unverified | Rejected, Rejected => true
  | Verified n, Verified m => Nat.eqb n m
  | _, _ => false
  end.

(* the proof types verifiable.getProofType lets through: GENERATED (go/ast over embedded_proof.go) *)
Definition supported_types : list string := supported_proof_types.
Definition di_type : string := "DataIntegrityProof".

Section LD.
  (* ---- third-party functions, parameters of the model ---- *)
  Variable canon : json -> option N.                (* JSON-LD expansion + URDNA2015 (+ invalid-RDF check); None = error *)
  Variable compact_sec : json -> option json.       (* compaction with the security context (suites with CompactProof) *)
  Variable time_ok : string -> bool.                (* afgotime.ParseTimeWrapper succeeds *)
  Variable nonce_dec : string -> option string.     (* decodeBase64 then RawURL re-encoding; Some "" for empty *)
  Variable pv_dec : string -> string -> dec.        (* DecodeProofValue(text, proof type) and what the bytes mean *)
  Variable seg_dec : string -> dec.                 (* base64url decoding of a JWS signature segment and its meaning *)
  Variable resolve : string -> string -> option N.  (* public key fetcher: (did, "#"+fragment) -> key *)
  Variable accepts : string -> bool.                (* some configured suite Accept()s the proof type *)
  Variable compact_proof : bool.                    (* CompactProof() of the configured suite *)

  (* ---- proof.NewProof ---- *)
  Definition new_proof (m : obj) : option lproof :=
    let created := str_entry (lookup m "created") in
    if negb (time_ok created) then None else
    let ty := str_entry (lookup m "type") in
    let pvr :=
      match lookup m "proofValue" with
      | Some v => let t := str_entry (Some v) in
                  match pv_dec t ty with
                  | DErr => None
                  | DEmpty => Some (t, false, "", RProofValue)
                  | DSig _ => Some (t, true, "", RProofValue)
                  end
      | None => match lookup m "jws" with
                | Some v => Some ("", false, str_entry (Some v), RJws)
                | None => Some ("", false, "", RProofValue)
                end
      end in
    match pvr with
    | None => None
    | Some (pv, pvlen, jws, rp) =>
      if negb pvlen && negb (nonempty jws) then None      (* "signature is not defined" *)
      else match nonce_dec (str_entry (lookup m "nonce")) with
           | None => None
           | Some nonce =>
             let chain := match lookup m "capabilityChain" with
                          | None => Some None
                          | Some (JArr l) => Some (Some l)
                          | Some _ => None
                          end in
             match chain with
             | None => None
             | Some ch =>
               Some {| p_type := ty; p_created := created; p_creator := str_entry (lookup m "creator");
                       p_vm := str_entry (lookup m "verificationMethod"); p_pv := pv; p_pv_len := pvlen;
                       p_jws := jws; p_purpose := str_entry (lookup m "proofPurpose");
                       p_domain := str_entry (lookup m "domain"); p_nonce := nonce;
                       p_challenge := str_entry (lookup m "challenge"); p_repr := rp; p_chain := ch |}
             end
           end
    end.

  (* ---- Proof.JSONLdObject: members in sorted order ---- *)
  Definition opt_member (k : string) (s : string) : obj := if nonempty s then [(k, JStr s)] else [].
  Definition jsonld_object (p : lproof) : obj :=
    (match p_chain p with Some l => [("capabilityChain", JArr l)] | None => [] end)
    ++ opt_member "challenge" (p_challenge p)
    ++ [("created", JStr (p_created p))]
    ++ opt_member "creator" (p_creator p)
    ++ opt_member "domain" (p_domain p)
    ++ opt_member "jws" (p_jws p)
    ++ opt_member "nonce" (p_nonce p)
    ++ opt_member "proofPurpose" (p_purpose p)
    ++ (if p_pv_len p then [("proofValue", JStr (p_pv p))] else [])
    ++ [("type", JStr (p_type p))]
    ++ opt_member "verificationMethod" (p_vm p).

  (* ---- proof.GetCopyWithoutProof ---- *)
  Definition without_proof (d : obj) : obj := remove_key "proof" d.

  (* ---- CreateVerifyHash: the options object handed to the canonicaliser (excluded table: GENERATED) ---- *)
  Definition present_nonnull (m : obj) (k : string) : bool :=
    match lookup m k with Some JNull | None => false | Some _ => true end.
  Definition options_pv (excl : list string) (d : obj) (p : lproof) : option obj :=
    let o := jsonld_object p in
    let o := match lookup o "@context" with
             | Some _ => o
             | None => set_key "@context" (match lookup d "@context" with Some c => c | None => JNull end) o
             end in
    if forallb (present_nonnull o) mandatory_keys then Some (remove_keys excl o) else None.
  Definition options_jws (p : lproof) : obj :=
    remove_keys jws_deleted_keys (set_key "@context" (JArr (map JStr jws_contexts)) (jsonld_object p)).

  Definition compact_if (b : bool) (j : json) : option json := if b then compact_sec j else Some j.

  (* proof.CreateVerifyData *)
  Definition verify_data (excl : list string) (d : obj) (p : lproof) : option msg :=
    match p_repr p with
    | RProofValue =>
        match options_pv excl d p with
        | None => None
        | Some o =>
          match compact_if compact_proof (JObj o) with
          | None => None
          | Some o' =>
            match canon o' with
            | None => None
            | Some co => match canon (JObj (without_proof d)) with
                         | None => None
                         | Some cd => Some (MHash co cd)
                         end
            end
          end
        end
    | RJws =>
        match canon (JObj (options_jws p)) with
        | None => None
        | Some co =>
          match compact_if compact_proof (JObj (without_proof d)) with
          | None => None
          | Some d' =>
            match canon d' with
            | None => None
            | Some cd =>
              match split_on "." (p_jws p) with
              | [h; _; _] => Some (MJws h co cd)
              | _ => None
              end
            end
          end
        end
    end.

  (* verifier.getProofVerifyValue *)
  Definition verify_value (p : lproof) : dec :=
    match p_repr p with
    | RProofValue => pv_dec (p_pv p) (p_type p)
    | RJws => match split_on "." (p_jws p) with
              | [_; _; s] => if nonempty s then seg_dec s else DErr
              | _ => DErr
              end
    end.

  (* Proof.PublicKeyID + keyResolverAdapter.Resolve *)
  Definition key_of (p : lproof) : option N :=
    let id := if nonempty (p_vm p) then p_vm p else p_creator p in
    if negb (nonempty id) then None
    else match split_on "#" id with
         | [d; f] => resolve d (String.append "#" f)
         | _ => None
         end.

  (* one iteration of the loop of VerifyObject; ideal signatures: suite.Verify accepts exactly a signature made
     with the resolved key over exactly this message *)
  Definition verify_one (excl : list string) (d : obj) (p : lproof) : bool :=
    match key_of p with
    | None => false
    | Some k =>
      accepts (p_type p) &&
      match verify_data excl d p with
      | None => false
      | Some m =>
        match verify_value p with
        | DSig (SBy k' m') => N.eqb k k' && msg_eqb m m'
        | _ => false
        end
      end
    end.

  (* proof.GetProofs *)
  Definition as_obj (j : json) : option obj := match j with JObj m => Some m | _ => None end.
  Fixpoint all_some {A B} (f : A -> option B) (l : list A) : option (list B) :=
    match l with
    | [] => Some []
    | x :: r => match f x, all_some f r with Some y, Some t => Some (y :: t) | _, _ => None end
    end.
  Definition proof_entries (pe : json) : option (list obj) :=
    match pe with
    | JObj m => Some [m]
    | JArr l => all_some as_obj l
    | _ => None
    end.

  (* verifier.VerifyObject: `all_needed` is the generated fact that the loop has no early exit; the as-found
     alternative (stop at the first valid proof) is kept for the refutation of a relaxed loop *)
  Definition verify_object (excl : list string) (d : obj) : outcome :=
    match lookup d "proof" with
    | None => Rejected                                   (* ErrProofNotFound *)
    | Some pe =>
      match proof_entries pe with
      | None => Rejected
      | Some ms =>
        match all_some new_proof ms with
        | None => Rejected
        | Some ps =>
            if (if verify_object_checks_all_proofs then forallb (verify_one excl d) ps
                else existsb (verify_one excl d) ps)
            then Verified (List.length ps) else Rejected
        end
      end
    end.

  (* ---- Data Integrity (dataintegrity.Verifier.VerifyProof + ecdsa2019.proofConfig) ---- *)
  Variable di_time_ok : string -> bool.            (* time.Parse(RFC3339, created) succeeds *)
  Variable di_time_norm : string -> string.        (* ... and its RFC3339 re-formatting *)
  Variable di_suite_ok : string -> bool.           (* a verifier suite is registered for the cryptosuite *)
  Variable di_resolve : string -> string -> option N. (* (verification method id, purpose) -> key of the DID document *)
  Variable di_sig : string -> dec.                 (* multibase decoding of proofValue and its meaning *)
  Variable di_expect : string * string * string.   (* expected purpose ("" = assertionMethod), domain, challenge *)

  (* the members of the signed configuration: GENERATED for the current code; as found, domain and challenge were
     not among them *)
  Definition di_members (v : variant) : list string :=
    match v with
    | AsIs => ["@context"; "created"; "cryptosuite"; "proofPurpose"; "type"; "verificationMethod"]
    | Fixed => di_config_members
    end.

  (* the signed proof configuration: members taken from the GENERATED list *)
  Definition di_config (mem : list string) (ctx : json) (m : obj) (created : string) : obj :=
    let opt := fun (k : string) (v : json) => if mem_str k mem then [(k, v)] else [] in
    let opt_ne := fun (k : string) (s : string) => if mem_str k mem && nonempty s then [(k, JStr s)] else [] in
    opt "@context" ctx
    ++ opt_ne "challenge" (str_entry (lookup m "challenge"))
    ++ opt "created" (JStr created)
    ++ opt "cryptosuite" (JStr "ecdsa-2019")
    ++ opt_ne "domain" (str_entry (lookup m "domain"))
    ++ opt "proofPurpose" (JStr (str_entry (lookup m "proofPurpose")))
    ++ opt "type" (JStr di_type)
    ++ opt "verificationMethod" (JStr (str_entry (lookup m "verificationMethod"))).

  Definition is_str_or_absent (o : option json) : bool :=
    match o with None | Some (JStr _) | Some JNull => true | _ => false end.

  Definition verify_di (mem : list string) (d : obj) (pe : json) : outcome :=
    match pe with
    | JObj m =>
      (* json.Unmarshal into models.Proof: every known member must be a string (or null) *)
      if negb (forallb (fun k => is_str_or_absent (lookup m k))
                 di_proof_members) then Rejected else   (* GENERATED: the fields of models.Proof, by reflection *)
      let ty := str_entry (lookup m "type") in
      let vm := str_entry (lookup m "verificationMethod") in
      let pu := str_entry (lookup m "proofPurpose") in
      let cr := str_entry (lookup m "created") in
      let '(epu, edom, ech) := di_expect in
      let epu := if nonempty epu then epu else "assertionMethod" in
      if negb (nonempty ty && nonempty vm && nonempty pu) then Rejected
      else if negb (String.eqb ty di_type) then Rejected
      else if negb (di_suite_ok (str_entry (lookup m "cryptosuite"))) then Rejected
      else if negb (di_time_ok cr) then Rejected
      else if negb (String.eqb pu epu) then Rejected
      else match di_resolve vm epu with
           | None => Rejected
           | Some k =>
             if nonempty edom && negb (String.eqb edom (str_entry (lookup m "domain"))) then Rejected
             else if nonempty ech && negb (String.eqb ech (str_entry (lookup m "challenge"))) then Rejected
             else
             let ctx := match lookup d "@context" with Some c => c | None => JNull end in
             (* proofConfig uses opts.VerificationMethodID (= the proof's), opts.Created (parsed, re-formatted),
                opts.Purpose (= the expected one, already compared) *)
             let conf := di_config mem ctx (set_key "proofPurpose" (JStr epu) m) (di_time_norm cr) in
             match canon (JObj (without_proof d)), canon (JObj conf) with
             | Some cd, Some cc =>
                 match di_sig (str_entry (lookup m "proofValue")) with
                 | DSig (SBy k' m') => if N.eqb k k' && msg_eqb (MDI cd cc) m' then Verified 1 else Rejected
                 | _ => Rejected
                 end
             | _, _ => Rejected
             end
           end
    | _ => Rejected                                      (* an array does not decode into models.Proof *)
    end.

  (* ---- verifiable.checkEmbeddedProof ---- *)
  Definition type_supported (m : obj) : bool :=
    match lookup m "type" with
    | Some (JStr t) => mem_str t supported_types
    | _ => false
    end.

  Definition check_embedded (excl dimem : list string) (have_fetcher : bool) (d0 : obj) : outcome :=
    let d := remove_key "jwt" d0 in
    match lookup d "proof" with
    | None | Some JNull => Unverified
    | Some pe =>
      match proof_entries pe with
      | None => Rejected
      | Some ms =>
        let is_di := match ms with
                     | m :: _ => json_eqb (match lookup m "type" with Some t => t | None => JNull end) (JStr di_type)
                     | [] => false
                     end in
        if is_di then verify_di dimem d pe
        else if negb (forallb type_supported ms) then Rejected
        else if negb have_fetcher then Rejected
        else verify_object excl d
      end
    end.

  (* ---- signer.signObject: the proof a signing call appends and the message it signs ---- *)
  Record sign_ctx := {
    s_type : string; s_repr : repr; s_created : string; s_vm : string; s_domain : string;
    s_challenge : string; s_purpose : string; s_nonce : string; s_alg_header : string }.

  Definition proof_of_ctx (c : sign_ctx) : lproof :=
    {| p_type := s_type c; p_created := s_created c; p_creator := ""; p_vm := s_vm c; p_pv := ""; p_pv_len := false;
       p_jws := match s_repr c with RJws => String.append (s_alg_header c) ".." | RProofValue => "" end;
       p_purpose := if nonempty (s_purpose c) then s_purpose c else "assertionMethod";
       p_domain := s_domain c; p_nonce := s_nonce c; p_challenge := s_challenge c; p_repr := s_repr c;
       p_chain := None |}.

  Definition sign_message (excl : list string) (d : obj) (c : sign_ctx) : option msg :=
    verify_data excl d (proof_of_ctx c).

  (* the proof object appended to the document, given the textual form of the signature *)
  Definition signed_proof (c : sign_ctx) (sigtext : string) : obj :=
    let p := proof_of_ctx c in
    jsonld_object
      match s_repr c with
      | RProofValue =>
          {| p_type := p_type p; p_created := p_created p; p_creator := p_creator p; p_vm := p_vm p;
             p_pv := sigtext; p_pv_len := true; p_jws := ""; p_purpose := p_purpose p; p_domain := p_domain p;
             p_nonce := p_nonce p; p_challenge := p_challenge p; p_repr := RProofValue; p_chain := None |}
      | RJws =>
          {| p_type := p_type p; p_created := p_created p; p_creator := p_creator p; p_vm := p_vm p;
             p_pv := ""; p_pv_len := false; p_jws := String.append (p_jws p) sigtext; p_purpose := p_purpose p;
             p_domain := p_domain p; p_nonce := p_nonce p; p_challenge := p_challenge p; p_repr := RJws;
             p_chain := None |}
      end.

  (* proof.AddProof *)
  Definition add_proof (d : obj) (pr : obj) : obj :=
    let old := match lookup d "proof" with
               | Some (JArr l) => l
               | Some x => [x]
               | None => []
               end in
    set_key "proof" (JArr (old ++ [JObj pr])) d.
End LD.

(* strict mode (validator.mapsHaveSameStructure): see C07/StrictModel.v *)

(* ---------- a presentation carried in a JWT: JWTPresClaims.refineFromJWTClaims (presentation_jwt.go) ----------
   iss overrides holder, jti overrides id, BEFORE the "vp" claim is serialised for the embedded-proof check and the
   validation: what is checked is what is returned. *)
(* assignment to a Go map as seen on the sorted member list: an existing member is replaced where it stands, a new one is
   inserted in order *)
Fixpoint replace_key (k : string) (v : json) (m : obj) : obj :=
  match m with
  | [] => []
  | (k', v') :: r => if String.eqb k k' then (k, v) :: r else (k', v') :: replace_key k v r
  end.
Definition put_key (k : string) (v : json) (m : obj) : obj :=
  match lookup m k with Some _ => replace_key k v m | None => set_key k v m end.

Definition refine_vp (iss jti : string) (m : obj) : obj :=
  let m := if nonempty iss then put_key "holder" (JStr iss) m else m in
  if nonempty jti then put_key "id" (JStr jti) m else m.


(* a credential carried in a JWT: JWTCredClaims.refineFromJWTClaims (credential_jwt.go): iss -> issuer (its id when the
   issuer is an object), nbf -> issuanceDate, jti -> id, iat -> issuanceDate, exp -> expirationDate; [fmt] renders Unix
   seconds in UTC RFC3339 (time.Format).  (The same function as C16.Model.refine; restated here so that this
   property's compiled files do not depend on another property's.) *)
Definition refine_vc (fmt : Z -> string) (iss jti : string) (nbf iat exp : option Z) (m : obj) : obj :=
  let m := if nonempty iss then
             match lookup m "issuer" with
             | Some (JObj im) => put_key "issuer" (JObj (put_key "id" (JStr iss) im)) m
             | Some (JStr _) | None => put_key "issuer" (JStr iss) m
             | _ => m
             end
           else m in
  let m := match nbf with Some t => put_key "issuanceDate" (JStr (fmt t)) m | None => m end in
  let m := if nonempty jti then put_key "id" (JStr jti) m else m in
  let m := match iat with Some t => put_key "issuanceDate" (JStr (fmt t)) m | None => m end in
  match exp with Some t => put_key "expirationDate" (JStr (fmt t)) m | None => m end.
