(* C07 — strict mode: the repaired structure comparison rejects every document that carries a member the context does
   not define, at any depth (objects, arrays of any length, elements that are otherwise id-only). *)
From Coq Require Import List String Bool NArith ZArith Lia.
Import ListNotations.
From VF Require Import common.Json C07.Model C07.Proofs C07.StrictModel.
Open Scope string_scope.
Open Scope list_scope.
Arguments is_ctx : simpl never.

(* ---------- structural equality ---------- *)
Lemma json_eqb_eq a : forall b, json_eqb a b = true -> a = b.
Proof.
  induction a as [| b0 | z | s | l IH | m IH] using json_ind'; intros b H;
    destruct b as [| b1 | z1 | s1 | l1 | m1]; cbn in H; try discriminate.
  - reflexivity.
  - apply Bool.eqb_prop in H. subst. reflexivity.
  - apply Z.eqb_eq in H. subst. reflexivity.
  - apply String.eqb_eq in H. subst. reflexivity.
  - f_equal. revert l1 H. induction IH as [|x l Hx Hl IHl]; intros [|y t] H; try discriminate; [reflexivity|].
    apply andb_true_iff in H as [H1 H2]. f_equal; [apply Hx; exact H1|apply IHl; exact H2].
  - f_equal. revert m1 H. induction IH as [|[k x] m Hx Hm IHm]; intros [|[k' y] t] H; try discriminate; [reflexivity|].
    apply andb_true_iff in H as [H12 H3]. apply andb_true_iff in H12 as [H1 H2].
    apply String.eqb_eq in H1. subst. f_equal; [f_equal; apply Hx; exact H2|apply IHm; exact H3].
Qed.

Lemma json_eqb_refl a : json_eqb a a = true.
Proof.
  induction a as [| b0 | z | s | l IH | m IH] using json_ind'; cbn.
  - reflexivity.
  - destruct b0; reflexivity.
  - apply Z.eqb_refl.
  - apply String.eqb_refl.
  - induction IH as [|x l Hx Hl IHl]; [reflexivity|]. rewrite Hx. exact IHl.
  - induction IH as [|[k x] m Hx Hm IHm]; [reflexivity|]. cbn in Hx. rewrite String.eqb_refl, Hx. exact IHm.
Qed.

(* ---------- the comparison ---------- *)
Lemma cmpv_cons a A b B :
  cmpv SFixed (JArr (a :: A)) (JArr (b :: B)) = cmpv SFixed a b && cmpv SFixed (JArr A) (JArr B).
Proof.
  cbn. destruct (cmpv SFixed a b); cbn; [|apply andb_false_r].
  destruct (Nat.eqb (List.length A) (List.length B)); reflexivity.
Qed.

Lemma cmpv_refl a : cmpv SFixed a a = true.
Proof.
  induction a as [| b0 | z | s | l IH | m IH] using json_ind'; try reflexivity.
  - induction IH as [|x l Hx Hl IHl]; [reflexivity|]. rewrite cmpv_cons, Hx. exact IHl.
  - cbn [cmpv]. rewrite (json_eqb_refl (JObj m)). reflexivity.
Qed.

Lemma cmpv_false_neq a b : cmpv SFixed a b = false -> json_eqb a b = false.
Proof.
  intro H. destruct (json_eqb a b) eqn:E; [|reflexivity].
  apply json_eqb_eq in E. subst. rewrite cmpv_refl in H. discriminate.
Qed.

(* ---------- normalisation ---------- *)
Lemma nv_obj m : (exists x, m = [("id", x)]) \/ nv (JObj m) = JObj (nmm m).
Proof.
  destruct m as [|[k x] [|kv r]]; try (right; reflexivity).
  cbn. destruct (String.eqb k "id") eqn:E; [left|right; reflexivity].
  apply String.eqb_eq in E. subst. eauto.
Qed.

Lemma lookup_fm (f : json -> json) m k x :
  nodupb (map fst m) = true -> In (k, x) m -> is_ctx k = false ->
  lookup (flat_map (fun kv => if is_ctx (fst kv) then [] else [(fst kv, f (snd kv))]) m) k = Some (f x).
Proof.
  induction m as [|[k' x'] m IH]; cbn; intros N I C; [contradiction|].
  apply andb_true_iff in N as [N1 N2]. destruct I as [E|I].
  - inversion E; subst. rewrite C. cbn. rewrite String.eqb_refl. reflexivity.
  - assert (Hne : String.eqb k k' = false).
    { destruct (String.eqb k k') eqn:E; [|reflexivity]. apply String.eqb_eq in E. subst.
      apply negb_true_iff in N1. assert (mem_str k' (map fst m) = true) as Hm; [|congruence].
      apply mem_str_In. change k' with (fst (k', x)). apply in_map. exact I. }
    destruct (is_ctx k'); cbn; [apply IH; assumption|]. rewrite Hne. apply IH; assumption.
Qed.

Lemma in_nmm m k x : In (k, x) m -> is_ctx k = false -> In (k, nv x) (nmm m).
Proof.
  intros I C. unfold nmm. apply in_flat_map. exists (k, x). split; [exact I|]. cbn. rewrite C. left. reflexivity.
Qed.

Section Rejects.
  Variable dfn : string -> bool.
  Hypothesis dfn_id : dfn "id" = true.

  Notation drop := (drop dfn).
  Notation dropm := (dropm dfn).
  Notation has_undef := (has_undef dfn).

  Lemma len_le m : List.length (nmm (dropm m)) <= List.length (nmm m).
  Proof.
    induction m as [|[k x] m IH]; cbn; [lia|].
    unfold nmm, StrictModel.dropm in *. cbn.
    destruct (is_ctx k) eqn:C; cbn; rewrite ?C; cbn; [exact IH|].
    destruct (dfn k); cbn; rewrite ?C; cbn; lia.
  Qed.

  Lemma len_lt m :
    existsb (fun kv => negb (is_ctx (fst kv)) && negb (dfn (fst kv))) m = true ->
    List.length (nmm (dropm m)) < List.length (nmm m).
  Proof.
    induction m as [|[k x] m IH]; cbn; [discriminate|].
    pose proof (len_le m) as L.
    unfold nmm, StrictModel.dropm in *. cbn.
    destruct (is_ctx k) eqn:C; cbn; rewrite ?C; cbn; [exact IH|].
    destruct (dfn k); cbn; rewrite ?C; cbn; intro H; [apply IH in H; lia|lia].
  Qed.

  Lemma nmm_dropm_all m :
    existsb (fun kv => negb (is_ctx (fst kv)) && negb (dfn (fst kv))) m = false ->
    nmm (dropm m) = flat_map (fun kv => if is_ctx (fst kv) then [] else [(fst kv, nv (drop (snd kv)))]) m.
  Proof.
    induction m as [|[k x] m IH]; cbn; [reflexivity|].
    unfold nmm, StrictModel.dropm in *. cbn.
    destruct (is_ctx k) eqn:C; cbn; rewrite ?C; cbn; [exact IH|].
    destruct (dfn k); cbn; rewrite ?C; cbn; intro H; [f_equal; apply IH; exact H|discriminate].
  Qed.

  Lemma dropm_in m k y :
    In (k, y) (dropm m) -> is_ctx k = false -> exists x0, In (k, x0) m /\ y = drop x0.
  Proof.
    induction m as [|[k' x'] m IH]; cbn; intros I C; [contradiction|].
    unfold StrictModel.dropm in *. cbn in I. apply in_app_or in I as [I|I].
    - destruct (is_ctx k') eqn:C'.
      + destruct I as [E|[]]. inversion E; subst. congruence.
      + destruct (dfn k'); [|contradiction]. destruct I as [E|[]]. inversion E; subst. exists x'. split; [left; reflexivity|reflexivity].
    - destruct (IH I C) as (x0 & Hx & Hy). exists x0. split; [right; exact Hx|exact Hy].
  Qed.

  Definition P (v : json) : Prop :=
    uniq v = true -> ids_ok v = true -> has_undef v = true -> cmpv SFixed (nv v) (nv (drop v)) = false.

  (* an object, its members satisfying P: the normalised members against the normalised remaining members *)
  Lemma obj_false m :
    Forall (fun kv => P (snd kv)) m ->
    uniq (JObj m) = true -> ids_ok (JObj m) = true -> has_undef (JObj m) = true ->
    cmpv SFixed (JObj (nmm m)) (JObj (nmm (dropm m))) = false.
  Proof.
    intros IH U I H. cbn in U, I, H. apply andb_true_iff in U as [U1 U2].
    cbn [cmpv].
    destruct (existsb (fun kv => negb (is_ctx (fst kv)) && negb (dfn (fst kv))) m) eqn:EU.
    - (* an undefined member right here: fewer members remain *)
      pose proof (len_lt m EU) as L.
      assert (J : json_eqb (JObj (nmm m)) (JObj (nmm (dropm m))) = false).
      { destruct (json_eqb _ _) eqn:E; [|reflexivity]. apply json_eqb_eq in E. inversion E as [E']. rewrite E' in L. lia. }
      rewrite J. cbn [orb].
      assert (N : Nat.eqb (List.length (nmm m)) (List.length (nmm (dropm m))) = false) by (apply Nat.eqb_neq; lia).
      rewrite N. reflexivity.
    - (* every member here is defined: some member's value carries the undefined one *)
      rewrite (nmm_dropm_all m EU).
      apply existsb_exists in H as ([k x] & Hin & Hc). cbn in Hc.
      apply andb_true_iff in Hc as [Hc Hu]. apply negb_true_iff in Hc.
      assert (Hd : dfn k = true).
      { destruct (dfn k) eqn:D; [reflexivity|].
        assert (existsb (fun kv => negb (is_ctx (fst kv)) && negb (dfn (fst kv))) m = true) as X; [|congruence].
        apply existsb_exists. exists (k, x). split; [exact Hin|]. cbn. rewrite Hc, D. reflexivity. }
      rewrite Hd in Hu. cbn in Hu.
      rewrite Forall_forall in IH. rewrite forallb_forall in U2, I.
      pose proof (IH _ Hin) as Px. cbn in Px.
      pose proof (U2 _ Hin) as Ux. cbn in Ux.
      pose proof (I _ Hin) as Ix. cbn in Ix. apply andb_true_iff in Ix as [_ Ix].
      pose proof (Px Ux Ix Hu) as Fx.
      set (B := flat_map (fun kv => if is_ctx (fst kv) then [] else [(fst kv, nv (drop (snd kv)))]) m).
      assert (LB : lookup B k = Some (nv (drop x))).
      { unfold B. apply (lookup_fm (fun j => nv (drop j)) m k x U1 Hin Hc). }
      assert (LA : lookup (nmm m) k = Some (nv x)).
      { unfold nmm. apply (lookup_fm nv m k x U1 Hin Hc). }
      assert (J : json_eqb (JObj (nmm m)) (JObj B) = false).
      { destruct (json_eqb _ _) eqn:E; [|reflexivity]. apply json_eqb_eq in E. inversion E as [E'].
        rewrite E' in LA. rewrite LA in LB. inversion LB as [E2]. rewrite E2 in Fx. rewrite cmpv_refl in Fx. discriminate. }
      rewrite J. cbn [orb].
      assert (FA : forallb (fun kv => match lookup B (fst kv) with None => true | Some v2 => cmpv SFixed (snd kv) v2 end) (nmm m) = false).
      { destruct (forallb _ (nmm m)) eqn:E; [|reflexivity]. rewrite forallb_forall in E.
        pose proof (E _ (in_nmm m k x Hin Hc)) as X. cbn in X. rewrite LB in X. congruence. }
      rewrite FA. apply andb_false_r.
  Qed.

  Lemma arr_false l :
    Forall P l -> forallb uniq l = true -> forallb ids_ok l = true -> existsb has_undef l = true ->
    cmpv SFixed (JArr (map nv l)) (JArr (map nv (map drop l))) = false.
  Proof.
    induction 1 as [|x l Hx Hl IHl]; cbn [forallb existsb map]; intros U I H; [discriminate|].
    apply andb_true_iff in U as [U1 U2]. apply andb_true_iff in I as [I1 I2].
    rewrite cmpv_cons. apply orb_true_iff in H as [H|H].
    - rewrite (Hx U1 I1 H). reflexivity.
    - rewrite (IHl U2 I2 H). apply andb_false_r.
  Qed.

  Lemma main : forall v, P v.
  Proof.
    induction v as [| b0 | z | s | l IH | m IH] using json_ind'; unfold P; intros U I H; try (cbn in H; discriminate).
    - (* array *)
      destruct l as [|x1 [|x2 r]].
      + cbn in H. discriminate.
      + cbn in U, I, H. rewrite andb_true_r in U, I. rewrite orb_false_r in H.
        apply Forall_inv in IH. cbn. apply IH; assumption.
      + change (nv (JArr (x1 :: x2 :: r))) with (JArr (map nv (x1 :: x2 :: r))).
        change (nv (drop (JArr (x1 :: x2 :: r)))) with (JArr (map nv (map drop (x1 :: x2 :: r)))).
        apply arr_false; assumption.
    - (* object *)
      destruct (nv_obj m) as [[x E]|E].
      + subst m. cbn in I, H. destruct x; cbn in I; try discriminate. cbn in H. rewrite dfn_id in H. discriminate.
      + rewrite E. change (drop (JObj m)) with (JObj (dropm m)).
        destruct (nv_obj (dropm m)) as [[x' E']|E'].
        * assert (Hin : In ("id", x') (dropm m)) by (rewrite E'; left; reflexivity).
          destruct (dropm_in m "id" x' Hin eq_refl) as (x0 & Hx0 & Hy).
          cbn in I. rewrite forallb_forall in I. pose proof (I _ Hx0) as Ix. cbn in Ix.
          apply andb_true_iff in Ix as [Ix _]. destruct x0; try discriminate. subst x'.
          rewrite E'. reflexivity.
        * rewrite E'. apply obj_false; assumption.
  Qed.

  (* compaction, when it succeeds, is the idealised one: it refuses non-string ids and drops exactly the members
     the context does not define *)
  Lemma strict_rejects_doc (compact : obj -> option json) (o : obj) :
    (forall j, compact o = Some j -> ids_ok (JObj o) = true /\ j = JObj (dropm o)) ->
    uniq (JObj o) = true -> has_undef (JObj o) = true ->
    strict_ok SFixed o (compact o) = false.
  Proof.
    intros Hs U H. destruct (compact o) as [j|] eqn:C; [|reflexivity].
    destruct (Hs j eq_refl) as [I ->]. cbn. unfold same_structure.
    apply obj_false; try assumption. apply Forall_forall. intros kv _. apply main.
  Qed.

  Lemma compact_inst_spec o j :
    compact_inst dfn o = Some j -> ids_ok (JObj o) = true /\ j = JObj (dropm o).
  Proof. unfold compact_inst. destruct (ids_ok (JObj o)); [|discriminate]. intro H. inversion H. auto. Qed.
End Rejects.
