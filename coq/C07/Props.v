(* C07 — property theorems (placeholder while the pipeline is brought up). *)
From Coq Require Import List String Bool NArith.
Import ListNotations.
From VF Require Import common.Json gen.Gen_C07 C07.Model.
Open Scope string_scope.

(* the proof options the property names are never dropped from the digest (generated table) *)
Theorem options_protected :
  forallb (fun k => negb (mem_str k excluded_keys) && negb (mem_str k jws_deleted_keys))
          ["created"; "verificationMethod"; "proofPurpose"; "domain"; "challenge"; "type"] = true.
Proof. vm_compute. reflexivity. Qed.
Print Assumptions options_protected.
