(* C07 — property theorems only.  Every proof is `exact <lemma>` / a closed computation on a generated table or a
   refutation witness; Print Assumptions follows each.
   Third-party functions (JSON-LD expansion + URDNA2015 canonicalisation, compaction, time / base64 / multibase
   decoding) and the signature primitives are universally quantified parameters; what is assumed of them is
   written as explicit hypotheses IN the statements:
     canon_inj      equal canonical forms carry equal content (content : json -> C is any projection, e.g. the RDF
                    dataset of the terms defined in the document's context);
     content_opts   the content of a proof-options object determines its protected members (their terms are
                    defined in the options' context);
     pv_honest / seg_honest   a byte string that means "signature by k over m" was produced by the holder of k
                    over m (ideal signatures: unforgeability, one meaning per byte string). *)
From Coq Require Import List String Bool NArith ZArith.
Import ListNotations.
From VF Require Import common.Json gen.Gen_C07 C07.Model C07.Proofs C07.ProofsRT C07.StrictModel C07.ProofsStrict C07.ParseModel C07.ProofsParse C07.ProofsVP C07.ProofsDI C07.JwtModel C07.ProofsJwt.
Open Scope string_scope.
Open Scope list_scope.

(* ---- generated tables: the proof options the property names are never dropped before canonicalisation, in either
        signature representation; `created` is mandatory; every proof of a set is checked ---- *)
Theorem options_protected :
  forallb (fun k => negb (mem_str k excluded_keys) && negb (mem_str k jws_deleted_keys))
          ["created"; "verificationMethod"; "proofPurpose"; "domain"; "challenge"; "type"; "creator"; "capabilityChain"] = true
  /\ mem_str "created" mandatory_keys = true
  /\ verify_object_checks_all_proofs = true
  (* the detached-JWS representation also covers the nonce (only the signature holders are dropped there) *)
  /\ mem_str "nonce" jws_deleted_keys = false.
Proof. vm_compute. auto. Qed.
Print Assumptions options_protected.

(* the model's re-emission of a typed proof has exactly the members the real Proof.JSONLdObject emits (executed by the
   translator on a fully populated and on a minimal proof) *)
Theorem emitted_members_agree :
  map fst (jsonld_object {| p_type := "T"; p_created := "c"; p_creator := "cr"; p_vm := "v"; p_pv := "s"; p_pv_len := true;
                            p_jws := "a..b"; p_purpose := "p"; p_domain := "d"; p_nonce := "n"; p_challenge := "ch";
                            p_repr := RProofValue; p_chain := Some [] |}) = emitted_members
  /\ map fst (jsonld_object {| p_type := ""; p_created := "c"; p_creator := ""; p_vm := ""; p_pv := ""; p_pv_len := false;
                               p_jws := ""; p_purpose := ""; p_domain := ""; p_nonce := ""; p_challenge := "";
                               p_repr := RProofValue; p_chain := None |}) = always_members
  /\ di_members Fixed = di_config_members
  /\ forallb (fun k => mem_str k di_config_members) ["created"; "verificationMethod"; "proofPurpose"; "domain"; "challenge"] = true.
Proof. vm_compute. auto. Qed.
Print Assumptions emitted_members_agree.

(* ---- FULL STATEMENT, one proof.  For every canonicaliser, compactor, decoder, resolver, suite configuration:
   if a proof p is accepted for a document d against the key k it names, and the holder of k has only ever signed
   the message produced by signing document d0 with options c through signObject, then
     - d (without its proof member) has the same content as d0 (so no claim, issuer, date, type or context term
       differs: whatever `content` retains), in the canonicaliser input actually used and in the plain document;
     - created, verificationMethod, proofPurpose, domain, challenge, type and creator of p are those of c;
     - the signature representation is the one signed. ---- *)
Theorem tamper_detected :
  forall (canon : json -> option N) (compact_sec : json -> option json)
         (pv_dec : string -> string -> dec) (seg_dec : string -> dec) (resolve : string -> string -> option N)
         (accepts : string -> bool) (compact_proof : bool)
         (C : Type) (content : json -> C),
    (forall a b n, canon a = Some n -> canon b = Some n -> content a = content b) ->
    (forall j j', compact_sec j = Some j' -> content j' = content j) ->
    (forall o o', content (JObj o) = content (JObj o') -> forall k, In k protected -> lookup o k = lookup o' k) ->
    forall (signed_by : N -> msg -> Prop),
    (forall t ty k m, pv_dec t ty = DSig (SBy k m) -> signed_by k m) ->
    (forall s k m, seg_dec s = DSig (SBy k m) -> signed_by k m) ->
    forall d p k d0 c,
    (forall m, signed_by k m -> Some m = sign_message canon compact_sec compact_proof excluded_keys d0 c) ->
    key_of resolve p = Some k ->
    verify_one canon compact_sec pv_dec seg_dec resolve accepts compact_proof excluded_keys d p = true ->
    (exists j j0, doc_input compact_sec compact_proof d p = Some j /\
                  doc_input compact_sec compact_proof d0 (proof_of_ctx c) = Some j0 /\ content j = content j0 /\
                  content (JObj (without_proof d)) = content (JObj (without_proof d0)))
    /\ same_protected p (proof_of_ctx c)
    /\ p_repr p = s_repr c.
Proof. exact tamper_one. Qed.
Print Assumptions tamper_detected.

(* ---- FIRST CLAUSE (proofValue representation): a document signed through signObject verifies.  For every
        canonicaliser etc.: if signing document d (without proof member) with options c produced message m, the signer
        returned a byte string whose text form t decodes to "signature by k over m", the verification method named in
        c resolves to k, a configured suite accepts the type and `created` parses, then the document with the proof
        appended by AddProof is accepted with exactly one verified proof. ---- *)
Theorem verify_sign :
  forall canon compact_sec time_ok nonce_dec pv_dec seg_dec resolve accepts compact_proof d c t k m,
    s_repr c = RProofValue -> s_nonce c = "" ->
    lookup d "proof" = None ->
    time_ok (s_created c) = true -> nonce_dec "" = Some "" ->
    sign_message canon compact_sec compact_proof excluded_keys d c = Some m ->
    pv_dec t (s_type c) = DSig (SBy k m) ->
    key_of resolve (proof_of_ctx c) = Some k -> accepts (s_type c) = true ->
    verify_object canon compact_sec time_ok nonce_dec pv_dec seg_dec resolve accepts compact_proof excluded_keys
      (add_proof d (signed_proof c t)) = Verified 1.
Proof. exact verify_sign_pv. Qed.
Print Assumptions verify_sign.

(* the same for the detached-JWS representation: header and signature text are base64url (no '.'), the signature
   segment is not empty; the appended proof carries `header..signature` and verifies, exactly one proof *)
Theorem verify_sign_detached_jws :
  forall canon compact_sec time_ok nonce_dec pv_dec seg_dec resolve accepts compact_proof d c t k m,
    s_repr c = RJws -> s_nonce c = "" ->
    no_dot (s_alg_header c) = true -> no_dot t = true -> nonempty t = true ->
    lookup d "proof" = None ->
    time_ok (s_created c) = true -> nonce_dec "" = Some "" ->
    sign_message canon compact_sec compact_proof excluded_keys d c = Some m ->
    seg_dec t = DSig (SBy k m) ->
    key_of resolve (proof_of_ctx c) = Some k -> accepts (s_type c) = true ->
    verify_object canon compact_sec time_ok nonce_dec pv_dec seg_dec resolve accepts compact_proof excluded_keys
      (add_proof d (signed_proof c t)) = Verified 1.
Proof. exact verify_sign_jws. Qed.
Print Assumptions verify_sign_detached_jws.

(* the same for Data Integrity ecdsa-2019.  Signing (ecdsa2019.CreateProof + Signer.AddProof): the message is
   (canonical document, canonical configuration of the proof being built), the proof object carries created as formatted
   by the signer (so re-formatting leaves it unchanged), domain / challenge when non-empty, and replaces the proof
   member.  If the signer returned a byte string whose multibase text means "signature by k over that message", the
   DID document lists k under the verification method for the purpose the verifier expects, and the verifier expects
   no or the same domain / challenge, then the signed document verifies with exactly that one proof. *)
Theorem verify_sign_data_integrity :
  forall canon di_time_ok di_time_norm di_suite_ok di_resolve di_sig
         mem d vm purpose created domain challenge sigtext k m e2 e3,
    nonempty vm = true -> nonempty purpose = true ->
    di_time_ok created = true -> di_time_norm created = created -> di_suite_ok "ecdsa-2019" = true ->
    (nonempty e2 = false \/ e2 = domain) -> (nonempty e3 = false \/ e3 = challenge) ->
    di_resolve vm purpose = Some k ->
    di_sign_message canon mem d vm purpose created domain challenge = Some m ->
    di_sig sigtext = DSig (SBy k m) ->
    let pr := di_proof_obj vm purpose created domain challenge sigtext in
    verify_di canon di_time_ok di_time_norm di_suite_ok di_resolve di_sig (purpose, e2, e3) mem (di_add_proof d pr) (JObj pr)
      = Verified 1.
Proof. exact di_verify_sign. Qed.
Print Assumptions verify_sign_data_integrity.

(* the configuration signed is the one the verifier rebuilds, and the proof object is what check_embedded sees first *)
Example verify_sign_data_integrity_nonvacuous :
  let d := [("@context", JStr "ctx"); ("claim", JStr "v")] in
  let pr := di_proof_obj "did:x#k" "assertionMethod" "2021-01-01T00:00:00Z" "shop.example" "" "zSIG" in
  let cn := fun j => if json_eqb j (JObj d) then Some 1%N
                     else match j with JObj m => match lookup m "cryptosuite" with Some _ => Some 2%N | None => None end | _ => None end in
  di_sign_message cn di_config_members d "did:x#k" "assertionMethod" "2021-01-01T00:00:00Z" "shop.example" "" = Some (MDI 1%N 2%N) /\
  lookup (di_add_proof d pr) "proof" = Some (JObj pr) /\
  verify_di cn (fun _ => true) (fun s => s) (fun s => String.eqb s "ecdsa-2019") (fun _ _ => Some 9%N)
    (fun t => if String.eqb t "zSIG" then DSig (SBy 9%N (MDI 1%N 2%N)) else DErr) ("assertionMethod", "", "")
    di_config_members (di_add_proof d pr) (JObj pr) = Verified 1.
Proof. vm_compute. repeat split. Qed.

(* ---- documents and proof sets: an accepted document has a proof member, every entry of it decodes into a typed
        proof carrying the received members, and EVERY entry verifies (the count is the number of entries) ---- *)
Theorem all_proofs_needed :
  forall canon compact_sec time_ok nonce_dec pv_dec seg_dec resolve accepts compact_proof d n,
    verify_object canon compact_sec time_ok nonce_dec pv_dec seg_dec resolve accepts compact_proof excluded_keys d = Verified n ->
    exists pe ms, lookup d "proof" = Some pe /\ proof_entries pe = Some ms /\ n = List.length ms /\
      forall m, In m ms -> exists p, new_proof time_ok nonce_dec pv_dec m = Some p /\
        verify_one canon compact_sec pv_dec seg_dec resolve accepts compact_proof excluded_keys d p = true.
Proof. exact verify_object_all. Qed.
Print Assumptions all_proofs_needed.

Theorem one_bad_proof_rejects :
  forall canon compact_sec time_ok nonce_dec pv_dec seg_dec resolve accepts compact_proof d pe ms m,
    lookup d "proof" = Some pe -> proof_entries pe = Some ms -> In m ms ->
    (forall p, new_proof time_ok nonce_dec pv_dec m = Some p ->
               verify_one canon compact_sec pv_dec seg_dec resolve accepts compact_proof excluded_keys d p = false) ->
    verify_object canon compact_sec time_ok nonce_dec pv_dec seg_dec resolve accepts compact_proof excluded_keys d = Rejected.
Proof. exact verify_object_one_bad. Qed.
Print Assumptions one_bad_proof_rejects.

(* the typed proof holds exactly the received option members (so equality of the typed options, above, is equality
   of the members of the received proof object), and a proof whose `created` does not parse is never accepted *)
Theorem typed_proof_is_received :
  forall time_ok nonce_dec pv_dec m p,
    new_proof time_ok nonce_dec pv_dec m = Some p ->
    p_created p = str_entry (lookup m "created") /\ p_vm p = str_entry (lookup m "verificationMethod") /\
    p_purpose p = str_entry (lookup m "proofPurpose") /\ p_domain p = str_entry (lookup m "domain") /\
    p_challenge p = str_entry (lookup m "challenge") /\ p_type p = str_entry (lookup m "type") /\
    p_creator p = str_entry (lookup m "creator") /\ time_ok (str_entry (lookup m "created")) = true.
Proof. exact new_proof_fields. Qed.
Print Assumptions typed_proof_is_received.

(* ---- Data Integrity ecdsa-2019: an accepted proof names a key of the resolved DID document for the expected
        purpose, and the signature is over (canonical document, canonical configuration) where the configuration
        holds the proof's created / verificationMethod / proofPurpose and, since the fix, domain and challenge ---- *)
Theorem di_accept_sound :
  forall canon di_time_ok di_time_norm di_suite_ok di_resolve di_sig di_expect mem d pe n,
    verify_di canon di_time_ok di_time_norm di_suite_ok di_resolve di_sig di_expect mem d pe = Verified n ->
    exists m k cd cc,
      pe = JObj m /\ n = 1%nat /\
      di_resolve (str_entry (lookup m "verificationMethod")) (di_epu di_expect) = Some k /\
      str_entry (lookup m "proofPurpose") = di_epu di_expect /\
      di_time_ok (str_entry (lookup m "created")) = true /\
      canon (JObj (without_proof d)) = Some cd /\
      canon (JObj (di_config mem (match lookup d "@context" with Some c => c | None => JNull end)
                             (set_key "proofPurpose" (JStr (di_epu di_expect)) m)
                             (di_time_norm (str_entry (lookup m "created"))))) = Some cc /\
      di_sig (str_entry (lookup m "proofValue")) = DSig (SBy k (MDI cd cc)).
Proof. exact verify_di_sound. Qed.
Print Assumptions di_accept_sound.

Theorem di_config_covers_domain_challenge :
  forall ctx m t,
    lookup (di_config di_config_members ctx m t) "domain" =
      (if nonempty (str_entry (lookup m "domain")) then Some (JStr (str_entry (lookup m "domain"))) else None) /\
    lookup (di_config di_config_members ctx m t) "challenge" =
      (if nonempty (str_entry (lookup m "challenge")) then Some (JStr (str_entry (lookup m "challenge"))) else None) /\
    lookup (di_config di_config_members ctx m t) "created" = Some (JStr t) /\
    lookup (di_config di_config_members ctx m t) "verificationMethod" = Some (JStr (str_entry (lookup m "verificationMethod"))) /\
    lookup (di_config di_config_members ctx m t) "proofPurpose" = Some (JStr (str_entry (lookup m "proofPurpose"))) /\
    lookup (di_config di_config_members ctx m t) "@context" = Some ctx.
Proof.
  intros ctx m t. split; [apply di_config_domain|]. split; [apply di_config_challenge|]. apply di_config_fixed.
Qed.
Print Assumptions di_config_covers_domain_challenge.

(* AS FOUND the configuration did not hold domain and challenge: two proofs that differ in both are signed over
   the very same configuration (fixed in /repo: "fix: ecdsa-2019 proof configuration covers ... domain and challenge") *)
Theorem di_domain_challenge_asis_refuted :
  let m1 := [("challenge", JStr "c1"); ("created", JStr "t"); ("domain", JStr "shop.example"); ("proofPurpose", JStr "assertionMethod");
             ("verificationMethod", JStr "did:x#k")] in
  let m2 := [("challenge", JStr "c2"); ("created", JStr "t"); ("domain", JStr "evil.example"); ("proofPurpose", JStr "assertionMethod");
             ("verificationMethod", JStr "did:x#k")] in
  di_config (di_members AsIs) JNull m1 "t" = di_config (di_members AsIs) JNull m2 "t" /\
  di_config (di_members Fixed) JNull m1 "t" <> di_config (di_members Fixed) JNull m2 "t".
Proof. split; [vm_compute; reflexivity|vm_compute; discriminate]. Qed.
Print Assumptions di_domain_challenge_asis_refuted.

(* ecdsa-2019 signs the RE-FORMATTED created (whole seconds): two received literals with the same re-formatting - another
   instant within the same second - give the same signed configuration (known finding di-created-subsecond-not-signed) *)
Theorem di_created_subsecond_refuted :
  forall (norm : string -> string) mem ctx m c1 c2,
    norm c1 = norm c2 ->
    di_config mem ctx (set_key "created" (JStr c1) m) (norm c1) = di_config mem ctx (set_key "created" (JStr c2) m) (norm c2).
Proof.
  intros norm mem ctx m c1 c2 H. rewrite H. unfold di_config.
  rewrite !(lookup_set_key_other "created") by reflexivity. reflexivity.
Qed.
Print Assumptions di_created_subsecond_refuted.

(* ---- STRICT MODE, FULL STATEMENT (validator.mapsHaveSameStructure as repaired).  For every context (dfn: which
        terms it defines; "id" is a keyword alias) and every compaction that, when it succeeds, refuses non-string ids
        and drops exactly the members the context does not define (at every depth): a document (member names unique in
        every object, as in any decoded JSON) that carries an undefined member ANYWHERE - in a nested object, in an
        element of an array of any length, in an element that is otherwise id-only (it compacts to a plain string), in
        arrays nested in arrays - is rejected in strict mode. ---- *)
Theorem strict_rejects :
  forall (dfn : string -> bool), dfn "id" = true ->
  forall (compact : obj -> option json) (o : obj),
    (forall j, compact o = Some j -> ids_ok (JObj o) = true /\ j = JObj (dropm dfn o)) ->
    uniq (JObj o) = true -> has_undef dfn (JObj o) = true ->
    strict_ok SFixed o (compact o) = false.
Proof. exact strict_rejects_doc. Qed.
Print Assumptions strict_rejects.

(* ---- COMPOSITION.  In strict mode an accepted document has NO member outside the signed content: strict validation
        passing means no member is undefined for the context (contrapositive of strict_rejects), and the proof check
        passing means the content - which the hypotheses of tamper_detected take to retain every defined member - is
        that of the signed document, with the signed proof options. ---- *)
Theorem strict_accepted_is_signed :
  forall (dfn : string -> bool), dfn "id" = true ->
  forall (compact : obj -> option json)
         (canon : json -> option N) (compact_sec : json -> option json)
         (pv_dec : string -> string -> dec) (seg_dec : string -> dec) (resolve : string -> string -> option N)
         (accepts : string -> bool) (compact_proof : bool)
         (C : Type) (content : json -> C),
    (forall a b n, canon a = Some n -> canon b = Some n -> content a = content b) ->
    (forall j j', compact_sec j = Some j' -> content j' = content j) ->
    (forall o o', content (JObj o) = content (JObj o') -> forall k, In k protected -> lookup o k = lookup o' k) ->
    forall (signed_by : N -> msg -> Prop),
    (forall t ty k m, pv_dec t ty = DSig (SBy k m) -> signed_by k m) ->
    (forall s k m, seg_dec s = DSig (SBy k m) -> signed_by k m) ->
    forall d p k d0 c,
    (forall j, compact d = Some j -> ids_ok (JObj d) = true /\ j = JObj (dropm dfn d)) ->
    uniq (JObj d) = true ->
    strict_ok SFixed d (compact d) = true ->
    (forall m, signed_by k m -> Some m = sign_message canon compact_sec compact_proof excluded_keys d0 c) ->
    key_of resolve p = Some k ->
    verify_one canon compact_sec pv_dec seg_dec resolve accepts compact_proof excluded_keys d p = true ->
    has_undef dfn (JObj d) = false /\
    content (JObj (without_proof d)) = content (JObj (without_proof d0)) /\
    same_protected p (proof_of_ctx c).
Proof.
  intros dfn Hid compact canon compact_sec pv_dec seg_dec resolve accepts compact_proof C content Hinj Hck Hco
         signed_by Hpv Hseg d p k d0 c Hspec Hu Hstrict Honly Hk Hv.
  split.
  - destruct (has_undef dfn (JObj d)) eqn:E; [|reflexivity].
    rewrite (strict_rejects dfn Hid compact d Hspec Hu E) in Hstrict. discriminate.
  - destruct (tamper_detected canon compact_sec pv_dec seg_dec resolve accepts compact_proof C content Hinj Hck Hco
                signed_by Hpv Hseg d p k d0 c Honly Hk Hv) as [(j & j0 & _ & _ & _ & E) [Hp _]].
    split; assumption.
Qed.
Print Assumptions strict_accepted_is_signed.

(* the compaction hypothesis is satisfiable: the executable instance *)
Theorem strict_compaction_instance :
  forall dfn o j, compact_inst dfn o = Some j -> ids_ok (JObj o) = true /\ j = JObj (dropm dfn o).
Proof. exact compact_inst_spec. Qed.
Print Assumptions strict_compaction_instance.

(* AS FOUND an undefined property inside an element of an array of two or more elements was not noticed (arrays
   skipped; fixed by /repo 4a77a34), and after that fix still not inside an array nested in an array next to a
   sibling (compaction flattens [[X,Y],[]] to [X,Y]; fixed by /repo 09420bd).  Both witnesses are accepted by the
   old comparisons and rejected by the current one. *)
Definition sw_dfn (k : string) : bool := negb (String.eqb k "zz_undef").
Definition strict_witness : obj :=
  [("@context", JStr "c");
   ("credentialSubject", JObj [("items", JArr [JObj [("beta", JStr "b1"); ("zz_undef", JStr "x")]; JObj [("beta", JStr "b2")]])])].
Definition strict_witness_nested : obj :=
  [("@context", JStr "c");
   ("a1", JArr [JArr [JObj [("a2", JStr "x"); ("zz_undef", JStr "u")]; JObj [("a2", JStr "y")]]; JArr []])].
Definition strict_witness_nested_compacted : obj :=
  [("@context", JStr "c"); ("a1", JArr [JObj [("a2", JStr "x")]; JObj [("a2", JStr "y")]])].
(* two bare-id subjects, one of them given an undefined claim: the element compacts to the plain id string *)
Definition strict_witness_bare_id : obj :=
  [("@context", JStr "c");
   ("credentialSubject", JArr [JObj [("id", JStr "did:a"); ("zz_undef", JBool true)]; JObj [("id", JStr "did:b")]])].

Theorem strict_arrays_asis_refuted :
  strict_ok SAsIs strict_witness (compact_inst sw_dfn strict_witness) = true /\
  strict_ok SFixed strict_witness (compact_inst sw_dfn strict_witness) = false /\
  strict_ok SFix1 strict_witness_nested (Some (JObj strict_witness_nested_compacted)) = true /\
  strict_ok SFixed strict_witness_nested (Some (JObj strict_witness_nested_compacted)) = false /\
  strict_ok SAsIs strict_witness_bare_id (compact_inst sw_dfn strict_witness_bare_id) = true /\
  strict_ok SFixed strict_witness_bare_id (compact_inst sw_dfn strict_witness_bare_id) = false.
Proof. vm_compute. repeat split. Qed.
Print Assumptions strict_arrays_asis_refuted.

Example strict_rejects_nonvacuous :
  uniq (JObj strict_witness_bare_id) = true /\ has_undef sw_dfn (JObj strict_witness_bare_id) = true /\
  compact_inst sw_dfn strict_witness_bare_id =
    Some (JObj [("@context", JStr "c"); ("credentialSubject", JArr [JObj [("id", JStr "did:a")]; JObj [("id", JStr "did:b")]])]) /\
  (* and a document without undefined members passes *)
  strict_ok SFixed (dropm sw_dfn strict_witness_bare_id) (compact_inst sw_dfn (dropm sw_dfn strict_witness_bare_id)) = true.
Proof. vm_compute. repeat split. Qed.

(* ---- EXACTNESS OF THE DOCUMENT.  Full statement: an accepted document IS (member for member) the signed one.
        REFUTED on the faithful model with the canonical forms the real canonicaliser returned (corpus witness
        vp-jwt-credential-swapped.json; known finding vp-jwt-credential-string-not-covered): under the credentials
        context `verifiableCredential` is an @id-typed @graph container, a credential carried as a JWT STRING is no
        IRI and leaves no trace in the canonical form - two presentations that differ in that string canonicalise to
        the same N-Quads, and the proof made for one is accepted on the other. ---- *)
Definition vpA : obj := [("@context", JStr "ctx"); ("holder", JStr "did:h"); ("verifiableCredential", JArr [JStr "hdr.claimsA.sigA"])].
Definition vpB : obj := [("@context", JStr "ctx"); ("holder", JStr "did:h"); ("verifiableCredential", JArr [JStr "hdr.claimsB.sigB"])].
Definition vp_ctx : sign_ctx :=
  {| s_type := "Ed25519Signature2018"; s_repr := RProofValue; s_created := "2021-01-01T00:00:00Z"; s_vm := "did:ex:i#k1";
     s_domain := ""; s_challenge := "c-1"; s_purpose := "authentication"; s_nonce := ""; s_alg_header := "" |}.
Definition vp_canon (j : json) : option N :=
  if json_eqb j (JObj vpA) || json_eqb j (JObj vpB) then Some 2%N
  else match j with JObj m => match lookup m "challenge" with Some _ => Some 1%N | None => None end | _ => None end.
Definition vp_verify (d : obj) : outcome :=
  check_embedded vp_canon (fun _ => None) (fun _ => true) (fun _ => Some "")
    (fun t _ => if String.eqb t "SIG" then DSig (SBy 7%N (MHash 1%N 2%N)) else DErr) (fun _ => DErr)
    (fun d f => if String.eqb d "did:ex:i" && String.eqb f "#k1" then Some 7%N else None)
    (fun t => String.eqb t "Ed25519Signature2018") false
    (fun _ => false) (fun s => s) (fun _ => false) (fun _ _ => None) (fun _ => DErr) ("", "", "")
    excluded_keys di_config_members true d.

Theorem verified_document_exact_refuted :
  sign_message vp_canon (fun _ => None) false excluded_keys vpA vp_ctx = Some (MHash 1%N 2%N) /\
  vp_verify (add_proof vpA (signed_proof vp_ctx "SIG")) = Verified 1 /\
  vp_verify (add_proof vpB (signed_proof vp_ctx "SIG")) = Verified 1 /\
  without_proof vpA <> without_proof vpB.
Proof. repeat split; try (vm_compute; reflexivity). vm_compute. discriminate. Qed.
Print Assumptions verified_document_exact_refuted.

(* GUARDED: if the canonicaliser is injective (no member is lost: every term defined, every value representable in
   RDF - which excludes exactly the JWT-string class), the accepted document is the signed one, member for member.
   (Suites without CompactProof, i.e. all stock suites.) *)
Theorem verified_document_exact_partial :
  forall (canon : json -> option N) (pv_dec : string -> string -> dec) (seg_dec : string -> dec)
         (resolve : string -> string -> option N) (accepts : string -> bool),
    (forall a b n, canon a = Some n -> canon b = Some n -> a = b) ->
    forall (signed_by : N -> msg -> Prop),
    (forall t ty k m, pv_dec t ty = DSig (SBy k m) -> signed_by k m) ->
    (forall s k m, seg_dec s = DSig (SBy k m) -> signed_by k m) ->
    forall d p k d0 c,
    (forall m, signed_by k m -> Some m = sign_message canon (fun j => Some j) false excluded_keys d0 c) ->
    key_of resolve p = Some k ->
    verify_one canon (fun j => Some j) pv_dec seg_dec resolve accepts false excluded_keys d p = true ->
    without_proof d = without_proof d0.
Proof.
  intros canon pv_dec seg_dec resolve accepts Hinj signed_by Hpv Hseg d p k d0 c Honly Hk Hv.
  destruct (tamper_one canon (fun j => Some j) pv_dec seg_dec resolve accepts false json (fun j => j)
              Hinj (fun j j' H => eq_sym (f_equal (fun o => match o with Some x => x | None => j end) H))
              (fun o o' H k0 _ => f_equal (fun j => match j with JObj m => lookup m k0 | _ => None end) H)
              signed_by Hpv Hseg d p k d0 c Honly Hk Hv) as [(j & j0 & _ & _ & _ & E) _].
  inversion E. reflexivity.
Qed.
Print Assumptions verified_document_exact_partial.

(* ---- PRESENTATIONS AND THE CREDENTIALS THEY EMBED, as the code implements it.  The proof check looks at the TOP-LEVEL
        proof member only: the outcome is the same for any two signature decoders that agree on the signature holders
        of the top-level proof entries - whatever the proofs of embedded credential objects are (valid, invalid,
        absent) has no influence.  So a verified presentation says: the embedded credentials, their own proofs
        included, are (content-wise, tamper_detected) what the HOLDER signed; it says nothing about whether those
        credentials' own proofs are valid - a caller has to verify them separately (sampled: presentations signed over
        credentials with a broken issuer proof verify).  Credentials embedded as JWT strings are verified by
        ParsePresentation (C08) but not covered by the presentation proof (known finding above). ---- *)
Theorem presentation_proof_ignores_embedded_proofs :
  forall canon compact_sec time_ok nonce_dec pv_dec pv_dec' seg_dec seg_dec' resolve accepts compact_proof excl d,
    (forall pe ms m, lookup d "proof" = Some pe -> proof_entries pe = Some ms -> In m ms ->
                     agree_on pv_dec pv_dec' seg_dec seg_dec' m) ->
    verify_object canon compact_sec time_ok nonce_dec pv_dec seg_dec resolve accepts compact_proof excl d
    = verify_object canon compact_sec time_ok nonce_dec pv_dec' seg_dec' resolve accepts compact_proof excl d.
Proof. exact verify_object_ext. Qed.
Print Assumptions presentation_proof_ignores_embedded_proofs.

(* ---- JWT ENVELOPES AROUND A DOCUMENT WITH AN EMBEDDED PROOF (unsecured JWT, alg none: the embedded proof is the
        only protection).  The registered claims are applied to the claim object FIRST (iss -> holder / issuer id,
        jti -> id, nbf / iat / exp -> dates: refine_vp, refine_vc) and the embedded-proof
        check runs on the result, which is also what the caller gets.  So, under the guard of
        verified_document_exact_partial, an accepted enveloped document IS the signed one and the envelope cannot
        contradict it: a non-empty iss / jti equals the signed holder / id. ---- *)
Theorem jwt_envelope_cannot_override_vp :
  forall (canon : json -> option N) (pv_dec : string -> string -> dec) (seg_dec : string -> dec)
         (resolve : string -> string -> option N) (accepts : string -> bool),
    (forall a b n, canon a = Some n -> canon b = Some n -> a = b) ->
    forall (signed_by : N -> msg -> Prop),
    (forall t ty k m, pv_dec t ty = DSig (SBy k m) -> signed_by k m) ->
    (forall s k m, seg_dec s = DSig (SBy k m) -> signed_by k m) ->
    forall iss jti vp p k d0 c,
    (forall m, signed_by k m -> Some m = sign_message canon (fun j => Some j) false excluded_keys d0 c) ->
    key_of resolve p = Some k ->
    verify_one canon (fun j => Some j) pv_dec seg_dec resolve accepts false excluded_keys (refine_vp iss jti vp) p = true ->
    without_proof (refine_vp iss jti vp) = without_proof d0 /\
    (nonempty iss = true -> lookup d0 "holder" = Some (JStr iss)) /\
    (nonempty jti = true -> lookup d0 "id" = Some (JStr jti)).
Proof.
  intros canon pv_dec seg_dec resolve accepts Hinj signed_by Hpv Hseg iss jti vp p k d0 c Honly Hk Hv.
  pose proof (verified_document_exact_partial canon pv_dec seg_dec resolve accepts Hinj signed_by Hpv Hseg
                (refine_vp iss jti vp) p k d0 c Honly Hk Hv) as E.
  split; [exact E|]. unfold without_proof in E. split; intro H.
  - rewrite <- (lookup_remove_key "proof" d0 "holder" eq_refl), <- E, (lookup_remove_key "proof" _ "holder" eq_refl).
    unfold refine_vp. rewrite H. destruct (nonempty jti).
    + rewrite lookup_put_other by reflexivity. apply lookup_put_same.
    + apply lookup_put_same.
  - rewrite <- (lookup_remove_key "proof" d0 "id" eq_refl), <- E, (lookup_remove_key "proof" _ "id" eq_refl).
    unfold refine_vp. rewrite H. apply lookup_put_same.
Qed.
Print Assumptions jwt_envelope_cannot_override_vp.

Theorem jwt_envelope_cannot_override_vc :
  forall (canon : json -> option N) (pv_dec : string -> string -> dec) (seg_dec : string -> dec)
         (resolve : string -> string -> option N) (accepts : string -> bool),
    (forall a b n, canon a = Some n -> canon b = Some n -> a = b) ->
    forall (signed_by : N -> msg -> Prop),
    (forall t ty k m, pv_dec t ty = DSig (SBy k m) -> signed_by k m) ->
    (forall s k m, seg_dec s = DSig (SBy k m) -> signed_by k m) ->
    forall (fmt : Z -> string) iss jti nbf iat exp vc p k d0 c,
    (forall m, signed_by k m -> Some m = sign_message canon (fun j => Some j) false excluded_keys d0 c) ->
    key_of resolve p = Some k ->
    verify_one canon (fun j => Some j) pv_dec seg_dec resolve accepts false excluded_keys (refine_vc fmt iss jti nbf iat exp vc) p = true ->
    without_proof (refine_vc fmt iss jti nbf iat exp vc) = without_proof d0.
Proof.
  intros canon pv_dec seg_dec resolve accepts Hinj signed_by Hpv Hseg fmt iss jti nbf iat exp vc p k d0 c Honly Hk Hv.
  exact (verified_document_exact_partial canon pv_dec seg_dec resolve accepts Hinj signed_by Hpv Hseg _ p k d0 c Honly Hk Hv).
Qed.
Print Assumptions jwt_envelope_cannot_override_vc.

(* ---- JWS-SECURED JWT FORMS (no embedded proof; JwtModel.v).  `open` is the JWS verification of C08 (the payload of a
        token whose signature verifies under the key its header's kid resolves to), `signed` says which payloads the
        holder of some key has signed.  FULL STATEMENT: whatever bytes ParseCredential is handed - the token, the quoted
        token, or a JSON object carrying the token in its `jwt` member next to ANY other members - the credential object
        it builds is decode_cred_jwt of a payload that was signed: nothing of the returned credential comes from
        outside the signed payload. ---- *)
Theorem jwt_credential_is_signed_payload :
  forall (is_jws : string -> bool) (open : string -> option obj) (fmt : Z -> string) (signed : obj -> Prop),
    (forall t p, open t = Some p -> signed p) ->
    forall i c, parse_jwt_vc is_jws open fmt i = Some (Some c) ->
    exists t p, token_of is_jws i = Some t /\ open t = Some p /\ signed p /\ decode_cred_jwt fmt p = Some c.
Proof.
  intros is_jws open fmt signed Hs i c H.
  destruct (parse_reports_signed is_jws open fmt i c H) as (t & p & A & B & C). exists t, p. repeat split; try assumption. exact (Hs t p B).
Qed.
Print Assumptions jwt_credential_is_signed_payload.

(* the members standing next to `jwt` in a wrapper object have no influence, and the wrapper is read as its token *)
Theorem jwt_wrapper_members_ignored :
  forall is_jws open fmt m m',
    lookup m "jwt" = lookup m' "jwt" ->
    parse_jwt_vc is_jws open fmt (InObj m) = parse_jwt_vc is_jws open fmt (InObj m').
Proof. exact wrapper_ignored. Qed.
Print Assumptions jwt_wrapper_members_ignored.

Theorem jwt_wrapper_is_its_token :
  forall is_jws open fmt m t,
    lookup m "jwt" = Some (JStr t) -> nonempty t = true -> is_jws t = true ->
    parse_jwt_vc is_jws open fmt (InObj m) = parse_jwt_vc is_jws open fmt (InText t).
Proof. exact wrapper_is_token. Qed.
Print Assumptions jwt_wrapper_is_its_token.

(* THE OVERRIDE RULES, member by member, for EVERY payload: the claim object is the `vc` claim or (no non-empty `vc`
   claim: the SD-JWT v5 layout) consists of members of the payload itself; issuer / issuanceDate / id / expirationDate
   of the decoded credential are governed by iss / iat-over-nbf / jti / exp of the SAME payload when present (iss goes
   into the id of an issuer object), every other member is the claim object's. *)
Theorem jwt_claims_override_rules :
  forall fmt p c, decode_cred_jwt fmt p = Some c ->
  exists vc iss jti nbf iat exp,
    vc_claim p = Some vc /\ str_claim p "iss" = Some iss /\ str_claim p "jti" = Some jti /\
    num_claim p "nbf" = Some nbf /\ num_claim p "iat" = Some iat /\ num_claim p "exp" = Some exp /\
    lookup c "issuer" = refined_issuer iss vc /\
    lookup c "issuanceDate" = refined_issued fmt nbf iat vc /\
    lookup c "id" = refined_id jti vc /\
    lookup c "expirationDate" = refined_expired fmt exp vc /\
    forall k, String.eqb k "issuer" = false -> String.eqb k "issuanceDate" = false -> String.eqb k "id" = false ->
              String.eqb k "expirationDate" = false -> lookup c k = lookup vc k.
Proof. exact decode_member_origin. Qed.
Print Assumptions jwt_claims_override_rules.

Theorem jwt_claim_object_from_payload :
  forall p vc, vc_claim p = Some vc ->
    lookup p "vc" = Some (JObj vc) \/ (forall k v, In (k, v) vc -> In (k, v) p).
Proof. exact vc_claim_from_payload. Qed.
Print Assumptions jwt_claim_object_from_payload.

(* FIRST CLAUSE for the JWT form: the payload Credential.JWTClaims builds for a credential object - in full or minimised -
   decodes to a credential with the same members (the issuer object of the minimised form gets its id back), for every
   date parser / formatter under which the credential's dates are their own re-formatting (whole seconds, UTC). *)
Theorem jwt_issue_then_parse :
  forall secs fmt min sub m p ctx,
    jwt_claims secs min sub m = Some p ->
    lookup m "@context" = Some ctx ->
    nonempty (issuer_id m) = true ->
    date_ok secs fmt (lookup m "issuanceDate") ->
    (lookup m "expirationDate" = None \/ date_ok secs fmt (lookup m "expirationDate")) ->
    id_ok (lookup m "id") ->
    exists c, decode_cred_jwt fmt p = Some c /\
      (forall k, String.eqb k "issuer" = false -> lookup c k = lookup m k) /\
      match lookup m "issuer" with
      | Some (JObj im) => exists im', lookup c "issuer" = Some (JObj im') /\ forall k, lookup im' k = lookup im k
      | Some (JStr s) => lookup c "issuer" = Some (JStr s)
      | _ => False
      end.
Proof. exact jwt_roundtrip. Qed.
Print Assumptions jwt_issue_then_parse.

(* presentations: the returned object is the `vp` claim of a signed payload with holder / id governed by its iss / jti *)
Theorem jwt_presentation_is_signed_payload :
  forall (is_jws : string -> bool) (open : string -> option obj) t c,
    parse_jwt_vp is_jws open t = Some (Some c) ->
    exists p iss jti vp, open t = Some p /\ str_claim p "iss" = Some iss /\ str_claim p "jti" = Some jti /\
      lookup p "vp" = Some (JObj vp) /\ c = refine_vp iss jti vp /\
      lookup c "holder" = (if nonempty iss then Some (JStr iss) else lookup vp "holder") /\
      lookup c "id" = (if nonempty jti then Some (JStr jti) else lookup vp "id") /\
      forall k, String.eqb k "holder" = false -> String.eqb k "id" = false -> lookup c k = lookup vp k.
Proof.
  intros is_jws open t c H.
  destruct (parse_vp_reports_signed is_jws open t c H) as (p & iss & jti & vp & A & B & C & D & ->).
  destruct (refine_vp_lookup iss jti vp) as (X & Y & Z). exists p, iss, jti, vp. repeat split; assumption.
Qed.
Print Assumptions jwt_presentation_is_signed_payload.

(* GENERATED TABLE: the real decoder (verifiable.JWTVCToJSON = decodeCredJWS without signature check), executed by the
   translator on every subset of the registered claims x issuer shape (absent, string, object, number) x layout (vc
   claim, v5 layout, empty vc claim, vc claim plus payload members), agrees with decode_cred_jwt on every row: an edit
   of the override rules in credential_jwt.go breaks this obligation. *)
Theorem jwt_decoder_table_agrees :
  forallb (probe_agrees (fmt_of jwt_probe_fmt)) jwt_probes = true /\ (64 <=? List.length jwt_probes)%nat = true.
Proof. vm_compute. auto. Qed.
Print Assumptions jwt_decoder_table_agrees.

(* the proof types the embedded-proof check lets through and the members a Data Integrity proof is decoded into are the
   generated lists *)
Theorem generated_type_tables :
  supported_types = supported_proof_types /\
  forallb (fun t => mem_str t supported_proof_types)
    ["Ed25519Signature2018"; "Ed25519Signature2020"; "JsonWebSignature2020"; "EcdsaSecp256k1Signature2019"; "BbsBlsSignature2020"] = true /\
  mem_str di_type supported_proof_types = false /\
  forallb (fun k => mem_str k di_proof_members) ["created"; "verificationMethod"; "proofPurpose"; "domain"; "challenge"; "proofValue"; "type"; "cryptosuite"] = true.
Proof. vm_compute. auto. Qed.
Print Assumptions generated_type_tables.

(* GENERATED SUITE TABLE: proof.CreateVerifyData EXECUTED by the translator with every stock suite (as getSuites builds
   them), the real canonicaliser and the suite's published context, in both signature representations: changing or
   removing an option changes the bytes to be signed EXACTLY when the model's excluded-key rule says the option is kept
   (so created, verificationMethod, proofPurpose, domain, challenge are covered by every stock suite in both
   representations, nonce only in the detached-JWS representation) - the content_opts hypothesis of tamper_detected,
   discharged by execution for the stock contexts. *)
Definition cov_opt (s : string) : string :=
  if String.eqb s "domain-removed" then "domain" else if String.eqb s "challenge-removed" then "challenge" else s.
Theorem suite_option_coverage_agrees :
  forallb (fun row : string * bool * list (string * bool) => let '(ty, jws, cols) := row in
             mem_str ty supported_proof_types &&
             forallb (fun c => Bool.eqb (snd c) (negb (mem_str (cov_opt (fst c)) (if jws then jws_deleted_keys else excluded_keys)))) cols &&
             forallb (fun k => existsb (fun c => String.eqb (fst c) k && snd c) cols)
                     ["created"; "verificationMethod"; "proofPurpose"; "domain"; "challenge"; "domain-removed"; "challenge-removed"])
          suite_option_coverage = true /\
  forallb (fun ty => existsb (fun row : string * bool * list (string * bool) => let '(t, jws, _) := row in String.eqb t ty && jws) suite_option_coverage &&
                     existsb (fun row : string * bool * list (string * bool) => let '(t, jws, _) := row in String.eqb t ty && negb jws) suite_option_coverage)
          ["Ed25519Signature2018"; "Ed25519Signature2020"; "JsonWebSignature2020"; "EcdsaSecp256k1Signature2019"; "BbsBlsSignature2020"] = true.
Proof. vm_compute. auto. Qed.
Print Assumptions suite_option_coverage_agrees.

Definition jx_cred : obj :=
  [("@context", JStr "ctx"); ("credentialSubject", JObj [("id", JStr "did:s")]); ("id", JStr "urn:1");
   ("issuanceDate", JStr "D1"); ("issuer", JObj [("id", JStr "did:i"); ("name", JStr "N")])].
Definition jx_secs (d : string) : option Z := if String.eqb d "D1" then Some 100%Z else None.
Definition jx_fmt (z : Z) : string := if Z.eqb z 100 then "D1" else "D?".
Example jwt_issue_then_parse_nonvacuous :
  (* minimised: id, issuanceDate and the issuer id leave the claim object and come back from jti / iat / iss *)
  jwt_claims jx_secs true "did:s" jx_cred =
    Some [("iat", JNum 100); ("iss", JStr "did:i"); ("jti", JStr "urn:1"); ("nbf", JNum 100); ("sub", JStr "did:s");
          ("vc", JObj [("@context", JStr "ctx"); ("credentialSubject", JObj [("id", JStr "did:s")]); ("issuer", JObj [("name", JStr "N")])])] /\
  (forall p, jwt_claims jx_secs true "did:s" jx_cred = Some p ->
     match decode_cred_jwt jx_fmt p with Some c => same_members c jx_cred | None => false end = true) /\
  (* a wrapper object: only its jwt member counts *)
  parse_jwt_vc (fun t => String.eqb t "h.p.s") (fun t => jwt_claims jx_secs false "did:s" jx_cred) jx_fmt
    (InObj [("issuer", JStr "did:mallory"); ("jwt", JStr "h.p.s")]) = Some (Some jx_cred) /\
  (* a payload with other registered claims than the members of its vc claim: the claims win *)
  decode_cred_jwt jx_fmt [("iss", JStr "did:other"); ("jti", JStr "urn:2"); ("vc", JObj jx_cred)] =
    Some [("@context", JStr "ctx"); ("credentialSubject", JObj [("id", JStr "did:s")]); ("id", JStr "urn:2");
          ("issuanceDate", JStr "D1"); ("issuer", JObj [("id", JStr "did:other"); ("name", JStr "N")])].
Proof.
  split; [vm_compute; reflexivity|]. split; [|split; vm_compute; reflexivity].
  intros p H. vm_compute in H. inversion H. vm_compute. reflexivity.
Qed.

(* ---- THE TYPED OBJECT.  Full statement: the member the typed Credential / Presentation holds is the member the
        proof check saw.  REFUTED (known finding case-variant-member-overrides-signed-member; corpus witness
        case-variant-issuer.json): encoding/json folds letter case, so a later member "Issuer" - undefined for
        JSON-LD, hence neither signed nor an obstacle in default mode - becomes the issuer of the accepted object.
        GUARDED: without another member folding to the same name, they agree.  (Strict mode rejects such a member:
        strict_rejects.) ---- *)
Theorem typed_member_is_verified_member_refuted :
  let ms := [("issuer", JStr "did:example:issuer"); ("Issuer", JStr "did:example:evil")] in
  lookup ms "issuer" = Some (JStr "did:example:issuer") /\ parsed_field "issuer" ms = Some (JStr "did:example:evil").
Proof. vm_compute. auto. Qed.
Print Assumptions typed_member_is_verified_member_refuted.

Theorem typed_member_is_verified_member_partial :
  forall k ms, NoDup (map fst ms) ->
    (forall k' v, In (k', v) ms -> fold k' = fold k -> k' = k) ->
    parsed_field k ms = lookup ms k.
Proof. exact parsed_is_lookup. Qed.
Print Assumptions typed_member_is_verified_member_partial.

(* the guard of the partial theorem is EXACT on the class the harness generates (a member appended after the signed
   ones): whenever a later member folds to the same field name, is another name and carries another value, the typed
   object really holds the injected value and not the one the proof check saw *)
Theorem typed_member_guard_exact :
  forall k ms v k' v',
    lookup ms k = Some v -> fold k' = fold k -> k' <> k -> v' <> v ->
    parsed_field k (ms ++ [(k', v')]) = Some v' /\ lookup (ms ++ [(k', v')]) k = Some v /\
    parsed_field k (ms ++ [(k', v')]) <> lookup (ms ++ [(k', v')]) k.
Proof. exact parsed_guard_exact. Qed.
Print Assumptions typed_member_guard_exact.

(* jwt_issue_then_parse needs its date guard: a date with a fraction of a second comes back as its whole second (nbf / iat
   are whole seconds and override the claim object's date also in the full form; C16's finding jwt:subsecond-date-truncated) *)
Definition jy_cred : obj :=
  [("@context", JStr "ctx"); ("id", JStr "urn:1"); ("issuanceDate", JStr "D1.5"); ("issuer", JStr "did:i")].
Definition jy_secs (d : string) : option Z := if String.eqb d "D1.5" then Some 100%Z else None.
Definition jy_fmt (z : Z) : string := if Z.eqb z 100 then "D1" else "D?".
Theorem jwt_issue_then_parse_subsecond_refuted :
  exists p c, jwt_claims jy_secs false "" jy_cred = Some p /\ decode_cred_jwt jy_fmt p = Some c /\
              lookup c "issuanceDate" = Some (JStr "D1") /\ lookup jy_cred "issuanceDate" = Some (JStr "D1.5").
Proof. eexists. eexists. split; [vm_compute; reflexivity|]. split; [vm_compute; reflexivity|]. split; vm_compute; reflexivity. Qed.
Print Assumptions jwt_issue_then_parse_subsecond_refuted.

(* ---- non-vacuity: a concrete instance of every parameter (the canonicaliser is a finite injective table) in which
        a signed document verifies, and the edited one (a claim changed) does not ---- *)
Definition ex_doc : obj := [("@context", JStr "ctx"); ("claim", JStr "v"); ("id", JStr "urn:1")].
Definition ex_ctx : sign_ctx :=
  {| s_type := "Ed25519Signature2018"; s_repr := RProofValue; s_created := "2021-01-01T00:00:00Z"; s_vm := "did:ex:i#k1";
     s_domain := "shop.example"; s_challenge := "c-1"; s_purpose := ""; s_nonce := ""; s_alg_header := "" |}.
Definition ex_opts : json :=
  JObj [("@context", JStr "ctx"); ("challenge", JStr "c-1"); ("created", JStr "2021-01-01T00:00:00Z"); ("domain", JStr "shop.example");
        ("proofPurpose", JStr "assertionMethod"); ("type", JStr "Ed25519Signature2018"); ("verificationMethod", JStr "did:ex:i#k1")].
Definition ex_canon (j : json) : option N :=
  if json_eqb j ex_opts then Some 1%N
  else if json_eqb j (JObj ex_doc) then Some 2%N
  else if json_eqb j (JObj [("@context", JStr "ctx"); ("claim", JStr "w"); ("id", JStr "urn:1")]) then Some 3%N
  else None.
Definition ex_pv (t ty : string) : dec :=
  if String.eqb t "SIG" then DSig (SBy 7%N (MHash 1%N 2%N)) else DErr.
Definition ex_verify (d : obj) : outcome :=
  check_embedded ex_canon (fun _ => None) (fun _ => true) (fun _ => Some "") ex_pv (fun _ => DErr)
    (fun d f => if String.eqb d "did:ex:i" && String.eqb f "#k1" then Some 7%N else None)
    (fun t => String.eqb t "Ed25519Signature2018") false
    (fun _ => false) (fun s => s) (fun _ => false) (fun _ _ => None) (fun _ => DErr) ("", "", "")
    excluded_keys di_config_members true d.

Example sign_then_verify_nonvacuous :
  sign_message ex_canon (fun _ => None) false excluded_keys ex_doc ex_ctx = Some (MHash 1%N 2%N) /\
  ex_verify (add_proof ex_doc (signed_proof ex_ctx "SIG")) = Verified 1 /\
  ex_verify (set_key "claim" (JStr "w") (add_proof ex_doc (signed_proof ex_ctx "SIG"))) = Rejected /\
  ex_verify (add_proof ex_doc (set_key "domain" (JStr "evil.example") (signed_proof ex_ctx "SIG"))) = Rejected /\
  ex_verify ex_doc = Unverified.
Proof. vm_compute. repeat split. Qed.
