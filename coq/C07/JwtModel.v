(* C07 — executable model of the JWT forms of a credential / presentation secured by a JWS (no embedded proof needed):
     component/models/verifiable/credential.go       ParseCredential (unwrapStringVC, isJWTVC, decodeJWTVC), JWTClaims
     component/models/verifiable/credential_jwt.go   JWTCredClaims.UnmarshalJSON, decodeCredJWT, refineFromJWTClaims,
                                                     refineVCIssuerFromJWTClaims, newJWTCredClaims
     component/models/verifiable/presentation_jwt.go decodePresJWT, JWTPresClaims.refineFromJWTClaims, newJWTPresClaims
     component/models/util/json/json.go              UnmarshalWithCustomFields (which payload members are "custom")
   The JWS itself (compact split, base64, signing input, algorithm, key resolution by the header's kid) is C08's
   subject: here `open` is a PARAMETER that returns the decoded payload of a token whose signature verifies.  Member
   names are compared exactly (encoding/json also matches the registered claims under case folding: case variants of
   iss / jti / nbf / ... inside a SIGNED payload are the signer's own choice and are not generated).  NO proofs here. *)
From Coq Require Import List String Ascii Bool NArith ZArith.
Import ListNotations.
From VF Require Import common.Json C07.Model.
Open Scope string_scope.
Open Scope list_scope.

(* ---------- the registered claims as go-jose's Claims decodes them; None = json.Unmarshal fails ---------- *)
Definition str_claim (p : obj) (k : string) : option string :=
  match lookup p k with
  | None | Some JNull => Some ""
  | Some (JStr s) => Some s
  | Some _ => None
  end.
Definition num_claim (p : obj) (k : string) : option (option Z) :=
  match lookup p k with
  | None | Some JNull => Some None
  | Some (JNum z) => Some (Some z)
  | Some _ => None
  end.
Definition is_jstr (j : json) : bool := match j with JStr _ => true | _ => false end.
Definition aud_ok (p : obj) : bool :=
  match lookup p "aud" with
  | None | Some JNull | Some (JStr _) => true
  | Some (JArr l) => forallb is_jstr l
  | Some _ => false
  end.

(* UnmarshalWithCustomFields: a payload member is NOT custom when re-marshalling the decoded struct emits its name
   (every field is omitempty) *)
Definition known_present (p : obj) (k : string) : bool :=
  if String.eqb k "iss" || String.eqb k "sub" || String.eqb k "jti" then
    match lookup p k with Some (JStr s) => nonempty s | _ => false end
  else if String.eqb k "exp" || String.eqb k "nbf" || String.eqb k "iat" then
    match lookup p k with Some (JNum _) => true | _ => false end
  else if String.eqb k "aud" then
    match lookup p k with Some (JStr _) | Some (JArr (_ :: _)) => true | _ => false end
  else if String.eqb k "vc" then
    match lookup p k with Some (JObj (_ :: _)) => true | _ => false end
  else false.
Definition custom_fields (p : obj) : obj := filter (fun kv => negb (known_present p (fst kv))) p.

(* JWTCredClaims.UnmarshalJSON + the nil check of decodeCredJWT: the "vc" claim, or (SD-JWT v5 layout) the custom
   members of the payload when there is no non-empty "vc" claim; None = refused *)
Definition vc_claim (p : obj) : option obj :=
  match lookup p "vc" with
  | Some (JObj (x :: r)) => Some (x :: r)
  | Some (JObj []) | Some JNull | None =>
      match custom_fields p with [] => None | c => Some c end
  | Some _ => None
  end.

(* decodeCredJWT: the credential object handed to populateCredential *)
Definition decode_cred_jwt (fmt : Z -> string) (p : obj) : option obj :=
  match str_claim p "iss", str_claim p "sub", str_claim p "jti", num_claim p "nbf", num_claim p "iat", num_claim p "exp" with
  | Some iss, Some _, Some jti, Some nbf, Some iat, Some exp =>
      if negb (aud_ok p) then None else
      match vc_claim p with
      | Some vc => Some (refine_vc fmt iss jti nbf iat exp vc)
      | None => None
      end
  | _, _, _, _, _, _ => None
  end.

(* decodePresJWT *)
Definition decode_pres_jwt (p : obj) : option obj :=
  match str_claim p "iss", str_claim p "sub", str_claim p "jti", num_claim p "nbf", num_claim p "iat", num_claim p "exp" with
  | Some iss, Some _, Some jti, Some _, Some _, Some _ =>
      if negb (aud_ok p) then None else
      match lookup p "vp" with
      | Some (JObj m) => Some (refine_vp iss jti m)
      | _ => None
      end
  | _, _, _, _, _, _ => None
  end.

(* ---------- ParseCredential: which bytes are taken as the token ---------- *)
Inductive vc_input :=
| InText (t : string)            (* the bytes, unquoted, as a string *)
| InObj (m : obj).               (* the bytes are a JSON object *)

Section JWT.
  Variable is_jws : string -> bool.               (* jwt.IsJWS: three segments, a header with alg other than none *)
  Variable open : string -> option obj.           (* C08: the payload of a token whose signature verifies under the key
                                                     its header's kid resolves to; None = refused *)
  Variable fmt : Z -> string.                     (* time.Unix(s,0).UTC().Format(RFC3339) *)

  (* unwrapStringVC + isJWTVC (the combined SD-JWT format with '~' is not modelled) *)
  Definition token_of (i : vc_input) : option string :=
    match i with
    | InText t => if is_jws t then Some t else None
    | InObj m => match lookup m "jwt" with
                 | Some (JStr t) => if nonempty t && is_jws t then Some t else None
                 | _ => None
                 end
    end.

  (* None: not the JWS path (the document goes to decodeLDVC / checkEmbeddedProof, Model.check_embedded);
     Some None: refused; Some (Some c): the credential object the typed Credential is built from *)
  Definition parse_jwt_vc (i : vc_input) : option (option obj) :=
    match token_of i with
    | None => None
    | Some t => Some match open t with
                     | None => None
                     | Some p => decode_cred_jwt fmt p
                     end
    end.

  Definition parse_jwt_vp (t : string) : option (option obj) :=
    if is_jws t then Some match open t with None => None | Some p => decode_pres_jwt p end else None.
End JWT.

(* ---------- issuing: Credential.JWTClaims (newJWTCredClaims) on the credential object ----------
   [secs] parses an RFC3339 date into Unix seconds.  The object is what Credential.raw() emits (the codec's own normal
   form: C16's subject). *)
Definition issuer_id (m : obj) : string :=
  match lookup m "issuer" with
  | Some (JStr s) => s
  | Some (JObj im) => str_entry (lookup im "id")
  | _ => ""
  end.
Definition minimise (m : obj) : obj :=
  let m := remove_key "expirationDate" (remove_key "issuanceDate" (remove_key "id" m)) in
  match lookup m "issuer" with
  | Some (JObj im) => replace_key "issuer" (JObj (remove_key "id" im)) m
  | _ => remove_key "issuer" m
  end.
Definition vc_of (min : bool) (m : obj) : obj := if min then minimise m else m.
Definition opt_s (k s : string) : obj := if nonempty s then [(k, JStr s)] else [].
Definition jwt_claims (secs : string -> option Z) (min : bool) (sub : string) (m : obj) : option obj :=
  match secs (str_entry (lookup m "issuanceDate")) with
  | None => None
  | Some n =>
    let exp := match lookup m "expirationDate" with
               | Some (JStr e) => match secs e with Some x => Some [("exp", JNum x)] | None => None end
               | _ => Some []
               end in
    match exp with
    | None => None
    | Some ex =>
      Some (ex ++ [("iat", JNum n)] ++ opt_s "iss" (issuer_id m) ++ opt_s "jti" (str_entry (lookup m "id"))
            ++ [("nbf", JNum n)] ++ opt_s "sub" sub ++ [("vc", JObj (vc_of min m))])
    end
  end.

(* Presentation.JWTClaims (newJWTPresClaims) *)
Definition jwt_pres_claims (min : bool) (m : obj) : obj :=
  opt_s "iss" (str_entry (lookup m "holder")) ++ opt_s "jti" (str_entry (lookup m "id"))
  ++ [("vp", JObj (if min then remove_key "holder" (remove_key "id" m) else m))].

(* two member lists hold the same members (order aside; names unique) *)
Definition same_members (a b : obj) : bool :=
  Nat.eqb (List.length a) (List.length b)
  && forallb (fun kv => match lookup b (fst kv) with Some v => json_eqb (snd kv) v | None => false end) a.

(* a formatter given as a table (the generated probe table, the recorded cases) *)
Fixpoint fmt_of (t : list (Z * string)) (z : Z) : string :=
  match t with [] => "" | (k, v) :: r => if Z.eqb z k then v else fmt_of r z end.
Definition probe_agrees (fmt : Z -> string) (pr : obj * option obj) : bool :=
  match decode_cred_jwt fmt (fst pr), snd pr with
  | Some c, Some o => same_members c o
  | None, None => true
  | _, _ => false
  end.
