(* C07 — Data Integrity (ecdsa-2019) round trip: a document signed through the model's signing path verifies. *)
From Coq Require Import List String Ascii Bool NArith ZArith.
Import ListNotations.
From VF Require Import common.Json gen.Gen_C07 C07.Model C07.Proofs.
Open Scope string_scope.
Open Scope list_scope.

Section DIRT.
  Variable canon : json -> option N.
  Variable di_time_ok : string -> bool.
  Variable di_time_norm : string -> string.
  Variable di_suite_ok : string -> bool.
  Variable di_resolve : string -> string -> option N.
  Variable di_sig : string -> dec.

  Definition epu_of (e1 : string) : string := if nonempty e1 then e1 else "assertionMethod".
  Lemma epu_nonempty e1 : nonempty (epu_of e1) = true.
  Proof. unfold epu_of. destruct (nonempty e1) eqn:E; [exact E|reflexivity]. Qed.

  Lemma verify_di_accepts mem d m k cd cc e1 e2 e3 :
    forallb (fun k0 => is_str_or_absent (lookup m k0))
      di_proof_members = true ->
    str_entry (lookup m "type") = di_type ->
    nonempty (str_entry (lookup m "verificationMethod")) = true ->
    str_entry (lookup m "proofPurpose") = epu_of e1 ->
    di_suite_ok (str_entry (lookup m "cryptosuite")) = true ->
    di_time_ok (str_entry (lookup m "created")) = true ->
    di_resolve (str_entry (lookup m "verificationMethod")) (epu_of e1) = Some k ->
    (nonempty e2 = false \/ e2 = str_entry (lookup m "domain")) ->
    (nonempty e3 = false \/ e3 = str_entry (lookup m "challenge")) ->
    canon (JObj (without_proof d)) = Some cd ->
    canon (JObj (di_config mem (match lookup d "@context" with Some c => c | None => JNull end)
                           (set_key "proofPurpose" (JStr (epu_of e1)) m)
                           (di_time_norm (str_entry (lookup m "created"))))) = Some cc ->
    di_sig (str_entry (lookup m "proofValue")) = DSig (SBy k (MDI cd cc)) ->
    verify_di canon di_time_ok di_time_norm di_suite_ok di_resolve di_sig (e1, e2, e3) mem d (JObj m) = Verified 1.
  Proof.
    intros Hstr Hty Hvm Hpu Hso Hto Hr Hd Hc Hcd Hcc Hsig.
    unfold verify_di. rewrite Hstr. cbn [negb]. fold (epu_of e1).
    rewrite Hty, Hvm, Hpu, (epu_nonempty e1), Hso, Hto, Hr.
    change (nonempty di_type) with true. cbn [andb negb].
    rewrite (String.eqb_refl di_type), (String.eqb_refl (epu_of e1)). cbn [negb].
    assert (D : (nonempty e2 && negb (String.eqb e2 (str_entry (lookup m "domain")))) = false).
    { destruct Hd as [-> | <-]; [reflexivity|]. rewrite String.eqb_refl. apply andb_false_r. }
    assert (Cc : (nonempty e3 && negb (String.eqb e3 (str_entry (lookup m "challenge")))) = false).
    { destruct Hc as [-> | <-]; [reflexivity|]. rewrite String.eqb_refl. apply andb_false_r. }
    rewrite D, Cc, Hcd, Hcc, Hsig, N.eqb_refl, msg_eqb_refl. reflexivity.
  Qed.

  (* ---- the signing side (ecdsa2019.CreateProof, Signer.AddProof): proof object and signed message ---- *)
  Definition di_proof_obj (vm purpose created domain challenge sigtext : string) : obj :=
    opt_member "challenge" challenge ++ [("created", JStr created); ("cryptosuite", JStr "ecdsa-2019")]
    ++ opt_member "domain" domain
    ++ [("proofPurpose", JStr purpose); ("proofValue", JStr sigtext); ("type", JStr di_type); ("verificationMethod", JStr vm)].

  Definition di_sign_message (mem : list string) (d : obj) (vm purpose created domain challenge : string) : option msg :=
    match canon (JObj (without_proof d)),
          canon (JObj (di_config mem (match lookup d "@context" with Some c => c | None => JNull end)
                                 (di_proof_obj vm purpose created domain challenge "") created)) with
    | Some cd, Some cc => Some (MDI cd cc)
    | _, _ => None
    end.

  (* Signer.AddProof: sjson.SetRawBytes(doc, "proof", proof) *)
  Definition di_add_proof (d : obj) (pr : obj) : obj := set_key "proof" (JObj pr) d.

  Lemma di_config_ext mem ctx m m' t :
    lookup m "challenge" = lookup m' "challenge" -> lookup m "domain" = lookup m' "domain" ->
    lookup m "proofPurpose" = lookup m' "proofPurpose" -> lookup m "verificationMethod" = lookup m' "verificationMethod" ->
    di_config mem ctx m t = di_config mem ctx m' t.
  Proof. intros H1 H2 H3 H4. unfold di_config. rewrite H1, H2, H3, H4. reflexivity. Qed.

  Theorem di_verify_sign mem d vm purpose created domain challenge sigtext k m e2 e3 :
    nonempty vm = true -> nonempty purpose = true ->
    di_time_ok created = true -> di_time_norm created = created -> di_suite_ok "ecdsa-2019" = true ->
    (nonempty e2 = false \/ e2 = domain) -> (nonempty e3 = false \/ e3 = challenge) ->
    di_resolve vm purpose = Some k ->
    di_sign_message mem d vm purpose created domain challenge = Some m ->
    di_sig sigtext = DSig (SBy k m) ->
    let pr := di_proof_obj vm purpose created domain challenge sigtext in
    verify_di canon di_time_ok di_time_norm di_suite_ok di_resolve di_sig (purpose, e2, e3) mem (di_add_proof d pr) (JObj pr)
      = Verified 1.
  Proof.
    intros Hvm Hpu Ht Hn Hs Hd Hc Hr Hm Hsig pr.
    assert (EP : epu_of purpose = purpose) by (unfold epu_of; rewrite Hpu; reflexivity).
    unfold di_sign_message in Hm.
    destruct (canon (JObj (without_proof d))) as [cd|] eqn:Cd; [|discriminate].
    destruct (canon (JObj (di_config mem _ _ created))) as [cc|] eqn:Cc; [|discriminate].
    inversion Hm; subst m.
    assert (WP : without_proof (di_add_proof d pr) = without_proof d) by (unfold without_proof, di_add_proof; apply remove_key_set_key).
    assert (CX : lookup (di_add_proof d pr) "@context" = lookup d "@context")
      by (unfold di_add_proof; apply lookup_set_key_other; reflexivity).
    unfold pr, di_proof_obj, opt_member in *.
    destruct (nonempty challenge) eqn:E1; destruct (nonempty domain) eqn:E2;
      try (apply nonempty_false in E1); try (apply nonempty_false in E2);
      apply verify_di_accepts with (k := k) (cd := cd) (cc := cc); rewrite ?EP, ?WP, ?CX;
      first [ match goal with
              | |- canon (JObj (di_config _ _ _ ?t)) = _ =>
                  replace t with created by (cbn; symmetry; exact Hn);
                  erewrite di_config_ext; [exact Cc| | | |]; cbn; reflexivity
              end
            | cbn; first [reflexivity | assumption | (subst; assumption)] ].
  Qed.
End DIRT.
