(* C07 — correspondence: the harness hands a document to the real verification entry points and records what the
   third-party functions returned on the inputs OUR code gave them (canonicalisation inputs and results through a
   recording signature suite, time / base64 / multibase decoding results, what each signature byte string is).
   check_case instantiates the Section parameters of the model with these recorded tables and compares. *)
From Coq Require Import List String Bool NArith ZArith.
Import ListNotations.
From VF Require Export common.Json gen.Gen_C07 C07.Model C07.StrictModel C07.ParseModel C07.JwtModel.
Open Scope string_scope.
Open Scope list_scope.

Record dienv := {
  d_times : list (string * string);               (* created text -> RFC3339 re-formatting (absent = unparsable) *)
  d_suites : list string;                          (* registered cryptosuites *)
  d_keys : list ((string * string) * N);           (* (verification method id, purpose) -> key *)
  d_sigs : list (string * dec);                    (* proofValue text -> multibase decoding and meaning *)
  d_expect : string * string * string }.           (* expected purpose, domain, challenge *)

Record env := {
  e_canon : list (json * option N);                (* canonicaliser: recorded input -> atom of the N-Quads / error *)
  e_times : list string;                           (* texts afgotime.ParseTimeWrapper accepts *)
  e_nonces : list (string * option string);        (* nonce text -> re-encoded / error *)
  e_pvs : list ((string * string) * dec);          (* (proofValue text, proof type) -> decoding and meaning *)
  e_segs : list (string * dec);                    (* JWS signature segment -> decoding and meaning *)
  e_keys : list ((string * string) * N);           (* (did, #fragment) -> key *)
  e_types : list string;                           (* proof types some configured suite accepts *)
  e_fetcher : bool;
  e_di : dienv }.

Fixpoint jlookup {A} (t : list (json * A)) (j : json) : option A :=
  match t with [] => None | (k, v) :: r => if json_eqb j k then Some v else jlookup r j end.
Fixpoint slookup {A} (t : list (string * A)) (s : string) : option A :=
  match t with [] => None | (k, v) :: r => if String.eqb s k then Some v else slookup r s end.
Fixpoint s2lookup {A} (t : list ((string * string) * A)) (a b : string) : option A :=
  match t with
  | [] => None
  | ((k1, k2), v) :: r => if String.eqb a k1 && String.eqb b k2 then Some v else s2lookup r a b
  end.

Definition canon_of (e : env) (j : json) : option N :=
  match jlookup (e_canon e) j with Some r => r | None => None end.
Definition dec_or_err (o : option dec) : dec := match o with Some d => d | None => DErr end.

Definition run_check (e : env) (d : obj) : outcome :=
  let de := e_di e in
  check_embedded
    (canon_of e)
    (fun _ => None)
    (fun s => mem_str s (e_times e))
    (fun s => if String.eqb s "" then Some "" else match slookup (e_nonces e) s with Some r => r | None => None end)
    (fun t ty => dec_or_err (s2lookup (e_pvs e) t ty))
    (fun s => dec_or_err (slookup (e_segs e) s))
    (fun did frag => s2lookup (e_keys e) did frag)
    (fun t => mem_str t (e_types e))
    false
    (fun s => match slookup (d_times de) s with Some _ => true | None => false end)
    (fun s => match slookup (d_times de) s with Some t => t | None => "" end)
    (fun s => mem_str s (d_suites de))
    (fun vm pu => s2lookup (d_keys de) vm pu)
    (fun s => dec_or_err (slookup (d_sigs de) s))
    (d_expect de)
    excluded_keys di_config_members (e_fetcher e) d.

(* the canonicaliser inputs the model builds for a document: every recorded call must be one of them *)
Definition model_inputs (e : env) (d0 : obj) : list json :=
  let d := remove_key "jwt" d0 in
  let time_ok := fun s => mem_str s (e_times e) in
  let nonce_dec := fun s => if String.eqb s "" then Some "" else
                            match slookup (e_nonces e) s with Some r => r | None => None end in
  let pv_dec := fun t ty => dec_or_err (s2lookup (e_pvs e) t ty) in
  let ctx := match lookup d "@context" with Some c => c | None => JNull end in
  JObj (without_proof d) ::
  match lookup d "proof" with
  | Some pe =>
      match proof_entries pe with
      | Some ms =>
          flat_map (fun m =>
            (match new_proof time_ok nonce_dec pv_dec m with
             | Some p => JObj (options_jws p) ::
                         match options_pv excluded_keys d p with Some o => [JObj o] | None => [] end
             | None => []
             end)
            ++ (let '(epu, _, _) := d_expect (e_di e) in
                let epu := if nonempty epu then epu else "assertionMethod" in
                match slookup (d_times (e_di e)) (str_entry (lookup m "created")) with
                | Some t => [JObj (di_config di_config_members ctx (set_key "proofPurpose" (JStr epu) m) t)]
                | None => []
                end)) ms
      | None => []
      end
  | None => []
  end.

Definition recorded_explained (e : env) (d : obj) : bool :=
  let ins := model_inputs e d in
  forallb (fun kv => existsb (json_eqb (fst kv)) ins) (e_canon e).

(* Verified 0 (an empty proof array) cannot be told from Unverified by observation *)
Definition outcome_match (a b : outcome) : bool :=
  match a, b with
  | Unverified, Verified 0 | Verified 0, Unverified => true
  | _, _ => outcome_eqb a b
  end.

(* the registered claims of the JWT a document arrived in (unsecured JWT around a document with an embedded proof) *)
Inductive envelope :=
| EnvVP (iss jti : string)
| EnvVC (iss jti : string) (nbf iat exp : option Z) (fmt : list (Z * string)).   (* fmt: seconds -> RFC3339 (UTC) *)

Fixpoint zlookup (t : list (Z * string)) (z : Z) : string :=
  match t with [] => "" | (k, v) :: r => if Z.eqb z k then v else zlookup r z end.

(* the object the embedded-proof check, the validation and the caller see *)
Definition refined (e : option envelope) (claim : obj) : obj :=
  match e with
  | None => claim
  | Some (EnvVP iss jti) => refine_vp iss jti claim
  | Some (EnvVC iss jti nbf iat exp fmt) => refine_vc (zlookup fmt) iss jti nbf iat exp claim
  end.

(* ---- the JWS-secured JWT forms (JwtModel.v): what ParseCredential / ParsePresentation returned for a token, given what
        the real jwt.IsJWS and the real JWS verification (C08's subject) answered on the strings involved; and the payload
        the real JWTClaims built for a credential object ---- *)
Record jcase := {
  j_vc : bool;                                       (* a credential (ParseCredential) or a presentation *)
  j_input : vc_input;                                (* the bytes: a (quoted) string, or a JSON object *)
  j_isjws : list string;                             (* strings jwt.IsJWS accepts *)
  j_open : list (string * obj);                      (* token -> decoded payload, when the signature verified *)
  j_fmt : list (Z * string);                         (* Unix seconds -> RFC3339 (UTC) *)
  j_obs : option obj;                                (* the members of the returned object; None = refused *)
  (* issuing: (minimise, sub, the credential / presentation object, date -> seconds, the payload JWTClaims built) *)
  j_issue : option (bool * string * obj * list (string * Z) * obj) }.

Definition check_jcase (j : jcase) : bool :=
  let is_jws := fun t => mem_str t (j_isjws j) in
  let open := fun t => slookup (j_open j) t in
  let model := if j_vc j then parse_jwt_vc is_jws open (zlookup (j_fmt j)) (j_input j)
               else match j_input j with InText t => parse_jwt_vp is_jws open t | InObj _ => None end in
  match model with
  | None => true                                     (* not the JWS path *)
  | Some None => match j_obs j with None => true | Some _ => false end
  | Some (Some c) => match j_obs j with Some o => same_members c o | None => false end
  end
  && match j_issue j with
     | None => true
     | Some (min, sub, m, secs, payload) =>
         if j_vc j then
           match jwt_claims (fun d => slookup secs d) min sub m with
           | Some p => same_members p payload
           | None => false
           end
         else same_members (jwt_pres_claims min m) payload
     end.

Record case := {
  c_env : env;
  c_doc : obj;
  c_obs : outcome;                                   (* proof stage: Rejected, or Verified (successful signature checks) *)
  c_strict : option (option json * bool);            (* compaction result, and whether strict validation passed *)
  (* string members of the accepted typed object: (field, top-level members in the order of the bytes, value found) *)
  c_parsed : list (string * list (string * json) * json);
  c_envl : option envelope;                          (* Some: c_doc is the vp / vc claim of an unsecured JWT *)
  c_jwt : option jcase }.                            (* Some: a JWS-secured JWT case (the other fields are unused) *)

Definition check_ld_case (c : case) : bool :=
  let d := refined (c_envl c) (c_doc c) in
  outcome_match (run_check (c_env c) d) (c_obs c)
  && recorded_explained (c_env c) d
  && match c_strict c with
     | None => true
     | Some (comp, ok) => Bool.eqb (strict_ok SFixed d comp) ok
     end
  && forallb (fun t => let '(k, ms, v) := t in
                       json_eqb (match parsed_field k ms with Some x => x | None => JNull end) v) (c_parsed c)
  (* an accepted enveloped document is returned with the refined identity members *)
  && match c_envl c, c_obs c with
     | Some _, Verified (S _) =>
         forallb (fun t => let '(k, _, v) := t in
                           json_eqb (match lookup d k with Some x => x | None => JNull end) v) (c_parsed c)
     | _, _ => true
     end.

Definition check_case (c : case) : bool :=
  match c_jwt c with Some j => check_jcase j | None => check_ld_case c end.

Fixpoint mismatches_from (i : nat) (cs : list case) : list nat :=
  match cs with
  | [] => []
  | c :: r => if check_case c then mismatches_from (S i) r else i :: mismatches_from (S i) r
  end.
Definition mismatches := mismatches_from 0.

(* shorthands for the generated case files *)
Definition E := Build_env.
Definition DI := Build_dienv.
Definition K (e : env) (d : obj) (o : outcome) (s : option (option json * bool))
             (p : list (string * list (string * json) * json)) (v : option envelope) : case := Build_case e d o s p v None.
Definition J := Build_jcase.
Definition no_di : dienv := DI [] [] [] [] ("", "", "").
Definition KJ (j : jcase) : case := Build_case (E [] [] [] [] [] [] [] false no_di) [] Rejected None [] None (Some j).
