(* C07 — the JWT (JWS-secured) forms: what the decoded credential holds comes from the signed payload only, by which
   rule each member is chosen, and issuing then parsing returns the members the issuer had. *)
From Coq Require Import List String Ascii Bool NArith ZArith.
Import ListNotations.
From VF Require Import common.Json C07.Model C07.Proofs C07.JwtModel.
Open Scope string_scope.
Open Scope list_scope.

Lemma lookup_remove_same k m : lookup (remove_key k m) k = None.
Proof.
  induction m as [|[k2 v] m IH]; cbn; [reflexivity|].
  destruct (String.eqb k k2) eqn:E; cbn; [exact IH|]. rewrite E. exact IH.
Qed.

(* ---------- the refinement, member by member ---------- *)
Definition refined_issuer (iss : string) (vc : obj) : option json :=
  if nonempty iss then
    match lookup vc "issuer" with
    | Some (JObj im) => Some (JObj (put_key "id" (JStr iss) im))
    | Some (JStr _) | None => Some (JStr iss)
    | o => o
    end
  else lookup vc "issuer".
Definition refined_issued (fmt : Z -> string) (nbf iat : option Z) (vc : obj) : option json :=
  match iat with
  | Some t => Some (JStr (fmt t))
  | None => match nbf with Some t => Some (JStr (fmt t)) | None => lookup vc "issuanceDate" end
  end.
Definition refined_expired (fmt : Z -> string) (exp : option Z) (vc : obj) : option json :=
  match exp with Some t => Some (JStr (fmt t)) | None => lookup vc "expirationDate" end.
Definition refined_id (jti : string) (vc : obj) : option json :=
  if nonempty jti then Some (JStr jti) else lookup vc "id".

Lemma refine_issuer_step iss m :
  let m' := if nonempty iss then
              match lookup m "issuer" with
              | Some (JObj im) => put_key "issuer" (JObj (put_key "id" (JStr iss) im)) m
              | Some (JStr _) | None => put_key "issuer" (JStr iss) m
              | _ => m
              end
            else m in
  lookup m' "issuer" = refined_issuer iss m /\
  forall k, String.eqb k "issuer" = false -> lookup m' k = lookup m k.
Proof.
  cbn zeta. unfold refined_issuer. destruct (nonempty iss); [|split; reflexivity].
  destruct (lookup m "issuer") as [[| | | |l|im]|] eqn:E; split; intros;
    try reflexivity; try exact E; try apply lookup_put_same; try (apply lookup_put_other; assumption).
Qed.

Lemma refine_vc_lookup fmt iss jti nbf iat exp vc :
  let c := refine_vc fmt iss jti nbf iat exp vc in
  lookup c "issuer" = refined_issuer iss vc /\
  lookup c "issuanceDate" = refined_issued fmt nbf iat vc /\
  lookup c "id" = refined_id jti vc /\
  lookup c "expirationDate" = refined_expired fmt exp vc /\
  forall k, String.eqb k "issuer" = false -> String.eqb k "issuanceDate" = false -> String.eqb k "id" = false ->
            String.eqb k "expirationDate" = false -> lookup c k = lookup vc k.
Proof.
  cbn zeta. unfold refine_vc.
  destruct (refine_issuer_step iss vc) as [I1 I2]. cbn zeta in I1, I2.
  set (m1 := if nonempty iss then _ else vc) in *.
  set (m2 := match nbf with Some t => put_key "issuanceDate" (JStr (fmt t)) m1 | None => m1 end).
  set (m3 := if nonempty jti then put_key "id" (JStr jti) m2 else m2).
  set (m4 := match iat with Some t => put_key "issuanceDate" (JStr (fmt t)) m3 | None => m3 end).
  assert (L2 : forall k, String.eqb k "issuanceDate" = false -> lookup m2 k = lookup m1 k).
  { intros k H. unfold m2. destruct nbf; [apply lookup_put_other; exact H|reflexivity]. }
  assert (L3 : forall k, String.eqb k "id" = false -> lookup m3 k = lookup m2 k).
  { intros k H. unfold m3. destruct (nonempty jti); [apply lookup_put_other; exact H|reflexivity]. }
  assert (L4 : forall k, String.eqb k "issuanceDate" = false -> lookup m4 k = lookup m3 k).
  { intros k H. unfold m4. destruct iat; [apply lookup_put_other; exact H|reflexivity]. }
  assert (L5 : forall k, String.eqb k "expirationDate" = false ->
               lookup (match exp with Some t => put_key "expirationDate" (JStr (fmt t)) m4 | None => m4 end) k = lookup m4 k).
  { intros k H. destruct exp; [apply lookup_put_other; exact H|reflexivity]. }
  repeat split.
  - rewrite L5, L4, L3, L2 by reflexivity. exact I1.
  - rewrite L5 by reflexivity. unfold refined_issued, m4. destruct iat; [apply lookup_put_same|].
    rewrite L3 by reflexivity. unfold m2. destruct nbf; [apply lookup_put_same|]. apply I2. reflexivity.
  - rewrite L5, L4 by reflexivity. unfold refined_id, m3. destruct (nonempty jti); [apply lookup_put_same|].
    rewrite L2 by reflexivity. apply I2. reflexivity.
  - unfold refined_expired. destruct exp; [apply lookup_put_same|].
    rewrite L4, L3, L2 by reflexivity. apply I2. reflexivity.
  - intros k H1 H2 H3 H4. rewrite L5, L4, L3, L2 by assumption. apply I2. exact H1.
Qed.

(* ---------- where the members of the claim object come from ---------- *)
Lemma custom_fields_sub p k v : In (k, v) (custom_fields p) -> In (k, v) p.
Proof. unfold custom_fields. intro H. apply filter_In in H. tauto. Qed.

Lemma vc_claim_from_payload p vc :
  vc_claim p = Some vc -> lookup p "vc" = Some (JObj vc) \/ (forall k v, In (k, v) vc -> In (k, v) p).
Proof.
  unfold vc_claim. destruct (lookup p "vc") as [[| | | |l|[|x r]]|] eqn:E; try discriminate.
  - destruct (custom_fields p) eqn:C; [discriminate|]. intro H. inversion H; subst. right. rewrite <- C. apply custom_fields_sub.
  - destruct (custom_fields p) eqn:C; [discriminate|]. intro H. inversion H; subst. right. rewrite <- C. apply custom_fields_sub.
  - intro H. inversion H; subst. left. reflexivity.
  - destruct (custom_fields p) eqn:C; [discriminate|]. intro H. inversion H; subst. right. rewrite <- C. apply custom_fields_sub.
Qed.

Lemma decode_cred_jwt_spec fmt p c :
  decode_cred_jwt fmt p = Some c ->
  exists vc iss jti nbf iat exp,
    vc_claim p = Some vc /\ str_claim p "iss" = Some iss /\ str_claim p "jti" = Some jti /\
    num_claim p "nbf" = Some nbf /\ num_claim p "iat" = Some iat /\ num_claim p "exp" = Some exp /\
    c = refine_vc fmt iss jti nbf iat exp vc.
Proof.
  unfold decode_cred_jwt.
  destruct (str_claim p "iss") as [iss|]; [|discriminate]. destruct (str_claim p "sub"); [|discriminate].
  destruct (str_claim p "jti") as [jti|]; [|discriminate]. destruct (num_claim p "nbf") as [nbf|]; [|discriminate].
  destruct (num_claim p "iat") as [iat|]; [|discriminate]. destruct (num_claim p "exp") as [exp|]; [|discriminate].
  destruct (aud_ok p); [|discriminate]. cbn [negb]. destruct (vc_claim p) as [vc|]; [|discriminate].
  intro H. inversion H. exists vc, iss, jti, nbf, iat, exp. repeat split; reflexivity.
Qed.

(* the decoded credential, member by member *)
Lemma decode_member_origin fmt p c :
  decode_cred_jwt fmt p = Some c ->
  exists vc iss jti nbf iat exp,
    vc_claim p = Some vc /\ str_claim p "iss" = Some iss /\ str_claim p "jti" = Some jti /\
    num_claim p "nbf" = Some nbf /\ num_claim p "iat" = Some iat /\ num_claim p "exp" = Some exp /\
    lookup c "issuer" = refined_issuer iss vc /\
    lookup c "issuanceDate" = refined_issued fmt nbf iat vc /\
    lookup c "id" = refined_id jti vc /\
    lookup c "expirationDate" = refined_expired fmt exp vc /\
    forall k, String.eqb k "issuer" = false -> String.eqb k "issuanceDate" = false -> String.eqb k "id" = false ->
              String.eqb k "expirationDate" = false -> lookup c k = lookup vc k.
Proof.
  intro H. destruct (decode_cred_jwt_spec fmt p c H) as (vc & iss & jti & nbf & iat & exp & H1 & H2 & H3 & H4 & H5 & H6 & ->).
  exists vc, iss, jti, nbf, iat, exp.
  destruct (refine_vc_lookup fmt iss jti nbf iat exp vc) as (A & B & C & D & E). cbn zeta in *.
  repeat split; assumption.
Qed.

(* ---------- ParseCredential: only the token counts ---------- *)
Section Parse.
  Variable is_jws : string -> bool.
  Variable open : string -> option obj.
  Variable fmt : Z -> string.

  Lemma parse_reports_signed i c :
    parse_jwt_vc is_jws open fmt i = Some (Some c) ->
    exists t p, token_of is_jws i = Some t /\ open t = Some p /\ decode_cred_jwt fmt p = Some c.
  Proof.
    unfold parse_jwt_vc. destruct (token_of is_jws i) as [t|]; [|discriminate].
    destruct (open t) as [p|] eqn:O; [|discriminate]. intro H. inversion H. exists t, p. auto.
  Qed.

  Lemma wrapper_ignored m m' :
    lookup m "jwt" = lookup m' "jwt" ->
    parse_jwt_vc is_jws open fmt (InObj m) = parse_jwt_vc is_jws open fmt (InObj m').
  Proof. intro H. unfold parse_jwt_vc, token_of. rewrite H. reflexivity. Qed.

  Lemma wrapper_is_token m t :
    lookup m "jwt" = Some (JStr t) -> nonempty t = true -> is_jws t = true ->
    parse_jwt_vc is_jws open fmt (InObj m) = parse_jwt_vc is_jws open fmt (InText t).
  Proof. intros H N J. unfold parse_jwt_vc, token_of. rewrite H, N, J. reflexivity. Qed.

  Lemma parse_vp_reports_signed t c :
    parse_jwt_vp is_jws open t = Some (Some c) ->
    exists p iss jti vp, open t = Some p /\ str_claim p "iss" = Some iss /\ str_claim p "jti" = Some jti /\
                         lookup p "vp" = Some (JObj vp) /\ c = refine_vp iss jti vp.
  Proof.
    unfold parse_jwt_vp. destruct (is_jws t); [|discriminate]. destruct (open t) as [p|] eqn:O; [|discriminate].
    unfold decode_pres_jwt.
    destruct (str_claim p "iss") as [iss|] eqn:E1; [|discriminate]. destruct (str_claim p "sub"); [|discriminate].
    destruct (str_claim p "jti") as [jti|] eqn:E2; [|discriminate]. destruct (num_claim p "nbf"); [|discriminate].
    destruct (num_claim p "iat"); [|discriminate]. destruct (num_claim p "exp"); [|discriminate].
    destruct (aud_ok p); [|discriminate]. cbn [negb].
    destruct (lookup p "vp") as [[| | | | |vp]|] eqn:E3; try discriminate.
    intro H. inversion H. exists p, iss, jti, vp. repeat split; auto.
  Qed.
End Parse.

Lemma refine_vp_lookup iss jti vp :
  lookup (refine_vp iss jti vp) "holder" = (if nonempty iss then Some (JStr iss) else lookup vp "holder") /\
  lookup (refine_vp iss jti vp) "id" = (if nonempty jti then Some (JStr jti) else lookup vp "id") /\
  forall k, String.eqb k "holder" = false -> String.eqb k "id" = false -> lookup (refine_vp iss jti vp) k = lookup vp k.
Proof.
  unfold refine_vp. repeat split.
  - destruct (nonempty jti); [rewrite lookup_put_other by reflexivity|];
      (destruct (nonempty iss); [apply lookup_put_same|reflexivity]).
  - destruct (nonempty jti); [apply lookup_put_same|].
    destruct (nonempty iss); [apply lookup_put_other|]; reflexivity.
  - intros k H1 H2. destruct (nonempty jti); [rewrite lookup_put_other by exact H2|];
      (destruct (nonempty iss); [apply lookup_put_other; exact H1|reflexivity]).
Qed.

(* ---------- issuing and parsing again ---------- *)
Lemma lookup_app_l (a b : obj) k v : lookup a k = Some v -> lookup (a ++ b) k = Some v.
Proof. induction a as [|[k2 v2] a IH]; cbn; [discriminate|]. destruct (String.eqb k k2); auto. Qed.
Lemma lookup_app_r (a b : obj) k : lookup a k = None -> lookup (a ++ b) k = lookup b k.
Proof. induction a as [|[k2 v2] a IH]; cbn; [reflexivity|]. destruct (String.eqb k k2); [discriminate|auto]. Qed.

Lemma lookup_minimise m k :
  String.eqb k "issuer" = false -> String.eqb k "issuanceDate" = false -> String.eqb k "id" = false ->
  String.eqb k "expirationDate" = false -> lookup (minimise m) k = lookup m k.
Proof.
  intros H1 H2 H3 H4. unfold minimise.
  set (m' := remove_key "expirationDate" (remove_key "issuanceDate" (remove_key "id" m))).
  assert (E : lookup m' k = lookup m k).
  { unfold m'. rewrite !lookup_remove_key by assumption. reflexivity. }
  destruct (lookup m' "issuer") as [[| | | | |im]|];
    try (rewrite lookup_remove_key by assumption; exact E).
  rewrite lookup_replace_other by assumption. exact E.
Qed.

Lemma lookup_minimise_gone m :
  lookup (minimise m) "id" = None /\ lookup (minimise m) "issuanceDate" = None /\ lookup (minimise m) "expirationDate" = None.
Proof.
  unfold minimise.
  set (m' := remove_key "expirationDate" (remove_key "issuanceDate" (remove_key "id" m))).
  assert (A : lookup m' "id" = None).
  { unfold m'. rewrite !(lookup_remove_key _ _ "id") by reflexivity. apply lookup_remove_same. }
  assert (B : lookup m' "issuanceDate" = None).
  { unfold m'. rewrite (lookup_remove_key _ _ "issuanceDate") by reflexivity. apply lookup_remove_same. }
  assert (C : lookup m' "expirationDate" = None) by apply lookup_remove_same.
  destruct (lookup m' "issuer") as [[| | | | |im]|];
    rewrite ?(lookup_replace_other "issuer"), ?(lookup_remove_key "issuer") by reflexivity; auto.
Qed.

Lemma lookup_minimise_issuer m :
  lookup (minimise m) "issuer" =
    match lookup m "issuer" with Some (JObj im) => Some (JObj (remove_key "id" im)) | _ => None end.
Proof.
  unfold minimise.
  set (m' := remove_key "expirationDate" (remove_key "issuanceDate" (remove_key "id" m))).
  assert (E : lookup m' "issuer" = lookup m "issuer").
  { unfold m'. rewrite !lookup_remove_key by reflexivity. reflexivity. }
  rewrite <- E. destruct (lookup m' "issuer") as [[| | | | |im]|] eqn:L; try apply lookup_remove_same.
  eapply lookup_replace_same. exact L.
Qed.

(* the payload JWTClaims builds, read back by the decoder *)
Lemma jwt_claims_read secs min sub m p :
  jwt_claims secs min sub m = Some p ->
  exists n,
    secs (str_entry (lookup m "issuanceDate")) = Some n /\
    str_claim p "iss" = Some (issuer_id m) /\ str_claim p "jti" = Some (str_entry (lookup m "id")) /\
    str_claim p "sub" = Some sub /\ num_claim p "nbf" = Some (Some n) /\ num_claim p "iat" = Some (Some n) /\
    aud_ok p = true /\ lookup p "vc" = Some (JObj (vc_of min m)) /\
    num_claim p "exp" = Some (match lookup m "expirationDate" with Some (JStr e) => secs e | _ => None end).
Proof.
  unfold jwt_claims. destruct (secs (str_entry (lookup m "issuanceDate"))) as [n|]; [|discriminate].
  set (vc := vc_of min m).
  assert (X : forall ex, (ex = [] \/ exists x, ex = [("exp", JNum x)]) ->
              let p := ex ++ [("iat", JNum n)] ++ opt_s "iss" (issuer_id m) ++ opt_s "jti" (str_entry (lookup m "id"))
                       ++ [("nbf", JNum n)] ++ opt_s "sub" sub ++ [("vc", JObj vc)] in
              str_claim p "iss" = Some (issuer_id m) /\ str_claim p "jti" = Some (str_entry (lookup m "id")) /\
              str_claim p "sub" = Some sub /\ num_claim p "nbf" = Some (Some n) /\ num_claim p "iat" = Some (Some n) /\
              aud_ok p = true /\ lookup p "vc" = Some (JObj vc) /\
              num_claim p "exp" = Some (match ex with [(_, JNum x)] => Some x | _ => None end)).
  { intros ex Hex. unfold opt_s, str_claim, num_claim, aud_ok.
    destruct (nonempty (issuer_id m)) eqn:E1; destruct (nonempty (str_entry (lookup m "id"))) eqn:E2;
      destruct (nonempty sub) eqn:E3;
      repeat match goal with H : nonempty _ = false |- _ => apply nonempty_false in H; rewrite H end;
      destruct Hex as [->|[x ->]]; cbn; repeat split; reflexivity. }
  destruct (lookup m "expirationDate") as [[| | |e| |]|]; try (intro H; inversion H; subst p; exists n;
    destruct (X [] (or_introl eq_refl)) as (A1 & A2 & A3 & A4 & A5 & A6 & A7 & A8); cbn zeta in *; repeat split; assumption).
  destruct (secs e) as [x|]; [|discriminate]. intro H. inversion H. subst p. exists n.
  destruct (X [("exp", JNum x)] (or_intror (ex_intro _ x eq_refl))) as (A1 & A2 & A3 & A4 & A5 & A6 & A7 & A8).
  cbn zeta in *. repeat split; assumption.
Qed.

(* ROUND TRIP.  A credential object whose issuer has a non-empty id (a string, or an object holding it), whose dates are
   what the formatter prints for their own second (whole seconds, UTC) and whose id, when present, is a non-empty
   string: the payload JWTClaims builds - full or minimised - decodes to a credential with the same members; the issuer
   object of the minimised form gets its id back. *)
Definition date_ok (secs : string -> option Z) (fmt : Z -> string) (o : option json) : Prop :=
  match o with Some (JStr d) => exists n, secs d = Some n /\ fmt n = d | _ => False end.
Definition id_ok (o : option json) : Prop :=
  match o with None => True | Some (JStr s) => nonempty s = true | _ => False end.

Lemma jwt_roundtrip secs fmt min sub m p ctx :
  jwt_claims secs min sub m = Some p ->
  lookup m "@context" = Some ctx ->
  nonempty (issuer_id m) = true ->
  date_ok secs fmt (lookup m "issuanceDate") ->
  (lookup m "expirationDate" = None \/ date_ok secs fmt (lookup m "expirationDate")) ->
  id_ok (lookup m "id") ->
  exists c, decode_cred_jwt fmt p = Some c /\
    (forall k, String.eqb k "issuer" = false -> lookup c k = lookup m k) /\
    match lookup m "issuer" with
    | Some (JObj im) => exists im', lookup c "issuer" = Some (JObj im') /\ forall k, lookup im' k = lookup im k
    | Some (JStr s) => lookup c "issuer" = Some (JStr s)
    | _ => False
    end.
Proof.
  intros HP Hctx Hiss Hd He Hid.
  destruct (jwt_claims_read secs min sub m p HP) as (n & Hn & C1 & C2 & C3 & C4 & C5 & C6 & C7 & C8).
  remember (vc_of min m) as vc eqn:Hvc in *. unfold vc_of in Hvc.
  assert (Vo : forall k, String.eqb k "issuer" = false -> String.eqb k "issuanceDate" = false -> String.eqb k "id" = false ->
                         String.eqb k "expirationDate" = false -> lookup vc k = lookup m k).
  { intros k H1 H2 H3 H4. rewrite Hvc. destruct min; [apply lookup_minimise; assumption|reflexivity]. }
  assert (VC : vc_claim p = Some vc).
  { unfold vc_claim. rewrite C7.
    pose proof (Vo "@context" eq_refl eq_refl eq_refl eq_refl) as X. rewrite Hctx in X.
    destruct vc as [|x r]; [discriminate X|reflexivity]. }
  set (exp := match lookup m "expirationDate" with Some (JStr e) => secs e | _ => None end) in *.
  exists (refine_vc fmt (issuer_id m) (str_entry (lookup m "id")) (Some n) (Some n) exp vc).
  split.
  { unfold decode_cred_jwt. rewrite C1, C2, C3, C4, C5, C8, C6, VC. reflexivity. }
  destruct (refine_vc_lookup fmt (issuer_id m) (str_entry (lookup m "id")) (Some n) (Some n) exp vc) as (A & B & C & D & E).
  cbn zeta in *. split.
  - intros k Hk.
    destruct (String.eqb k "issuanceDate") eqn:K1; [apply String.eqb_eq in K1; subst k|].
    { rewrite B. unfold refined_issued. unfold date_ok in Hd.
      destruct (lookup m "issuanceDate") as [[| | |d| |]|]; try contradiction.
      destruct Hd as (n' & S & F). cbn [str_entry] in Hn. rewrite S in Hn. injection Hn as Q. rewrite <- Q, F. reflexivity. }
    destruct (String.eqb k "id") eqn:K2; [apply String.eqb_eq in K2; subst k|].
    { rewrite C. unfold refined_id. unfold id_ok in Hid.
      assert (G : lookup vc "id" = None \/ lookup vc "id" = lookup m "id").
      { rewrite Hvc. destruct min; [left; apply lookup_minimise_gone|right; reflexivity]. }
      destruct (lookup m "id") as [[| | |s| |]|] eqn:L; try contradiction; cbn [str_entry].
      - rewrite Hid. reflexivity.
      - cbn. destruct G as [G|G]; rewrite G; reflexivity. }
    destruct (String.eqb k "expirationDate") eqn:K3; [apply String.eqb_eq in K3; subst k|].
    { rewrite D. unfold refined_expired, exp.
      assert (G : lookup m "expirationDate" = None -> lookup vc "expirationDate" = None).
      { intro N. rewrite Hvc. destruct min; [apply lookup_minimise_gone|exact N]. }
      destruct He as [N|Hx].
      - rewrite N in *. apply G. reflexivity.
      - unfold date_ok in Hx. destruct (lookup m "expirationDate") as [[| | |d| |]|]; try contradiction.
        destruct Hx as (x & S & F). rewrite S, F. reflexivity. }
    rewrite E by assumption. apply Vo; assumption.
  - rewrite A. unfold refined_issuer. rewrite Hiss.
    assert (G : lookup vc "issuer" = lookup m "issuer" \/
                lookup vc "issuer" = match lookup m "issuer" with Some (JObj im) => Some (JObj (remove_key "id" im)) | _ => None end).
    { rewrite Hvc. destruct min; [right; apply lookup_minimise_issuer|left; reflexivity]. }
    unfold issuer_id in *.
    destruct (lookup m "issuer") as [[| | |s| |im]|] eqn:L; try (cbn in Hiss; discriminate).
    + destruct G as [G|G]; rewrite G; reflexivity.
    + assert (I : lookup im "id" = Some (JStr (str_entry (lookup im "id")))).
      { destruct (lookup im "id") as [[| | |s| |]|]; try (cbn in Hiss; discriminate). reflexivity. }
      destruct G as [G|G]; rewrite G; eexists; (split; [reflexivity|]); intro k;
        (destruct (String.eqb k "id") eqn:K; [apply String.eqb_eq in K; subst k; rewrite lookup_put_same; symmetry; exact I|]);
        rewrite lookup_put_other by exact K; [reflexivity|apply lookup_remove_key; exact K].
Qed.
