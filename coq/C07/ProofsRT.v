(* C07 — round trip: a document signed through signObject verifies (proofValue representation). *)
From Coq Require Import List String Ascii Bool NArith ZArith Lia.
Import ListNotations.
From VF Require Import common.Json gen.Gen_C07 C07.Model C07.Proofs.
Open Scope string_scope.
Open Scope list_scope.

Section RoundTrip.
  Variable canon : json -> option N.
  Variable compact_sec : json -> option json.
  Variable time_ok : string -> bool.
  Variable nonce_dec : string -> option string.
  Variable pv_dec : string -> string -> dec.
  Variable seg_dec : string -> dec.
  Variable resolve : string -> string -> option N.
  Variable accepts : string -> bool.
  Variable compact_proof : bool.

  Definition pv_proof (c : sign_ctx) (sigtext : string) : lproof :=
    let p := proof_of_ctx c in
    {| p_type := p_type p; p_created := p_created p; p_creator := p_creator p; p_vm := p_vm p;
       p_pv := sigtext; p_pv_len := true; p_jws := ""; p_purpose := p_purpose p; p_domain := p_domain p;
       p_nonce := p_nonce p; p_challenge := p_challenge p; p_repr := RProofValue; p_chain := None |}.

  Lemma pv_lookup_pv c t : s_repr c = RProofValue -> lookup (jsonld_object (pv_proof c t)) "proofValue" = Some (JStr t).
  Proof. intro R. unfold pv_proof, proof_of_ctx, jsonld_object, opt_member. cbn.
    destruct (nonempty (s_challenge c)); destruct (nonempty (s_domain c)); destruct (nonempty (s_nonce c));
    destruct (nonempty (if nonempty (s_purpose c) then s_purpose c else "assertionMethod")); destruct (nonempty (s_vm c)); reflexivity. Qed.
  Lemma pv_lookup_chain c t : s_repr c = RProofValue -> lookup (jsonld_object (pv_proof c t)) "capabilityChain" = None.
  Proof. intro R. unfold pv_proof, proof_of_ctx, jsonld_object, opt_member. cbn.
    destruct (nonempty (s_challenge c)); destruct (nonempty (s_domain c)); destruct (nonempty (s_nonce c));
    destruct (nonempty (if nonempty (s_purpose c) then s_purpose c else "assertionMethod")); destruct (nonempty (s_vm c)); reflexivity. Qed.

  Lemma options_same c t d d' :
    s_repr c = RProofValue -> lookup d' "@context" = lookup d "@context" ->
    options_pv excluded_keys d' (pv_proof c t) = options_pv excluded_keys d (proof_of_ctx c).
  Proof.
    intros R Hc. unfold options_pv. rewrite Hc.
    unfold pv_proof, proof_of_ctx, jsonld_object, opt_member. cbn. rewrite R. cbn.
    destruct (nonempty (s_challenge c)); destruct (nonempty (s_domain c)); destruct (nonempty (s_nonce c));
    destruct (nonempty (if nonempty (s_purpose c) then s_purpose c else "assertionMethod")); destruct (nonempty (s_vm c));
    destruct (lookup d "@context"); reflexivity.
  Qed.

  Lemma signed_proof_pv c t : s_repr c = RProofValue -> signed_proof c t = jsonld_object (pv_proof c t).
  Proof. intro R. unfold signed_proof, pv_proof. rewrite R. reflexivity. Qed.

  Theorem verify_sign_pv d c t k m :
    s_repr c = RProofValue -> s_nonce c = "" ->
    lookup d "proof" = None ->
    time_ok (s_created c) = true -> nonce_dec "" = Some "" ->
    sign_message canon compact_sec compact_proof excluded_keys d c = Some m ->
    pv_dec t (s_type c) = DSig (SBy k m) ->
    key_of resolve (proof_of_ctx c) = Some k -> accepts (s_type c) = true ->
    verify_object canon compact_sec time_ok nonce_dec pv_dec seg_dec resolve accepts compact_proof excluded_keys
      (add_proof d (signed_proof c t)) = Verified 1.
  Proof.
    intros R Hn Hnp Ht Hnd Hs Hpv Hk Ha.
    rewrite (signed_proof_pv c t R).
    unfold add_proof. rewrite Hnp. cbn [app].
    unfold verify_object. rewrite lookup_set_key_same. cbn [proof_entries all_some as_obj].
    assert (NP : new_proof time_ok nonce_dec pv_dec (jsonld_object (pv_proof c t)) = Some (pv_proof c t)).
    { unfold new_proof. rewrite fld_created. cbn [pv_proof proof_of_ctx p_created]. rewrite Ht. cbn [negb].
      rewrite (pv_lookup_pv c t R), fld_type. cbn [str_entry pv_proof proof_of_ctx p_type]. rewrite Hpv.
      cbn [negb andb]. rewrite fld_nonce. cbn [pv_proof proof_of_ctx p_nonce]. rewrite Hn, Hnd.
      rewrite (pv_lookup_chain c t R).
      rewrite fld_creator, fld_vm, fld_purpose, fld_domain, fld_challenge.
      unfold pv_proof, proof_of_ctx. cbn. rewrite ?Hn. reflexivity. }
    rewrite NP. change verify_object_checks_all_proofs with true. cbv iota. cbn [forallb length].
    assert (V : verify_one canon compact_sec pv_dec seg_dec resolve accepts compact_proof excluded_keys
                  (set_key "proof" (JArr [JObj (jsonld_object (pv_proof c t))]) d) (pv_proof c t) = true).
    { unfold verify_one.
      assert (K : key_of resolve (pv_proof c t) = key_of resolve (proof_of_ctx c)) by reflexivity.
      rewrite K, Hk. cbn [pv_proof proof_of_ctx p_type]. rewrite Ha. cbn [andb].
      unfold sign_message, verify_data in *. cbn [pv_proof p_repr]. 
      rewrite (options_same c t d _ R) by (apply lookup_set_key_other; reflexivity).
      unfold without_proof. rewrite remove_key_set_key.
      assert (RP : p_repr (proof_of_ctx c) = RProofValue) by (cbn; exact R). rewrite RP in Hs.
      unfold without_proof in Hs. rewrite Hs.
      unfold verify_value. cbn [pv_proof p_repr p_pv p_type proof_of_ctx]. rewrite Hpv.
      rewrite N.eqb_refl, msg_eqb_refl. reflexivity. }
    rewrite V. reflexivity.
  Qed.

  (* ---------- detached-JWS representation ---------- *)
  Fixpoint no_dot (s : string) : bool :=
    match s with EmptyString => true | String a r => negb (Ascii.eqb a ".") && no_dot r end.

  Lemma split_nodot s : no_dot s = true -> split_on "." s = [s].
  Proof.
    induction s as [|a r IH]; cbn; [reflexivity|]. intro H. apply andb_true_iff in H as [H1 H2].
    apply negb_true_iff in H1. rewrite H1, (IH H2). reflexivity.
  Qed.
  Lemma split_app a r : no_dot a = true -> split_on "." (String.append a (String "." r)) = a :: split_on "." r.
  Proof.
    induction a as [|x a IH]; cbn; [reflexivity|]. intro H. apply andb_true_iff in H as [H1 H2].
    apply negb_true_iff in H1. rewrite H1, (IH H2). reflexivity.
  Qed.
  Lemma app_assoc a b c : String.append (String.append a b) c = String.append a (String.append b c).
  Proof. induction a as [|x a IH]; cbn; [reflexivity|]. rewrite IH. reflexivity. Qed.
  Lemma ne_app a b : nonempty b = true -> nonempty (String.append a b) = true.
  Proof. destruct a; cbn; [auto|reflexivity]. Qed.

  Definition jws_proof (c : sign_ctx) (t : string) : lproof :=
    let p := proof_of_ctx c in
    {| p_type := p_type p; p_created := p_created p; p_creator := p_creator p; p_vm := p_vm p;
       p_pv := ""; p_pv_len := false; p_jws := String.append (p_jws p) t; p_purpose := p_purpose p; p_domain := p_domain p;
       p_nonce := p_nonce p; p_challenge := p_challenge p; p_repr := RJws; p_chain := None |}.

  Lemma signed_proof_jws c t : s_repr c = RJws -> signed_proof c t = jsonld_object (jws_proof c t).
  Proof. intro R. unfold signed_proof, jws_proof. rewrite R. reflexivity. Qed.

  Lemma jws_text c t : s_repr c = RJws ->
    p_jws (jws_proof c t) = String.append (s_alg_header c) (String "." (String "." t)).
  Proof. intro R. unfold jws_proof, proof_of_ctx. cbn [p_jws]. rewrite R. rewrite app_assoc. reflexivity. Qed.

  Lemma jws_lookups c t : s_repr c = RJws ->
    lookup (jsonld_object (jws_proof c t)) "proofValue" = None /\
    lookup (jsonld_object (jws_proof c t)) "jws" = Some (JStr (p_jws (jws_proof c t))) /\
    lookup (jsonld_object (jws_proof c t)) "capabilityChain" = None.
  Proof.
    intro R. assert (NE : nonempty (p_jws (jws_proof c t)) = true).
    { rewrite (jws_text c t R). apply ne_app. reflexivity. }
    unfold jsonld_object, opt_member. rewrite NE. generalize (p_jws (jws_proof c t)). intro J.
    unfold jws_proof, proof_of_ctx. cbn.
    destruct (nonempty (s_challenge c)); destruct (nonempty (s_domain c)); destruct (nonempty (s_nonce c));
    destruct (nonempty (if nonempty (s_purpose c) then s_purpose c else "assertionMethod")); destruct (nonempty (s_vm c));
    repeat split; reflexivity.
  Qed.

  Lemma options_jws_same c t : s_repr c = RJws -> options_jws (jws_proof c t) = options_jws (proof_of_ctx c).
  Proof.
    intro R. unfold options_jws, jsonld_object, opt_member.
    assert (NE : nonempty (p_jws (jws_proof c t)) = true) by (rewrite (jws_text c t R); apply ne_app; reflexivity).
    assert (NE0 : nonempty (p_jws (proof_of_ctx c)) = true).
    { unfold proof_of_ctx. cbn. rewrite R. apply ne_app. reflexivity. }
    rewrite NE, NE0. generalize (p_jws (jws_proof c t)) (p_jws (proof_of_ctx c)). intros J J0.
    unfold jws_proof, proof_of_ctx. cbn.
    destruct (nonempty (s_challenge c)); destruct (nonempty (s_domain c)); destruct (nonempty (s_nonce c));
    destruct (nonempty (if nonempty (s_purpose c) then s_purpose c else "assertionMethod")); destruct (nonempty (s_vm c));
    reflexivity.
  Qed.

  Theorem verify_sign_jws d c t k m :
    s_repr c = RJws -> s_nonce c = "" ->
    no_dot (s_alg_header c) = true -> no_dot t = true -> nonempty t = true ->
    lookup d "proof" = None ->
    time_ok (s_created c) = true -> nonce_dec "" = Some "" ->
    sign_message canon compact_sec compact_proof excluded_keys d c = Some m ->
    seg_dec t = DSig (SBy k m) ->
    key_of resolve (proof_of_ctx c) = Some k -> accepts (s_type c) = true ->
    verify_object canon compact_sec time_ok nonce_dec pv_dec seg_dec resolve accepts compact_proof excluded_keys
      (add_proof d (signed_proof c t)) = Verified 1.
  Proof.
    intros R Hn Hh Ht Hne Hnp Htime Hnd Hs Hseg Hk Ha.
    rewrite (signed_proof_jws c t R).
    unfold add_proof. rewrite Hnp. cbn [app].
    unfold verify_object. rewrite lookup_set_key_same. cbn [proof_entries all_some as_obj].
    destruct (jws_lookups c t R) as (L1 & L2 & L3).
    assert (SPL : split_on "." (p_jws (jws_proof c t)) = [s_alg_header c; ""; t]).
    { rewrite (jws_text c t R). rewrite (split_app _ _ Hh). f_equal.
      change (String "." t) with (String.append "" (String "." t)). rewrite (split_app "" t eq_refl).
      rewrite (split_nodot t Ht). reflexivity. }
    assert (SPL0 : split_on "." (p_jws (proof_of_ctx c)) = [s_alg_header c; ""; ""]).
    { unfold proof_of_ctx. cbn. rewrite R. change ".." with (String "." (String "." "")).
      rewrite (split_app _ _ Hh). reflexivity. }
    assert (NE : nonempty (p_jws (jws_proof c t)) = true) by (rewrite (jws_text c t R); apply ne_app; reflexivity).
    assert (NP : new_proof time_ok nonce_dec pv_dec (jsonld_object (jws_proof c t)) = Some (jws_proof c t)).
    { unfold new_proof. rewrite fld_created. cbn [jws_proof proof_of_ctx p_created]. rewrite Htime. cbn [negb].
      rewrite L1, L2. cbn [str_entry]. rewrite NE. cbn [negb andb]. rewrite fld_nonce. cbn [jws_proof proof_of_ctx p_nonce].
      rewrite Hn, Hnd, L3. rewrite fld_type, fld_creator, fld_vm, fld_purpose, fld_domain, fld_challenge.
      unfold jws_proof, proof_of_ctx. cbn. rewrite ?Hn, ?R. reflexivity. }
    rewrite NP. change verify_object_checks_all_proofs with true. cbv iota. cbn [forallb length].
    assert (V : verify_one canon compact_sec pv_dec seg_dec resolve accepts compact_proof excluded_keys
                  (set_key "proof" (JArr [JObj (jsonld_object (jws_proof c t))]) d) (jws_proof c t) = true).
    { unfold verify_one.
      assert (K : key_of resolve (jws_proof c t) = key_of resolve (proof_of_ctx c)) by reflexivity.
      rewrite K, Hk. cbn [jws_proof proof_of_ctx p_type]. rewrite Ha. cbn [andb].
      unfold sign_message, verify_data in *.
      assert (RP : p_repr (proof_of_ctx c) = RJws) by (cbn; exact R). rewrite RP in Hs.
      cbn [jws_proof p_repr]. rewrite (options_jws_same c t R).
      unfold without_proof in *. rewrite remove_key_set_key.
      destruct (canon (JObj (options_jws (proof_of_ctx c)))) as [co|]; [|discriminate].
      destruct (compact_if compact_sec compact_proof (JObj (remove_key "proof" d))) as [d'|]; [|discriminate].
      destruct (canon d') as [cd|]; [|discriminate].
      rewrite SPL0 in Hs. change (p_jws (jws_proof c t)) with (p_jws (jws_proof c t)). rewrite SPL.
      unfold verify_value. cbn [jws_proof p_repr]. change (p_jws _) with (p_jws (jws_proof c t)) at 1.
      rewrite SPL. rewrite Hne, Hseg. inversion Hs; subst. rewrite N.eqb_refl, msg_eqb_refl. reflexivity. }
    rewrite V. reflexivity.
  Qed.
End RoundTrip.
