(* C07 — round trip: a document signed through signObject verifies (proofValue representation). *)
From Coq Require Import List String Ascii Bool NArith ZArith Lia.
Import ListNotations.
From VF Require Import common.Json gen.Gen_C07 C07.Model C07.Proofs.
Open Scope string_scope.
Open Scope list_scope.

Section RoundTrip.
  Variable canon : json -> option N.
  Variable compact_sec : json -> option json.
  Variable time_ok : string -> bool.
  Variable nonce_dec : string -> option string.
  Variable pv_dec : string -> string -> dec.
  Variable seg_dec : string -> dec.
  Variable resolve : string -> string -> option N.
  Variable accepts : string -> bool.
  Variable compact_proof : bool.

  Definition pv_proof (c : sign_ctx) (sigtext : string) : lproof :=
    let p := proof_of_ctx c in
    {| p_type := p_type p; p_created := p_created p; p_creator := p_creator p; p_vm := p_vm p;
       p_pv := sigtext; p_pv_len := true; p_jws := ""; p_purpose := p_purpose p; p_domain := p_domain p;
       p_nonce := p_nonce p; p_challenge := p_challenge p; p_repr := RProofValue; p_chain := None |}.

  Lemma pv_lookup_pv c t : s_repr c = RProofValue -> lookup (jsonld_object (pv_proof c t)) "proofValue" = Some (JStr t).
  Proof. intro R. unfold pv_proof, proof_of_ctx, jsonld_object, opt_member. cbn.
    destruct (nonempty (s_challenge c)); destruct (nonempty (s_domain c)); destruct (nonempty (s_nonce c));
    destruct (nonempty (if nonempty (s_purpose c) then s_purpose c else "assertionMethod")); destruct (nonempty (s_vm c)); reflexivity. Qed.
  Lemma pv_lookup_chain c t : s_repr c = RProofValue -> lookup (jsonld_object (pv_proof c t)) "capabilityChain" = None.
  Proof. intro R. unfold pv_proof, proof_of_ctx, jsonld_object, opt_member. cbn.
    destruct (nonempty (s_challenge c)); destruct (nonempty (s_domain c)); destruct (nonempty (s_nonce c));
    destruct (nonempty (if nonempty (s_purpose c) then s_purpose c else "assertionMethod")); destruct (nonempty (s_vm c)); reflexivity. Qed.

  Lemma options_same c t d d' :
    s_repr c = RProofValue -> lookup d' "@context" = lookup d "@context" ->
    options_pv excluded_keys d' (pv_proof c t) = options_pv excluded_keys d (proof_of_ctx c).
  Proof.
    intros R Hc. unfold options_pv. rewrite Hc.
    unfold pv_proof, proof_of_ctx, jsonld_object, opt_member. cbn. rewrite R. cbn.
    destruct (nonempty (s_challenge c)); destruct (nonempty (s_domain c)); destruct (nonempty (s_nonce c));
    destruct (nonempty (if nonempty (s_purpose c) then s_purpose c else "assertionMethod")); destruct (nonempty (s_vm c));
    destruct (lookup d "@context"); reflexivity.
  Qed.

  Lemma signed_proof_pv c t : s_repr c = RProofValue -> signed_proof c t = jsonld_object (pv_proof c t).
  Proof. intro R. unfold signed_proof, pv_proof. rewrite R. reflexivity. Qed.

  Theorem verify_sign_pv d c t k m :
    s_repr c = RProofValue -> s_nonce c = "" ->
    lookup d "proof" = None ->
    time_ok (s_created c) = true -> nonce_dec "" = Some "" ->
    sign_message canon compact_sec compact_proof excluded_keys d c = Some m ->
    pv_dec t (s_type c) = DSig (SBy k m) ->
    key_of resolve (proof_of_ctx c) = Some k -> accepts (s_type c) = true ->
    verify_object canon compact_sec time_ok nonce_dec pv_dec seg_dec resolve accepts compact_proof excluded_keys
      (add_proof d (signed_proof c t)) = Verified 1.
  Proof.
    intros R Hn Hnp Ht Hnd Hs Hpv Hk Ha.
    rewrite (signed_proof_pv c t R).
    unfold add_proof. rewrite Hnp. cbn [app].
    unfold verify_object. rewrite lookup_set_key_same. cbn [proof_entries all_some as_obj].
    assert (NP : new_proof time_ok nonce_dec pv_dec (jsonld_object (pv_proof c t)) = Some (pv_proof c t)).
    { unfold new_proof. rewrite fld_created. cbn [pv_proof proof_of_ctx p_created]. rewrite Ht. cbn [negb].
      rewrite (pv_lookup_pv c t R), fld_type. cbn [str_entry pv_proof proof_of_ctx p_type]. rewrite Hpv.
      cbn [negb andb]. rewrite fld_nonce. cbn [pv_proof proof_of_ctx p_nonce]. rewrite Hn, Hnd.
      rewrite (pv_lookup_chain c t R).
      rewrite fld_creator, fld_vm, fld_purpose, fld_domain, fld_challenge.
      unfold pv_proof, proof_of_ctx. cbn. rewrite ?Hn. reflexivity. }
    rewrite NP. change verify_object_checks_all_proofs with true. cbv iota. cbn [forallb length].
    assert (V : verify_one canon compact_sec pv_dec seg_dec resolve accepts compact_proof excluded_keys
                  (set_key "proof" (JArr [JObj (jsonld_object (pv_proof c t))]) d) (pv_proof c t) = true).
    { unfold verify_one.
      assert (K : key_of resolve (pv_proof c t) = key_of resolve (proof_of_ctx c)) by reflexivity.
      rewrite K, Hk. cbn [pv_proof proof_of_ctx p_type]. rewrite Ha. cbn [andb].
      unfold sign_message, verify_data in *. cbn [pv_proof p_repr]. 
      rewrite (options_same c t d _ R) by (apply lookup_set_key_other; reflexivity).
      unfold without_proof. rewrite remove_key_set_key.
      assert (RP : p_repr (proof_of_ctx c) = RProofValue) by (cbn; exact R). rewrite RP in Hs.
      unfold without_proof in Hs. rewrite Hs.
      unfold verify_value. cbn [pv_proof p_repr p_pv p_type proof_of_ctx]. rewrite Hpv.
      rewrite N.eqb_refl, msg_eqb_refl. reflexivity. }
    rewrite V. reflexivity.
  Qed.
End RoundTrip.
