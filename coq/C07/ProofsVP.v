(* C07 — what a verified presentation says about the credentials it embeds, as the code implements it: the proof check
   looks at the TOP-LEVEL proof member only; signature texts anywhere else in the document (the proofs of embedded
   credentials) are never decoded, let alone verified. *)
From Coq Require Import List String Ascii Bool NArith ZArith.
Import ListNotations.
From VF Require Import common.Json gen.Gen_C07 C07.Model C07.Proofs.
Open Scope string_scope.
Open Scope list_scope.

Section Ext.
  Variable canon : json -> option N.
  Variable compact_sec : json -> option json.
  Variable time_ok : string -> bool.
  Variable nonce_dec : string -> option string.
  Variable pv_dec pv_dec' : string -> string -> dec.
  Variable seg_dec seg_dec' : string -> dec.
  Variable resolve : string -> string -> option N.
  Variable accepts : string -> bool.
  Variable compact_proof : bool.

  (* the two decoders agree on the signature holders of one proof entry *)
  Definition agree_on (m : obj) : Prop :=
    pv_dec (str_entry (lookup m "proofValue")) (str_entry (lookup m "type"))
      = pv_dec' (str_entry (lookup m "proofValue")) (str_entry (lookup m "type")) /\
    forall h x s, split_on "." (str_entry (lookup m "jws")) = [h; x; s] -> seg_dec s = seg_dec' s.

  Lemma new_proof_ext m :
    agree_on m -> new_proof time_ok nonce_dec pv_dec m = new_proof time_ok nonce_dec pv_dec' m.
  Proof.
    intros [H _]. unfold new_proof. destruct (time_ok _); [|reflexivity]. cbn [negb].
    destruct (lookup m "proofValue") as [v|]; [|reflexivity].
    cbn [str_entry] in H |- *. rewrite H. reflexivity.
  Qed.

  Lemma new_proof_holders m p :
    new_proof time_ok nonce_dec pv_dec m = Some p ->
    p_type p = str_entry (lookup m "type") /\
    (p_repr p = RProofValue -> p_pv p = str_entry (lookup m "proofValue")) /\
    (p_repr p = RJws -> p_jws p = str_entry (lookup m "jws")).
  Proof.
    unfold new_proof. destruct (time_ok _); [|discriminate]. cbn [negb]. intro H.
    destruct (lookup m "proofValue") as [v|] eqn:LP.
    - destruct (pv_dec (str_entry (Some v)) (str_entry (lookup m "type"))) eqn:PD; try discriminate;
        repeat match type of H with
               | context [match ?x with _ => _ end] => destruct x eqn:?; try discriminate
               end;
        inversion H; subst; cbn; repeat split; auto; try (intro X; discriminate X).
    - destruct (lookup m "jws") as [v|] eqn:LJ; [|discriminate].
      repeat match type of H with
             | context [match ?x with _ => _ end] => destruct x eqn:?; try discriminate
             end;
        inversion H; subst; cbn; repeat split; auto; try (intro X; discriminate X).
  Qed.

  Lemma verify_one_ext excl d m p :
    agree_on m -> new_proof time_ok nonce_dec pv_dec m = Some p ->
    verify_one canon compact_sec pv_dec seg_dec resolve accepts compact_proof excl d p
    = verify_one canon compact_sec pv_dec' seg_dec' resolve accepts compact_proof excl d p.
  Proof.
    intros [H1 H2] NP. destruct (new_proof_holders m p NP) as (Ty & Pv & Jw).
    unfold verify_one, verify_value. destruct (p_repr p) eqn:R.
    - rewrite (Pv eq_refl), Ty, H1. reflexivity.
    - rewrite (Jw eq_refl). destruct (split_on "." (str_entry (lookup m "jws"))) as [|h [|x [|s [|? ?]]]] eqn:S; try reflexivity.
      rewrite (H2 h x s eq_refl). reflexivity.
  Qed.

  Lemma verify_object_ext excl d :
    (forall pe ms m, lookup d "proof" = Some pe -> proof_entries pe = Some ms -> In m ms -> agree_on m) ->
    verify_object canon compact_sec time_ok nonce_dec pv_dec seg_dec resolve accepts compact_proof excl d
    = verify_object canon compact_sec time_ok nonce_dec pv_dec' seg_dec' resolve accepts compact_proof excl d.
  Proof.
    intro H. unfold verify_object. destruct (lookup d "proof") as [pe|]; [|reflexivity].
    destruct (proof_entries pe) as [ms|] eqn:PE; [|reflexivity].
    specialize (H pe ms). assert (A : forall m, In m ms -> agree_on m) by (intros; eapply H; eauto). clear H.
    assert (E : all_some (new_proof time_ok nonce_dec pv_dec) ms = all_some (new_proof time_ok nonce_dec pv_dec') ms).
    { clear PE. induction ms as [|m ms IH]; [reflexivity|]. cbn. rewrite (new_proof_ext m (A m (or_introl eq_refl))).
      rewrite IH; [reflexivity|]. intros; apply A; right; assumption. }
    rewrite <- E. destruct (all_some (new_proof time_ok nonce_dec pv_dec) ms) as [ps|] eqn:AS; [|reflexivity].
    assert (F : forall (l : list lproof) (f g : lproof -> bool), (forall p, In p l -> f p = g p) ->
                forallb f l = forallb g l /\ existsb f l = existsb g l).
    { intros l f g. induction l as [|p l IH]; intro Hfg; [split; reflexivity|]. cbn.
      rewrite (Hfg p (or_introl eq_refl)). destruct (IH (fun q I => Hfg q (or_intror I))) as [-> ->]. split; reflexivity. }
    assert (Hp : forall p, In p ps ->
               verify_one canon compact_sec pv_dec seg_dec resolve accepts compact_proof excl d p
               = verify_one canon compact_sec pv_dec' seg_dec' resolve accepts compact_proof excl d p).
    { clear F E PE. revert ps AS. induction ms as [|m ms IH]; intros ps AS p I.
      - inversion AS; subst. contradiction.
      - cbn in AS. destruct (new_proof time_ok nonce_dec pv_dec m) as [q|] eqn:NP; [|discriminate].
        destruct (all_some _ ms) as [t|] eqn:AS'; [|discriminate]. inversion AS; subst. destruct I as [<-|I].
        + apply (verify_one_ext excl d m q (A m (or_introl eq_refl)) NP).
        + apply (IH (fun m' I' => A m' (or_intror I')) t eq_refl p I). }
    destruct (F ps _ _ Hp) as [-> ->]. reflexivity.
  Qed.
End Ext.
