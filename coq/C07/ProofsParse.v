(* C07 — the typed object holds the member the proof check saw, unless another member folds to the same name. *)
From Coq Require Import List String Ascii Bool NArith.
Import ListNotations.
From VF Require Import common.Json C07.ParseModel.
Open Scope list_scope.
Open Scope string_scope.

Lemma decode_nomatch k ms acc :
  (forall k' v, In (k', v) ms -> String.eqb (fold k') (fold k) = false) -> decode_field k ms acc = acc.
Proof.
  revert acc. induction ms as [|[k' v] ms IH]; intros acc H; cbn; [reflexivity|].
  rewrite (H k' v (or_introl eq_refl)). apply IH. intros k2 v2 I. apply (H k2 v2). right. exact I.
Qed.

Lemma parsed_is_lookup k ms :
  NoDup (map fst ms) ->
  (forall k' v, In (k', v) ms -> fold k' = fold k -> k' = k) ->
  parsed_field k ms = lookup ms k.
Proof.
  unfold parsed_field. induction ms as [|[k' v] ms IH]; intros ND H; cbn; [reflexivity|].
  inversion ND as [|? ? Hnin ND']; subst.
  destruct (String.eqb (fold k') (fold k)) eqn:E.
  - apply String.eqb_eq in E. pose proof (H k' v (or_introl eq_refl) E) as ->.
    rewrite String.eqb_refl. apply decode_nomatch. intros k2 v2 I.
    destruct (String.eqb (fold k2) (fold k)) eqn:E2; [|reflexivity]. apply String.eqb_eq in E2.
    pose proof (H k2 v2 (or_intror I) E2) as ->. exfalso. apply Hnin.
    change k with (fst (k, v2)). apply in_map. exact I.
  - assert (Hne : String.eqb k k' = false).
    { destruct (String.eqb k k') eqn:E3; [|reflexivity]. apply String.eqb_eq in E3. subst. rewrite String.eqb_refl in E. discriminate. }
    rewrite Hne. apply IH; [exact ND'|]. intros k2 v2 I. apply (H k2 v2). right. exact I.
Qed.

Lemma decode_field_app k a b acc : decode_field k (a ++ b) acc = decode_field k b (decode_field k a acc).
Proof.
  revert acc. induction a as [|[k' v] a IH]; intro acc; cbn; [reflexivity|].
  destruct (String.eqb (fold k') (fold k)); apply IH.
Qed.

Lemma lookup_app_first (a b : list (string * json)) k v : lookup a k = Some v -> lookup (a ++ b) k = Some v.
Proof. induction a as [|[k2 v2] a IH]; cbn; [discriminate|]. destruct (String.eqb k k2); auto. Qed.

(* the guard of parsed_is_lookup is tight: a member appended after the others whose name folds to the same field name but
   is another name, with another value, DOES take the signed member's place *)
Lemma parsed_guard_exact k ms v k' v' :
  lookup ms k = Some v -> fold k' = fold k -> k' <> k -> v' <> v ->
  parsed_field k (ms ++ [(k', v')]) = Some v' /\ lookup (ms ++ [(k', v')]) k = Some v /\
  parsed_field k (ms ++ [(k', v')]) <> lookup (ms ++ [(k', v')]) k.
Proof.
  intros L F N V.
  assert (A : parsed_field k (ms ++ [(k', v')]) = Some v').
  { unfold parsed_field. rewrite decode_field_app. cbn. rewrite F, String.eqb_refl. reflexivity. }
  assert (B : lookup (ms ++ [(k', v')]) k = Some v) by (apply lookup_app_first; exact L).
  split; [exact A|]. split; [exact B|]. rewrite A, B. intro H. inversion H. contradiction.
Qed.
