(* C07 — strict mode: executable TOTAL model of validator.mapsHaveSameStructure / slicesHaveSameStructure /
   compactMap / compactSlice / compactValue (component/models/ld/validator/validate.go).  NO proofs here.
   The Go function normalises both documents (compactMap) and then compares them; it re-applies the normalisation
   to every sub-object it descends into.  Here the normalisation `nv` is one deep structural pass and `cmpv` a
   structural comparison of the normalised trees.  The two coincide except on nodes the normalisation is not
   idempotent on — an object whose only member besides "@context" is "id", or an "id" member holding an array or
   object (not valid JSON-LD: compaction refuses it) — which are not generated; the correspondence checks `strict_ok`
   against the real ValidateJSONLDMap on every strict-relevant case of every run. *)
From Coq Require Import List String Bool NArith ZArith.
Import ListNotations.
From VF Require Import common.Json C07.Model.
Open Scope string_scope.
Open Scope list_scope.

Definition is_ctx (k : string) : bool := String.eqb k "@context".

(* compactValue followed by what compactMap / compactSlice do with the result: a single-element array is its
   element; an object holding only "id" is the id; other arrays are normalised element by element; other objects
   lose "@context" and get their members normalised *)
Fixpoint nv (v : json) : json :=
  match v with
  | JArr l =>
      match l with
      | [x] => nv x
      | _ => JArr (map nv l)
      end
  | JObj m =>
      match m with
      | [(k, x)] =>
          if String.eqb k "id" then x
          else JObj (flat_map (fun kv => if is_ctx (fst kv) then [] else [(fst kv, nv (snd kv))]) m)
      | _ => JObj (flat_map (fun kv => if is_ctx (fst kv) then [] else [(fst kv, nv (snd kv))]) m)
      end
  | _ => v
  end.

(* compactMap of the top-level document (the document itself is never collapsed) *)
Definition nmm (m : obj) : obj := flat_map (fun kv => if is_ctx (fst kv) then [] else [(fst kv, nv (snd kv))]) m.

(* the code as found (arrays skipped), after fix 4a77a34 (arrays compared, arrays nested in arrays skipped),
   after fix 09420bd (current) *)
Inductive svar := SAsIs | SFix1 | SFixed.
Definition is_arr (j : json) : bool := match j with JArr _ => true | _ => false end.
Definition skip_nested (sv : svar) : bool := match sv with SFixed => false | _ => true end.

Fixpoint cmpv (sv : svar) (a b : json) {struct a} : bool :=
  match a with
  | JObj ma =>
      match b with
      | JObj mb =>
          json_eqb a b
          || (Nat.eqb (List.length ma) (List.length mb)
              && forallb (fun kv => match lookup mb (fst kv) with
                                    | None => true                   (* "the name of the map was mapped" *)
                                    | Some v2 => cmpv sv (snd kv) v2
                                    end) ma)
      | _ => false
      end
  | JArr la =>
      match sv with
      | SAsIs => true
      | _ =>
        match b with
        | JArr lb =>
            Nat.eqb (List.length la) (List.length lb)
            && (fix go (la lb : list json) {struct la} : bool :=
                  match la, lb with
                  | x :: r, y :: t => (if skip_nested sv && is_arr x then true else cmpv sv x y) && go r t
                  | _, _ => true
                  end) la lb
        | _ => false
        end
      end
  | _ => true
  end.

(* inside an array only objects (and, now, arrays) are compared: a scalar element against anything is fine; an
   array-valued MEMBER against a non-array is a difference, as is an object against a non-object *)
Definition same_structure (sv : svar) (orig comp : obj) : bool :=
  cmpv sv (JObj (nmm orig)) (JObj (nmm comp)).

(* ValidateJSONLDMap in strict mode, compaction result given *)
Definition strict_ok (sv : svar) (orig : obj) (compacted : option json) : bool :=
  match compacted with
  | Some (JObj c) => same_structure sv orig c
  | _ => false
  end.

(* ---------- an idealised compaction: members whose term the context does not define are dropped, at every depth
              (objects, array elements); "@context" values are not data ---------- *)
Section Drop.
  Variable dfn : string -> bool.
  Fixpoint drop (v : json) : json :=
    match v with
    | JArr l => JArr (map drop l)
    | JObj m => JObj (flat_map (fun kv => if is_ctx (fst kv) then [kv]
                                          else if dfn (fst kv) then [(fst kv, drop (snd kv))] else []) m)
    | _ => v
    end.
  Definition dropm (m : obj) : obj :=
    flat_map (fun kv => if is_ctx (fst kv) then [kv] else if dfn (fst kv) then [(fst kv, drop (snd kv))] else []) m.

  (* the document carries a member the context does not define, at any depth *)
  Fixpoint has_undef (v : json) : bool :=
    match v with
    | JArr l => existsb has_undef l
    | JObj m => existsb (fun kv => negb (is_ctx (fst kv)) && (negb (dfn (fst kv)) || has_undef (snd kv))) m
    | _ => false
    end.
End Drop.

(* "id" members are strings (JSON-LD: anything else is an invalid @id value) *)
Fixpoint ids_ok (v : json) : bool :=
  match v with
  | JArr l => forallb ids_ok l
  | JObj m => forallb (fun kv => (if String.eqb (fst kv) "id" then match snd kv with JStr _ => true | _ => false end else true)
                                 && ids_ok (snd kv)) m
  | _ => true
  end.

(* member names are unique in every object (documents decoded into Go maps) *)
Fixpoint nodupb (l : list string) : bool :=
  match l with [] => true | x :: r => negb (mem_str x r) && nodupb r end.
Fixpoint uniq (v : json) : bool :=
  match v with
  | JArr l => forallb uniq l
  | JObj m => nodupb (map fst m) && forallb (fun kv => uniq (snd kv)) m
  | _ => true
  end.

(* executable instance of the compaction parameter *)
Definition compact_inst (dfn : string -> bool) (o : obj) : option json :=
  if ids_ok (JObj o) then Some (JObj (dropm dfn o)) else None.
