(* C07 — how a verified document becomes the typed Credential / Presentation: encoding/json assigns every member of
   the object, in document order, to the struct field whose JSON name equals the member name exactly or, failing
   that, under case folding; a later member overwrites an earlier one.  The proof check (and strict validation)
   work on the decoded MAP, where names are compared exactly.  NO proofs here. *)
From Coq Require Import List String Ascii Bool NArith.
Import ListNotations.
From VF Require Import common.Json.
Open Scope string_scope.

Definition lower (a : ascii) : ascii :=
  let n := N_of_ascii a in if (N.leb 65 n && N.leb n 90)%bool then ascii_of_N (n + 32) else a.
Fixpoint fold (s : string) : string :=
  match s with EmptyString => EmptyString | String a r => String (lower a) (fold r) end.

(* members in DOCUMENT order *)
Fixpoint decode_field (k : string) (members : list (string * json)) (acc : option json) : option json :=
  match members with
  | [] => acc
  | (k', v) :: r => if String.eqb (fold k') (fold k) then decode_field k r (Some v) else decode_field k r acc
  end.
Definition parsed_field (k : string) (members : list (string * json)) : option json := decode_field k members None.
