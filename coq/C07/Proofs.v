(* C07 — lemmas about the model (coq/C07/Model.v). *)
From Coq Require Import List String Ascii Bool NArith ZArith Lia.
Import ListNotations.
From VF Require Import common.Json gen.Gen_C07 C07.Model.
Open Scope string_scope.
Open Scope list_scope.

(* ---------- basic facts ---------- *)
Lemma msg_eqb_eq a b : msg_eqb a b = true -> a = b.
Proof.
  destruct a, b; cbn; intro H; try discriminate;
    repeat (apply andb_true_iff in H; destruct H as [H ?]);
    repeat match goal with
           | X : N.eqb _ _ = true |- _ => apply N.eqb_eq in X
           | X : String.eqb _ _ = true |- _ => apply String.eqb_eq in X
           end; subst; reflexivity.
Qed.
Lemma msg_eqb_refl a : msg_eqb a a = true.
Proof. destruct a; cbn; rewrite ?N.eqb_refl, ?String.eqb_refl; reflexivity. Qed.

Lemma nonempty_false s : nonempty s = false -> s = "".
Proof. unfold nonempty. intro H. apply negb_false_iff in H. apply String.eqb_eq in H. exact H. Qed.

Lemma mem_str_In s l : mem_str s l = true <-> In s l.
Proof.
  induction l as [|x l IH]; cbn; [split; [discriminate|tauto]|].
  rewrite orb_true_iff, IH. split; intros [H|H]; auto.
  - left. apply String.eqb_eq in H. auto.
  - left. subst. apply String.eqb_refl.
Qed.

Lemma lookup_remove_keys ks m k :
  mem_str k ks = false -> lookup (remove_keys ks m) k = lookup m k.
Proof.
  intro Hk. induction m as [|[k' v] m IH]; cbn; [reflexivity|].
  destruct (mem_str k' ks) eqn:E; cbn.
  - rewrite IH. destruct (String.eqb k k') eqn:E2; [|reflexivity].
    apply String.eqb_eq in E2. subst. congruence.
  - rewrite IH. reflexivity.
Qed.

Lemma lookup_remove_key k' m k :
  String.eqb k k' = false -> lookup (remove_key k' m) k = lookup m k.
Proof.
  intro Hk. induction m as [|[k2 v] m IH]; cbn; [reflexivity|].
  destruct (String.eqb k' k2) eqn:E; cbn.
  - rewrite IH. apply String.eqb_eq in E. subst. rewrite Hk. reflexivity.
  - rewrite IH. reflexivity.
Qed.

Lemma lookup_set_key_other k' v m k :
  String.eqb k k' = false -> lookup (set_key k' v m) k = lookup m k.
Proof.
  intro Hk. induction m as [|[k2 v2] m IH]; cbn.
  - rewrite Hk. reflexivity.
  - destruct (String.eqb k' k2) eqn:E; cbn.
    + rewrite Hk. apply String.eqb_eq in E. subst. rewrite Hk. reflexivity.
    + destruct (str_ltb k' k2); cbn; [rewrite Hk; reflexivity|].
      rewrite IH. reflexivity.
Qed.

Lemma lookup_set_key_same k v m : lookup (set_key k v m) k = Some v.
Proof.
  induction m as [|[k2 v2] m IH]; cbn.
  - rewrite String.eqb_refl. reflexivity.
  - destruct (String.eqb k k2) eqn:E; cbn.
    + rewrite String.eqb_refl. reflexivity.
    + destruct (str_ltb k k2); cbn; [rewrite String.eqb_refl; reflexivity|].
      rewrite E. exact IH.
Qed.

Lemma remove_key_set_key k v m : remove_key k (set_key k v m) = remove_key k m.
Proof.
  induction m as [|[k2 v2] m IH]; cbn.
  - rewrite String.eqb_refl. reflexivity.
  - destruct (String.eqb k k2) eqn:E; cbn.
    + rewrite String.eqb_refl. reflexivity.
    + destruct (str_ltb k k2); cbn; [rewrite String.eqb_refl, E; reflexivity|].
      rewrite E, IH. reflexivity.
Qed.

Lemma lookup_replace_same k v m x : lookup m k = Some x -> lookup (replace_key k v m) k = Some v.
Proof.
  induction m as [|[k2 v2] m IH]; cbn; [discriminate|].
  destruct (String.eqb k k2) eqn:E; cbn; [rewrite String.eqb_refl; reflexivity|]. rewrite E. exact IH.
Qed.
Lemma lookup_replace_other k v m k0 : String.eqb k0 k = false -> lookup (replace_key k v m) k0 = lookup m k0.
Proof.
  intro H. induction m as [|[k2 v2] m IH]; cbn; [reflexivity|].
  destruct (String.eqb k k2) eqn:E; cbn.
  - apply String.eqb_eq in E. subst. rewrite H. reflexivity.
  - rewrite IH. reflexivity.
Qed.
Lemma lookup_put_same k v m : lookup (put_key k v m) k = Some v.
Proof.
  unfold put_key. destruct (lookup m k) eqn:E; [eapply lookup_replace_same; eauto|apply lookup_set_key_same].
Qed.
Lemma lookup_put_other k v m k0 : String.eqb k0 k = false -> lookup (put_key k v m) k0 = lookup m k0.
Proof.
  intro H. unfold put_key. destruct (lookup m k); [apply lookup_replace_other|apply lookup_set_key_other]; exact H.
Qed.

(* ---------- the typed proof is read back from what JSONLdObject emits ---------- *)
Section Fields.
  Variable p : lproof.
  Ltac crunch :=
    unfold jsonld_object, opt_member;
    destruct (p_chain p); destruct (nonempty (p_challenge p)) eqn:E1; destruct (nonempty (p_creator p)) eqn:E2;
    destruct (nonempty (p_domain p)) eqn:E3; destruct (nonempty (p_jws p)) eqn:E4;
    destruct (nonempty (p_nonce p)) eqn:E5; destruct (nonempty (p_purpose p)) eqn:E6; destruct (p_pv_len p);
    destruct (nonempty (p_vm p)) eqn:E7; cbn;
    repeat match goal with H : nonempty _ = false |- _ => apply nonempty_false in H; rewrite H end;
    reflexivity.
  Lemma fld_created : str_entry (lookup (jsonld_object p) "created") = p_created p.   Proof. crunch. Qed.
  Lemma fld_type : str_entry (lookup (jsonld_object p) "type") = p_type p.             Proof. crunch. Qed.
  Lemma fld_vm : str_entry (lookup (jsonld_object p) "verificationMethod") = p_vm p.   Proof. crunch. Qed.
  Lemma fld_purpose : str_entry (lookup (jsonld_object p) "proofPurpose") = p_purpose p. Proof. crunch. Qed.
  Lemma fld_domain : str_entry (lookup (jsonld_object p) "domain") = p_domain p.       Proof. crunch. Qed.
  Lemma fld_challenge : str_entry (lookup (jsonld_object p) "challenge") = p_challenge p. Proof. crunch. Qed.
  Lemma fld_creator : str_entry (lookup (jsonld_object p) "creator") = p_creator p.    Proof. crunch. Qed.
  Lemma fld_nonce : str_entry (lookup (jsonld_object p) "nonce") = p_nonce p.          Proof. crunch. Qed.
End Fields.

(* the proof options the property names *)
Definition protected : list string :=
  ["created"; "verificationMethod"; "proofPurpose"; "domain"; "challenge"; "type"; "creator"].

Definition same_protected (p q : lproof) : Prop :=
  p_created p = p_created q /\ p_vm p = p_vm q /\ p_purpose p = p_purpose q /\ p_domain p = p_domain q /\
  p_challenge p = p_challenge q /\ p_type p = p_type q /\ p_creator p = p_creator q.

Lemma same_protected_of_lookup p q :
  (forall k, In k protected -> lookup (jsonld_object p) k = lookup (jsonld_object q) k) -> same_protected p q.
Proof.
  intro H. unfold same_protected.
  rewrite <- (fld_created p), <- (fld_created q), <- (fld_vm p), <- (fld_vm q), <- (fld_purpose p), <- (fld_purpose q),
    <- (fld_domain p), <- (fld_domain q), <- (fld_challenge p), <- (fld_challenge q), <- (fld_type p), <- (fld_type q),
    <- (fld_creator p), <- (fld_creator q).
  repeat split; f_equal; apply H; cbn; tauto.
Qed.

(* ---------- what an accepted proof was signed over ---------- *)
Section Sound.
  Variable canon : json -> option N.
  Variable compact_sec : json -> option json.
  Variable time_ok : string -> bool.
  Variable nonce_dec : string -> option string.
  Variable pv_dec : string -> string -> dec.
  Variable seg_dec : string -> dec.
  Variable resolve : string -> string -> option N.
  Variable accepts : string -> bool.
  Variable compact_proof : bool.

  Notation verify_data := (verify_data canon compact_sec compact_proof).
  Notation verify_value := (verify_value pv_dec seg_dec).
  Notation key_of := (key_of resolve).
  Notation verify_one := (verify_one canon compact_sec pv_dec seg_dec resolve accepts compact_proof).
  Notation verify_object := (verify_object canon compact_sec time_ok nonce_dec pv_dec seg_dec resolve accepts compact_proof).
  Notation new_proof := (new_proof time_ok nonce_dec pv_dec).

  Lemma verify_one_sound excl d p :
    verify_one excl d p = true ->
    exists k m, key_of p = Some k /\ accepts (p_type p) = true /\ verify_data excl d p = Some m /\
                verify_value p = DSig (SBy k m).
  Proof.
    unfold Model.verify_one. destruct (Model.key_of resolve p) as [k|]; [|discriminate].
    intro H. apply andb_true_iff in H as [Ha H].
    destruct (Model.verify_data canon compact_sec compact_proof excl d p) as [m|]; [|discriminate].
    destruct (Model.verify_value pv_dec seg_dec p) as [| |[k' m'|]]; try discriminate.
    apply andb_true_iff in H as [Hk Hm]. apply N.eqb_eq in Hk. apply msg_eqb_eq in Hm. subst.
    exists k', m'. repeat split; auto.
  Qed.

  (* the canonicaliser inputs of a verification / signing *)
  Definition opts_input (excl : list string) (d : obj) (p : lproof) : option json :=
    match p_repr p with
    | RProofValue => match options_pv excl d p with
                     | Some o => compact_if compact_sec compact_proof (JObj o)
                     | None => None
                     end
    | RJws => Some (JObj (options_jws p))
    end.
  Definition doc_input (d : obj) (p : lproof) : option json :=
    match p_repr p with
    | RProofValue => Some (JObj (without_proof d))
    | RJws => compact_if compact_sec compact_proof (JObj (without_proof d))
    end.

  (* two verify-data computations with the same result canonicalised, pairwise, to the same forms *)
  Lemma verify_data_eq excl d p d0 p0 m :
    verify_data excl d p = Some m -> verify_data excl d0 p0 = Some m ->
    exists io id io0 id0 a b,
      opts_input excl d p = Some io /\ doc_input d p = Some id /\
      opts_input excl d0 p0 = Some io0 /\ doc_input d0 p0 = Some id0 /\
      canon io = Some a /\ canon io0 = Some a /\ canon id = Some b /\ canon id0 = Some b /\
      p_repr p = p_repr p0 /\
      (p_repr p = RJws -> exists h x y x0 y0, split_on "." (p_jws p) = [h; x; y] /\ split_on "." (p_jws p0) = [h; x0; y0]).
  Proof.
    unfold Model.verify_data, opts_input, doc_input.
    destruct (p_repr p) eqn:R, (p_repr p0) eqn:R0.
    - destruct (options_pv excl d p) as [o|]; [|discriminate].
      destruct (compact_if compact_sec compact_proof (JObj o)) as [o'|]; [|discriminate].
      destruct (canon o') as [co|] eqn:C1; [|discriminate].
      destruct (canon (JObj (without_proof d))) as [cd|] eqn:C2; [|discriminate].
      destruct (options_pv excl d0 p0) as [o0|]; [|discriminate].
      destruct (compact_if compact_sec compact_proof (JObj o0)) as [o0'|]; [|discriminate].
      destruct (canon o0') as [co0|] eqn:C3; [|discriminate].
      destruct (canon (JObj (without_proof d0))) as [cd0|] eqn:C4; [|discriminate].
      intros H H0. inversion H; subst. inversion H0; subst.
      do 6 eexists. repeat split; try eassumption; try reflexivity. discriminate.
    - destruct (options_pv excl d p) as [o|]; [|discriminate].
      destruct (compact_if compact_sec compact_proof (JObj o)) as [o'|]; [|discriminate].
      destruct (canon o') as [co|]; [|discriminate].
      destruct (canon (JObj (without_proof d))) as [cd|]; [|discriminate].
      destruct (canon (JObj (options_jws p0))) as [co0|]; [|discriminate].
      destruct (compact_if compact_sec compact_proof (JObj (without_proof d0))) as [d0'|]; [|discriminate].
      destruct (canon d0') as [cd0|]; [|discriminate].
      destruct (split_on "." (p_jws p0)) as [|h [|x [|y [|? ?]]]]; try discriminate.
      intros H H0. inversion H; subst. inversion H0.
    - destruct (canon (JObj (options_jws p))) as [co|]; [|discriminate].
      destruct (compact_if compact_sec compact_proof (JObj (without_proof d))) as [d'|]; [|discriminate].
      destruct (canon d') as [cd|]; [|discriminate].
      destruct (split_on "." (p_jws p)) as [|h [|x [|y [|? ?]]]]; try discriminate.
      destruct (options_pv excl d0 p0) as [o0|]; [|discriminate].
      destruct (compact_if compact_sec compact_proof (JObj o0)) as [o0'|]; [|discriminate].
      destruct (canon o0') as [co0|]; [|discriminate].
      destruct (canon (JObj (without_proof d0))) as [cd0|]; [|discriminate].
      intros H H0. inversion H; subst. inversion H0.
    - destruct (canon (JObj (options_jws p))) as [co|] eqn:C1; [|discriminate].
      destruct (compact_if compact_sec compact_proof (JObj (without_proof d))) as [d'|]; [|discriminate].
      destruct (canon d') as [cd|] eqn:C2; [|discriminate].
      destruct (split_on "." (p_jws p)) as [|h [|x [|y [|? ?]]]] eqn:S1; try discriminate.
      destruct (canon (JObj (options_jws p0))) as [co0|] eqn:C3; [|discriminate].
      destruct (compact_if compact_sec compact_proof (JObj (without_proof d0))) as [d0'|]; [|discriminate].
      destruct (canon d0') as [cd0|] eqn:C4; [|discriminate].
      destruct (split_on "." (p_jws p0)) as [|h0 [|x0 [|y0 [|? ?]]]] eqn:S2; try discriminate.
      intros H H0. inversion H; subst. inversion H0; subst.
      do 6 eexists. repeat split; try eassumption; try reflexivity.
      intros _. do 5 eexists. split; reflexivity.
  Qed.

  (* protected members of the options object are the members JSONLdObject emitted (GENERATED tables) *)
  Lemma protected_not_excluded k : In k protected -> mem_str k excluded_keys = false /\ mem_str k jws_deleted_keys = false
                                                     /\ String.eqb k "@context" = false.
  Proof. cbn. intros [H|[H|[H|[H|[H|[H|[H|[]]]]]]]]; subst; vm_compute; auto. Qed.

  Lemma options_pv_lookup d p o k :
    options_pv excluded_keys d p = Some o -> In k protected -> lookup o k = lookup (jsonld_object p) k.
  Proof.
    unfold options_pv. intros H Hk. destruct (protected_not_excluded k Hk) as (He & _ & Hc).
    destruct (lookup (jsonld_object p) "@context");
      (destruct (forallb _ mandatory_keys); [|discriminate]); inversion H; subst;
      rewrite lookup_remove_keys by exact He; [reflexivity|].
    apply lookup_set_key_other. exact Hc.
  Qed.
  Lemma options_jws_lookup p k :
    In k protected -> lookup (options_jws p) k = lookup (jsonld_object p) k.
  Proof.
    intro Hk. destruct (protected_not_excluded k Hk) as (_ & He & Hc). unfold options_jws.
    rewrite lookup_remove_keys by exact He. apply lookup_set_key_other. exact Hc.
  Qed.

  (* ---- canonicalisation hypotheses (third-party): equal canonical forms carry equal content; the content of a
          proof-options object determines its protected members (their terms are defined in the options' context) ---- *)
  Variable C : Type.
  Variable content : json -> C.
  Hypothesis canon_inj : forall a b n, canon a = Some n -> canon b = Some n -> content a = content b.
  Hypothesis compact_keeps : forall j j', compact_sec j = Some j' -> content j' = content j.
  Hypothesis content_opts : forall o o', content (JObj o) = content (JObj o') ->
                                         forall k, In k protected -> lookup o k = lookup o' k.

  Lemma compact_if_content b j j' : compact_if compact_sec b j = Some j' -> content j' = content j.
  Proof. destruct b; cbn; intro H; [apply compact_keeps; exact H|inversion H; reflexivity]. Qed.

  (* the signing world: what the holder of each private key has ever signed *)
  Variable signed_by : N -> msg -> Prop.
  Hypothesis pv_honest : forall t ty k m, pv_dec t ty = DSig (SBy k m) -> signed_by k m.
  Hypothesis seg_honest : forall s k m, seg_dec s = DSig (SBy k m) -> signed_by k m.

  Lemma verify_value_honest p k m : verify_value p = DSig (SBy k m) -> signed_by k m.
  Proof.
    unfold Model.verify_value. destruct (p_repr p).
    - apply pv_honest.
    - destruct (split_on "." (p_jws p)) as [|h [|x [|y [|? ?]]]]; try discriminate.
      destruct (nonempty y); [apply seg_honest|discriminate].
  Qed.

  (* MAIN LEMMA: a proof accepted against key k whose holder only ever signed the message of signing document d0
     with options c covers a document with the same content as d0 and carries the same protected options *)
  Lemma tamper_one d p k d0 c :
    (forall m, signed_by k m -> Some m = sign_message canon compact_sec compact_proof excluded_keys d0 c) ->
    key_of p = Some k ->
    verify_one excluded_keys d p = true ->
    (exists j j0, doc_input d p = Some j /\ doc_input d0 (proof_of_ctx c) = Some j0 /\ content j = content j0 /\
                  content (JObj (without_proof d)) = content (JObj (without_proof d0)))
    /\ same_protected p (proof_of_ctx c)
    /\ p_repr p = s_repr c.
  Proof.
    intros Honly Hk Hv.
    destruct (verify_one_sound _ _ _ Hv) as (k' & m & Hk' & _ & Hd & Hs).
    rewrite Hk in Hk'. inversion Hk'; subst k'.
    pose proof (Honly m (verify_value_honest _ _ _ Hs)) as Hm. unfold sign_message in Hm. symmetry in Hm.
    destruct (verify_data_eq _ _ _ _ _ _ Hd Hm) as (io & id & io0 & id0 & a & b & Hio & Hid & Hio0 & Hid0 & Ca & Ca0 & Cb & Cb0 & Hr & _).
    assert (Hc1 : content id = content id0) by (eapply canon_inj; eauto).
    assert (Hc2 : content io = content io0) by (eapply canon_inj; eauto).
    split; [|split].
    - exists id, id0. repeat split; auto.
      unfold doc_input in Hid, Hid0. rewrite <- Hr in Hid0.
      destruct (p_repr p).
      + inversion Hid; inversion Hid0; subst. exact Hc1.
      + apply compact_if_content in Hid. apply compact_if_content in Hid0. congruence.
    - apply same_protected_of_lookup. intros key Hkey.
      unfold opts_input in Hio, Hio0. rewrite <- Hr in Hio0.
      destruct (p_repr p).
      + destruct (options_pv excluded_keys d p) as [o|] eqn:O; [|discriminate].
        destruct (options_pv excluded_keys d0 (proof_of_ctx c)) as [o0|] eqn:O0; [|discriminate].
        apply compact_if_content in Hio. apply compact_if_content in Hio0.
        rewrite <- (options_pv_lookup _ _ _ _ O Hkey), <- (options_pv_lookup _ _ _ _ O0 Hkey).
        apply content_opts; [congruence|exact Hkey].
      + inversion Hio; inversion Hio0; subst.
        rewrite <- (options_jws_lookup p key Hkey), <- (options_jws_lookup (proof_of_ctx c) key Hkey).
        apply content_opts; [exact Hc2|exact Hkey].
    - rewrite Hr. reflexivity.
  Qed.

  (* ---- proof sets: every proof must verify ---- *)
  Lemma all_some_spec {A B} (f : A -> option B) l r :
    all_some f l = Some r -> List.length r = List.length l /\ forall x, In x l -> exists y, f x = Some y /\ In y r.
  Proof.
    revert r. induction l as [|x l IH]; cbn; intros r H.
    - inversion H; subst. split; [reflexivity|intros ? []].
    - destruct (f x) as [y|] eqn:E; [|discriminate]. destruct (all_some f l) as [t|]; [|discriminate].
      inversion H; subst. destruct (IH t eq_refl) as [Hl Hin]. split; [cbn; congruence|].
      intros z [Hz|Hz]; [subst; exists y; split; [exact E|left; reflexivity]|].
      destruct (Hin z Hz) as (y' & ? & ?). exists y'. split; [assumption|right; assumption].
  Qed.

  Lemma verify_object_all d n :
    verify_object excluded_keys d = Verified n ->
    exists pe ms, lookup d "proof" = Some pe /\ proof_entries pe = Some ms /\ n = List.length ms /\
      forall m, In m ms -> exists p, new_proof m = Some p /\ verify_one excluded_keys d p = true.
  Proof.
    unfold Model.verify_object. destruct (lookup d "proof") as [pe|]; [|discriminate].
    destruct (proof_entries pe) as [ms|] eqn:PE; [|discriminate].
    destruct (all_some (Model.new_proof time_ok nonce_dec pv_dec) ms) as [ps|] eqn:AS; [|discriminate].
    change verify_object_checks_all_proofs with true. cbv iota.
    destruct (forallb _ ps) eqn:FA; [|discriminate].
    intro H. inversion H; subst. exists pe, ms. destruct (all_some_spec _ _ _ AS) as [Hl Hin].
    repeat split; auto. intros m Hm. destruct (Hin m Hm) as (p & Hp & Hpin). exists p. split; [exact Hp|].
    rewrite forallb_forall in FA. apply FA. exact Hpin.
  Qed.

  Lemma verify_object_one_bad d pe ms m :
    lookup d "proof" = Some pe -> proof_entries pe = Some ms -> In m ms ->
    (forall p, new_proof m = Some p -> verify_one excluded_keys d p = false) ->
    verify_object excluded_keys d = Rejected.
  Proof.
    intros Hl Hpe Hin Hbad. destruct (verify_object excluded_keys d) as [| n |] eqn:V; try reflexivity.
    - unfold Model.verify_object in V. rewrite Hl, Hpe in V.
      destruct (all_some _ ms); [|discriminate]. destruct (if verify_object_checks_all_proofs then _ else _); discriminate.
    - destruct (verify_object_all _ _ V) as (pe' & ms' & Hl' & Hpe' & _ & Hall).
      rewrite Hl in Hl'. inversion Hl'; subst pe'. rewrite Hpe in Hpe'. inversion Hpe'; subst ms'.
      destruct (Hall m Hin) as (p & Hp & Hv). rewrite (Hbad p Hp) in Hv. discriminate.
  Qed.

  (* the typed proof carries the received members *)
  Lemma new_proof_fields m p :
    new_proof m = Some p ->
    p_created p = str_entry (lookup m "created") /\ p_vm p = str_entry (lookup m "verificationMethod") /\
    p_purpose p = str_entry (lookup m "proofPurpose") /\ p_domain p = str_entry (lookup m "domain") /\
    p_challenge p = str_entry (lookup m "challenge") /\ p_type p = str_entry (lookup m "type") /\
    p_creator p = str_entry (lookup m "creator") /\ time_ok (str_entry (lookup m "created")) = true.
  Proof.
    unfold Model.new_proof. destruct (time_ok (str_entry (lookup m "created"))) eqn:T; [|discriminate]. cbn [negb].
    intro H.
    repeat match type of H with
           | context [match ?x with _ => _ end] => destruct x eqn:?; try discriminate
           end.
    all: inversion H; subst; cbn; repeat split; auto.
  Qed.
End Sound.

(* ---------- Data Integrity (ecdsa-2019) ---------- *)
Section DI.
  Variable canon : json -> option N.
  Variable di_time_ok : string -> bool.
  Variable di_time_norm : string -> string.
  Variable di_suite_ok : string -> bool.
  Variable di_resolve : string -> string -> option N.
  Variable di_sig : string -> dec.
  Variable di_expect : string * string * string.

  Notation verify_di := (verify_di canon di_time_ok di_time_norm di_suite_ok di_resolve di_sig di_expect).

  Definition di_epu : string := let '(epu, _, _) := di_expect in if nonempty epu then epu else "assertionMethod".

  Lemma verify_di_sound mem d pe n :
    verify_di mem d pe = Verified n ->
    exists m k cd cc,
      pe = JObj m /\ n = 1%nat /\
      di_resolve (str_entry (lookup m "verificationMethod")) di_epu = Some k /\
      str_entry (lookup m "proofPurpose") = di_epu /\
      di_time_ok (str_entry (lookup m "created")) = true /\
      canon (JObj (without_proof d)) = Some cd /\
      canon (JObj (di_config mem (match lookup d "@context" with Some c => c | None => JNull end)
                             (set_key "proofPurpose" (JStr di_epu) m)
                             (di_time_norm (str_entry (lookup m "created"))))) = Some cc /\
      di_sig (str_entry (lookup m "proofValue")) = DSig (SBy k (MDI cd cc)).
  Proof.
    unfold Model.verify_di, di_epu. destruct pe as [| | | | |m]; try discriminate.
    destruct di_expect as [[epu edom] ech].
    intro H.
    repeat match type of H with
           | context [if ?x then _ else _] => destruct x eqn:?; try discriminate
           | context [match ?x with _ => _ end] => destruct x eqn:?; try discriminate
           end.
    all: inversion H; subst.
    all: repeat match goal with
                | X : negb _ = false |- _ => apply negb_false_iff in X
                | X : _ && _ = true |- _ => apply andb_true_iff in X; destruct X
                | X : N.eqb _ _ = true |- _ => apply N.eqb_eq in X
                | X : msg_eqb _ _ = true |- _ => apply msg_eqb_eq in X
                | X : String.eqb _ _ = true |- _ => apply String.eqb_eq in X
                end; subst.
    all: do 4 eexists; repeat split; eauto.
  Qed.

  (* the configuration the current code signs holds the proof's domain and challenge whenever they are present *)
  Lemma di_config_domain ctx m t :
    lookup (di_config di_config_members ctx m t) "domain" =
      if nonempty (str_entry (lookup m "domain")) then Some (JStr (str_entry (lookup m "domain"))) else None.
  Proof. unfold di_config. cbn. destruct (nonempty (str_entry (lookup m "domain"))); cbn;
         destruct (nonempty (str_entry (lookup m "challenge"))); cbn; reflexivity. Qed.
  Lemma di_config_challenge ctx m t :
    lookup (di_config di_config_members ctx m t) "challenge" =
      if nonempty (str_entry (lookup m "challenge")) then Some (JStr (str_entry (lookup m "challenge"))) else None.
  Proof. unfold di_config. cbn. destruct (nonempty (str_entry (lookup m "domain"))); cbn;
         destruct (nonempty (str_entry (lookup m "challenge"))); cbn; reflexivity. Qed.
  Lemma di_config_fixed ctx m t :
    lookup (di_config di_config_members ctx m t) "created" = Some (JStr t) /\
    lookup (di_config di_config_members ctx m t) "verificationMethod" = Some (JStr (str_entry (lookup m "verificationMethod"))) /\
    lookup (di_config di_config_members ctx m t) "proofPurpose" = Some (JStr (str_entry (lookup m "proofPurpose"))) /\
    lookup (di_config di_config_members ctx m t) "@context" = Some ctx.
  Proof. unfold di_config. cbn. destruct (nonempty (str_entry (lookup m "domain"))); cbn;
         destruct (nonempty (str_entry (lookup m "challenge"))); cbn; repeat split; reflexivity. Qed.
End DI.
