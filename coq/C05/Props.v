(* C05 — property theorems only.

   Model (C05/Model.v): every value localkms hands to its store's Put and every non-opaque API result, as symbolic
   terms, for histories of Create / CreateAndExportPubKeyBytes / ImportPrivateKey / Rotate / Get /
   ExportPubKeyBytes, under the raw, HKDF-protected and PBKDF2-protected local secret lock.
   Attacker (C05/Derive.v): Dolev-Yao closure over everything ever written to the store (also overwritten and
   deleted values), every API result, the protected master key and the salt. *)
From Coq Require Import List NArith Bool.
Import ListNotations.
From VF Require Import common.Sym C05.Derive C05.Model C05.Proofs.
Local Open Scope N_scope.

(* NO SECRET LEAKS (full): for every lock configuration and every history of any length, no secret atom — private
   or symmetric key material (generated or imported), data-encryption key, master key, passphrase — is derivable. *)
Theorem no_secret_leaks : forall c ops n,
  secret_atom n = true -> ~ derivable (knowledge c (run init ops)) (Bytes n).
Proof. intros c ops n. apply secret_not_derivable. apply knowledge_safe. Qed.
Print Assumptions no_secret_leaks.

(* the atoms the model uses for key material and DEKs are secret atoms (so the theorem is about them) *)
Theorem model_keys_are_secret : forall p, secret_atom (ka p) = true /\ secret_atom (dk p) = true /\
  secret_atom a_master = true /\ secret_atom a_pass = true.
Proof. intro p. repeat split; [apply odd_ka | apply odd_dk]. Qed.
Print Assumptions model_keys_are_secret.

(* nor the key the master lock derives from the passphrase *)
Theorem lock_key_not_derivable : forall c ops, ~ derivable (knowledge c (run init ops)) (lock_key c).
Proof.
  intros c ops. apply kdf_of_secret_not_derivable; [apply knowledge_safe|]. destruct c; reflexivity.
Qed.
Print Assumptions lock_key_not_derivable.

(* everything handed to the adversary is `safe`, and everything he derives stays safe: in particular no tuple,
   ciphertext under a key he can derive, or KDF output he can build contains a secret *)
Theorem adversary_derives_only_safe_terms : forall c ops t,
  derivable (knowledge c (run init ops)) t -> safe t = true.
Proof. intros c ops. apply derivable_safe. apply knowledge_safe. Qed.
Print Assumptions adversary_derives_only_safe_terms.

(* API RESULTS: whatever an operation returns besides opaque handles is an id — the thumbprint (a digest) of a public
   key, or a random / caller-chosen string — or a public key; the correspondence rebuilds every returned id and every
   exported public key of the real key manager as such a term without going through it (the exported coordinates must
   be fields of the public key proto that Tink's key manager derives from the decrypted private key) *)
Theorem api_results_are_ids_and_public_keys : forall ops t,
  In t (outs (run init ops)) -> (exists k, t = Kdf [Pub k]) \/ (exists p, t = Junk p) \/ (exists k, t = Pub k).
Proof. intros ops. apply run_outs_public. intros t []. Qed.
Print Assumptions api_results_are_ids_and_public_keys.

(* STORED FORM: every value ever written is an envelope: keyset under a DEK, DEK under the master key *)
Theorem every_stored_value_is_an_envelope : forall ops v,
  In v (writes (run init ops)) -> exists d keys, v = sval d keys.
Proof. intros ops. apply run_writes_sval. intros v []. Qed.
Print Assumptions every_stored_value_is_an_envelope.

(* KEYSET INFO: the cleartext member of every stored value describes exactly the keys of the encrypted keyset, oldest
   first, the newest being primary, by their public descriptions — and is public data: it is `safe` to hand out
   (so no_secret_leaks covers it: it is part of every stored value the adversary holds) *)
Theorem keyset_info_describes_the_keyset : forall ops v,
  In v (writes (run init ops)) ->
  exists d keys, v = Tup [AEnc (Bytes d) empty (Tup (map Bytes keys)); AEnc master empty (Bytes d);
                          Tup [Junk (last_key keys); Tup (map Junk keys)]].
Proof. intros ops. apply run_writes_sval. intros v []. Qed.
Print Assumptions keyset_info_describes_the_keyset.

Theorem keyset_info_is_public : forall keys, safe (info keys) = true.
Proof. exact info_safe. Qed.
Print Assumptions keyset_info_is_public.

(* what it excludes: a keysetInfo that carries key bytes (a "debug" member, a type URL extended with the key) leaks *)
Theorem keyset_info_with_key_bytes_would_leak :
  derivable [Tup [AEnc (Bytes (dk 0)) empty (Tup [Bytes (ka 0)]); AEnc master empty (Bytes (dk 0));
                  Tup [Junk (ka 0); Tup [Tup [Junk (ka 0); Bytes (ka 0)]]]]] (Bytes (ka 0)).
Proof.
  eapply DProj with (l := [Junk (ka 0); Bytes (ka 0)]); [|right; left; reflexivity].
  eapply DProj with (l := [Tup [Junk (ka 0); Bytes (ka 0)]]); [|left; reflexivity].
  eapply DProj with (l := [Junk (ka 0); Tup [Tup [Junk (ka 0); Bytes (ka 0)]]]); [|right; left; reflexivity].
  eapply DProj; [apply DKnown; left; reflexivity | right; right; left; reflexivity].
Qed.
Print Assumptions keyset_info_with_key_bytes_would_leak.

(* RESTART: a new secret lock instance and key manager over the same store write and return nothing and leave every
   keyset as it was; no_secret_leaks and nonces_never_repeat_under_a_key are over histories with restarts anywhere *)
Theorem restart_writes_nothing : forall st,
  writes (fst (step st Reopen)) = writes st /\ outs (fst (step st Reopen)) = outs st /\
  issued (fst (step st Reopen)) = issued st /\ snd (step st Reopen) = ([], [], true).
Proof. exact reopen_nothing. Qed.
Print Assumptions restart_writes_nothing.

(* WRONG LOCK FAILS: a key manager opened over any store content with another master key reads no keyset;
   with the right one it reads every keyset *)
Theorem wrong_master_key_fails : forall ops v mk,
  In v (writes (run init ops)) -> mk <> master -> read_keyset mk v = None.
Proof.
  intros ops v mk I N. destruct (run_writes_sval ops init (fun v F => match F with end) v I) as (d & keys & ->).
  apply read_wrong. exact N.
Qed.
Print Assumptions wrong_master_key_fails.

Theorem right_master_key_reads : forall ops v,
  In v (writes (run init ops)) -> exists keys, read_keyset master v = Some (Tup (map Bytes keys)).
Proof.
  intros ops v I. destruct (run_writes_sval ops init (fun v F => match F with end) v I) as (d & keys & ->).
  exists keys. apply read_right.
Qed.
Print Assumptions right_master_key_reads.

(* the protected master key opens under the passphrase-derived key only *)
Theorem wrong_passphrase_fails : forall c pass, pass <> Bytes a_pass -> unlock c pass = None.
Proof. exact unlock_wrong. Qed.
Print Assumptions wrong_passphrase_fails.

Theorem right_passphrase_unlocks : forall c, c <> LRaw -> unlock c (Bytes a_pass) = Some master.
Proof. exact unlock_right. Qed.
Print Assumptions right_passphrase_unlocks.

(* a configured master lock accepts nothing but a blob encrypted under ITS derived key: not a plain master key in any
   form, not garbage, not a blob of another passphrase (data is ANY term) *)
Theorem master_lock_accepts_only_its_blob : forall c pass data m,
  unlock_data c pass data = Some m -> data = AEnc (lock_key_of c pass) empty m.
Proof. exact unlock_data_only_its_blob. Qed.
Print Assumptions master_lock_accepts_only_its_blob.

(* FRESH NONCES: the encryptions of every run — protections of master keys by any number of lock instances, DEK
   wrappings, keyset encryptions — never use a (key, nonce) pair twice; the correspondence checks that the
   implementation's encryptions have the model's keys and the same no-repeat pattern (nonces read from the bytes) *)
Theorem nonces_never_repeat_under_a_key : forall c nblobs ops, NoDup (enc_events c nblobs ops).
Proof. intros c nblobs ops. apply discipline_NoDup. apply discipline_number. Qed.
Print Assumptions nonces_never_repeat_under_a_key.

Theorem nonce_discipline_is_no_repeat : forall l, discipline l = true <-> NoDup l.
Proof. exact discipline_NoDup. Qed.
Print Assumptions nonce_discipline_is_no_repeat.

(* what the theorem excludes, shown on the two mutants of the property text: a cleartext keyset, or a DEK wrapped
   under a constant (public) key, in the store makes key material derivable *)
Theorem cleartext_keyset_would_leak :
  derivable [Tup [Tup [Bytes (ka 0)]; AEnc master empty (Bytes (dk 0))]] (Bytes (ka 0)).
Proof.
  eapply DProj with (l := [Bytes (ka 0)]); [|left; reflexivity].
  eapply DProj; [apply DKnown; left; reflexivity | left; reflexivity].
Qed.
Print Assumptions cleartext_keyset_would_leak.

Theorem constant_wrapping_key_would_leak :
  derivable [Tup [AEnc (Bytes (dk 0)) empty (Tup [Bytes (ka 0)]); AEnc (Bytes 8) empty (Bytes (dk 0))]] (Bytes (ka 0)).
Proof.
  set (K := [Tup [AEnc (Bytes (dk 0)) empty (Tup [Bytes (ka 0)]); AEnc (Bytes 8) empty (Bytes (dk 0))]]).
  assert (D : derivable K (Bytes (dk 0))).
  { eapply DDec with (k := Bytes 8) (a := empty); [|apply DPublic; reflexivity].
    eapply DProj; [apply DKnown; left; reflexivity | right; left; reflexivity]. }
  eapply DProj with (l := [Bytes (ka 0)]); [|left; reflexivity].
  eapply DDec with (k := Bytes (dk 0)) (a := empty); [|exact D].
  eapply DProj; [apply DKnown; left; reflexivity | left; reflexivity].
Qed.
Print Assumptions constant_wrapping_key_would_leak.

(* non-vacuity: a history writing four envelopes, with an import, a rotation and exports *)
Example no_secret_leaks_nonvacuous :
  let st := run init [Create true; Import 8001 true; Rotate 0; Reopen; CreateExport false; Export 2; Get 1] in
  length (writes st) = 4%nat /\
  nth 2%nat (writes st) empty = sval (dk 2) [ka 0; ka 2] /\
  sval (dk 2) [ka 0; ka 2] = Tup [AEnc (Bytes 15) empty (Tup [Bytes 5; Bytes 13]); AEnc master empty (Bytes 15);
                                  Tup [Junk 13; Tup [Junk 5; Junk 13]]] /\
  outs st = [Kdf [Pub 5]; Kdf [Pub 8001]; Kdf [Pub 13]; Pub 13] /\
  read_keyset master (nth 2%nat (writes st) empty) = Some (Tup [Bytes 5; Bytes 13]) /\
  read_keyset (Bytes 9) (nth 2%nat (writes st) empty) = None /\
  all_safe (knowledge LHkdf st) = true.
Proof. vm_compute. repeat split. Qed.
