(* C05 — attacker derivability over the symbolic terms of common/Sym.v, and the secrecy argument.

   Atoms are `Bytes n`.  Odd atoms are SECRET (private/symmetric key material, data-encryption keys, the master
   key, the passphrase), even atoms are public.  `Kdf l` is a key derived from l (one-way).  The attacker
   (Dolev-Yao): knows a set K of terms, splits tuples, opens `AEnc k aad m` / `Wrap k c` when he can derive k,
   and builds tuples, ciphertexts and KDF outputs from what he can derive. *)
From Coq Require Import List NArith Bool Lia.
Import ListNotations.
From VF Require Import common.Sym.

Definition secret_atom (n : N) : bool := N.odd n.

Inductive derivable (K : list term) : term -> Prop :=
| DKnown t : In t K -> derivable K t
| DPublic n : secret_atom n = false -> derivable K (Bytes n)
| DJunk n : derivable K (Junk n)
| DPub k : derivable K (Pub k)
| DProj l t : derivable K (Tup l) -> In t l -> derivable K t
| DDec k a m : derivable K (AEnc k a m) -> derivable K k -> derivable K m
| DAad k a m : derivable K (AEnc k a m) -> derivable K a
| DUnwrap k c : derivable K (Wrap k c) -> derivable K k -> derivable K c
| DTup l : (forall t, In t l -> derivable K t) -> derivable K (Tup l)
| DEnc k a m : derivable K k -> derivable K a -> derivable K m -> derivable K (AEnc k a m)
| DWrap k c : derivable K k -> derivable K c -> derivable K (Wrap k c)
| DKdf l : (forall t, In t l -> derivable K t) -> derivable K (Kdf l)
| DDH a b : derivable K (DH a b).   (* not used by C05: given away *)

(* safe t: t may be handed to the attacker.  A secret atom is not safe; a KDF output is safe only when the attacker
   could compute it himself; a ciphertext is safe when its key is unsafe (never derivable) or its content is safe. *)
Fixpoint safe (t : term) : bool :=
  let fix all (l : list term) : bool :=
      match l with [] => true | x :: r => safe x && all r end in
  match t with
  | Bytes n => negb (secret_atom n)
  | Junk _ | Pub _ | DH _ _ => true
  | AEnc k a m => safe a && (negb (safe k) || safe m)
  | Wrap k c => negb (safe k) || safe c
  | Kdf l => all l
  | Tup l => all l
  end.

Definition all_safe (l : list term) : bool := forallb safe l.

Lemma safe_Tup l : safe (Tup l) = all_safe l.
Proof. cbn. induction l as [|x r IH]; cbn; [reflexivity | rewrite IH; reflexivity]. Qed.
Lemma safe_Kdf l : safe (Kdf l) = all_safe l.
Proof. cbn. induction l as [|x r IH]; cbn; [reflexivity | rewrite IH; reflexivity]. Qed.

Lemma all_safe_in l : all_safe l = true <-> (forall t, In t l -> safe t = true).
Proof. unfold all_safe. apply forallb_forall. Qed.

(* THE secrecy lemma: from safe knowledge only safe terms can be derived *)
Lemma derivable_safe K : all_safe K = true -> forall t, derivable K t -> safe t = true.
Proof.
  intros HK t D. induction D.
  - apply (proj1 (all_safe_in K) HK). assumption.
  - cbn. rewrite H. reflexivity.
  - reflexivity.
  - reflexivity.
  - rewrite safe_Tup in IHD. apply (proj1 (all_safe_in l) IHD). assumption.
  - cbn in IHD1. apply andb_true_iff in IHD1 as [_ H]. rewrite IHD2 in H. cbn in H. exact H.
  - cbn in IHD. apply andb_true_iff in IHD as [H _]. exact H.
  - cbn in IHD1. rewrite IHD2 in IHD1. cbn in IHD1. exact IHD1.
  - rewrite safe_Tup. apply all_safe_in. assumption.
  - cbn. rewrite IHD2, IHD3. cbn. apply orb_true_r.
  - cbn. rewrite IHD2. apply orb_true_r.
  - rewrite safe_Kdf. apply all_safe_in. assumption.
  - reflexivity.
Qed.

Lemma secret_not_derivable K n :
  all_safe K = true -> secret_atom n = true -> ~ derivable K (Bytes n).
Proof.
  intros HK S D. apply (derivable_safe K HK) in D. cbn in D. rewrite S in D. discriminate.
Qed.

(* a key derived from something secret is itself out of reach *)
Lemma kdf_of_secret_not_derivable K l :
  all_safe K = true -> all_safe l = false -> ~ derivable K (Kdf l).
Proof.
  intros HK S D. apply (derivable_safe K HK) in D. rewrite safe_Kdf in D. congruence.
Qed.
