(* C05 — correspondence: the harness decrypts, with the keys it owns, every value the real localkms wrote to the
   recording store and rebuilds it as a term (which key wrapped the DEK, which DEK sealed the keyset, which key
   material is inside, whether anything else is in the stored JSON); the model must have written the same terms.
   It also rebuilds the protected master key and tries wrong master keys / passphrases. *)
From Coq Require Import List NArith Bool.
Import ListNotations.
From VF Require Export C05.Derive C05.Model.

Fixpoint terms_eqb (a b : list term) : bool :=
  match a, b with
  | [], [] => true
  | x :: r, y :: t => term_eqb x y && terms_eqb r t
  | _, _ => false
  end.

(* per operation: the values written (as rebuilt terms), the non-opaque API results (ids, exported public keys, as
   rebuilt terms) and whether the call succeeded *)
Definition obs := (list term * list term * bool)%type.

Record case := {
  c_cfg : lockcfg;
  c_ops : list kop;
  c_obs : list obs;
  c_protected : list term;      (* the protected master key file as rebuilt by the harness ([] for the raw lock) *)
  c_wrong_master_reads : bool;  (* did any Get succeed in a key manager opened with another master key? *)
  c_wrong_pass_unlocks : bool;  (* did local.NewService succeed with another passphrase? *)
  c_nblobs : nat;               (* protected master keys made in this run, each by its own lock instance *)
  c_events : list enc_event     (* every encryption seen: its key (as rebuilt) and its nonce (equal bytes = equal number) *)
}.

Fixpoint check_from (st : kstate) (ops : list kop) (o : list obs) : bool :=
  match ops, o with
  | [], [] => true
  | op :: r, (w, o, ok) :: t =>
      let '(st', (mw, mo, mok)) := step st op in
      terms_eqb mw w && terms_eqb mo o && Bool.eqb mok ok && check_from st' r t
  | _, _ => false
  end.

Definition check_case (c : case) : bool :=
  check_from init (c_ops c) (c_obs c) &&
  terms_eqb (protected_master (c_cfg c)) (c_protected c) &&
  negb (c_wrong_master_reads c) &&
  (* model: wrong master key reads nothing; wrong passphrase unlocks nothing *)
  forallb (fun v => match read_keyset (Bytes 9) v with None => true | Some _ => false end)
          (writes (run init (c_ops c))) &&
  negb (c_wrong_pass_unlocks c) &&
  match unlock (c_cfg c) (Bytes 11) with None => true | Some _ => false end &&
  all_safe (knowledge (c_cfg c) (run init (c_ops c))) &&
  (* the implementation encrypted under the model's keys, in the model's order, and never repeated a (key, nonce) *)
  terms_eqb (map fst (c_events c)) (enc_keys (c_cfg c) (c_nblobs c) (c_ops c)) &&
  discipline (c_events c).

Fixpoint mismatches_from (i : nat) (cs : list case) : list nat :=
  match cs with
  | [] => []
  | c :: r => if check_case c then mismatches_from (S i) r else i :: mismatches_from (S i) r
  end.
Definition mismatches := mismatches_from 0.
