(* C05 — lemmas *)
From Coq Require Import List NArith Bool Lia.
Import ListNotations.
From VF Require Import common.Sym C05.Derive C05.Model.

Lemma odd_ka p : secret_atom (ka p) = true.
Proof.
  unfold secret_atom, ka. replace (4 * p + 5)%N with (1 + 2 * (2 * p + 2))%N by lia.
  rewrite N.odd_add_mul_2. reflexivity.
Qed.
Lemma odd_dk p : secret_atom (dk p) = true.
Proof.
  unfold secret_atom, dk. replace (4 * p + 7)%N with (1 + 2 * (2 * p + 3))%N by lia.
  rewrite N.odd_add_mul_2. reflexivity.
Qed.

(* a stored value is safe whatever it contains, as long as its DEK is a secret atom: both ciphertexts are under
   unsafe keys *)
Lemma junks_safe keys : all_safe (map Junk keys) = true.
Proof. induction keys as [|k r IH]; cbn; [reflexivity | exact IH]. Qed.

(* keysetInfo is public data: handing it out gives the adversary nothing *)
Lemma info_safe keys : safe (info keys) = true.
Proof.
  unfold info. rewrite safe_Tup. cbn [all_safe forallb]. rewrite safe_Tup. fold (all_safe (map Junk keys)).
  rewrite junks_safe. reflexivity.
Qed.

Lemma sval_safe d keys : secret_atom d = true -> safe (sval d keys) = true.
Proof.
  intro S. unfold sval. rewrite safe_Tup. cbn [all_safe forallb]. rewrite info_safe.
  cbn [safe empty master a_master secret_atom]. rewrite S. cbn. reflexivity.
Qed.

Lemma id_term_safe a k p : safe (id_term a k p) = true.
Proof. destruct a; reflexivity. Qed.

Lemma all_safe_app a b : all_safe (a ++ b) = all_safe a && all_safe b.
Proof. unfold all_safe. apply forallb_app. Qed.

Definition st_safe (st : kstate) : Prop := all_safe (writes st) = true /\ all_safe (outs st) = true.

Lemma step_safe st o : st_safe st -> st_safe (fst (step st o)).
Proof.
  intros [W O]. unfold st_safe.
  destruct o as [a|a|k th|r|r|r|k acc th|r wk|]; cbn [step].
  9: { cbn [fst writes outs]. rewrite ?app_nil_r, ?W, ?O. split; reflexivity. }
  8: { cbn [fst writes outs]. rewrite ?app_nil_r, ?W, ?O. split; reflexivity. }
  7: { destruct acc; cbn [fst writes outs]; rewrite ?all_safe_app, ?app_nil_r, ?W, ?O; cbn [all_safe forallb];
       rewrite ?sval_safe by apply odd_dk; rewrite ?id_term_safe; split; reflexivity. }
  - cbn [fst writes outs]. rewrite !all_safe_app, W, O. cbn [all_safe forallb].
    rewrite sval_safe by apply odd_dk. rewrite id_term_safe. split; reflexivity.
  - destruct a; cbn [fst writes outs]; rewrite !all_safe_app, W, O; cbn [all_safe forallb];
      rewrite sval_safe by apply odd_dk; split; reflexivity.
  - cbn [fst writes outs]. rewrite !all_safe_app, W, O. cbn [all_safe forallb].
    rewrite sval_safe by apply odd_dk. rewrite ?id_term_safe. split; reflexivity.
  - destruct (nth_error (issued st) r) as [ks|]; [destruct (k_live ks)|]; cbn [fst writes outs];
      rewrite ?all_safe_app, ?app_nil_r, ?W, ?O; cbn [all_safe forallb];
      rewrite ?sval_safe by apply odd_dk; rewrite ?id_term_safe; split; reflexivity.
  - destruct (nth_error (issued st) r) as [ks|]; cbn [fst writes outs];
      rewrite ?app_nil_r, ?W, ?O; split; reflexivity.
  - destruct (nth_error (issued st) r) as [ks|]; [destruct (k_live ks && k_asym ks)|]; cbn [fst writes outs];
      rewrite ?all_safe_app, ?app_nil_r, ?W, ?O; split; reflexivity.
Qed.

Lemma run_safe ops : forall st, st_safe st -> st_safe (run st ops).
Proof.
  induction ops as [|o r IH]; intros st S; cbn; [exact S|]. apply IH. apply step_safe. exact S.
Qed.

Lemma protected_safe c : all_safe (protected_master c) = true.
Proof. destruct c; reflexivity. Qed.

Lemma knowledge_safe c ops : all_safe (knowledge c (run init ops)) = true.
Proof.
  destruct (run_safe ops init) as [W O]; [split; reflexivity|].
  unfold knowledge. rewrite !all_safe_app, protected_safe, W, O. reflexivity.
Qed.

(* every value ever written has the envelope form, under the DEK of its operation *)
Definition is_sval (v : term) : Prop := exists d keys, v = sval d keys.

Lemma step_writes_sval st o :
  (forall v, In v (writes st) -> is_sval v) -> forall v, In v (writes (fst (step st o))) -> is_sval v.
Proof.
  intros H v I.
  assert (G : forall w,
             (forall x, In x w -> is_sval x) ->
             In v (writes st ++ w) -> is_sval v).
  { intros w Hw I'. apply in_app_or in I'. destruct I' as [I'|I']; [apply H | apply Hw]; exact I'. }
  destruct o as [a|a|k th|r|r|r|k acc th|r wk|]; cbn [step] in I.
  9: { cbn [fst writes] in I. eapply G; [|exact I]. intros x []. }
  8: { cbn [fst writes] in I. eapply G; [|exact I]. intros x []. }
  7: { destruct acc; cbn [fst writes] in I; (eapply G; [|exact I]); intros x Hx; cbn in Hx; try contradiction;
       destruct Hx as [<-|[]]; eexists _, _; reflexivity. }
  - cbn [fst writes] in I. eapply G; [|exact I]. intros x [<-|[]]. eexists _, _; reflexivity.
  - destruct a; cbn [fst writes] in I; (eapply G; [|exact I]); intros x [<-|[]];
      eexists _, _; reflexivity.
  - cbn [fst writes] in I. eapply G; [|exact I]. intros x [<-|[]]. eexists _, _; reflexivity.
  - destruct (nth_error (issued st) r) as [ks|]; [destruct (k_live ks)|]; cbn [fst writes] in I;
      (eapply G; [|exact I]); intros x Hx; cbn in Hx; try contradiction; destruct Hx as [<-|[]]; eexists _, _; reflexivity.
  - destruct (nth_error (issued st) r) as [ks|]; cbn [fst writes] in I;
      (eapply G; [|exact I]); intros x [].
  - destruct (nth_error (issued st) r) as [ks|]; [destruct (k_live ks && k_asym ks)|]; cbn [fst writes] in I;
      (eapply G; [|exact I]); intros x [].
Qed.

Lemma run_writes_sval ops : forall st,
  (forall v, In v (writes st) -> is_sval v) -> forall v, In v (writes (run st ops)) -> is_sval v.
Proof.
  induction ops as [|o r IH]; intros st H; cbn; [exact H|]. apply IH. apply step_writes_sval. exact H.
Qed.

Lemma read_right d keys : read_keyset master (sval d keys) = Some (Tup (map Bytes keys)).
Proof.
  unfold read_keyset, sval, adec. rewrite !term_eqb_refl. cbn [andb]. rewrite !term_eqb_refl. reflexivity.
Qed.

Lemma read_wrong mk d keys : mk <> master -> read_keyset mk (sval d keys) = None.
Proof.
  intro N. unfold read_keyset, sval, adec.
  destruct (term_eqb master mk) eqn:E; [apply term_eqb_eq in E; congruence|]. reflexivity.
Qed.

Lemma unlock_right c : c <> LRaw -> unlock c (Bytes a_pass) = Some master.
Proof.
  intro N. destruct c; [congruence| |]; unfold unlock, protected_master, adec, lock_key;
    rewrite !term_eqb_refl; reflexivity.
Qed.

Lemma unlock_wrong c pass : pass <> Bytes a_pass -> unlock c pass = None.
Proof.
  intro N. destruct c; [reflexivity| |]; unfold unlock, protected_master, adec, lock_key.
  - destruct (term_eqb (lock_key_of LHkdf (Bytes a_pass)) (lock_key_of LHkdf pass)) eqn:E; [|reflexivity].
    apply term_eqb_eq in E. unfold lock_key_of in E. inversion E. congruence.
  - destruct (term_eqb (lock_key_of LPbkdf2 (Bytes a_pass)) (lock_key_of LPbkdf2 pass)) eqn:E; [|reflexivity].
    apply term_eqb_eq in E. unfold lock_key_of in E. inversion E. congruence.
Qed.

(* ---------- fresh nonces ---------- *)
Lemma clash_number k n : forall ks i, (n < i)%N -> clash k n (number i ks) = false.
Proof.
  induction ks as [|x r IH]; intros i H; cbn; [reflexivity|].
  replace (N.eqb i n) with false by (symmetry; apply N.eqb_neq; lia).
  rewrite andb_false_r. cbn. apply IH. lia.
Qed.

Lemma discipline_number : forall ks i, discipline (number i ks) = true.
Proof.
  induction ks as [|x r IH]; intro i; cbn; [reflexivity|].
  rewrite clash_number by lia. cbn. apply IH.
Qed.

Lemma clash_spec k n l : clash k n l = true <-> In (k, n) l.
Proof.
  unfold clash. rewrite existsb_exists. split.
  - intros ((k', n') & I & H). cbn in H. apply andb_true_iff in H as [H1 H2].
    apply term_eqb_eq in H1. apply N.eqb_eq in H2. subst. exact I.
  - intro I. exists (k, n). split; [exact I|]. cbn. rewrite term_eqb_refl, N.eqb_refl. reflexivity.
Qed.

Lemma discipline_NoDup l : discipline l = true <-> NoDup l.
Proof.
  induction l as [|[k n] r IH]; cbn; split; intro H; try reflexivity; try constructor.
  - apply andb_true_iff in H as [H1 H2]. intro I. apply clash_spec in I. rewrite I in H1. discriminate.
  - apply andb_true_iff in H as [H1 H2]. apply IH. exact H2.
  - inversion H; subst. apply andb_true_iff. split; [|apply IH; assumption].
    destruct (clash k n r) eqn:E; [apply clash_spec in E; contradiction | reflexivity].
Qed.

Lemma unlock_data_only_its_blob c pass data m :
  unlock_data c pass data = Some m -> data = AEnc (lock_key_of c pass) empty m.
Proof.
  unfold unlock_data, adec. destruct data; try discriminate.
  destruct (term_eqb data1 (lock_key_of c pass) && term_eqb data2 empty) eqn:E; [|discriminate].
  apply andb_true_iff in E as [E1 E2]. apply term_eqb_eq in E1. apply term_eqb_eq in E2. subst.
  intro H; inversion H; reflexivity.
Qed.

(* a restart writes nothing, returns nothing, and leaves every issued keyset as it was *)
Lemma reopen_nothing st :
  writes (fst (step st Reopen)) = writes st /\ outs (fst (step st Reopen)) = outs st /\
  issued (fst (step st Reopen)) = issued st /\ snd (step st Reopen) = ([], [], true).
Proof. cbn [step fst snd writes outs issued]. rewrite !app_nil_r. repeat split; reflexivity. Qed.

(* every non-opaque API result is an id (thumbprint of a public key / random or chosen string) or a public key *)
Definition is_public_out (t : term) : Prop :=
  (exists k, t = Kdf [Pub k]) \/ (exists p, t = Junk p) \/ (exists k, t = Pub k).

Lemma id_term_public a k p : is_public_out (id_term a k p).
Proof. destruct a; [left; eexists; reflexivity | right; left; eexists; reflexivity]. Qed.

Lemma step_outs_public st o :
  (forall t, In t (outs st) -> is_public_out t) -> forall t, In t (outs (fst (step st o))) -> is_public_out t.
Proof.
  intros H t I.
  assert (G : forall w, (forall x, In x w -> is_public_out x) -> In t (outs st ++ w) -> is_public_out t).
  { intros w Hw I'. apply in_app_or in I'. destruct I' as [I'|I']; [apply H | apply Hw]; exact I'. }
  assert (P : forall k, is_public_out (Pub k)) by (intro k; right; right; eexists; reflexivity).
  destruct o as [a|a|k th|r|r|r|k acc th|r wk|]; cbn [step] in I.
  - cbn [fst outs] in I. eapply G; [|exact I]. intros x [<-|[]]. apply id_term_public.
  - destruct a; cbn [fst outs] in I; (eapply G; [|exact I]); intros x Hx; cbn in Hx; try contradiction.
    destruct Hx as [<-|[<-|[]]]; [left; eexists; reflexivity | apply P].
  - cbn [fst outs] in I. eapply G; [|exact I]. intros x [<-|[]]. apply id_term_public.
  - destruct (nth_error (issued st) r) as [ks|]; [destruct (k_live ks)|]; cbn [fst outs] in I;
      (eapply G; [|exact I]); intros x Hx; cbn in Hx; try contradiction. destruct Hx as [<-|[]]. apply id_term_public.
  - destruct (nth_error (issued st) r) as [ks|]; cbn [fst outs] in I; (eapply G; [|exact I]); intros x [].
  - destruct (nth_error (issued st) r) as [ks|]; [destruct (k_live ks && k_asym ks)|]; cbn [fst outs] in I;
      (eapply G; [|exact I]); intros x Hx; cbn in Hx; try contradiction. destruct Hx as [<-|[]]. apply P.
  - destruct acc; cbn [fst outs] in I; (eapply G; [|exact I]); intros x Hx; cbn in Hx; try contradiction.
    destruct Hx as [<-|[]]. apply id_term_public.
  - cbn [fst outs] in I. eapply G; [|exact I]. intros x [].
  - cbn [fst outs] in I. eapply G; [|exact I]. intros x [].
Qed.

Lemma run_outs_public ops : forall st,
  (forall t, In t (outs st) -> is_public_out t) -> forall t, In t (outs (run st ops)) -> is_public_out t.
Proof.
  induction ops as [|o r IH]; intros st H; cbn; [exact H|]. apply IH. apply step_outs_public. exact H.
Qed.
