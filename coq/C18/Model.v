(* C18 — executable model of component/models/sdjwt (issuer v2/v5, holder, verifier) — NO proofs here.

   Values are JSON trees in which a digest STRING is the symbolic term [VDig alg e salt name v]: the hash
   (algorithm [alg]) of the base64url text of the JSON array with [e] elements [salt, name?, v]
   (e = 3: object member disclosure, e = 2: array element disclosure, e >= 4: longer array, e = 0: the hash
   of a raw salt string = a decoy).  Hash, JSON encoding and base64 are injective by construction (symbolic
   abstraction, DESIGN section 8); a re-encoding of the same JSON text (white space, base64 trailing bits)
   is a different string and is given a different salt symbol by the harness.  Salts are symbols of type
   [path]: the issuer model names the salt drawn at a disclosure site by the site's path, the harness names
   observed salts by their index.  Go's nil = JSON null = [VNull]. *)
From Coq Require Import List String ZArith NArith Bool.
Import ListNotations.
From VF Require Export common.Res.
Open Scope string_scope.
Open Scope list_scope.

Inductive step := SKey (k : string) | SIdx (i : N) | SDecoy (i : N).
Definition path := list step.

Inductive val :=
| VNull | VBool (b : bool) | VNum (z : Z) | VStr (s : string)
| VDig (alg : N) (e : N) (salt : path) (name : string) (v : val)
| VArr (l : list val) | VObj (m : list (string * val)).

(* ---------- equality ---------- *)
Definition step_eqb (a b : step) : bool :=
  match a, b with
  | SKey x, SKey y => String.eqb x y
  | SIdx x, SIdx y => N.eqb x y
  | SDecoy x, SDecoy y => N.eqb x y
  | _, _ => false
  end.
Fixpoint path_eqb (a b : path) : bool :=
  match a, b with
  | [], [] => true
  | x :: r, y :: t => step_eqb x y && path_eqb r t
  | _, _ => false
  end.

Fixpoint val_eqb (x y : val) {struct x} : bool :=
  match x, y with
  | VNull, VNull => true
  | VBool a, VBool b => Bool.eqb a b
  | VNum a, VNum b => Z.eqb a b
  | VStr a, VStr b => String.eqb a b
  | VDig a e s n v, VDig a' e' s' n' v' =>
      N.eqb a a' && N.eqb e e' && path_eqb s s' && String.eqb n n' && val_eqb v v'
  | VArr l, VArr l' =>
      (fix go (l1 l2 : list val) {struct l1} : bool :=
         match l1, l2 with
         | [], [] => true
         | a :: r1, b :: r2 => val_eqb a b && go r1 r2
         | _, _ => false
         end) l l'
  | VObj m, VObj m' =>
      (fix go (m1 m2 : list (string * val)) {struct m1} : bool :=
         match m1, m2 with
         | [], [] => true
         | (k, a) :: r1, (k', b) :: r2 => String.eqb k k' && val_eqb a b && go r1 r2
         | _, _ => false
         end) m m'
  | _, _ => false
  end.

Fixpoint memv (g : val) (D : list val) : bool :=
  match D with [] => false | x :: r => val_eqb g x || memv g r end.
Fixpoint nodupv (l : list val) : bool :=
  match l with [] => true | x :: r => negb (memv x r) && nodupv r end.
Fixpoint mems (k : string) (l : list string) : bool :=
  match l with [] => false | x :: r => String.eqb k x || mems k r end.
Fixpoint nodups (l : list string) : bool :=
  match l with [] => true | x :: r => negb (mems x r) && nodups r end.
Fixpoint memp (p : path) (l : list path) : bool :=
  match l with [] => false | x :: r => path_eqb p x || memp p r end.

Fixpoint lookupv (m : list (string * val)) (k : string) : option val :=
  match m with [] => None | (k', v) :: r => if String.eqb k k' then Some v else lookupv r k end.

Definition is_null (v : val) : bool := match v with VNull => true | _ => false end.
Definition is_string (v : val) : bool := match v with VStr _ | VDig _ _ _ _ _ => true | _ => false end.

Definition SD := "_sd".
Definition SDALG := "_sd_alg".
Definition DOTS := "...".

(* ---------- disclosures ---------- *)
(* a disclosure string, by its content; d_e < 2 stands for every text getDisclosureClaim refuses
   (not base64, not a JSON array, fewer than two elements, salt or member name not a string) *)
Record disc := { d_e : N; d_salt : path; d_name : string; d_val : val }.
Definition digest (alg : N) (d : disc) : val := VDig alg (d_e d) (d_salt d) (d_name d) (d_val d).
Definition disc_eqb (a b : disc) : bool := val_eqb (digest 0 a) (digest 0 b).
Fixpoint memd (d : disc) (l : list disc) : bool :=
  match l with [] => false | x :: r => disc_eqb d x || memd d r end.
Fixpoint nodupd (l : list disc) : bool :=
  match l with [] => true | x :: r => negb (memd x r) && nodupd r end.

(* ---------- common/verification.go discloseClaimValue ----------
   [D]: digests of the presented disclosures.  By injectivity of the symbolic hash the disclosure whose digest
   is [VDig a e s n v] IS (e, s, n, v), so the code's map lookup recData.disclosures[digest] is the membership
   test [memv g D] and the looked-up value is [v].  [cleanup] = recData.cleanupDigestsClaims. *)
Fixpoint resolve (cleanup : bool) (D : list val) (v : val) {struct v} : res val :=
  match v with
  | VArr l =>
      bind ((fix go (l : list val) : res (list val) :=
               match l with
               | [] => Ok []
               | x :: r =>
                   match x with
                   | VObj m =>
                       (* parsedMap["..."] *)
                       (fix dots (m' : list (string * val)) : res (list val) :=
                          match m' with
                          | [] => bind (go r) (fun t => Ok (x :: t))          (* no "..." member: element as it is *)
                          | (k, g) :: r' =>
                              if String.eqb k DOTS then
                                match g with
                                | VDig _ e _ _ v' =>
                                    if memv g D then
                                      if N.eqb e 2 then
                                        bind (resolve cleanup D v') (fun y => bind (go r) (fun t => Ok (y :: t)))
                                      else Err ERejected
                                    else if cleanup then go r else bind (go r) (fun t => Ok (x :: t))
                                | VStr _ => if cleanup then go r else bind (go r) (fun t => Ok (x :: t))
                                | _ => Err EInvalid                            (* "invalid array struct" *)
                                end
                              else dots r'
                          end) m
                   | _ => bind (go r) (fun t => Ok (x :: t))                   (* not a map: as it is *)
                   end
               end) l)
           (fun l' => Ok (match l' with [] => VNull | _ => VArr l' end))    (* len(newValues)==0 -> nil *)
  | VObj m =>
      (* nested _sd list: the disclosed members *)
      let sdl :=
        (fix find (m' : list (string * val)) : res (list (string * val)) :=
           match m' with
           | [] => Ok []
           | (k, x) :: r' =>
               if String.eqb k SD then
                 match x with
                 | VNull => Ok []
                 | VArr gl =>
                     if forallb is_string gl then
                       (fix sdgo (gl : list val) : res (list (string * val)) :=
                          match gl with
                          | [] => Ok []
                          | g :: gr =>
                              match g with
                              | VDig _ e _ n v' =>
                                  if memv g D then
                                    if N.eqb e 3 then
                                      bind (resolve cleanup D v') (fun y => bind (sdgo gr) (fun t => Ok ((n, y) :: t)))
                                    else Err ERejected
                                  else sdgo gr
                              | _ => sdgo gr
                              end
                          end) gl
                     else Err EInvalid
                 | _ => Err EInvalid
                 end
               else find r'
           end) m in
      let plain :=
        (fix pl (m' : list (string * val)) : res (list (string * val)) :=
           match m' with
           | [] => Ok []
           | (k, x) :: r' =>
               if String.eqb k SD || (String.eqb k SDALG && cleanup) then pl r'
               else bind (resolve cleanup D x) (fun y => bind (pl r') (fun t =>
                      Ok (if is_null y then t else (k, y) :: t)))
           end) m in
      bind sdl (fun s => bind plain (fun p =>
        (* "claim name already exists at the same level" *)
        let keys := map fst s ++ filter (fun k => negb (String.eqb k SD || (String.eqb k SDALG && cleanup))) (map fst m) in
        if nodups keys then Ok (VObj (s ++ p)) else Err ERejected))
  | _ => Ok v
  end.

(* recData.nestedSD: every digest string met by the walk (disclosed ones are entered).  [ctx] = 3 for a string of
   an "_sd" list, 2 for the string under "..." of an array element, 0 elsewhere (an ordinary value). *)
Fixpoint collect (D : list val) (ctx : N) (v : val) {struct v} : list val :=
  match v with
  | VDig _ e _ _ v' =>
      if N.eqb ctx 0 then [] else v :: (if memv v D && N.eqb e ctx then collect D 0 v' else [])
  | VStr _ => if N.eqb ctx 0 then [] else [v]
  | VArr l =>
      flat_map (fun x => match x with
                         | VObj m => flat_map (fun kv => if String.eqb (fst kv) DOTS then collect D 2 (snd kv) else []) m
                         | _ => []
                         end) l
  | VObj m =>
      flat_map (fun kv => if String.eqb (fst kv) SD
                          then match snd kv with VArr gl => flat_map (collect D 3) gl | _ => [] end
                          else collect D 0 (snd kv)) m
  | _ => []
  end.

(* ---------- _sd_alg, cnf ---------- *)
Definition alg_of_name (s : string) : option N :=
  if String.eqb s "sha-256" then Some 256%N
  else if String.eqb s "sha-384" then Some 384%N
  else if String.eqb s "sha-512" then Some 512%N else None.
Definition alg_name (a : N) : string :=
  if N.eqb a 384 then "sha-384" else if N.eqb a 512 then "sha-512" else "sha-256".

Definition from_vc (k : string) (m : list (string * val)) : option val :=
  match lookupv m k with
  | Some x => Some x
  | None => match lookupv m "vc" with Some (VObj vc) => lookupv vc k | _ => None end
  end.
Definition get_alg (payload : val) : res N :=
  match payload with
  | VObj m => match from_vc SDALG m with
              | Some (VStr s) => match alg_of_name s with Some a => Ok a | None => Err EInvalid end
              | _ => Err EInvalid
              end
  | _ => Err EInvalid
  end.
(* the holder key committed to by the issuer: cnf.jwk, a key symbol *)
Definition get_cnf_key (payload : val) : res Z :=
  match payload with
  | VObj m => match from_vc "cnf" m with
              | Some (VObj c) => match lookupv c "jwk" with Some (VNum k) => Ok k | _ => Err EInvalid end
              | _ => Err EInvalid
              end
  | _ => Err EInvalid
  end.

(* ---------- VerifyDisclosuresInSDJWT ---------- *)
Definition verify_disclosures (payload : val) (ds : list disc) : res unit :=
  bind (get_alg payload) (fun a =>
    if forallb (fun d => N.leb 2 (d_e d)) ds then
      let D := map (digest a) ds in
      bind (resolve false D payload) (fun _ =>
        let seen := collect D 0 payload in
        if nodupv seen then
          if forallb (fun g => memv g seen) D then Ok tt else Err ENotFound
        else Err ERejected)
    else Err EInvalid).

(* ---------- holder binding (verifier.go runHolderVerification) ----------
   The JWS layer is C08's subject: here a holder-binding JWT is (key that signed it, nonce, aud, whether its
   alg is allowed and its time claims valid). *)
Record hbjwt := { hb_key : Z; hb_nonce : string; hb_aud : string; hb_ok : bool }.
Record vopts := { vo_required : bool; vo_nonce : string; vo_aud : string }.

Definition holder_verification (vo : vopts) (payload : val) (hb : option hbjwt) : res unit :=
  match hb with
  | None => if vo_required vo then Err ERejected else Ok tt
  | Some h =>
      bind (get_cnf_key payload) (fun k =>
        if negb (Z.eqb k (hb_key h)) then Err ERejected            (* signature does not verify under cnf.jwk *)
        else if negb (hb_ok h) then Err ERejected
        else if negb (String.eqb (vo_nonce vo) "") && negb (String.eqb (vo_nonce vo) (hb_nonce h)) then Err ERejected
        else if negb (String.eqb (vo_aud vo) "") && negb (String.eqb (vo_aud vo) (hb_aud h)) then Err ERejected
        else Ok tt)
  end.

(* ---------- verifier.Parse ---------- *)
Record presentation := { p_sig_ok : bool; p_payload : val; p_discs : list disc; p_hb : option hbjwt }.

Definition verify (vo : vopts) (p : presentation) : res val :=
  if negb (p_sig_ok p) then Err ERejected
  else if negb (nodupd (p_discs p)) then Err ERejected                (* checkForDuplicates *)
  else
    bind (verify_disclosures (p_payload p) (p_discs p)) (fun _ =>
    bind (holder_verification vo (p_payload p) (p_hb p)) (fun _ =>
    bind (get_alg (p_payload p)) (fun a =>
      resolve true (map (digest a) (p_discs p)) (p_payload p)))).

(* ---------- holder ---------- *)
(* holder.Parse: the claims the holder can choose from (names and resolved values) *)
Definition holder_parse (payload : val) (ds : list disc) : res (list (string * val)) :=
  bind (verify_disclosures payload ds) (fun _ =>
  bind (get_alg payload) (fun a =>
    let D := map (digest a) ds in
    (fix go (l : list disc) : res (list (string * val)) :=
       match l with
       | [] => Ok []
       | d :: r => bind (resolve true D (d_val d)) (fun y => bind (go r) (fun t => Ok ((d_name d, y) :: t)))
       end) ds)).

(* holder.CreatePresentation *)
Definition present (payload : val) (issued chosen : list disc) (hb : option hbjwt) : res presentation :=
  match issued with
  | [] => Err EInvalid                                            (* "no disclosures found in SD-JWT" *)
  | _ => if forallb (fun d => memd d issued) chosen
         then Ok {| p_sig_ok := true; p_payload := payload; p_discs := chosen; p_hb := hb |}
         else Err ENotFound
  end.

(* ---------- issuer ---------- *)
Record iopts := {
  o_v5 : bool; o_alg : N; o_structured : bool; o_decoys : nat;
  o_nonsd : list path; o_always : list path; o_recursive : list path;
  o_iss : string; o_cnf : option Z }.

Fixpoint decoys (alg : N) (p : path) (n : nat) : list val :=
  match n with O => [] | S k => decoys alg p k ++ [VDig alg 0 (p ++ [SDecoy (N.of_nat k)]) "" VNull] end.
Fixpoint decoy_discs (p : path) (n : nat) : list disc :=
  match n with O => [] | S k => decoy_discs p k ++ [{| d_e := 0; d_salt := p ++ [SDecoy (N.of_nat k)]; d_name := ""; d_val := VNull |}] end.

Definition sd_member (gs : list val) : val := match gs with [] => VNull | _ => VArr gs end.

(* v2.go CreateDisclosuresAndDigests (claims = VObj m): (visible members, this level's digests, disclosures) *)
Fixpoint issue2 (o : iopts) (p : path) (c : val) {struct c} : list (string * val) * list val * list disc :=
  match c with
  | VObj m =>
      (fix go (m : list (string * val)) : list (string * val) * list val * list disc :=
         match m with
         | [] => ([], [], [])
         | (k, x) :: r =>
             let '(vis, dg, ds) := go r in
             let cur := p ++ [SKey k] in
             let leaf :=
               if memp cur (o_nonsd o) then ((k, x) :: vis, dg, ds)
               else (vis, VDig (o_alg o) 3 cur k x :: dg, {| d_e := 3; d_salt := cur; d_name := k; d_val := x |} :: ds) in
             match x with
             | VObj _ =>
                 if o_structured o then
                   let '(vis', dg', ds') := issue2 o cur x in
                   ((k, VObj (vis' ++ [(SD, sd_member (dg' ++ decoys (o_alg o) cur (o_decoys o)))])) :: vis, dg, ds' ++ ds)
                 else leaf
             | _ => leaf
             end
         end) m
  | _ => ([], [], [])
  end.

(* v5.go processArrayElements *)
Fixpoint elems5 (o : iopts) (p : path) (i : N) (l : list val) : list val * list disc :=
  match l with
  | [] => ([], [])
  | x :: r =>
      let '(es, ds) := elems5 o p (N.succ i) r in
      let ep := p ++ [SIdx i] in
      if memp ep (o_nonsd o) then (x :: es, ds)
      else (VObj [(DOTS, VDig (o_alg o) 2 ep "" x)] :: es, {| d_e := 2; d_salt := ep; d_name := ""; d_val := x |} :: ds)
  end.

Definition arr_member (es : list val) : val := match es with [] => VNull | _ => VArr es end.

(* v5.go createDisclosuresAndDigestsInternal (claims = VObj m): (visible members, this level's disclosures,
   nested disclosures); a JSON null makes reflect.TypeOf(value).Kind() dereference nil: Panic *)
Definition obj5 (o : iopts) (cur : path) (vis' : list (string * val)) (lvl' : list disc) : val :=
  VObj (vis' ++ match lvl' ++ decoy_discs cur (o_decoys o) with
                | [] => []
                | l => [(SD, VArr (map (digest (o_alg o)) l))]
                end).

Fixpoint issue5 (o : iopts) (ign : bool) (p : path) (c : val) {struct c}
  : res (list (string * val) * list disc * list disc) :=
  match c with
  | VObj m =>
      (fix go (m : list (string * val)) : res (list (string * val) * list disc * list disc) :=
         match m with
         | [] => Ok ([], [], [])
         | (k, x) :: r =>
             bind (go r) (fun '(vis, lvl, nested) =>
             let cur := p ++ [SKey k] in
             let ignored := memp cur (o_nonsd o) in
             let always := memp cur (o_always o) in
             let recursive := memp cur (o_recursive o) in
             let mk v := {| d_e := 3; d_salt := cur; d_name := k; d_val := v |} in
             match x with
             | VNull => Panic 1%N
             | VObj _ =>
                 if ignored then Ok ((k, x) :: vis, lvl, nested)
                 else
                   bind (issue5 o (negb (recursive || always || o_structured o)) cur x) (fun '(vis', lvl', nested') =>
                     let all' := decoy_discs cur (o_decoys o) ++ lvl' ++ nested' in
                     if recursive && negb always then Ok (vis, mk (obj5 o cur vis' lvl') :: lvl, all' ++ nested)
                     else if recursive || always || o_structured o then Ok ((k, obj5 o cur vis' lvl') :: vis, lvl, all' ++ nested)
                     else Ok (vis, mk (obj5 o cur vis' lvl') :: lvl, all' ++ nested))
             | VArr l =>
                 if ignored then Ok ((k, x) :: vis, lvl, nested)
                 else
                   let '(es, eds) := elems5 o cur 0 l in
                   if always || o_structured o then Ok ((k, arr_member es) :: vis, lvl, eds ++ nested)
                   else Ok (vis, mk (arr_member es) :: lvl, eds ++ nested)
             | _ =>
                 if ignored || ign then Ok ((k, x) :: vis, lvl, nested)
                 else Ok (vis, mk x :: lvl, nested)
             end)
         end) m
  | _ => Ok ([], [], [])
  end.

(* KeyExistsInMap(SDKey, claims): through nested maps only *)
Fixpoint key_exists_sd (c : val) : bool :=
  match c with
  | VObj m =>
      (fix go (m : list (string * val)) : bool :=
         match m with
         | [] => false
         | (k, x) :: r => String.eqb k SD || key_exists_sd x || go r
         end) m
  | _ => false
  end.

Definition registered (o : iopts) : list (string * val) :=
  [("iss", VStr (o_iss o))]
  ++ match o_cnf o with Some k => [("cnf", VObj [("jwk", VNum k)])] | None => [] end
  ++ [(SDALG, VStr (alg_name (o_alg o)))].

(* issuer.New: signed payload and the disclosure list of the combined format for issuance *)
Definition issue (o : iopts) (claims : list (string * val)) : res (val * list disc) :=
  if key_exists_sd (VObj claims) then Err EInvalid
  else if o_v5 o then
    bind (issue5 o false [] (VObj claims)) (fun '(vis, lvl, nested) =>
      let top := decoy_discs [] (o_decoys o) ++ lvl in
      Ok (VObj (registered o ++ vis ++ match top with [] => [] | l => [(SD, VArr (map (digest (o_alg o)) l))] end),
          top ++ nested))
  else
    let '(vis, dg, ds) := issue2 o [] (VObj claims) in
    Ok (VObj (registered o ++ vis ++ [(SD, sd_member (dg ++ decoys (o_alg o) [] (o_decoys o)))]), ds).

(* the pre-fix-free variant of v5 keeps decoys out of the disclosure list (what v2 does) *)
Definition strip_decoys (ds : list disc) : list disc := filter (fun d => negb (N.eqb (d_e d) 0)) ds.

(* ---------- the specification side: what a verifier is to output ----------
   [sel]: the disclosure sites (paths) the holder chose.  Always-visible claims plus the chosen ones with
   their issued values; nothing about digests. *)
Fixpoint reveal2 (o : iopts) (sel : list path) (p : path) (c : val) {struct c} : list (string * val) :=
  match c with
  | VObj m =>
      (fix go (m : list (string * val)) : list (string * val) :=
         match m with
         | [] => []
         | (k, x) :: r =>
             let cur := p ++ [SKey k] in
             let leaf := if memp cur (o_nonsd o) || memp cur sel then (k, x) :: go r else go r in
             match x with
             | VObj _ => if o_structured o then (k, VObj (reveal2 o sel cur x)) :: go r else leaf
             | _ => leaf
             end
         end) m
  | _ => []
  end.

Fixpoint reveal_elems (o : iopts) (sel : list path) (p : path) (i : N) (l : list val) : list val :=
  match l with
  | [] => []
  | x :: r =>
      let ep := p ++ [SIdx i] in
      if memp ep (o_nonsd o) || memp ep sel then x :: reveal_elems o sel p (N.succ i) r
      else reveal_elems o sel p (N.succ i) r
  end.

Fixpoint reveal5 (o : iopts) (sel : list path) (ign : bool) (p : path) (c : val) {struct c} : list (string * val) :=
  match c with
  | VObj m =>
      (fix go (m : list (string * val)) : list (string * val) :=
         match m with
         | [] => []
         | (k, x) :: r =>
             let cur := p ++ [SKey k] in
             let ignored := memp cur (o_nonsd o) in
             let always := memp cur (o_always o) in
             let recursive := memp cur (o_recursive o) in
             match x with
             | VObj _ =>
                 if ignored then (k, x) :: go r
                 else
                   let inner := VObj (reveal5 o sel (negb (recursive || always || o_structured o)) cur x) in
                   if recursive && negb always then (if memp cur sel then (k, inner) :: go r else go r)
                   else if recursive || always || o_structured o then (k, inner) :: go r
                   else (if memp cur sel then (k, inner) :: go r else go r)
             | VArr l =>
                 if ignored then (k, x) :: go r
                 else
                   let es := VArr (reveal_elems o sel cur 0 l) in
                   if always || o_structured o then (k, es) :: go r
                   else (if memp cur sel then (k, es) :: go r else go r)
             | _ =>
                 if ignored || ign || memp cur sel then (k, x) :: go r else go r
             end
         end) m
  | _ => []
  end.

Definition registered_out (o : iopts) : list (string * val) :=
  [("iss", VStr (o_iss o))] ++ match o_cnf o with Some k => [("cnf", VObj [("jwk", VNum k)])] | None => [] end.

Definition reveal (o : iopts) (sel : list path) (claims : list (string * val)) : val :=
  VObj (registered_out o ++ (if o_v5 o then reveal5 o sel false [] (VObj claims) else reveal2 o sel [] (VObj claims))).

(* the holder's choice as disclosures: the issued ones whose site is selected *)
Definition choose (sel : list path) (ds : list disc) : list disc := filter (fun d => memp (d_salt d) sel) ds.
