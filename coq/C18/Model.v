(* C18 — executable model of component/models/sdjwt (issuer v2/v5, holder, verifier) — NO proofs here.

   Values are JSON trees in which a digest STRING is the symbolic term [VDig alg enc e salt name v]: the hash
   (algorithm [alg]) of the RECEIVED text, i.e. of text variant [enc] (0 = the canonical un-padded base64url
   text of the compact JSON; k > 0 = another text that decodes to the same JSON: base64 trailing bits, embedded
   CR/LF, other JSON white space) of the JSON array with [e] elements [salt, name?, v]
   (e = 3: object member disclosure, e = 2: array element disclosure, e >= 4: longer array, e = 0: the hash
   of a raw salt string = a decoy).  Hash, JSON encoding and base64 are injective by construction (symbolic
   abstraction, DESIGN section 8).  Salts are symbols of type [path]: the issuer model names the salt drawn at
   a disclosure site by the site's path, the harness names observed salts by their index.
   Go's nil = JSON null = [VNull].
   Recursion through object members / array elements goes through map / flat_map and helper functions that
   take the recursive call as an argument, so that the proofs are plain list inductions. *)
From Coq Require Import List String ZArith NArith Bool.
Import ListNotations.
From VF Require Export common.Res.
Open Scope string_scope.
Open Scope list_scope.

Inductive step := SKey (k : string) | SIdx (i : N) | SDecoy (i : N).
Definition path := list step.

Inductive val :=
| VNull | VBool (b : bool) | VNum (z : Z) | VStr (s : string)
| VDig (alg : N) (enc : N) (e : N) (salt : path) (name : string) (v : val)
| VArr (l : list val) | VObj (m : list (string * val)).

(* ---------- equality ---------- *)
Definition step_eqb (a b : step) : bool :=
  match a, b with
  | SKey x, SKey y => String.eqb x y
  | SIdx x, SIdx y => N.eqb x y
  | SDecoy x, SDecoy y => N.eqb x y
  | _, _ => false
  end.
Fixpoint path_eqb (a b : path) : bool :=
  match a, b with
  | [], [] => true
  | x :: r, y :: t => step_eqb x y && path_eqb r t
  | _, _ => false
  end.

Fixpoint val_eqb (x y : val) {struct x} : bool :=
  match x, y with
  | VNull, VNull => true
  | VBool a, VBool b => Bool.eqb a b
  | VNum a, VNum b => Z.eqb a b
  | VStr a, VStr b => String.eqb a b
  | VDig a c e s n v, VDig a' c' e' s' n' v' =>
      N.eqb a a' && N.eqb c c' && N.eqb e e' && path_eqb s s' && String.eqb n n' && val_eqb v v'
  | VArr l, VArr l' =>
      (fix go (l1 l2 : list val) {struct l1} : bool :=
         match l1, l2 with
         | [], [] => true
         | a :: r1, b :: r2 => val_eqb a b && go r1 r2
         | _, _ => false
         end) l l'
  | VObj m, VObj m' =>
      (fix go (m1 m2 : list (string * val)) {struct m1} : bool :=
         match m1, m2 with
         | [], [] => true
         | (k, a) :: r1, (k', b) :: r2 => String.eqb k k' && val_eqb a b && go r1 r2
         | _, _ => false
         end) m m'
  | _, _ => false
  end.

Fixpoint memv (g : val) (D : list val) : bool :=
  match D with [] => false | x :: r => val_eqb g x || memv g r end.
Fixpoint nodupv (l : list val) : bool :=
  match l with [] => true | x :: r => negb (memv x r) && nodupv r end.
Fixpoint mems (k : string) (l : list string) : bool :=
  match l with [] => false | x :: r => String.eqb k x || mems k r end.
Fixpoint nodups (l : list string) : bool :=
  match l with [] => true | x :: r => negb (mems x r) && nodups r end.
Fixpoint memp (p : path) (l : list path) : bool :=
  match l with [] => false | x :: r => path_eqb p x || memp p r end.

Fixpoint lookupv (m : list (string * val)) (k : string) : option val :=
  match m with [] => None | (k', v) :: r => if String.eqb k k' then Some v else lookupv r k end.

Definition is_null (v : val) : bool := match v with VNull => true | _ => false end.
Definition is_string (v : val) : bool := match v with VStr _ | VDig _ _ _ _ _ _ => true | _ => false end.

Definition SD := "_sd".
Definition SDALG := "_sd_alg".
Definition DOTS := "...".

(* ---------- disclosures ---------- *)
(* a disclosure string, by the text variant received and its content; d_e < 2 stands for every text
   getDisclosureClaim refuses (not un-padded base64url, not a JSON array, fewer than two elements, salt or
   member name not a string) *)
Record disc := { d_enc : N; d_e : N; d_salt : path; d_name : string; d_val : val }.
(* GetHash(hash, disclosure): over the received string *)
Definition digest (alg : N) (d : disc) : val := VDig alg (d_enc d) (d_e d) (d_salt d) (d_name d) (d_val d).
Definition disc_eqb (a b : disc) : bool := val_eqb (digest 0 a) (digest 0 b).
Fixpoint memd (d : disc) (l : list disc) : bool :=
  match l with [] => false | x :: r => disc_eqb d x || memd d r end.
Fixpoint nodupd (l : list disc) : bool :=
  match l with [] => true | x :: r => negb (memd x r) && nodupd r end.

(* ---------- common/verification.go discloseClaimValue ----------
   [D]: digests of the presented disclosures.  By injectivity of the symbolic hash the disclosure whose digest
   is [VDig a c e s n v] IS (c, e, s, n, v), so the code's map lookup recData.disclosures[digest] is the
   membership test [memv g D] and the looked-up value is [v].  [cleanup] = recData.cleanupDigestsClaims. *)
Inductive outcome := ONone | OVal (r : res val).

(* a digest string met under "_sd" (ctx 3) or "..." (ctx 2): not presented, or the (recursively resolved)
   value of its disclosure, or the arity error *)
Definition enter (rec : val -> res val) (D : list val) (ctx : N) (g : val) : outcome :=
  match g with
  | VDig _ _ e _ _ v' =>
      if memv g D then (if N.eqb e ctx then OVal (rec v') else OVal (Err ERejected)) else ONone
  | VStr _ => ONone
  | _ => OVal (Err EInvalid)                                            (* "invalid array struct" *)
  end.
Definition dig_name (g : val) : string := match g with VDig _ _ _ _ n _ => n | _ => "" end.

Fixpoint seq_elems (l : list outcome) : res (list val) :=
  match l with
  | [] => Ok []
  | ONone :: r => seq_elems r
  | OVal x :: r => bind x (fun y => bind (seq_elems r) (fun t => Ok (y :: t)))
  end.
Fixpoint seq_named (l : list (string * outcome)) : res (list (string * val)) :=
  match l with
  | [] => Ok []
  | (_, ONone) :: r => seq_named r
  | (k, OVal x) :: r => bind x (fun y => bind (seq_named r) (fun t => Ok ((k, y) :: t)))
  end.
(* ordinary members: a nil result is not stored (if newValue != nil) *)
Fixpoint seq_plain (l : list (string * outcome)) : res (list (string * val)) :=
  match l with
  | [] => Ok []
  | (_, ONone) :: r => seq_plain r
  | (k, OVal x) :: r => bind x (fun y => bind (seq_plain r) (fun t => Ok (if is_null y then t else (k, y) :: t)))
  end.

(* one array element: an object with a "..." member is a digest element *)
Definition elem_outcome (rec : val -> res val) (cleanup : bool) (D : list val) (x : val) : outcome :=
  match x with
  | VObj m =>
      match flat_map (fun kv => if String.eqb (fst kv) DOTS then [enter rec D 2 (snd kv)] else []) m with
      | [] => OVal (Ok x)                                               (* no "..." member: element as it is *)
      | ONone :: _ => if cleanup then ONone else OVal (Ok x)
      | o :: _ => o
      end
  | _ => OVal (Ok x)                                                    (* not a map: as it is, not entered *)
  end.
(* the value of an "_sd" member *)
Definition sd_outcome (rec : val -> res val) (D : list val) (x : val) : res (list (string * val)) :=
  match x with
  | VNull => Ok []
  | VArr gl => if forallb is_string gl then seq_named (map (fun g => (dig_name g, enter rec D 3 g)) gl)
               else Err EInvalid
  | _ => Err EInvalid
  end.
Definition reserved (cleanup : bool) (k : string) : bool := String.eqb k SD || (String.eqb k SDALG && cleanup).
Definition arr_or_null (l : list val) : val := match l with [] => VNull | _ => VArr l end.  (* len(newValues)==0 -> nil *)

Fixpoint resolve (cleanup : bool) (D : list val) (v : val) {struct v} : res val :=
  match v with
  | VArr l => bind (seq_elems (map (elem_outcome (resolve cleanup D) cleanup D) l)) (fun l' => Ok (arr_or_null l'))
  | VObj m =>
      let sdl := hd (Ok []) (flat_map (fun kv => if String.eqb (fst kv) SD
                                                 then [sd_outcome (resolve cleanup D) D (snd kv)] else []) m) in
      let plain := seq_plain (map (fun kv => (fst kv, if reserved cleanup (fst kv) then ONone
                                                      else OVal (resolve cleanup D (snd kv)))) m) in
      bind sdl (fun s => bind plain (fun p =>
        (* "claim name already exists at the same level" *)
        if nodups (map fst s ++ filter (fun k => negb (reserved cleanup k)) (map fst m))
        then Ok (VObj (s ++ p)) else Err ERejected))
  | _ => Ok v
  end.

(* recData.nestedSD: every digest string met by the walk (disclosed ones are entered).  [ctx] = 3 for a string of
   an "_sd" list, 2 for the string under "..." of an array element, 0 elsewhere (an ordinary value). *)
Fixpoint collect (D : list val) (ctx : N) (v : val) {struct v} : list val :=
  match v with
  | VDig _ _ e _ _ v' =>
      if N.eqb ctx 0 then [] else v :: (if memv v D && N.eqb e ctx then collect D 0 v' else [])
  | VStr _ => if N.eqb ctx 0 then [] else [v]
  | VArr l =>
      flat_map (fun x => match x with
                         | VObj m => flat_map (fun kv => if String.eqb (fst kv) DOTS then collect D 2 (snd kv) else []) m
                         | _ => []
                         end) l
  | VObj m =>
      flat_map (fun kv => if String.eqb (fst kv) SD
                          then match snd kv with VArr gl => flat_map (collect D 3) gl | _ => [] end
                          else collect D 0 (snd kv)) m
  | _ => []
  end.

(* ---------- _sd_alg, cnf ---------- *)
Definition alg_of_name (s : string) : option N :=
  if String.eqb s "sha-256" then Some 256%N
  else if String.eqb s "sha-384" then Some 384%N
  else if String.eqb s "sha-512" then Some 512%N else None.
Definition alg_name (a : N) : string :=
  if N.eqb a 384 then "sha-384" else if N.eqb a 512 then "sha-512" else "sha-256".

Definition from_vc (k : string) (m : list (string * val)) : option val :=
  match lookupv m k with
  | Some x => Some x
  | None => match lookupv m "vc" with Some (VObj vc) => lookupv vc k | _ => None end
  end.
Definition get_alg (payload : val) : res N :=
  match payload with
  | VObj m => match from_vc SDALG m with
              | Some (VStr s) => match alg_of_name s with Some a => Ok a | None => Err EInvalid end
              | _ => Err EInvalid
              end
  | _ => Err EInvalid
  end.
(* the holder key committed to by the issuer: cnf.jwk, a key symbol *)
Definition get_cnf_key (payload : val) : res Z :=
  match payload with
  | VObj m => match from_vc "cnf" m with
              | Some (VObj c) => match lookupv c "jwk" with Some (VNum k) => Ok k | _ => Err EInvalid end
              | _ => Err EInvalid
              end
  | _ => Err EInvalid
  end.

(* ---------- VerifyDisclosuresInSDJWT ---------- *)
Definition verify_disclosures (payload : val) (ds : list disc) : res unit :=
  bind (get_alg payload) (fun a =>
    if forallb (fun d => N.leb 2 (d_e d)) ds then
      let D := map (digest a) ds in
      bind (resolve false D payload) (fun _ =>
        let seen := collect D 0 payload in
        if nodupv seen then
          if forallb (fun g => memv g seen) D then Ok tt else Err ENotFound
        else Err ERejected)
    else Err EInvalid).

(* ---------- holder binding (verifier.go runHolderVerification) ----------
   The JWS layer is C08's subject: here a holder-binding JWT is (key that signed it, nonce, aud, whether its
   alg is allowed and its time claims valid). *)
Record hbjwt := { hb_key : Z; hb_nonce : string; hb_aud : string; hb_ok : bool; hb_iat : option Z }.
(* vo_now: the verifier's clock (seconds), vo_leeway: WithLeewayForClaimsValidation (default one minute) *)
Record vopts := { vo_required : bool; vo_nonce : string; vo_aud : string; vo_now : Z; vo_leeway : Z }.

(* common.VerifyJWT = go-jose Claims.ValidateWithLeeway: nbf not after now+leeway, exp not before now-leeway,
   iat not after now+leeway; an absent claim is not checked *)
Definition time_ok (now lw : Z) (iat nbf exp : option Z) : bool :=
  match nbf with Some t => Z.leb t (now + lw) | None => true end &&
  match exp with Some t => Z.leb (now - lw) t | None => true end &&
  match iat with Some t => Z.leb t (now + lw) | None => true end.
Definition time_claim (payload : val) (k : string) : option Z :=
  match payload with
  | VObj m => match lookupv m k with Some (VNum z) => Some z | _ => None end
  | _ => None
  end.
Definition payload_time_ok (vo : vopts) (payload : val) : bool :=
  time_ok (vo_now vo) (vo_leeway vo) (time_claim payload "iat") (time_claim payload "nbf") (time_claim payload "exp").

Definition holder_verification (vo : vopts) (payload : val) (hb : option hbjwt) : res unit :=
  match hb with
  | None => if vo_required vo then Err ERejected else Ok tt
  | Some h =>
      bind (get_cnf_key payload) (fun k =>
        if negb (Z.eqb k (hb_key h)) then Err ERejected            (* signature does not verify under cnf.jwk *)
        else if negb (hb_ok h) then Err ERejected
        else if negb (time_ok (vo_now vo) (vo_leeway vo) (hb_iat h) None None) then Err ERejected   (* VerifyJWT of the binding *)
        else if negb (String.eqb (vo_nonce vo) "") && negb (String.eqb (vo_nonce vo) (hb_nonce h)) then Err ERejected
        else if negb (String.eqb (vo_aud vo) "") && negb (String.eqb (vo_aud vo) (hb_aud h)) then Err ERejected
        else Ok tt)
  end.

(* ---------- verifier.Parse ---------- *)
Record presentation := { p_sig_ok : bool; p_payload : val; p_discs : list disc; p_hb : option hbjwt }.

Definition verify (vo : vopts) (p : presentation) : res val :=
  if negb (p_sig_ok p) then Err ERejected
  else if negb (payload_time_ok vo (p_payload p)) then Err ERejected      (* VerifyJWT of the issuer-signed JWT *)
  else if negb (nodupd (p_discs p)) then Err ERejected                (* checkForDuplicates *)
  else
    bind (verify_disclosures (p_payload p) (p_discs p)) (fun _ =>
    bind (holder_verification vo (p_payload p) (p_hb p)) (fun _ =>
    bind (get_alg (p_payload p)) (fun a =>
      resolve true (map (digest a) (p_discs p)) (p_payload p)))).

(* ---------- holder ---------- *)
(* holder.Parse: the claims the holder can choose from (names and resolved values) *)
Definition holder_parse (payload : val) (ds : list disc) : res (list (string * val)) :=
  bind (verify_disclosures payload ds) (fun _ =>
  bind (get_alg payload) (fun a =>
    let D := map (digest a) ds in
    (fix go (l : list disc) : res (list (string * val)) :=
       match l with
       | [] => Ok []
       | d :: r => bind (resolve true D (d_val d)) (fun y => bind (go r) (fun t => Ok ((d_name d, y) :: t)))
       end) ds)).

(* holder.CreatePresentation *)
Definition present (payload : val) (issued chosen : list disc) (hb : option hbjwt) : res presentation :=
  match issued with
  | [] => Err EInvalid                                            (* "no disclosures found in SD-JWT" *)
  | _ => if forallb (fun d => memd d issued) chosen
         then Ok {| p_sig_ok := true; p_payload := payload; p_discs := chosen; p_hb := hb |}
         else Err ENotFound
  end.

(* ---------- issuer ---------- *)
Record iopts := {
  o_v5 : bool; o_alg : N; o_structured : bool; o_decoys : nat;
  o_nonsd : list path; o_always : list path; o_recursive : list path;
  o_iss : string; o_cnf : option Z }.

Definition mk (e : N) (s : path) (n : string) (v : val) : disc :=
  {| d_enc := 0; d_e := e; d_salt := s; d_name := n; d_val := v |}.

(* createDecoyDisclosures: the "disclosure" of a decoy is the raw salt *)
Fixpoint decoy_discs (p : path) (n : nat) : list disc :=
  match n with O => [] | S k => decoy_discs p k ++ [mk 0 (p ++ [SDecoy (N.of_nat k)]) "" VNull] end.

(* per member: (visible members, this level's disclosures, nested disclosures) *)
Definition triple := (list (string * val) * list disc * list disc)%type.
Definition t_vis (t : triple) := fst (fst t).
Definition t_lvl (t : triple) := snd (fst t).
Definition t_nst (t : triple) := snd t.
Definition cat3 (l : list triple) : triple := (flat_map t_vis l, flat_map t_lvl l, flat_map t_nst l).

Definition sd_member (gs : list val) : val := match gs with [] => VNull | _ => VArr gs end.
(* v2: "_sd" is always written (null for no digest); decoys are digests only *)
Definition sd2 (o : iopts) (cur : path) (lvl : list disc) : string * val :=
  (SD, sd_member (map (digest (o_alg o)) (lvl ++ decoy_discs cur (o_decoys o)))).

(* v2.go CreateDisclosuresAndDigests, one member *)
Definition member2 (rec : path -> val -> triple) (o : iopts) (p : path) (kv : string * val) : triple :=
  let k := fst kv in
  let x := snd kv in
  let cur := p ++ [SKey k] in
  let leaf : triple := if memp cur (o_nonsd o) then ([(k, x)], [], []) else ([], [mk 3 cur k x], []) in
  match x with
  | VObj _ =>
      if o_structured o then
        let t := rec cur x in
        ([(k, VObj (t_vis t ++ [sd2 o cur (t_lvl t)]))], [], t_lvl t ++ t_nst t)
      else leaf
  | _ => leaf
  end.
Fixpoint issue2 (o : iopts) (p : path) (c : val) {struct c} : triple :=
  match c with
  | VObj m => cat3 (map (member2 (issue2 o) o p) m)
  | _ => ([], [], [])
  end.

(* v5.go processArrayElements *)
Fixpoint elems5 (o : iopts) (p : path) (i : N) (l : list val) : list val * list disc :=
  match l with
  | [] => ([], [])
  | x :: r =>
      let '(es, ds) := elems5 o p (N.succ i) r in
      let ep := p ++ [SIdx i] in
      if memp ep (o_nonsd o) then (x :: es, ds)
      else (VObj [(DOTS, digest (o_alg o) (mk 2 ep "" x))] :: es, mk 2 ep "" x :: ds)
  end.
Definition arr_member (es : list val) : val := match es with [] => VNull | _ => VArr es end.

Definition sd5 (o : iopts) (cur : path) (lvl : list disc) : list (string * val) :=
  match lvl ++ decoy_discs cur (o_decoys o) with
  | [] => []
  | l => [(SD, VArr (map (digest (o_alg o)) l))]
  end.
Definition obj5 (o : iopts) (cur : path) (vis' : list (string * val)) (lvl' : list disc) : val :=
  VObj (vis' ++ sd5 o cur lvl').

Fixpoint seq3 (l : list (res triple)) : res (list triple) :=
  match l with
  | [] => Ok []
  | x :: r => bind x (fun t => bind (seq3 r) (fun ts => Ok (t :: ts)))
  end.

(* v5.go createDisclosuresAndDigestsInternal, one member; a JSON null makes reflect.TypeOf(value).Kind()
   dereference nil: Panic.  The decoy salts of a level are returned among its disclosures (DESIGN 11 #24). *)
Definition member5 (rec : bool -> path -> val -> res triple) (o : iopts) (ign : bool) (p : path)
           (kv : string * val) : res triple :=
  let k := fst kv in
  let x := snd kv in
  let cur := p ++ [SKey k] in
  let ignored := memp cur (o_nonsd o) in
  let always := memp cur (o_always o) in
  let recursive := memp cur (o_recursive o) in
  match x with
  | VNull => Panic 1%N
  | VObj _ =>
      if ignored then Ok ([(k, x)], [], [])
      else
        bind (rec (negb (recursive || always || o_structured o)) cur x) (fun t =>
          let all' := decoy_discs cur (o_decoys o) ++ t_lvl t ++ t_nst t in
          if negb (recursive && negb always) && (recursive || always || o_structured o)
          then Ok ([(k, obj5 o cur (t_vis t) (t_lvl t))], [], all')
          else Ok ([], [mk 3 cur k (obj5 o cur (t_vis t) (t_lvl t))], all'))
  | VArr l =>
      if ignored then Ok ([(k, x)], [], [])
      else
        let '(es, eds) := elems5 o cur 0 l in
        if always || o_structured o then Ok ([(k, arr_member es)], [], eds)
        else Ok ([], [mk 3 cur k (arr_member es)], eds)
  | _ =>
      if ignored || ign then Ok ([(k, x)], [], [])
      else Ok ([], [mk 3 cur k x], [])
  end.
Fixpoint issue5 (o : iopts) (ign : bool) (p : path) (c : val) {struct c} : res triple :=
  match c with
  | VObj m => bind (seq3 (map (member5 (issue5 o) o ign p) m)) (fun ts => Ok (cat3 ts))
  | _ => Ok ([], [], [])
  end.

(* KeyExistsInMap(SDKey, claims): through nested maps only *)
Fixpoint key_exists_sd (c : val) : bool :=
  match c with
  | VObj m => existsb (fun kv => String.eqb (fst kv) SD || key_exists_sd (snd kv)) m
  | _ => false
  end.

Definition registered (o : iopts) : list (string * val) :=
  [("iss", VStr (o_iss o))]
  ++ match o_cnf o with Some k => [("cnf", VObj [("jwk", VNum k)])] | None => [] end
  ++ [(SDALG, VStr (alg_name (o_alg o)))].

(* issuer.New: signed payload and the disclosure list of the combined format for issuance *)
Definition issue (o : iopts) (claims : list (string * val)) : res (val * list disc) :=
  if key_exists_sd (VObj claims) then Err EInvalid
  else if o_v5 o then
    bind (issue5 o false [] (VObj claims)) (fun t =>
      Ok (VObj (registered o ++ t_vis t ++ sd5 o [] (t_lvl t)),
          decoy_discs [] (o_decoys o) ++ t_lvl t ++ t_nst t))
  else
    let t := issue2 o [] (VObj claims) in
    Ok (VObj (registered o ++ t_vis t ++ [sd2 o [] (t_lvl t)]), t_lvl t ++ t_nst t).

(* ---------- the specification side: what a verifier is to output ----------
   [sel]: the disclosure sites (paths) the holder chose.  Always-visible claims plus the chosen ones with
   their issued values; nothing about digests. *)
Definition rmember2 (rec : path -> val -> list (string * val)) (o : iopts) (sel : list path) (p : path)
           (kv : string * val) : list (string * val) :=
  let k := fst kv in
  let x := snd kv in
  let cur := p ++ [SKey k] in
  let leaf := if memp cur (o_nonsd o) || memp cur sel then [(k, x)] else [] in
  match x with
  | VObj _ => if o_structured o then [(k, VObj (rec cur x))] else leaf
  | _ => leaf
  end.
Fixpoint reveal2 (o : iopts) (sel : list path) (p : path) (c : val) {struct c} : list (string * val) :=
  match c with
  | VObj m => flat_map (rmember2 (reveal2 o sel) o sel p) m
  | _ => []
  end.

Fixpoint reveal_elems (o : iopts) (sel : list path) (p : path) (i : N) (l : list val) : list val :=
  match l with
  | [] => []
  | x :: r =>
      let ep := p ++ [SIdx i] in
      if memp ep (o_nonsd o) || memp ep sel then x :: reveal_elems o sel p (N.succ i) r
      else reveal_elems o sel p (N.succ i) r
  end.

Definition rmember5 (rec : bool -> path -> val -> list (string * val)) (o : iopts) (sel : list path) (ign : bool)
           (p : path) (kv : string * val) : list (string * val) :=
  let k := fst kv in
  let x := snd kv in
  let cur := p ++ [SKey k] in
  let ignored := memp cur (o_nonsd o) in
  let always := memp cur (o_always o) in
  let recursive := memp cur (o_recursive o) in
  match x with
  | VObj _ =>
      if ignored then [(k, x)]
      else
        let inner := VObj (rec (negb (recursive || always || o_structured o)) cur x) in
        if negb (recursive && negb always) && (recursive || always || o_structured o) then [(k, inner)]
        else if memp cur sel then [(k, inner)] else []
  | VArr l =>
      if ignored then [(k, x)]
      else
        let es := VArr (reveal_elems o sel cur 0 l) in
        if always || o_structured o then [(k, es)]
        else if memp cur sel then [(k, es)] else []
  | _ => if ignored || ign || memp cur sel then [(k, x)] else []
  end.
Fixpoint reveal5 (o : iopts) (sel : list path) (ign : bool) (p : path) (c : val) {struct c} : list (string * val) :=
  match c with
  | VObj m => flat_map (rmember5 (reveal5 o sel) o sel ign p) m
  | _ => []
  end.

Definition registered_out (o : iopts) : list (string * val) :=
  [("iss", VStr (o_iss o))] ++ match o_cnf o with Some k => [("cnf", VObj [("jwk", VNum k)])] | None => [] end.

Definition reveal (o : iopts) (sel : list path) (claims : list (string * val)) : val :=
  VObj (registered_out o ++ (if o_v5 o then reveal5 o sel false [] (VObj claims) else reveal2 o sel [] (VObj claims))).

(* the holder's choice as disclosures: the issued ones whose site is selected *)
Definition choose (sel : list path) (ds : list disc) : list disc := filter (fun d => memp (d_salt d) sel) ds.

(* ---------- the credential level (component/models/verifiable/credential_sdjwt.go) ---------- *)
(* issuer.NewFromVC as called by Credential.MakeSDJWT (structured claims, "id" not selectively disclosable): the
   credential subject is issued on its own, _sd_alg is moved next to it — inside the "vc" claim for v2 (the JWT
   claims [outer] around it), at the top level for v5 (ToSDJWTV5CredentialPayload has no "vc" claim).
   [outer] / [vcm]: the other members of the JWT payload / of the credential, carried unchanged. *)
Definition issue_vc (o : iopts) (subject outer vcm : list (string * val)) : res (val * list disc) :=
  if key_exists_sd (VObj subject) then Err EInvalid
  else
    let tail cs := [("credentialSubject", cs); (SDALG, VStr (alg_name (o_alg o)))] in
    if o_v5 o then
      bind (issue5 o false [] (VObj subject)) (fun t =>
        Ok (VObj (outer ++ vcm ++ tail (VObj (t_vis t ++ sd5 o [] (t_lvl t)))),
            decoy_discs [] (o_decoys o) ++ t_lvl t ++ t_nst t))
    else
      let t := issue2 o [] (VObj subject) in
      Ok (VObj (outer ++ [("vc", VObj (vcm ++ tail (VObj (t_vis t ++ [sd2 o [] (t_lvl t)]))))]), t_lvl t ++ t_nst t).

(* clearEmpty: objects left without members are removed from the displayed subject *)
Fixpoint clear_empty (v : val) {struct v} : val :=
  match v with
  | VObj m =>
      VObj (flat_map (fun kv => match snd kv with
                                | VObj _ => match clear_empty (snd kv) with VObj [] => [] | y => [(fst kv, y)] end
                                | _ => [kv]
                                end) m)
  | _ => v
  end.

(* CreateDisplayCredentialMap on the credential subject: GetDisclosedClaims over the given disclosures (no
   VerifyDisclosuresInSDJWT here), then clearEmpty *)
Definition display_subject (a : N) (cs : val) (given : list disc) : res val :=
  bind (resolve true (map (digest a) given) cs) (fun y => Ok (clear_empty y)).
