(* C18 — exactness of the verifier output on issued SD-JWTs: lemmas *)
From Coq Require Import List String ZArith NArith Bool Lia Permutation.
Import ListNotations.
From VF Require Import C18.Model C18.Proofs.
Open Scope string_scope.
Open Scope list_scope.

(* ---------- output equality up to member order ---------- *)
Inductive veq : val -> val -> Prop :=
| veq_refl : forall v, veq v v
| veq_obj : forall m m' m'',
    Forall2 (fun a b => fst a = fst b /\ veq (snd a) (snd b)) m m'' -> Permutation m'' m' -> veq (VObj m) (VObj m').

Definition meq (a b : string * val) : Prop := fst a = fst b /\ veq (snd a) (snd b).
Definition mveq (l l' : list (string * val)) : Prop := exists l'', Forall2 meq l l'' /\ Permutation l'' l'.

Lemma veq_of_mveq m m' : mveq m m' -> veq (VObj m) (VObj m').
Proof. intros (l & H1 & H2). eapply veq_obj; eassumption. Qed.

Lemma mveq_nil : mveq [] [].
Proof. exists []. split; constructor. Qed.

Lemma Forall2_meq_refl l : Forall2 meq l l.
Proof. induction l; constructor; [split; [reflexivity|apply veq_refl]|assumption]. Qed.

Lemma mveq_refl l : mveq l l.
Proof. exists l. split; [apply Forall2_meq_refl|apply Permutation_refl]. Qed.

Lemma mveq_plain s pl R k y y' : mveq (s ++ pl) R -> veq y y' -> mveq (s ++ (k, y) :: pl) ((k, y') :: R).
Proof.
  intros (l & H1 & H2) Hy. apply Forall2_app_inv_l in H1 as (l1 & l2 & Ha & Hb & ->).
  exists (l1 ++ (k, y') :: l2). split.
  - apply Forall2_app; [assumption|]. constructor; [split; [reflexivity|assumption]|assumption].
  - apply Permutation_sym. apply Permutation_cons_app. apply Permutation_sym. assumption.
Qed.

Lemma mveq_sd s pl R k y y' : mveq (s ++ pl) R -> veq y y' -> mveq (((k, y) :: s) ++ pl) ((k, y') :: R).
Proof.
  intros (l & H1 & H2) Hy. exists ((k, y') :: l). split.
  - cbn. constructor; [split; [reflexivity|assumption]|assumption].
  - constructor. assumption.
Qed.

Lemma mveq_app_l pre l l' : mveq l l' -> mveq (pre ++ l) (pre ++ l').
Proof.
  intros (l2 & H1 & H2). exists (pre ++ l2). split.
  - apply Forall2_app; [apply Forall2_meq_refl|assumption].
  - apply Permutation_app_head. assumption.
Qed.

(* ---------- sequencing lemmas ---------- *)
Lemma seq_named_app l1 l2 :
  seq_named (l1 ++ l2) = bind (seq_named l1) (fun a => bind (seq_named l2) (fun b => Ok (a ++ b))).
Proof.
  induction l1 as [|[k [|x]] r IH]; cbn.
  - destruct (seq_named l2); reflexivity.
  - assumption.
  - destruct x; cbn; try reflexivity. rewrite IH. destruct (seq_named r); cbn; try reflexivity.
    destruct (seq_named l2); reflexivity.
Qed.

Lemma seq_plain_app l1 l2 :
  seq_plain (l1 ++ l2) = bind (seq_plain l1) (fun a => bind (seq_plain l2) (fun b => Ok (a ++ b))).
Proof.
  induction l1 as [|[k [|x]] r IH]; cbn.
  - destruct (seq_plain l2); reflexivity.
  - assumption.
  - destruct x; cbn; try reflexivity. rewrite IH. destruct (seq_plain r); cbn; try reflexivity.
    destruct (seq_plain l2); cbn; try reflexivity. destruct (is_null a); reflexivity.
Qed.

(* ---------- raw (issuer input) values ---------- *)
Definition resv (k : string) : bool := String.eqb k SD || String.eqb k SDALG || String.eqb k DOTS.

(* a claim value as the guard of the exactness theorem admits it: no digest terms, no null and no empty array
   (known finding: not preserved), objects with distinct member names none of which is _sd, _sd_alg or ... *)
Fixpoint clean (v : val) {struct v} : bool :=
  match v with
  | VNull => false
  | VDig _ _ _ _ _ _ => false
  | VArr l => negb (match l with [] => true | _ => false end) && forallb clean l
  | VObj m => nodups (map fst m) && forallb (fun kv => negb (resv (fst kv)) && clean (snd kv)) m
  | _ => true
  end.

Lemma resolve_obj_eq c D m :
  resolve c D (VObj m) =
  bind (hd (Ok []) (flat_map (fun kv => if String.eqb (fst kv) SD then [sd_outcome (resolve c D) D (snd kv)] else []) m))
    (fun s => bind (seq_plain (map (fun kv => (fst kv, if reserved c (fst kv) then ONone else OVal (resolve c D (snd kv)))) m))
    (fun p => if nodups (map fst s ++ filter (fun k => negb (reserved c k)) (map fst m))
              then Ok (VObj (s ++ p)) else Err ERejected)).
Proof. reflexivity. Qed.

Lemma resolve_arr_eq c D l :
  resolve c D (VArr l) = bind (seq_elems (map (elem_outcome (resolve c D) c D) l)) (fun l' => Ok (arr_or_null l')).
Proof. reflexivity. Qed.

Lemma resv_not_reserved c k : resv k = false -> reserved c k = false.
Proof.
  unfold resv, reserved. intro H. apply orb_false_iff in H as [H _]. apply orb_false_iff in H as [H1 H2].
  rewrite H1, H2. reflexivity.
Qed.

Lemma clean_nonnull v : clean v = true -> is_null v = false.
Proof. destruct v; cbn; congruence. Qed.

Lemma elem_outcome_clean rec c D x : clean x = true -> elem_outcome rec c D x = OVal (Ok x).
Proof.
  destruct x; cbn; try reflexivity. intro H. apply andb_true_iff in H as [_ H].
  assert (E : flat_map (fun kv : string * val => if String.eqb (fst kv) DOTS then [enter rec D 2 (snd kv)] else []) m = []).
  { induction m as [|[k y] r IH]; [reflexivity|]. cbn in *. apply andb_true_iff in H as [H1 H2].
    apply andb_true_iff in H1 as [H1 _]. unfold resv in H1. apply negb_true_iff in H1.
    apply orb_false_iff in H1 as [_ H1]. rewrite H1. cbn. apply IH; assumption. }
  rewrite E. reflexivity.
Qed.

Lemma seq_elems_all_ok l : seq_elems (map (fun x => OVal (Ok x)) l) = Ok l.
Proof. induction l as [|x r IH]; cbn; [reflexivity|]. rewrite IH. reflexivity. Qed.

Lemma resolve_clean c D v : clean v = true -> resolve c D v = Ok v.
Proof.
  induction v as [| b | z | s | a e0 e s n v IH | l IH | m IH] using val_ind'; intro H; try reflexivity; try discriminate.
  - (* array: elements are not entered *)
    rewrite resolve_arr_eq. cbn in H. apply andb_true_iff in H as [Hne Hall].
    assert (E : map (elem_outcome (resolve c D) c D) l = map (fun x => OVal (Ok x)) l).
    { apply map_ext_in. intros x Hx. apply elem_outcome_clean. rewrite forallb_forall in Hall. apply Hall; assumption. }
    rewrite E, seq_elems_all_ok. cbn. destruct l; [discriminate|reflexivity].
  - rewrite resolve_obj_eq. cbn in H. apply andb_true_iff in H as [Hnd Hall].
    assert (E1 : flat_map (fun kv : string * val => if String.eqb (fst kv) SD then [sd_outcome (resolve c D) D (snd kv)] else []) m = []).
    { clear IH Hnd. induction m as [|[k y] r IHr]; [reflexivity|]. cbn in *. apply andb_true_iff in Hall as [H1 H2].
      apply andb_true_iff in H1 as [H1 _]. unfold resv in H1. apply negb_true_iff in H1.
      apply orb_false_iff in H1 as [H1 _]. apply orb_false_iff in H1 as [H1 _]. rewrite H1. apply IHr; assumption. }
    rewrite E1. cbn [hd bind].
    assert (E2 : seq_plain (map (fun kv => (fst kv, if reserved c (fst kv) then ONone else OVal (resolve c D (snd kv)))) m) = Ok m
                 /\ filter (fun k => negb (reserved c k)) (map fst m) = map fst m).
    { clear Hnd E1. induction IH as [|[k y] r Hy Hr IHr]; [split; reflexivity|]. cbn in Hall. apply andb_true_iff in Hall as [H1 H2].
      apply andb_true_iff in H1 as [H1 H3]. apply negb_true_iff in H1. cbn [map fst snd seq_plain filter].
      rewrite (resv_not_reserved c k H1). cbn in Hy. rewrite (Hy H3). cbn [bind negb].
      destruct (IHr H2) as [E F]. rewrite E, F. cbn. rewrite (clean_nonnull y H3). split; reflexivity. }
    destruct E2 as [E2 E3]. rewrite E2, E3. cbn. rewrite Hnd. reflexivity.
Qed.

(* ---------- strings ---------- *)
Lemma mems_In k l : mems k l = true <-> In k l.
Proof.
  induction l as [|x r IH]; cbn; [split; [discriminate|tauto]|].
  rewrite orb_true_iff, IH, String.eqb_eq. split; intros [H|H]; auto.
Qed.
Lemma nodups_NoDup l : nodups l = true <-> NoDup l.
Proof.
  induction l as [|x r IH]; cbn; [split; [constructor|reflexivity]|].
  rewrite andb_true_iff, negb_true_iff, IH. split.
  - intros [H1 H2]. constructor; [|assumption]. intro Hin. apply mems_In in Hin. congruence.
  - intro H. inversion H; subst. split; [|assumption].
    destruct (mems x r) eqn:E; [|reflexivity]. apply mems_In in E. contradiction.
Qed.
Lemma memp_In p l : memp p l = true <-> In p l.
Proof.
  induction l as [|x r IH]; cbn; [split; [discriminate|tauto]|].
  rewrite orb_true_iff, IH, path_eqb_eq. split; intros [H|H]; auto.
Qed.

(* ---------- objects the issuer writes ---------- *)
Definition Fm (c : bool) (D : list val) (kv : string * val) : string * outcome :=
  (fst kv, if reserved c (fst kv) then ONone else OVal (resolve c D (snd kv))).
Definition Gd (c : bool) (D : list val) (g : val) : string * outcome := (dig_name g, enter (resolve c D) D 3 g).
Definition notres (c : bool) (k : string) : bool := negb (reserved c k).

Lemma sd_find_none c D ms :
  (forall kv, In kv ms -> String.eqb (fst kv) SD = false) ->
  flat_map (fun kv : string * val => if String.eqb (fst kv) SD then [sd_outcome (resolve c D) D (snd kv)] else []) ms = [].
Proof.
  induction ms as [|kv r IH]; intro H; [reflexivity|]. cbn. rewrite (H kv (or_introl eq_refl)). apply IH.
  intros x Hx. apply H. right; assumption.
Qed.

Lemma resolve_obj_nosd c D ms :
  (forall kv, In kv ms -> String.eqb (fst kv) SD = false) ->
  resolve c D (VObj ms) =
  bind (seq_plain (map (Fm c D) ms)) (fun p =>
    if nodups (filter (notres c) (map fst ms)) then Ok (VObj p) else Err ERejected).
Proof. intro H. rewrite resolve_obj_eq, (sd_find_none c D ms H). reflexivity. Qed.

Lemma seq_plain_none_last l k : seq_plain (l ++ [(k, ONone)]) = seq_plain l.
Proof.
  rewrite seq_plain_app. cbn. destruct (seq_plain l); cbn; try reflexivity. rewrite app_nil_r. reflexivity.
Qed.

Lemma resolve_obj_sd c D ms sdv :
  (forall kv, In kv ms -> String.eqb (fst kv) SD = false) ->
  resolve c D (VObj (ms ++ [(SD, sdv)])) =
  bind (sd_outcome (resolve c D) D sdv) (fun s =>
  bind (seq_plain (map (Fm c D) ms)) (fun p =>
    if nodups (map fst s ++ filter (notres c) (map fst ms)) then Ok (VObj (s ++ p)) else Err ERejected)).
Proof.
  intro H. rewrite resolve_obj_eq, flat_map_app, (sd_find_none c D ms H). cbn [flat_map fst snd app hd].
  rewrite String.eqb_refl. cbn [app hd].
  rewrite map_app. cbn [map fst snd]. unfold reserved at 2. rewrite String.eqb_refl. cbn [orb].
  change (map (fun kv : string * val => (fst kv, if reserved c (fst kv) then ONone else OVal (resolve c D (snd kv)))) ms)
    with (map (Fm c D) ms).
  rewrite seq_plain_none_last.
  rewrite map_app, filter_app. cbn [map fst filter]. unfold reserved at 2. rewrite String.eqb_refl. cbn [orb negb].
  rewrite app_nil_r. reflexivity.
Qed.

(* what [D] must be for an issued SD-JWT and a selection of sites *)
Definition Dok (a : N) (sel : list path) (D : list val) (ds : list disc) : Prop :=
  forall d, In d ds -> memv (digest a d) D = memp (d_salt d) sel.
Definition Dnodecoy (D : list val) : Prop := forall a c s n v, memv (VDig a c 0 s n v) D = false.

Lemma Dok_app a sel D l1 l2 : Dok a sel D (l1 ++ l2) <-> Dok a sel D l1 /\ Dok a sel D l2.
Proof.
  unfold Dok. split.
  - intro H. split; intros d Hd; apply H; apply in_or_app; [left|right]; assumption.
  - intros [H1 H2] d Hd. apply in_app_or in Hd as [Hd|Hd]; [apply H1|apply H2]; assumption.
Qed.

Lemma decoys_named c D a p n :
  Dnodecoy D -> seq_named (map (Gd c D) (map (digest a) (decoy_discs p n))) = Ok [].
Proof.
  intro Hd. induction n as [|k IH]; [reflexivity|].
  cbn [decoy_discs]. rewrite !map_app, seq_named_app, IH.
  unfold Gd, digest, mk. cbn [map enter d_enc d_e d_salt d_name d_val dig_name seq_named]. rewrite Hd. reflexivity.
Qed.

Lemma strings_digests a l : forallb is_string (map (digest a) l) = true.
Proof. induction l; [reflexivity|assumption]. Qed.


Lemma NoDup_insert_mid {A} (X K Y : list A) :
  NoDup (X ++ Y) -> NoDup K -> (forall x, In x K -> ~ In x (X ++ Y)) -> NoDup (X ++ K ++ Y).
Proof.
  intros H1 H2 H3. induction K as [|x K' IH]; [assumption|].
  inversion H2; subst. cbn. eapply Permutation_NoDup; [apply Permutation_middle|].
  constructor.
  - intro Hin. apply in_app_or in Hin as [Hin|Hin].
    + apply (H3 x (or_introl eq_refl)). apply in_or_app; left; assumption.
    + apply in_app_or in Hin as [Hin|Hin]; [contradiction|].
      apply (H3 x (or_introl eq_refl)). apply in_or_app; right; assumption.
  - apply IH; [assumption|]. intros y Hy. apply H3. right; assumption.
Qed.

Lemma mveq_insert_pre s pl R pre : mveq (s ++ pl) R -> mveq (s ++ pre ++ pl) (pre ++ R).
Proof.
  intro H. induction pre as [|[k y] pre' IH]; [assumption|].
  cbn. apply mveq_plain; [assumption|apply veq_refl].
Qed.

(* ---------- one level of an issued object ---------- *)
Section Level.
  Variables (a : N) (D : list val).
  Hypothesis Hnd : Dnodecoy D.

  (* [t]: what the issuer made of the members processed so far; [R]: what the specification reveals of them;
     [keys]: their names *)
  Definition lvl_ok (c : bool) (t : triple) (R : list (string * val)) (keys : list string) : Prop :=
    exists s pl,
      seq_named (map (Gd c D) (map (digest a) (t_lvl t))) = Ok s /\
      seq_plain (map (Fm c D) (t_vis t)) = Ok pl /\
      incl (map fst s ++ map fst (t_vis t)) keys /\
      (NoDup keys -> NoDup (map fst s ++ map fst (t_vis t))) /\
      Forall (fun kv => resv (fst kv) = false) (t_vis t) /\
      (c = true -> mveq (s ++ pl) R).

  Lemma lvl_ok_nil c : lvl_ok c ([], [], []) [] [].
  Proof.
    exists [], []. cbn. repeat split; try reflexivity.
    - intros x [].
    - intros _. constructor.
    - constructor.
    - intros _. apply mveq_nil.
  Qed.

  Lemma step_vis c k xv y y' nst t R keys :
    resolve c D xv = Ok y -> is_null y = false -> resv k = false -> (c = true -> veq y y') ->
    lvl_ok c t R keys ->
    lvl_ok c ((k, xv) :: t_vis t, t_lvl t, nst ++ t_nst t) ((k, y') :: R) (k :: keys).
  Proof.
    intros Hr Hn Hk Hv (s & pl & H1 & H2 & H3 & H4 & H5 & H6).
    exists s, ((k, y) :: pl). cbn [t_vis t_lvl fst snd map seq_plain].
    repeat split.
    - assumption.
    - unfold Fm at 1. cbn [fst snd]. rewrite (resv_not_reserved c k Hk), Hr. cbn [bind]. rewrite H2. cbn [bind]. rewrite Hn. reflexivity.
    - intros x Hx. apply in_app_or in Hx as [Hx|[Hx|Hx]].
      + right. apply H3. apply in_or_app; left; assumption.
      + left; assumption.
      + right. apply H3. apply in_or_app; right; assumption.
    - intro Hnd0. inversion Hnd0; subst. eapply Permutation_NoDup; [apply Permutation_middle|].
      constructor; [|apply H4; assumption]. intro Hin. apply H3 in Hin. contradiction.
    - constructor; assumption.
    - intro Hc. apply mveq_plain; [apply H6; assumption|apply Hv; assumption].
  Qed.

  Lemma Gd_mk3 c cur k xv :
    Gd c D (digest a (mk 3 cur k xv)) =
    (k, if memv (digest a (mk 3 cur k xv)) D then OVal (resolve c D xv) else ONone).
  Proof. unfold Gd, digest, mk. cbn [enter d_enc d_e d_salt d_name d_val dig_name]. destruct (memv _ D); reflexivity. Qed.

  Lemma step_sd c k cur xv y y' nst t R keys :
    resolve c D xv = Ok y -> (c = true -> veq y y') ->
    lvl_ok c t R keys ->
    lvl_ok c (t_vis t, mk 3 cur k xv :: t_lvl t, nst ++ t_nst t)
           ((if memv (digest a (mk 3 cur k xv)) D then [(k, y')] else []) ++ R) (k :: keys).
  Proof.
    intros Hr Hv (s & pl & H1 & H2 & H3 & H4 & H5 & H6).
    unfold lvl_ok. cbn [t_vis t_lvl fst snd map]. rewrite Gd_mk3.
    destruct (memv (digest a (mk 3 cur k xv)) D) eqn:Hm.
    - exists ((k, y) :: s), pl. repeat split.
      + cbn [seq_named]. rewrite Hr. cbn [bind]. rewrite H1. reflexivity.
      + assumption.
      + intros x Hx. cbn in Hx. destruct Hx as [Hx|Hx]; [left; assumption|right; apply H3; assumption].
      + intro Hnd0. inversion Hnd0; subst. cbn. constructor; [|apply H4; assumption]. intro Hin. apply H3 in Hin. contradiction.
      + assumption.
      + intro Hc. cbn [app]. apply mveq_sd; [apply H6; assumption|apply Hv; assumption].
    - exists s, pl. repeat split.
      + cbn [seq_named]. assumption.
      + assumption.
      + intros x Hx. right. apply H3; assumption.
      + intro Hnd0. inversion Hnd0; subst. apply H4; assumption.
      + assumption.
      + intro Hc. cbn [app]. apply H6; assumption.
  Qed.

  (* the object the v2 builder writes for a level: members, then "_sd" with the level's digests and decoys *)
  Lemma sd_outcome_level c lvl dec s :
    seq_named (map (Gd c D) (map (digest a) lvl)) = Ok s ->
    seq_named (map (Gd c D) (map (digest a) dec)) = Ok [] ->
    sd_outcome (resolve c D) D (sd_member (map (digest a) (lvl ++ dec))) = Ok s.
  Proof.
    intros H1 H2. unfold sd_member. destruct (map (digest a) (lvl ++ dec)) eqn:E.
    - apply map_eq_nil in E. apply app_eq_nil in E as [-> _]. cbn in H1. inversion H1. reflexivity.
    - rewrite <- E. cbn [sd_outcome]. rewrite strings_digests.
      change (map (fun g : val => (dig_name g, enter (resolve c D) D 3 g)) (map (digest a) (lvl ++ dec)))
        with (map (Gd c D) (map (digest a) (lvl ++ dec))).
      rewrite !map_app, seq_named_app, H1, H2. cbn. rewrite app_nil_r. reflexivity.
  Qed.

  Lemma filter_notres c l : Forall (fun kv : string * val => resv (fst kv) = false) l -> filter (notres c) (map fst l) = map fst l.
  Proof.
    induction 1 as [|kv r Hk Hr IH]; [reflexivity|]. cbn. unfold notres at 1. rewrite (resv_not_reserved c _ Hk). cbn. rewrite IH. reflexivity.
  Qed.

  Lemma nosd_of_notresv (l : list (string * val)) :
    Forall (fun kv => resv (fst kv) = false) l -> forall kv, In kv l -> String.eqb (fst kv) SD = false.
  Proof.
    intros H kv Hin. rewrite Forall_forall in H. specialize (H kv Hin). unfold resv in H.
    apply orb_false_iff in H as [H _]. apply orb_false_iff in H as [H _]. assumption.
  Qed.

  (* [pre]: members written before the level's own (the registered claims at the top level, none below) *)
  Lemma obj_v2 c t R keys o cur pre pre' :
    o_alg o = a -> NoDup keys -> lvl_ok c t R keys ->
    (forall kv, In kv pre -> String.eqb (fst kv) SD = false) ->
    seq_plain (map (Fm c D) pre) = Ok pre' ->
    NoDup (filter (notres c) (map fst pre)) ->
    (forall x, In x (filter (notres c) (map fst pre)) -> ~ In x keys) ->
    exists y, resolve c D (VObj (pre ++ t_vis t ++ [sd2 o cur (t_lvl t)])) = Ok y /\ is_null y = false /\
              (c = true -> veq y (VObj (pre' ++ R))).
  Proof.
    intros Ha Hk (s & pl & H1 & H2 & H3 & H4 & H5 & H6) Hp1 Hp2 Hp3 Hp4.
    exists (VObj (s ++ pre' ++ pl)). split; [|split; [reflexivity|]].
    - unfold sd2. rewrite app_assoc.
      rewrite resolve_obj_sd by (intros kv Hin; apply in_app_or in Hin as [Hin|Hin]; [apply Hp1|apply (nosd_of_notresv _ H5)]; assumption).
      rewrite Ha. rewrite (sd_outcome_level c (t_lvl t) (decoy_discs cur (o_decoys o)) s H1 (decoys_named c D a cur _ Hnd)).
      cbn [bind]. rewrite map_app, seq_plain_app, Hp2, H2. cbn [bind].
      rewrite map_app, filter_app, (filter_notres c _ H5).
      assert (Hn : NoDup (map fst s ++ filter (notres c) (map fst pre) ++ map fst (t_vis t))).
      { apply NoDup_insert_mid; [apply H4; assumption|assumption|]. intros x Hx Hin. apply (Hp4 x Hx). apply H3. assumption. }
      rewrite (proj2 (nodups_NoDup _) Hn). reflexivity.
    - intro Hc. apply veq_of_mveq. apply mveq_insert_pre. apply H6; assumption.
  Qed.

  (* the object the v5 builder writes: "_sd" only when there is a digest *)
  Lemma obj_v5 c t R keys o cur pre pre' :
    o_alg o = a -> NoDup keys -> lvl_ok c t R keys ->
    (forall kv, In kv pre -> String.eqb (fst kv) SD = false) ->
    seq_plain (map (Fm c D) pre) = Ok pre' ->
    NoDup (filter (notres c) (map fst pre)) ->
    (forall x, In x (filter (notres c) (map fst pre)) -> ~ In x keys) ->
    exists y, resolve c D (VObj (pre ++ t_vis t ++ sd5 o cur (t_lvl t))) = Ok y /\ is_null y = false /\
              (c = true -> veq y (VObj (pre' ++ R))).
  Proof.
    intros Ha Hk (s & pl & H1 & H2 & H3 & H4 & H5 & H6) Hp1 Hp2 Hp3 Hp4.
    exists (VObj (s ++ pre' ++ pl)). split; [|split; [reflexivity|]].
    - assert (Hn : NoDup (map fst s ++ filter (notres c) (map fst pre) ++ map fst (t_vis t))).
      { apply NoDup_insert_mid; [apply H4; assumption|assumption|]. intros x Hx Hin. apply (Hp4 x Hx). apply H3. assumption. }
      assert (Hsd : forall kv, In kv (pre ++ t_vis t) -> String.eqb (fst kv) SD = false).
      { intros kv Hin; apply in_app_or in Hin as [Hin|Hin]; [apply Hp1|apply (nosd_of_notresv _ H5)]; assumption. }
      unfold sd5. destruct (t_lvl t ++ decoy_discs cur (o_decoys o)) eqn:E.
      + apply app_eq_nil in E as [E1 _]. rewrite E1 in H1. cbn in H1. inversion H1; subst.
        rewrite app_nil_r. rewrite resolve_obj_nosd by assumption.
        rewrite map_app, seq_plain_app, Hp2, H2. cbn [bind app].
        rewrite map_app, filter_app, (filter_notres c _ H5). cbn [map app] in Hn.
        rewrite (proj2 (nodups_NoDup _) Hn). reflexivity.
      + rewrite <- E. rewrite app_assoc. rewrite resolve_obj_sd by assumption.
        cbn [sd_outcome]. rewrite Ha, strings_digests.
        change (map (fun g : val => (dig_name g, enter (resolve c D) D 3 g)) (map (digest a) (t_lvl t ++ decoy_discs cur (o_decoys o))))
          with (map (Gd c D) (map (digest a) (t_lvl t ++ decoy_discs cur (o_decoys o)))).
        rewrite !map_app, seq_named_app, H1, (decoys_named c D a cur _ Hnd). cbn [bind]. rewrite app_nil_r.
        rewrite seq_plain_app, Hp2, H2. cbn [bind]. rewrite filter_app, (filter_notres c _ H5).
        rewrite (proj2 (nodups_NoDup _) Hn). reflexivity.
    - intro Hc. apply veq_of_mveq. apply mveq_insert_pre. apply H6; assumption.
  Qed.
End Level.

Definition keys_of (cv : val) : list string := match cv with VObj m => map fst m | _ => [] end.

Lemma clean_obj_inv m :
  clean (VObj m) = true ->
  NoDup (map fst m) /\ forallb (fun kv => negb (resv (fst kv)) && clean (snd kv)) m = true.
Proof. cbn. intro H. apply andb_true_iff in H as [H1 H2]. split; [apply nodups_NoDup|]; assumption. Qed.

(* ---------- v2 ---------- *)
Section V2.
  Variables (o : iopts) (sel : list path) (D : list val).
  Hypothesis Hnd : Dnodecoy D.
  Let a := o_alg o.

  Definition P2 (cv : val) : Prop :=
    forall c p, clean cv = true ->
      Dok a sel D (t_lvl (issue2 o p cv) ++ t_nst (issue2 o p cv)) ->
      lvl_ok a D c (issue2 o p cv) (reveal2 o sel p cv) (keys_of cv).

  Lemma leaf2_step c p k x T R keys :
    clean x = true -> resv k = false ->
    Dok a sel D (if memp (p ++ [SKey k]) (o_nonsd o) then [] else [mk 3 (p ++ [SKey k]) k x]) ->
    lvl_ok a D c T R keys ->
    let leaf : triple := if memp (p ++ [SKey k]) (o_nonsd o) then ([(k, x)], [], []) else ([], [mk 3 (p ++ [SKey k]) k x], []) in
    lvl_ok a D c (t_vis leaf ++ t_vis T, t_lvl leaf ++ t_lvl T, t_nst leaf ++ t_nst T)
           ((if memp (p ++ [SKey k]) (o_nonsd o) || memp (p ++ [SKey k]) sel then [(k, x)] else []) ++ R) (k :: keys).
  Proof.
    intros Hc Hk Hd HT. cbn zeta. destruct (memp (p ++ [SKey k]) (o_nonsd o)); cbn [orb t_vis t_lvl t_nst fst snd app].
    - pose proof (step_vis a D c k x x x [] T R keys (resolve_clean c D x Hc) (clean_nonnull x Hc) Hk (fun _ => veq_refl x) HT) as Hs.
      exact Hs.
    - pose proof (step_sd a D c k (p ++ [SKey k]) x x x [] T R keys (resolve_clean c D x Hc) (fun _ => veq_refl x) HT) as Hs.
      rewrite (Hd _ (or_introl eq_refl)) in Hs. exact Hs.
  Qed.

  Lemma members2 m :
    Forall (fun kv => P2 (snd kv)) m ->
    forall c p, forallb (fun kv => negb (resv (fst kv)) && clean (snd kv)) m = true ->
      Dok a sel D (t_lvl (cat3 (map (member2 (issue2 o) o p) m)) ++ t_nst (cat3 (map (member2 (issue2 o) o p) m))) ->
      lvl_ok a D c (cat3 (map (member2 (issue2 o) o p) m)) (flat_map (rmember2 (reveal2 o sel) o sel p) m) (map fst m).
  Proof.
    induction 1 as [|[k x] r Hx Hr IH]; intros c p Hcl Hd; [apply lvl_ok_nil|].
    cbn [forallb fst snd] in Hcl. apply andb_true_iff in Hcl as [Hkx Hcl]. apply andb_true_iff in Hkx as [Hk Hcx].
    apply negb_true_iff in Hk.
    cbn [map flat_map fst] in *. remember (member2 (issue2 o) o p (k, x)) as tk eqn:Etk.
    remember (map (member2 (issue2 o) o p) r) as ts eqn:Ets.
    unfold cat3 in *. cbn [flat_map t_vis t_lvl t_nst fst snd] in *.
    apply Dok_app in Hd as [Hd1 Hd2]. apply Dok_app in Hd1 as [Hd1a Hd1b]. apply Dok_app in Hd2 as [Hd2a Hd2b].
    assert (HT : lvl_ok a D c (flat_map t_vis ts, flat_map t_lvl ts, flat_map t_nst ts)
                        (flat_map (rmember2 (reveal2 o sel) o sel p) r) (map fst r)).
    { subst ts. apply IH; [assumption|]. apply Dok_app. split; assumption. }
    assert (Hleaf : Dok a sel D (if memp (p ++ [SKey k]) (o_nonsd o) then [] else [mk 3 (p ++ [SKey k]) k x]) ->
      let leaf : triple := if memp (p ++ [SKey k]) (o_nonsd o) then ([(k, x)], [], []) else ([], [mk 3 (p ++ [SKey k]) k x], []) in
      lvl_ok a D c (t_vis leaf ++ flat_map t_vis ts, t_lvl leaf ++ flat_map t_lvl ts, t_nst leaf ++ flat_map t_nst ts)
             ((if memp (p ++ [SKey k]) (o_nonsd o) || memp (p ++ [SKey k]) sel then [(k, x)] else []) ++ flat_map (rmember2 (reveal2 o sel) o sel p) r)
             (k :: map fst r)).
    { intro Hd'. exact (leaf2_step c p k x _ _ _ Hcx Hk Hd' HT). }
    clear Ets. unfold member2 in Etk. unfold rmember2 at 1. cbn [fst snd] in *.
    destruct x as [| | | | | |mm];
      try (subst tk; apply Hleaf; destruct (memp (p ++ [SKey k]) (o_nonsd o)); cbn [t_lvl fst snd] in Hd1a; assumption).
    destruct (o_structured o).
    - (* structured: the nested object is written with its own _sd *)
      subst tk. cbn [t_vis t_lvl t_nst fst snd app] in *.
      cbn in Hx.
      assert (Hin : lvl_ok a D c (issue2 o (p ++ [SKey k]) (VObj mm)) (reveal2 o sel (p ++ [SKey k]) (VObj mm)) (keys_of (VObj mm))).
      { apply Hx; assumption. }
      destruct (clean_obj_inv mm Hcx) as [Hnd' _].
      destruct (obj_v2 a D Hnd c _ _ _ o (p ++ [SKey k]) [] [] eq_refl Hnd' Hin (fun _ F => match F with end) eq_refl (NoDup_nil _) (fun _ F => match F with end)) as (y & Hy1 & Hy2 & Hy3).
      pose proof (step_vis a D c k _ y (VObj (reveal2 o sel (p ++ [SKey k]) (VObj mm)))
                    (t_lvl (issue2 o (p ++ [SKey k]) (VObj mm)) ++ t_nst (issue2 o (p ++ [SKey k]) (VObj mm))) _ _ _ Hy1 Hy2 Hk Hy3 HT) as Hs.
      cbn [t_vis t_lvl t_nst fst snd] in Hs. exact Hs.
    - subst tk. apply Hleaf. destruct (memp (p ++ [SKey k]) (o_nonsd o)); cbn [t_lvl fst snd] in Hd1a; assumption.
  Qed.

  Lemma level2_all cv : P2 cv.
  Proof.
    induction cv as [| b | z | s | a0 e0 e s n v IH | l IH | m IH] using val_ind'; intros c p Hc Hd;
      try (cbn; apply lvl_ok_nil).
    destruct (clean_obj_inv m Hc) as [_ Hm].
    exact (members2 m IH c p Hm Hd).
  Qed.
End V2.

(* ---------- v5 ---------- *)
(* guard against the known finding "array without disclosed element collapses": every array whose elements
   the issuer made selectively disclosable keeps at least one element under the selection *)
Definition akept_member (rec : bool -> path -> val -> bool) (o : iopts) (sel : list path) (ign : bool) (p : path)
           (kv : string * val) : bool :=
  let cur := p ++ [SKey (fst kv)] in
  let ignored := memp cur (o_nonsd o) in
  let always := memp cur (o_always o) in
  let recursive := memp cur (o_recursive o) in
  match snd kv with
  | VObj _ => if ignored then true else rec (negb (recursive || always || o_structured o)) cur (snd kv)
  | VArr l => if ignored then true else match reveal_elems o sel cur 0 l with [] => false | _ => true end
  | _ => true
  end.
Fixpoint akept5 (o : iopts) (sel : list path) (ign : bool) (p : path) (c : val) {struct c} : bool :=
  match c with
  | VObj m => forallb (akept_member (akept5 o sel) o sel ign p) m
  | _ => true
  end.

Section V5.
  Variables (o : iopts) (sel : list path) (D : list val).
  Hypothesis Hnd : Dnodecoy D.
  Let a := o_alg o.

  Lemma enter_mk2 c ep x :
    enter (resolve c D) D 2 (digest a (mk 2 ep "" x)) =
    if memv (digest a (mk 2 ep "" x)) D then OVal (resolve c D x) else ONone.
  Proof. unfold digest, mk. cbn [enter d_enc d_e d_salt d_name d_val]. destruct (memv _ D); reflexivity. Qed.

  Lemma elems5_resolve c p l : forall i,
    forallb clean l = true ->
    Dok a sel D (snd (elems5 o p i l)) ->
    exists ys, seq_elems (map (elem_outcome (resolve c D) c D) (fst (elems5 o p i l))) = Ok ys /\
               (c = true -> ys = reveal_elems o sel p i l) /\
               (c = false -> List.length ys = List.length l).
  Proof.
    induction l as [|x r IH]; intros i Hc Hd; [exists []; repeat split; reflexivity|].
    cbn [forallb] in Hc. apply andb_true_iff in Hc as [Hx Hr].
    cbn [elems5 reveal_elems] in *. destruct (elems5 o p (N.succ i) r) as [es ds] eqn:E.
    destruct (memp (p ++ [SIdx i]) (o_nonsd o)) eqn:Hi; cbn [fst snd map orb] in *.
    - destruct (IH (N.succ i) Hr) as (ys & H1 & H2 & H3); [rewrite E; exact Hd|]. rewrite E in H1. cbn [fst] in H1.
      exists (x :: ys). rewrite (elem_outcome_clean _ c D x Hx). cbn [seq_elems bind]. rewrite H1. cbn [bind].
      repeat split.
      + intro Hc. rewrite (H2 Hc). reflexivity.
      + intro Hc. cbn. rewrite (H3 Hc). reflexivity.
    - destruct (IH (N.succ i) Hr) as (ys & H1 & H2 & H3); [rewrite E; intros d Hd0; apply Hd; right; exact Hd0|].
      rewrite E in H1. cbn [fst] in H1.
      assert (Ee : elem_outcome (resolve c D) c D (VObj [(DOTS, digest (o_alg o) (mk 2 (p ++ [SIdx i]) "" x))]) =
                   if memp (p ++ [SIdx i]) sel then OVal (Ok x)
                   else if c then ONone else OVal (Ok (VObj [(DOTS, digest (o_alg o) (mk 2 (p ++ [SIdx i]) "" x))]))).
      { unfold elem_outcome. cbn [flat_map fst snd]. rewrite String.eqb_refl. cbn [app].
        change (o_alg o) with a. rewrite enter_mk2, (Hd _ (or_introl eq_refl)). cbn [d_salt mk].
        destruct (memp (p ++ [SIdx i]) sel); [|reflexivity].
        rewrite (resolve_clean c D x Hx). reflexivity. }
      rewrite Ee. destruct (memp (p ++ [SIdx i]) sel).
      + exists (x :: ys). cbn [seq_elems bind]. rewrite H1. cbn [bind]. repeat split.
        * intro Hc. rewrite (H2 Hc). reflexivity.
        * intro Hc. cbn. rewrite (H3 Hc). reflexivity.
      + destruct c.
        * exists ys. cbn [seq_elems]. repeat split; [assumption|assumption|discriminate].
        * exists (VObj [(DOTS, digest (o_alg o) (mk 2 (p ++ [SIdx i]) "" x))] :: ys). cbn [seq_elems bind]. rewrite H1. cbn [bind].
          repeat split; [discriminate|]. intro Hc. cbn. rewrite (H3 Hc). reflexivity.
  Qed.

  Lemma elems5_length p l : forall i, List.length (fst (elems5 o p i l)) = List.length l.
  Proof.
    induction l as [|x r IH]; intro i; [reflexivity|]. cbn [elems5]. specialize (IH (N.succ i)).
    destruct (elems5 o p (N.succ i) r) as [es ds]. destruct (memp (p ++ [SIdx i]) (o_nonsd o)); cbn in *; rewrite IH; reflexivity.
  Qed.

  (* the array value the issuer writes (visible or inside the array's own disclosure) *)
  Lemma array5_resolve c p l :
    clean (VArr l) = true ->
    (match reveal_elems o sel p 0 l with [] => false | _ => true end) = true ->
    Dok a sel D (snd (elems5 o p 0 l)) ->
    exists y, resolve c D (arr_member (fst (elems5 o p 0 l))) = Ok y /\ is_null y = false /\
              (c = true -> y = VArr (reveal_elems o sel p 0 l)).
  Proof.
    intros Hc Hk Hd. cbn in Hc. apply andb_true_iff in Hc as [Hne Hall].
    destruct (elems5_resolve c p l 0 Hall Hd) as (ys & H1 & H2 & H3).
    pose proof (elems5_length p l 0) as Hlen.
    unfold arr_member. destruct (fst (elems5 o p 0 l)) as [|e0 es] eqn:E.
    - destruct l; [discriminate|]. cbn in Hlen. discriminate.
    - rewrite resolve_arr_eq, H1. cbn [bind].
      exists (arr_or_null ys). split; [reflexivity|]. destruct c.
      + rewrite (H2 eq_refl). destruct (reveal_elems o sel p 0 l); [discriminate|]. split; [reflexivity|]. intros _. reflexivity.
      + split; [|discriminate]. specialize (H3 eq_refl). destruct ys; [|reflexivity]. destruct l; [discriminate|]. cbn in H3. discriminate.
  Qed.

  Definition P5 (cv : val) : Prop :=
    forall c ign p, clean cv = true -> akept5 o sel ign p cv = true ->
      exists t, issue5 o ign p cv = Ok t /\
                (Dok a sel D (t_lvl t ++ t_nst t) -> lvl_ok a D c t (reveal5 o sel ign p cv) (keys_of cv)).

  Ltac dok H := let d := fresh "d" in let Hd := fresh "Hd" in
    intros d Hd; apply H; revert Hd; cbn [t_vis t_lvl t_nst fst snd app]; rewrite ?in_app_iff; cbn [In]; rewrite ?in_app_iff; cbn [In]; rewrite ?in_app_iff; tauto.

  Lemma member5_ok k x c ign p :
    P5 x -> resv k = false -> clean x = true -> akept_member (akept5 o sel) o sel ign p (k, x) = true ->
    exists tk, member5 (issue5 o) o ign p (k, x) = Ok tk /\
      forall T R keys, lvl_ok a D c T R keys -> Dok a sel D (t_lvl tk ++ t_nst tk) ->
        lvl_ok a D c (t_vis tk ++ t_vis T, t_lvl tk ++ t_lvl T, t_nst tk ++ t_nst T)
               (rmember5 (reveal5 o sel) o sel ign p (k, x) ++ R) (k :: keys).
  Proof.
    intros HP Hk Hc Hak. unfold member5, rmember5, akept_member in *. cbn [fst snd] in *.
    set (cur := p ++ [SKey k]) in *.
    assert (Hraw : forall T R keys, lvl_ok a D c T R keys ->
              lvl_ok a D c ((k, x) :: t_vis T, t_lvl T, t_nst T) ((k, x) :: R) (k :: keys)).
    { intros T R keys HT.
      exact (step_vis a D c k x x x [] T R keys (resolve_clean c D x Hc) (clean_nonnull x Hc) Hk (fun _ => veq_refl x) HT). }
    assert (Hprim : forall T R keys, lvl_ok a D c T R keys -> Dok a sel D [mk 3 cur k x] ->
              lvl_ok a D c (t_vis T, mk 3 cur k x :: t_lvl T, t_nst T) ((if memp cur sel then [(k, x)] else []) ++ R) (k :: keys)).
    { intros T R keys HT Hd.
      pose proof (step_sd a D c k cur x x x [] T R keys (resolve_clean c D x Hc) (fun _ => veq_refl x) HT) as Hs.
      rewrite (Hd _ (or_introl eq_refl)) in Hs. exact Hs. }
    destruct x as [| b | z | s | a0 e0 e s n v | l | mm]; try discriminate.
    - (* bool *)
      destruct (memp cur (o_nonsd o) || ign) eqn:E; cbn [orb].
      + eexists; split; [reflexivity|]. intros T R keys HT _. apply Hraw; assumption.
      + eexists; split; [reflexivity|]. intros T R keys HT Hd. cbn [t_vis t_lvl t_nst fst snd app]. apply Hprim; [assumption|dok Hd].
    - destruct (memp cur (o_nonsd o) || ign) eqn:E; cbn [orb].
      + eexists; split; [reflexivity|]. intros T R keys HT _. apply Hraw; assumption.
      + eexists; split; [reflexivity|]. intros T R keys HT Hd. cbn [t_vis t_lvl t_nst fst snd app]. apply Hprim; [assumption|dok Hd].
    - destruct (memp cur (o_nonsd o) || ign) eqn:E; cbn [orb].
      + eexists; split; [reflexivity|]. intros T R keys HT _. apply Hraw; assumption.
      + eexists; split; [reflexivity|]. intros T R keys HT Hd. cbn [t_vis t_lvl t_nst fst snd app]. apply Hprim; [assumption|dok Hd].
    - (* array *)
      destruct (memp cur (o_nonsd o)) eqn:Ei.
      + eexists; split; [reflexivity|]. intros T R keys HT _. apply Hraw; assumption.
      + destruct (elems5 o cur 0 l) as [es eds] eqn:Ee.
        destruct (memp cur (o_always o) || o_structured o) eqn:Ev.
        * eexists; split; [reflexivity|]. intros T R keys HT Hd. cbn [t_vis t_lvl t_nst fst snd app] in *.
          destruct (array5_resolve c cur l Hc Hak) as (y & Hy1 & Hy2 & Hy3); [rewrite Ee; cbn [snd]; dok Hd|].
          rewrite Ee in Hy1. cbn [fst] in Hy1.
          assert (Hv : c = true -> veq y (VArr (reveal_elems o sel cur 0 l))) by (intro Hc'; rewrite (Hy3 Hc'); apply veq_refl).
          pose proof (step_vis a D c k _ y _ eds T R keys Hy1 Hy2 Hk Hv HT) as Hs. exact Hs.
        * eexists; split; [reflexivity|]. intros T R keys HT Hd. cbn [t_vis t_lvl t_nst fst snd app] in *.
          destruct (array5_resolve c cur l Hc Hak) as (y & Hy1 & Hy2 & Hy3); [rewrite Ee; cbn [snd]; dok Hd|].
          rewrite Ee in Hy1. cbn [fst] in Hy1.
          assert (Hv : c = true -> veq y (VArr (reveal_elems o sel cur 0 l))) by (intro Hc'; rewrite (Hy3 Hc'); apply veq_refl).
          pose proof (step_sd a D c k cur _ y _ eds T R keys Hy1 Hv HT) as Hs.
          assert (Hm : memv (digest a (mk 3 cur k (arr_member es))) D = memp cur sel) by (apply Hd; left; reflexivity).
          rewrite Hm in Hs. exact Hs.
    - (* object *)
      destruct (memp cur (o_nonsd o)) eqn:Ei.
      + eexists; split; [reflexivity|]. intros T R keys HT _. apply Hraw; assumption.
      + destruct (HP c (negb (memp cur (o_recursive o) || memp cur (o_always o) || o_structured o)) cur Hc Hak) as (t' & Ht' & Hl').
        rewrite Ht'. cbn [bind].
        destruct (clean_obj_inv mm Hc) as [Hnd' _].
        destruct (negb (memp cur (o_recursive o) && negb (memp cur (o_always o))) &&
                  (memp cur (o_recursive o) || memp cur (o_always o) || o_structured o)) eqn:Ev.
        * eexists; split; [reflexivity|]. intros T R keys HT Hd. cbn [t_vis t_lvl t_nst fst snd app] in *.
          assert (Hd' : Dok a sel D (t_lvl t' ++ t_nst t')) by dok Hd.
          destruct (obj_v5 a D Hnd c t' _ _ o cur [] [] eq_refl Hnd' (Hl' Hd') (fun _ F => match F with end) eq_refl (NoDup_nil _) (fun _ F => match F with end)) as (y & Hy1 & Hy2 & Hy3).
          change (VObj ([] ++ t_vis t' ++ sd5 o cur (t_lvl t'))) with (obj5 o cur (t_vis t') (t_lvl t')) in Hy1.
          pose proof (step_vis a D c k _ y _ (decoy_discs cur (o_decoys o) ++ t_lvl t' ++ t_nst t') T R keys Hy1 Hy2 Hk Hy3 HT) as Hs.
          exact Hs.
        * eexists; split; [reflexivity|]. intros T R keys HT Hd. cbn [t_vis t_lvl t_nst fst snd app] in *.
          assert (Hd' : Dok a sel D (t_lvl t' ++ t_nst t')) by dok Hd.
          destruct (obj_v5 a D Hnd c t' _ _ o cur [] [] eq_refl Hnd' (Hl' Hd') (fun _ F => match F with end) eq_refl (NoDup_nil _) (fun _ F => match F with end)) as (y & Hy1 & Hy2 & Hy3).
          change (VObj ([] ++ t_vis t' ++ sd5 o cur (t_lvl t'))) with (obj5 o cur (t_vis t') (t_lvl t')) in Hy1.
          pose proof (step_sd a D c k cur _ y _ (decoy_discs cur (o_decoys o) ++ t_lvl t' ++ t_nst t') T R keys Hy1 Hy3 HT) as Hs.
          assert (Hm : memv (digest a (mk 3 cur k (obj5 o cur (t_vis t') (t_lvl t')))) D = memp cur sel) by (apply Hd; left; reflexivity).
          rewrite Hm in Hs. exact Hs.
  Qed.

  Lemma members5 m :
    Forall (fun kv => P5 (snd kv)) m ->
    forall c ign p, forallb (fun kv => negb (resv (fst kv)) && clean (snd kv)) m = true ->
      forallb (akept_member (akept5 o sel) o sel ign p) m = true ->
      exists ts, seq3 (map (member5 (issue5 o) o ign p) m) = Ok ts /\
        (Dok a sel D (t_lvl (cat3 ts) ++ t_nst (cat3 ts)) ->
         lvl_ok a D c (cat3 ts) (flat_map (rmember5 (reveal5 o sel) o sel ign p) m) (map fst m)).
  Proof.
    induction 1 as [|[k x] r Hx Hr IH]; intros c ign p Hcl Hak.
    - exists []. split; [reflexivity|]. intros _. apply lvl_ok_nil.
    - cbn [forallb fst snd] in Hcl, Hak. apply andb_true_iff in Hcl as [Hkx Hcl]. apply andb_true_iff in Hkx as [Hk Hcx].
      apply negb_true_iff in Hk. apply andb_true_iff in Hak as [Hak1 Hak2].
      destruct (IH c ign p Hcl Hak2) as (ts & Hts & HT).
      destruct (member5_ok k x c ign p Hx Hk Hcx Hak1) as (tk & Htk & Hstep).
      exists (tk :: ts). cbn [map seq3]. rewrite Htk. cbn [bind]. rewrite Hts. cbn [bind]. split; [reflexivity|].
      intro Hd. unfold cat3 in *. cbn [flat_map t_vis t_lvl t_nst fst snd map] in *.
      assert (HT' : lvl_ok a D c (flat_map t_vis ts, flat_map t_lvl ts, flat_map t_nst ts)
                           (flat_map (rmember5 (reveal5 o sel) o sel ign p) r) (map fst r)).
      { apply HT. intros d0 Hd0. apply Hd. revert Hd0. rewrite !in_app_iff. tauto. }
      assert (Hdk : Dok a sel D (t_lvl tk ++ t_nst tk)).
      { intros d0 Hd0. apply Hd. revert Hd0. rewrite !in_app_iff. tauto. }
      exact (Hstep _ _ _ HT' Hdk).
  Qed.

  Lemma level5_all cv : P5 cv.
  Proof.
    induction cv as [| b | z | s | a0 e0 e s n v IH | l IH | m IH] using val_ind'; intros c ign p Hc Hak;
      try (eexists; split; [reflexivity|]; intros _; apply lvl_ok_nil).
    destruct (clean_obj_inv m Hc) as [_ Hm]. cbn [akept5] in Hak.
    destruct (members5 m IH c ign p Hm Hak) as (ts & Hts & HT).
    exists (cat3 ts). cbn [issue5]. rewrite Hts. split; [reflexivity|]. exact HT.
  Qed.
End V5.

(* ---------- structure of the issued disclosure lists ---------- *)
Definition is_decoy_step (s : step) : bool := match s with SDecoy _ => true | _ => false end.
Definition site_path (p : path) : bool := negb (existsb is_decoy_step p).
(* a disclosure the holder can choose: arity 2 or 3; the others are the decoy salts of the v5 list *)
Definition Qd (d : disc) : Prop := (2 <= d_e d)%N \/ site_path (d_salt d) = false.

Lemma site_path_decoy p i : site_path (p ++ [SDecoy i]) = false.
Proof. unfold site_path. rewrite existsb_app. cbn. rewrite orb_true_r. reflexivity. Qed.

Lemma Qd_decoys p n : Forall Qd (decoy_discs p n).
Proof.
  induction n as [|k IH]; [constructor|]. cbn [decoy_discs]. apply Forall_app. split; [assumption|].
  constructor; [|constructor]. right. apply site_path_decoy.
Qed.

Lemma cat3_lvl_nst ts :
  forall d, In d (t_lvl (cat3 ts) ++ t_nst (cat3 ts)) <-> exists t, In t ts /\ In d (t_lvl t ++ t_nst t).
Proof.
  intro d. unfold cat3. cbn [t_lvl t_nst fst snd]. rewrite in_app_iff, !in_flat_map. split.
  - intros [(t & Ht & Hd)|(t & Ht & Hd)]; exists t; (split; [assumption|]); apply in_or_app; [left|right]; assumption.
  - intros (t & Ht & Hd). apply in_app_or in Hd as [Hd|Hd]; [left|right]; exists t; split; assumption.
Qed.

Lemma issue2_Qd o cv : forall p d, In d (t_lvl (issue2 o p cv) ++ t_nst (issue2 o p cv)) -> d_e d = 3%N.
Proof.
  induction cv as [| b | z | s | a0 e0 e s n v IH | l IH | m IH] using val_ind'; intros p d Hd; try (cbn in Hd; contradiction).
  cbn [issue2] in Hd. apply cat3_lvl_nst in Hd as (t & Ht & Hd). apply in_map_iff in Ht as ([k x] & <- & Hkx).
  rewrite Forall_forall in IH. specialize (IH (k, x) Hkx). cbn [snd] in IH.
  unfold member2 in Hd. cbn [fst snd] in Hd.
  assert (Hleaf : forall (leaf : triple), leaf = (if memp (p ++ [SKey k]) (o_nonsd o) then ([(k, x)], [], []) else ([], [mk 3 (p ++ [SKey k]) k x], [])) ->
            In d (t_lvl leaf ++ t_nst leaf) -> d_e d = 3%N).
  { intros leaf -> H. destruct (memp (p ++ [SKey k]) (o_nonsd o)); cbn in H; [contradiction|]. destruct H as [<-|[]]. reflexivity. }
  destruct x; try (eapply Hleaf; [reflexivity|exact Hd]).
  destruct (o_structured o); [|eapply Hleaf; [reflexivity|exact Hd]].
  cbn [t_lvl t_nst fst snd app] in Hd. eapply IH. exact Hd.
Qed.

Lemma seq3_inv l : forall ts, seq3 l = Ok ts -> Forall2 (fun r t => r = Ok t) l ts.
Proof.
  induction l as [|x r IH]; intros ts H; cbn in H.
  - inversion H. constructor.
  - destruct x as [t| | |]; cbn in H; try discriminate. destruct (seq3 r) as [ts'| | |]; cbn in H; try discriminate.
    inversion H; subst. constructor; [reflexivity|]. apply IH. reflexivity.
Qed.

Lemma Forall2_in_r {A B} (R : A -> B -> Prop) l l' y : Forall2 R l l' -> In y l' -> exists x, In x l /\ R x y.
Proof.
  induction 1 as [|a b r r' Hab Hr IH]; intro Hin; [contradiction|].
  destruct Hin as [<-|Hin]; [exists a; split; [left; reflexivity|assumption]|].
  destruct (IH Hin) as (x & Hx & HR). exists x; split; [right|]; assumption.
Qed.

Lemma elems5_Qd o p l : forall i, Forall Qd (snd (elems5 o p i l)).
Proof.
  induction l as [|x r IH]; intro i; [constructor|]. cbn [elems5]. specialize (IH (N.succ i)).
  destruct (elems5 o p (N.succ i) r) as [es ds]. destruct (memp (p ++ [SIdx i]) (o_nonsd o)); cbn [snd] in *; [assumption|].
  constructor; [left; cbn; lia|assumption].
Qed.

Lemma issue5_Qd o cv : forall ign p t, issue5 o ign p cv = Ok t -> Forall Qd (t_lvl t ++ t_nst t).
Proof.
  induction cv as [| b | z | s | a0 e0 e s n v IH | l IH | m IH] using val_ind'; intros ign p t Ht;
    try (cbn in Ht; inversion Ht; constructor).
  cbn [issue5] in Ht. destruct (seq3 (map (member5 (issue5 o) o ign p) m)) as [ts| | |] eqn:Es; cbn in Ht; try discriminate.
  inversion Ht; subst. apply Forall_forall. intros d Hd. apply cat3_lvl_nst in Hd as (tk & Htk & Hd).
  apply seq3_inv in Es. destruct (Forall2_in_r _ _ _ _ Es Htk) as (rk & Hrk & Ek).
  apply in_map_iff in Hrk as ([k x] & <- & Hkx).
  rewrite Forall_forall in IH. specialize (IH (k, x) Hkx). cbn [snd] in IH.
  unfold member5 in Ek. cbn [fst snd] in Ek. set (cur := p ++ [SKey k]) in *.
  assert (Hmk : forall v, Qd (mk 3 cur k v)) by (intro v0; left; cbn; lia).
  destruct x as [| b | z | s | a0 e0 e s n v | l | mm]; try discriminate.
  - destruct (memp cur (o_nonsd o) || ign); inversion Ek; subst; cbn in Hd; try contradiction. destruct Hd as [<-|[]]. apply Hmk.
  - destruct (memp cur (o_nonsd o) || ign); inversion Ek; subst; cbn in Hd; try contradiction. destruct Hd as [<-|[]]. apply Hmk.
  - destruct (memp cur (o_nonsd o) || ign); inversion Ek; subst; cbn in Hd; try contradiction. destruct Hd as [<-|[]]. apply Hmk.
  - destruct (memp cur (o_nonsd o) || ign); inversion Ek; subst; cbn in Hd; try contradiction. destruct Hd as [<-|[]]. apply Hmk.
  - destruct (memp cur (o_nonsd o)); [inversion Ek; subst; cbn in Hd; contradiction|].
    pose proof (elems5_Qd o cur l 0) as He. destruct (elems5 o cur 0 l) as [es eds]. cbn [snd] in He. rewrite Forall_forall in He.
    destruct (memp cur (o_always o) || o_structured o); inversion Ek; subst; cbn [t_lvl t_nst fst snd app] in Hd.
    + apply He; assumption.
    + destruct Hd as [<-|Hd]; [apply Hmk|apply He; assumption].
  - destruct (memp cur (o_nonsd o)); [inversion Ek; subst; cbn in Hd; contradiction|].
    destruct (issue5 o (negb (memp cur (o_recursive o) || memp cur (o_always o) || o_structured o)) cur (VObj mm)) as [t'| | |] eqn:Et; cbn in Ek; try discriminate.
    specialize (IH _ _ _ Et). rewrite Forall_forall in IH.
    pose proof (Qd_decoys cur (o_decoys o)) as Hdec. rewrite Forall_forall in Hdec.
    destruct (negb (memp cur (o_recursive o) && negb (memp cur (o_always o))) && (memp cur (o_recursive o) || memp cur (o_always o) || o_structured o));
      inversion Ek; subst; cbn [t_lvl t_nst fst snd app] in Hd.
    + apply in_app_or in Hd as [Hd|Hd]; [apply Hdec; assumption|apply IH; assumption].
    + destruct Hd as [<-|Hd]; [apply Hmk|]. apply in_app_or in Hd as [Hd|Hd]; [apply Hdec; assumption|apply IH; assumption].
Qed.

(* ---------- the presented digests ---------- *)
Lemma Dok_choose a sel ds : Dok a sel (map (digest a) (choose sel ds)) ds.
Proof.
  intros d Hd. destruct (memp (d_salt d) sel) eqn:E.
  - apply memv_In. apply in_map. apply filter_In. split; assumption.
  - destruct (memv (digest a d) (map (digest a) (choose sel ds))) eqn:M; [|reflexivity].
    apply memv_In in M. apply in_map_iff in M as (d' & He & Hd'). apply digest_inj in He. subst d'.
    apply filter_In in Hd' as [_ Hs]. congruence.
Qed.

Lemma Dnodecoy_choose a sel ds :
  Forall Qd ds -> forallb site_path sel = true -> Dnodecoy (map (digest a) (choose sel ds)).
Proof.
  intros HQ Hs a' c s n v. destruct (memv (VDig a' c 0 s n v) (map (digest a) (choose sel ds))) eqn:M; [|reflexivity].
  apply memv_In in M. apply in_map_iff in M as (d & He & Hd). apply filter_In in Hd as [Hin Hsel].
  rewrite Forall_forall in HQ. destruct (HQ d Hin) as [Hq|Hq].
  - unfold digest in He. inversion He as [[E1 E2 E3 E4 E5 E6]]. rewrite E3 in Hq. lia.
  - apply memp_In in Hsel. rewrite forallb_forall in Hs. rewrite (Hs _ Hsel) in Hq. discriminate.
Qed.

(* ---------- the whole SD-JWT ---------- *)
Definition alg_ok (a : N) : Prop := a = 256%N \/ a = 384%N \/ a = 512%N.

Lemma get_alg_issued o rest : alg_ok (o_alg o) -> get_alg (VObj (registered o ++ rest)) = Ok (o_alg o).
Proof.
  intro Ha. unfold get_alg, from_vc, registered. destruct (o_cnf o); cbn;
    destruct Ha as [Ha|[Ha|Ha]]; rewrite Ha; reflexivity.
Qed.

Lemma Fm_raw c D k v : reserved c k = false -> clean v = true -> Fm c D (k, v) = (k, OVal (Ok v)).
Proof. intros Hr Hc. unfold Fm. cbn [fst snd]. rewrite Hr, (resolve_clean c D v Hc). reflexivity. Qed.

Lemma registered_nosd o : forall kv, In kv (registered o) -> String.eqb (fst kv) SD = false.
Proof.
  unfold registered. destruct (o_cnf o); cbn; intros kv H;
    repeat (destruct H as [<-|H]; [reflexivity|]); contradiction.
Qed.

Lemma registered_plain o D : seq_plain (map (Fm true D) (registered o)) = Ok (registered_out o).
Proof.
  unfold registered, registered_out. destruct (o_cnf o); cbn [app map].
  - rewrite (Fm_raw true D "iss" (VStr (o_iss o)) eq_refl eq_refl), (Fm_raw true D "cnf" (VObj [("jwk", VNum z)]) eq_refl eq_refl). reflexivity.
  - rewrite (Fm_raw true D "iss" (VStr (o_iss o)) eq_refl eq_refl). reflexivity.
Qed.

Lemma registered_keys o : filter (notres true) (map fst (registered o)) = map fst (registered_out o).
Proof. unfold registered, registered_out. destruct (o_cnf o); reflexivity. Qed.

Lemma registered_out_nodup o : NoDup (map fst (registered_out o)).
Proof. apply nodups_NoDup. unfold registered_out. destruct (o_cnf o); reflexivity. Qed.

Lemma registered_out_keys o x : In x (map fst (registered_out o)) -> x = "iss" \/ x = "cnf".
Proof. unfold registered_out. destruct (o_cnf o); cbn; intuition. Qed.

Lemma exact_output o claims sel payload ds :
  alg_ok (o_alg o) -> clean (VObj claims) = true ->
  ~ In "iss" (map fst claims) -> ~ In "cnf" (map fst claims) ->
  forallb site_path sel = true ->
  (o_v5 o = true -> akept5 o sel false [] (VObj claims) = true) ->
  issue o claims = Ok (payload, ds) ->
  get_alg payload = Ok (o_alg o) /\
  exists y, resolve true (map (digest (o_alg o)) (choose sel ds)) payload = Ok y /\ veq y (reveal o sel claims).
Proof.
  intros Ha Hc Hiss Hcnf Hsel Hak Hi. unfold issue in Hi.
  destruct (key_exists_sd (VObj claims)); [discriminate|].
  destruct (clean_obj_inv claims Hc) as [Hnd _].
  assert (Hdisj : forall x, In x (filter (notres true) (map fst (registered o))) -> ~ In x (keys_of (VObj claims))).
  { intros x Hx. rewrite registered_keys in Hx. apply registered_out_keys in Hx as [Hx|Hx]; subst x; assumption. }
  assert (Hnil : Dnodecoy []) by (intros ? ? ? ? ?; reflexivity).
  unfold reveal. destruct (o_v5 o) eqn:Ev.
  - destruct (level5_all o sel [] Hnil (VObj claims) true false [] Hc (Hak eq_refl)) as (t & Ht & _).
    rewrite Ht in Hi. cbn [bind] in Hi. inversion Hi; subst payload ds; clear Hi.
    split; [apply get_alg_issued; assumption|].
    set (ds := decoy_discs [] (o_decoys o) ++ t_lvl t ++ t_nst t).
    set (D := map (digest (o_alg o)) (choose sel ds)).
    assert (HQ : Forall Qd ds).
    { apply Forall_app. split; [apply Qd_decoys|exact (issue5_Qd o _ _ _ _ Ht)]. }
    assert (HD : Dnodecoy D) by (apply Dnodecoy_choose; assumption).
    destruct (level5_all o sel D HD (VObj claims) true false [] Hc (Hak eq_refl)) as (t' & Ht' & Hl).
    rewrite Ht in Ht'. inversion Ht'; subst t'; clear Ht'.
    assert (Hok : Dok (o_alg o) sel D (t_lvl t ++ t_nst t)).
    { intros d Hd. apply Dok_choose. unfold ds. apply in_or_app. right. assumption. }
    destruct (obj_v5 (o_alg o) D HD true t _ _ o [] (registered o) (registered_out o) eq_refl Hnd (Hl Hok)
                (registered_nosd o) (registered_plain o D)) as (y & Hy1 & _ & Hy3).
    + rewrite registered_keys. apply registered_out_nodup.
    + exact Hdisj.
    + exists y. split; [exact Hy1|]. apply Hy3. reflexivity.
  - inversion Hi; subst payload ds; clear Hi.
    split; [apply get_alg_issued; assumption|].
    set (t := issue2 o [] (VObj claims)).
    set (ds := t_lvl t ++ t_nst t).
    set (D := map (digest (o_alg o)) (choose sel ds)).
    assert (HQ : Forall Qd ds).
    { apply Forall_forall. intros d Hd. left. rewrite (issue2_Qd o _ _ _ Hd). lia. }
    assert (HD : Dnodecoy D) by (apply Dnodecoy_choose; assumption).
    pose proof (level2_all o sel D HD (VObj claims) true [] Hc (Dok_choose (o_alg o) sel ds)) as Hl.
    destruct (obj_v2 (o_alg o) D HD true t _ _ o [] (registered o) (registered_out o) eq_refl Hnd Hl
                (registered_nosd o) (registered_plain o D)) as (y & Hy1 & _ & Hy3).
    + rewrite registered_keys. apply registered_out_nodup.
    + exact Hdisj.
    + exists y. split; [exact Hy1|]. apply Hy3. reflexivity.
Qed.

(* ---------- the issuer commits to its disclosures only ---------- *)
Definition isdig (g : val) : Prop := match g with VDig _ _ _ _ _ _ => True | _ => False end.
Definition dig_e (g : val) : N := match g with VDig _ _ e _ _ _ => e | _ => 1%N end.

Lemma occurs_obj g m : occurs g (VObj m) <-> exists kv, In kv m /\ occurs g (snd kv).
Proof. cbn. apply fold_or. Qed.
Lemma occurs_arr g l : occurs g (VArr l) <-> exists x, In x l /\ occurs g x.
Proof. cbn. apply fold_or. Qed.

Lemma clean_no_dig v : clean v = true -> forall g, isdig g -> ~ occurs g v.
Proof.
  induction v as [| b | z | s | a0 e0 e s n v IH | l IH | m IH] using val_ind'; intros Hc g Hg Ho; try (cbn in Ho; contradiction); try discriminate.
  - cbn in Ho. subst g. exact Hg.
  - apply occurs_arr in Ho as (x & Hx & Ho). cbn in Hc. apply andb_true_iff in Hc as [_ Hc]. rewrite forallb_forall in Hc.
    rewrite Forall_forall in IH. exact (IH x Hx (Hc x Hx) g Hg Ho).
  - apply occurs_obj in Ho as (kv & Hkv & Ho). cbn in Hc. apply andb_true_iff in Hc as [_ Hc]. rewrite forallb_forall in Hc.
    specialize (Hc kv Hkv). apply andb_true_iff in Hc as [_ Hc]. rewrite Forall_forall in IH. exact (IH kv Hkv Hc g Hg Ho).
Qed.

(* [t]: a level as the issuer wrote it; every digest string of its visible members and of its own digests is the
   digest of one of its disclosures, or a decoy *)
Definition occ_ok (a : N) (t : triple) : Prop :=
  forall g, isdig g ->
    (exists kv, In kv (t_vis t) /\ occurs g (snd kv)) \/ (exists d, In d (t_lvl t) /\ occurs g (digest a d)) ->
    (exists d0, In d0 (t_lvl t ++ t_nst t) /\ g = digest a d0) \/ dig_e g = 0%N.

Lemma occurs_decoys a p n g : isdig g -> (exists d, In d (decoy_discs p n) /\ occurs g (digest a d)) -> dig_e g = 0%N.
Proof.
  intros Hg (d & Hd & Ho). induction n as [|k IH]; [contradiction|].
  cbn [decoy_discs] in Hd. apply in_app_or in Hd as [Hd|[<-|[]]]; [apply IH; assumption|].
  cbn in Ho. destruct Ho as [->|[]]. reflexivity.
Qed.

Lemma occurs_sd_list a g l :
  occurs g (VArr (map (digest a) l)) <-> exists d, In d l /\ occurs g (digest a d).
Proof.
  rewrite occurs_arr. split.
  - intros (x & Hx & Ho). apply in_map_iff in Hx as (d & <- & Hd). exists d; split; assumption.
  - intros (d & Hd & Ho). exists (digest a d). split; [apply in_map; assumption|assumption].
Qed.

(* occurrences in the object written for a level *)
Lemma occ_obj_v2 a o cur t g :
  o_alg o = a -> isdig g -> occ_ok a t ->
  occurs g (VObj (t_vis t ++ [sd2 o cur (t_lvl t)])) ->
  (exists d0, In d0 (t_lvl t ++ t_nst t) /\ g = digest a d0) \/ dig_e g = 0%N.
Proof.
  intros Ha Hg Hok Ho. apply occurs_obj in Ho as (kv & Hkv & Ho). apply in_app_or in Hkv as [Hkv|[<-|[]]].
  - apply Hok; [assumption|]. left. exists kv; split; assumption.
  - unfold sd2, sd_member in Ho. cbn [snd] in Ho. rewrite Ha in Ho.
    destruct (map (digest a) (t_lvl t ++ decoy_discs cur (o_decoys o))) eqn:E; [cbn in Ho; contradiction|].
    rewrite <- E in Ho. apply occurs_sd_list in Ho as (d & Hd & Ho). apply in_app_or in Hd as [Hd|Hd].
    + apply Hok; [assumption|]. right. exists d; split; assumption.
    + right. eapply occurs_decoys; [assumption|]. exists d; split; eassumption.
Qed.

Lemma occ_obj_v5 a o cur t g :
  o_alg o = a -> isdig g -> occ_ok a t ->
  occurs g (obj5 o cur (t_vis t) (t_lvl t)) ->
  (exists d0, In d0 (t_lvl t ++ t_nst t) /\ g = digest a d0) \/ dig_e g = 0%N.
Proof.
  intros Ha Hg Hok Ho. unfold obj5 in Ho. apply occurs_obj in Ho as (kv & Hkv & Ho). apply in_app_or in Hkv as [Hkv|Hkv].
  - apply Hok; [assumption|]. left. exists kv; split; assumption.
  - unfold sd5 in Hkv. destruct (t_lvl t ++ decoy_discs cur (o_decoys o)) as [|d1 l1] eqn:E; [contradiction|].
    destruct Hkv as [<-|[]]. cbn [snd] in Ho. rewrite <- E, Ha in Ho.
    apply occurs_sd_list in Ho as (d2 & Hd & Ho). apply in_app_or in Hd as [Hd|Hd].
    + apply Hok; [assumption|]. right. exists d2; split; assumption.
    + right. eapply occurs_decoys; [assumption|]. exists d2; split; eassumption.
Qed.

Lemma occ_ok_cat3 a ts : Forall (occ_ok a) ts -> occ_ok a (cat3 ts).
Proof.
  intros H g Hg Ho. rewrite Forall_forall in H. unfold cat3 in *. cbn [t_vis t_lvl t_nst fst snd] in *.
  assert (Hfin : forall t, In t ts ->
            (exists d0, In d0 (t_lvl t ++ t_nst t) /\ g = digest a d0) \/ dig_e g = 0%N ->
            (exists d0, In d0 (flat_map t_lvl ts ++ flat_map t_nst ts) /\ g = digest a d0) \/ dig_e g = 0%N).
  { intros t Ht [(d0 & Hd0 & He)|He]; [left|right; assumption]. exists d0. split; [|assumption].
    apply in_app_or in Hd0 as [Hd0|Hd0]; apply in_or_app; [left|right]; apply in_flat_map; exists t; split; assumption. }
  destruct Ho as [(kv & Hkv & Ho)|(d & Hd & Ho)].
  - apply in_flat_map in Hkv as (t & Ht & Hkv). apply (Hfin t Ht). apply (H t Ht g Hg). left. exists kv; split; assumption.
  - apply in_flat_map in Hd as (t & Ht & Hd). apply (Hfin t Ht). apply (H t Ht g Hg). right. exists d; split; assumption.
Qed.

Lemma occ_raw_vis a k x : clean x = true -> occ_ok a ([(k, x)], [], []).
Proof.
  intros Hc g Hg [(kv & [<-|[]] & Ho)|(d & [] & _)]. cbn [snd] in Ho. exfalso. exact (clean_no_dig x Hc g Hg Ho).
Qed.
Lemma occ_raw_sd a cur k x nst : clean x = true -> occ_ok a ([], [mk 3 cur k x], nst).
Proof.
  intros Hc g Hg [(kv & [] & _)|(d & [<-|[]] & Ho)]. cbn in Ho. destruct Ho as [->|Ho].
  - left. exists (mk 3 cur k x). split; [left; reflexivity|reflexivity].
  - exfalso. exact (clean_no_dig x Hc g Hg Ho).
Qed.

Lemma issue2_occ o cv : forall p, clean cv = true -> occ_ok (o_alg o) (issue2 o p cv).
Proof.
  induction cv as [| b | z | s | a0 e0 e s n v IH | l IH | m IH] using val_ind'; intros p Hc;
    try (intros g Hg [(kv & [] & _)|(d & [] & _)]).
  cbn [issue2]. apply occ_ok_cat3. apply Forall_forall. intros tk Htk.
  apply in_map_iff in Htk as ([k x] & <- & Hkx).
  destruct (clean_obj_inv m Hc) as [_ Hm]. rewrite forallb_forall in Hm. specialize (Hm (k, x) Hkx). cbn [fst snd] in Hm.
  apply andb_true_iff in Hm as [_ Hcx].
  rewrite Forall_forall in IH. specialize (IH (k, x) Hkx). cbn [snd] in IH.
  unfold member2. cbn [fst snd].
  assert (Hleaf : occ_ok (o_alg o) (if memp (p ++ [SKey k]) (o_nonsd o) then ([(k, x)], [], []) else ([], [mk 3 (p ++ [SKey k]) k x], []))).
  { destruct (memp (p ++ [SKey k]) (o_nonsd o)); [apply occ_raw_vis|apply occ_raw_sd]; assumption. }
  destruct x; try exact Hleaf. destruct (o_structured o); [|exact Hleaf].
  specialize (IH (p ++ [SKey k]) Hcx).
  intros g Hg [(kv & [<-|[]] & Ho)|(d & [] & _)]. cbn [snd t_lvl t_nst fst app] in *.
  exact (occ_obj_v2 (o_alg o) o (p ++ [SKey k]) _ g eq_refl Hg IH Ho).
Qed.

Lemma elems5_occ o p l g : forall i,
  forallb clean l = true -> isdig g ->
  (exists x, In x (fst (elems5 o p i l)) /\ occurs g x) ->
  exists d0, In d0 (snd (elems5 o p i l)) /\ g = digest (o_alg o) d0.
Proof.
  induction l as [|x r IH]; intros i Hc Hg (x' & Hx' & Ho); [contradiction|].
  cbn [forallb] in Hc. apply andb_true_iff in Hc as [Hcx Hcr].
  cbn [elems5] in *. specialize (IH (N.succ i) Hcr Hg). destruct (elems5 o p (N.succ i) r) as [es ds].
  destruct (memp (p ++ [SIdx i]) (o_nonsd o)); cbn [fst snd] in *.
  - destruct Hx' as [<-|Hx']; [exfalso; exact (clean_no_dig x Hcx g Hg Ho)|]. apply IH. exists x'; split; assumption.
  - destruct Hx' as [<-|Hx'].
    + apply occurs_obj in Ho as (kv & [<-|[]] & Ho). cbn in Ho. destruct Ho as [->|Ho].
      * exists (mk 2 (p ++ [SIdx i]) "" x). split; [left; reflexivity|reflexivity].
      * exfalso. exact (clean_no_dig x Hcx g Hg Ho).
    + destruct IH as (d0 & Hd0 & He); [exists x'; split; assumption|]. exists d0. split; [right|]; assumption.
Qed.

Lemma arr_member_occ o p l g :
  forallb clean l = true -> isdig g -> occurs g (arr_member (fst (elems5 o p 0 l))) ->
  exists d0, In d0 (snd (elems5 o p 0 l)) /\ g = digest (o_alg o) d0.
Proof.
  intros Hc Hg Ho. unfold arr_member in Ho. destruct (fst (elems5 o p 0 l)) eqn:E; [cbn in Ho; contradiction|].
  rewrite <- E in Ho. apply occurs_arr in Ho. exact (elems5_occ o p l g 0 Hc Hg Ho).
Qed.

Lemma issue5_occ o cv : forall ign p t, clean cv = true -> issue5 o ign p cv = Ok t -> occ_ok (o_alg o) t.
Proof.
  induction cv as [| b | z | s | a0 e0 e s n v IH | l IH | m IH] using val_ind'; intros ign p t Hc Ht;
    try (cbn in Ht; inversion Ht; intros g Hg [(kv & [] & _)|(d & [] & _)]).
  cbn [issue5] in Ht. destruct (seq3 (map (member5 (issue5 o) o ign p) m)) as [ts| | |] eqn:Es; cbn in Ht; try discriminate.
  inversion Ht; subst. apply occ_ok_cat3. apply Forall_forall. intros tk Htk.
  apply seq3_inv in Es. destruct (Forall2_in_r _ _ _ _ Es Htk) as (rk & Hrk & Ek).
  apply in_map_iff in Hrk as ([k x] & <- & Hkx).
  destruct (clean_obj_inv m Hc) as [_ Hm]. rewrite forallb_forall in Hm. specialize (Hm (k, x) Hkx). cbn [fst snd] in Hm.
  apply andb_true_iff in Hm as [_ Hcx].
  rewrite Forall_forall in IH. specialize (IH (k, x) Hkx). cbn [snd] in IH.
  unfold member5 in Ek. cbn [fst snd] in Ek. set (cur := p ++ [SKey k]) in *.
  destruct x as [| b | z | s | a0 e0 e s n v | l | mm]; try discriminate.
  - destruct (memp cur (o_nonsd o) || ign); inversion Ek; subst; [apply occ_raw_vis|apply occ_raw_sd]; assumption.
  - destruct (memp cur (o_nonsd o) || ign); inversion Ek; subst; [apply occ_raw_vis|apply occ_raw_sd]; assumption.
  - destruct (memp cur (o_nonsd o) || ign); inversion Ek; subst; [apply occ_raw_vis|apply occ_raw_sd]; assumption.
  - destruct (memp cur (o_nonsd o)); [inversion Ek; subst; apply occ_raw_vis; assumption|].
    assert (Hcl : forallb clean l = true) by (cbn in Hcx; apply andb_true_iff in Hcx as [_ H]; exact H).
    pose proof (fun g Hg => arr_member_occ o cur l g Hcl Hg) as Harr.
    destruct (elems5 o cur 0 l) as [es eds]. cbn [fst snd] in Harr.
    destruct (memp cur (o_always o) || o_structured o); inversion Ek; subst.
    + intros g Hg [(kv & [<-|[]] & Ho)|(d & [] & _)]. cbn [snd] in Ho. destruct (Harr g Hg Ho) as (d0 & Hd0 & He).
      left. exists d0. split; [exact Hd0|exact He].
    + intros g Hg [(kv & [] & _)|(d & [<-|[]] & Ho)]. cbn in Ho. destruct Ho as [->|Ho].
      * left. eexists. split; [left; reflexivity|reflexivity].
      * destruct (Harr g Hg Ho) as (d0 & Hd0 & He). left. exists d0. split; [right; exact Hd0|exact He].
  - destruct (memp cur (o_nonsd o)); [inversion Ek; subst; apply occ_raw_vis; assumption|].
    destruct (issue5 o (negb (memp cur (o_recursive o) || memp cur (o_always o) || o_structured o)) cur (VObj mm)) as [t'| | |] eqn:Et; cbn in Ek; try discriminate.
    specialize (IH _ _ _ Hcx Et).
    assert (Hin : forall g, isdig g -> occurs g (obj5 o cur (t_vis t') (t_lvl t')) ->
              forall pre, (exists d0, In d0 (pre ++ decoy_discs cur (o_decoys o) ++ t_lvl t' ++ t_nst t') /\ g = digest (o_alg o) d0) \/ dig_e g = 0%N).
    { intros g Hg Ho pre. destruct (occ_obj_v5 (o_alg o) o cur t' g eq_refl Hg IH Ho) as [(d0 & Hd0 & He)|He]; [left|right; exact He].
      exists d0. split; [|exact He]. apply in_or_app. right. apply in_or_app. right. exact Hd0. }
    destruct (negb (memp cur (o_recursive o) && negb (memp cur (o_always o))) && (memp cur (o_recursive o) || memp cur (o_always o) || o_structured o));
      inversion Ek; subst.
    + intros g Hg [(kv & [<-|[]] & Ho)|(d & [] & _)]. cbn [snd t_lvl t_nst fst app] in *. exact (Hin g Hg Ho []).
    + intros g Hg [(kv & [] & _)|(d & [<-|[]] & Ho)]. cbn [t_lvl t_nst fst snd] in *. cbn in Ho. destruct Ho as [->|Ho].
      * left. eexists. split; [left; reflexivity|reflexivity].
      * exact (Hin g Hg Ho [mk 3 cur k (obj5 o cur (t_vis t') (t_lvl t'))]).
Qed.

Lemma registered_no_dig o g : isdig g -> ~ (exists kv, In kv (registered o) /\ occurs g (snd kv)).
Proof.
  intros Hg (kv & Hkv & Ho). unfold registered in Hkv. destruct (o_cnf o); cbn in Hkv;
    repeat (destruct Hkv as [<-|Hkv]; [cbn in Ho; try (subst g; exact Hg); try tauto|]); try contradiction.
Qed.

(* (ii) the digest strings of an issued payload are those of the issued disclosures, or decoys *)
Lemma issued_commitments o claims payload ds :
  clean (VObj claims) = true -> issue o claims = Ok (payload, ds) ->
  forall g, isdig g -> occurs g payload ->
    (exists d0, In d0 ds /\ g = digest (o_alg o) d0) \/ dig_e g = 0%N.
Proof.
  intros Hc Hi g Hg Ho. unfold issue in Hi. destruct (key_exists_sd (VObj claims)); [discriminate|].
  destruct (o_v5 o).
  - destruct (issue5 o false [] (VObj claims)) as [t| | |] eqn:Et; cbn in Hi; try discriminate.
    assert (E : payload = VObj (registered o ++ t_vis t ++ sd5 o [] (t_lvl t)) /\ ds = decoy_discs [] (o_decoys o) ++ t_lvl t ++ t_nst t)
      by (inversion Hi; split; reflexivity).
    destruct E as [-> ->]; clear Hi.
    apply occurs_obj in Ho as (kv & Hkv & Ho). apply in_app_or in Hkv as [Hkv|Hkv].
    + exfalso. apply (registered_no_dig o g Hg). exists kv; split; assumption.
    + assert (Ho' : occurs g (obj5 o [] (t_vis t) (t_lvl t))) by (apply occurs_obj; exists kv; split; assumption).
      destruct (occ_obj_v5 (o_alg o) o [] t g eq_refl Hg (issue5_occ o _ _ _ _ Hc Et) Ho') as [(d0 & Hd0 & He)|He]; [left|right; exact He].
      exists d0. split; [apply in_or_app; right; exact Hd0|exact He].
  - assert (E : payload = VObj (registered o ++ t_vis (issue2 o [] (VObj claims)) ++ [sd2 o [] (t_lvl (issue2 o [] (VObj claims)))])
                /\ ds = t_lvl (issue2 o [] (VObj claims)) ++ t_nst (issue2 o [] (VObj claims)))
      by (inversion Hi; split; reflexivity).
    destruct E as [-> ->]; clear Hi.
    apply occurs_obj in Ho as (kv & Hkv & Ho). apply in_app_or in Hkv as [Hkv|Hkv].
    + exfalso. apply (registered_no_dig o g Hg). exists kv; split; assumption.
    + assert (Ho' : occurs g (VObj (t_vis (issue2 o [] (VObj claims)) ++ [sd2 o [] (t_lvl (issue2 o [] (VObj claims)))])))
        by (apply occurs_obj; exists kv; split; assumption).
      exact (occ_obj_v2 (o_alg o) o [] _ g eq_refl Hg (issue2_occ o _ [] Hc) Ho').
Qed.

Lemma issue_payload_alg o claims payload ds :
  alg_ok (o_alg o) -> issue o claims = Ok (payload, ds) -> get_alg payload = Ok (o_alg o).
Proof.
  intros Ha Hi. unfold issue in Hi. destruct (key_exists_sd (VObj claims)); [discriminate|]. destruct (o_v5 o).
  - destruct (issue5 o false [] (VObj claims)) as [t| | |]; cbn in Hi; try discriminate.
    assert (E : payload = VObj (registered o ++ t_vis t ++ sd5 o [] (t_lvl t))) by (inversion Hi; reflexivity).
    rewrite E. apply get_alg_issued; assumption.
  - assert (E : payload = VObj (registered o ++ t_vis (issue2 o [] (VObj claims)) ++ [sd2 o [] (t_lvl (issue2 o [] (VObj claims)))]))
      by (inversion Hi; reflexivity).
    rewrite E. apply get_alg_issued; assumption.
Qed.

Lemma reject_unissued_issued o claims payload ds vo p d :
  alg_ok (o_alg o) -> clean (VObj claims) = true -> issue o claims = Ok (payload, ds) ->
  p_payload p = payload -> In d (p_discs p) -> ~ In d ds -> is_ok (verify vo p) = false.
Proof.
  intros Ha Hc Hi Hp Hd Hn. destruct (verify vo p) eqn:E; try reflexivity. exfalso.
  pose proof (reject_malformed vo p d Hd) as Hm.
  destruct (accept_committed vo p a E) as (a' & Ha' & Hocc).
  rewrite Hp, (issue_payload_alg o claims payload ds Ha Hi) in Ha'. inversion Ha'; subst a'.
  specialize (Hocc d Hd). rewrite Hp in Hocc.
  destruct (issued_commitments o claims payload ds Hc Hi (digest (o_alg o) d) I Hocc) as [(d0 & Hd0 & He)|He].
  - apply digest_inj in He. subst d0. contradiction.
  - cbn in He. rewrite E in Hm. cbn in Hm. assert (d_e d < 2)%N by lia. specialize (Hm H). discriminate.
Qed.
