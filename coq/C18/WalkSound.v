(* C18 — the interleaved walk threads recData.nestedSD: on a walk without error the list it leaves is, up to order,
   the layered model's [collect], and it stays duplicate free.  Hence: what the interleaved verifier (Walk.v
   verify_w) accepts, the layered verifier (Model.v verify) accepts with the same output.
   [wfb]: member names of an object are pairwise different — a Go map cannot be otherwise. *)
From Coq Require Import List String ZArith NArith Bool Lia Permutation.
Import ListNotations.
From VF Require Import C18.Model C18.Walk C18.Proofs C18.WalkProofs.
Open Scope string_scope.
Open Scope list_scope.

Lemma mems_In k l : mems k l = true <-> In k l.
Proof.
  induction l as [|x r IH]; cbn; [split; [discriminate|tauto]|].
  rewrite orb_true_iff, IH, String.eqb_eq. split; intros [H|H]; auto.
Qed.

(* with pairwise different names at most one member has a given name *)
Lemma flat_map_none {B} (K : string) (F : string * val -> list B) m :
  mems K (map fst m) = false -> flat_map (fun kv => if String.eqb (fst kv) K then F kv else []) m = [].
Proof.
  induction m as [|kv r IH]; cbn; [reflexivity|]. intro H. apply orb_false_iff in H as [H1 H2].
  rewrite String.eqb_sym, H1. cbn. apply IH; assumption.
Qed.

Lemma flat_map_once {A B} (K : string) (f : string * val -> A) (F : string * val -> list B) m :
  nodups (map fst m) = true ->
  (flat_map (fun kv => if String.eqb (fst kv) K then [f kv] else []) m = [] /\
   flat_map (fun kv => if String.eqb (fst kv) K then F kv else []) m = []) \/
  exists kv, In kv m /\
    flat_map (fun kv => if String.eqb (fst kv) K then [f kv] else []) m = [f kv] /\
    flat_map (fun kv => if String.eqb (fst kv) K then F kv else []) m = F kv.
Proof.
  induction m as [|kv r IH]; [left; split; reflexivity|]. cbn. intro H. apply andb_true_iff in H as [H1 H2].
  destruct (String.eqb (fst kv) K) eqn:E.
  - right. exists kv. split; [left; reflexivity|]. apply String.eqb_eq in E. subst K.
    apply negb_true_iff in H1. rewrite !flat_map_none by assumption. split; [reflexivity|apply app_nil_r].
  - destruct (IH H2) as [[Ha Hb]|[kv' [Hin [Ha Hb]]]]; [left; split; assumption|].
    right. exists kv'. split; [right; assumption|]. split; assumption.
Qed.

Lemma flat_map_split {A B} (p : A -> bool) (F G : A -> list B) l :
  Permutation (flat_map (fun x => if p x then F x else G x) l)
              (flat_map (fun x => if p x then [] else G x) l ++ flat_map (fun x => if p x then F x else []) l).
Proof.
  induction l as [|x r IH]; cbn; [constructor|].
  destruct (p x); cbn.
  - eapply perm_trans; [apply Permutation_app_head; exact IH|]. apply Permutation_app_swap_app.
  - rewrite <- app_assoc. apply Permutation_app_head. exact IH.
Qed.

Lemma reserved_false k : reserved false k = String.eqb k SD.
Proof. unfold reserved. rewrite andb_false_r, orb_false_r. reflexivity. Qed.

Section Seen.
  Variable D : list val.
  Notation W := (walk false D).

  Definition celem (x : val) : list val :=
    match x with
    | VObj m => flat_map (fun kv => if String.eqb (fst kv) DOTS then collect D 2 (snd kv) else []) m
    | _ => []
    end.
  Definition csd (x : val) : list val := match x with VArr gl => flat_map (collect D 3) gl | _ => [] end.

  Definition good (s s' part : list val) := Permutation s' (part ++ s) /\ (NoDup s -> NoDup s').

  Definition S0 (v : val) := forall s y s', wfb v = true -> W v s = WOk (y, s') -> good s s' (collect D 0 v).
  Definition S1 (g : val) := forall ctx s o s', wfb g = true -> is_string g = true -> ctx <> 0%N ->
      wenter W D ctx g s = WOk (o, s') -> good s s' (collect D ctx g).
  Definition S2 (x : val) := forall s o s', wfb x = true -> welem W false D x s = WOk (o, s') -> good s s' (celem x).
  Definition S3 (x : val) := forall s sdl s', wfb x = true -> wsd W D x s = WOk (sdl, s') -> good s s' (csd x).
  Definition PS (v : val) := S0 v /\ S1 v /\ S2 v /\ S3 v.

  Lemma good_nil s : good s s [].
  Proof. split; [apply Permutation_refl|tauto]. Qed.

  Lemma good_seq s s1 s2 a b : good s s1 a -> good s1 s2 b -> good s s2 (a ++ b).
  Proof.
    intros [P1 N1] [P2 N2]. split; [|tauto].
    eapply perm_trans; [exact P2|]. eapply perm_trans; [apply Permutation_app_head; exact P1|].
    rewrite <- app_assoc. apply Permutation_app_swap_app.
  Qed.

  Lemma run_elems_seen l : Forall S2 l -> forallb wfb l = true -> forall s l' s',
      run_elems (map (welem W false D) l) s = WOk (l', s') -> good s s' (flat_map celem l).
  Proof.
    induction 1 as [|x r Hx Hr IH]; intros Hw s l' s' H; cbn in H.
    - inversion H; subst. apply good_nil.
    - cbn in Hw. apply andb_true_iff in Hw as [Hwx Hwr].
      destruct (welem W false D x s) as [[o s1]|] eqn:E1; [|discriminate].
      destruct (run_elems (map (welem W false D) r) s1) as [[t s2]|] eqn:E2; [|discriminate].
      inversion H; subst. cbn. eapply good_seq; [apply (Hx _ _ _ Hwx E1)|apply (IH Hwr _ _ _ E2)].
  Qed.

  Lemma run_sd_seen gl : Forall S1 gl -> forallb wfb gl = true -> forallb is_string gl = true -> forall acc s sdl s',
      run_sd (map (fun g => (dig_name g, wenter W D 3 g)) gl) acc s = WOk (sdl, s') -> good s s' (flat_map (collect D 3) gl).
  Proof.
    induction 1 as [|g r Hg Hr IH]; intros Hw Hs acc s sdl s' H; cbn in H.
    - inversion H; subst. apply good_nil.
    - cbn in Hw, Hs. apply andb_true_iff in Hw as [Hwg Hwr]. apply andb_true_iff in Hs as [Hsg Hsr].
      destruct (wenter W D 3 g s) as [[o s1]|] eqn:E1; [|discriminate].
      assert (G1 : good s s1 (collect D 3 g)). { apply (Hg 3%N s o s1 Hwg Hsg); [discriminate|exact E1]. }
      cbn. destruct o as [y|].
      + destruct (mems (dig_name g) (map fst acc)); [discriminate|].
        eapply good_seq; [exact G1|apply (IH Hwr Hsr _ _ _ _ H)].
      + eapply good_seq; [exact G1|apply (IH Hwr Hsr _ _ _ _ H)].
  Qed.

  Lemma run_plain_seen m : Forall (fun kv => S0 (snd kv)) m -> forallb (fun kv => wfb (snd kv)) m = true ->
      forall taken acc s pl s',
      run_plain (flat_map (fun kv => if reserved false (fst kv) then [] else [(fst kv, W (snd kv))]) m) taken acc s = WOk (pl, s') ->
      good s s' (flat_map (fun kv => if String.eqb (fst kv) SD then [] else collect D 0 (snd kv)) m).
  Proof.
    induction 1 as [|[k x] r Hx Hr IH]; intros Hw taken acc s pl s' H.
    - cbn in H. inversion H; subst. apply good_nil.
    - cbn in Hw. apply andb_true_iff in Hw as [Hwx Hwr]. cbn [flat_map fst snd] in *.
      rewrite reserved_false in H.
      destruct (String.eqb k SD) eqn:Ek; cbn [app] in *.
      + apply (IH Hwr _ _ _ _ _ H).
      + cbn in H. destruct (W x s) as [[y s1]|] eqn:E1; [|discriminate].
        destruct (mems k taken); [discriminate|].
        eapply good_seq; [apply (Hx _ _ _ Hwx E1)|apply (IH Hwr _ _ _ _ _ H)].
  Qed.

  Lemma walk_seen_P v : PS v.
  Proof.
    induction v as [| b | z | st | a c0 e sa n v IH | l IH | m IH] using val_ind'.
    - (* VNull *) split; [|split; [|split]].
      + intros s y s' _ H. cbn in H. inversion H; subst. apply good_nil.
      + intros ctx s o s' _ Hs. discriminate.
      + intros s o s' _ H. cbn in H. inversion H; subst. apply good_nil.
      + intros s sdl s' _ H. cbn in H. inversion H; subst. apply good_nil.
    - split; [|split; [|split]].
      + intros s y s' _ H. cbn in H. inversion H; subst. apply good_nil.
      + intros ctx s o s' _ Hs. discriminate.
      + intros s o s' _ H. cbn in H. inversion H; subst. apply good_nil.
      + intros s sdl s' _ H. cbn in H. discriminate.
    - split; [|split; [|split]].
      + intros s y s' _ H. cbn in H. inversion H; subst. apply good_nil.
      + intros ctx s o s' _ Hs. discriminate.
      + intros s o s' _ H. cbn in H. inversion H; subst. apply good_nil.
      + intros s sdl s' _ H. cbn in H. discriminate.
    - (* VStr *) split; [|split; [|split]].
      + intros s y s' _ H. cbn in H. inversion H; subst. apply good_nil.
      + intros ctx s o s' _ _ Hc H. unfold wenter in H. destruct (memv (VStr st) s) eqn:Em; [discriminate|].
        inversion H; subst. cbn. apply N.eqb_neq in Hc. rewrite Hc. split; [apply Permutation_refl|].
        intro Hn. constructor; [|assumption]. intro Hin. apply memv_In in Hin. congruence.
      + intros s o s' _ H. cbn in H. inversion H; subst. apply good_nil.
      + intros s sdl s' _ H. cbn in H. discriminate.
    - (* VDig *) destruct IH as [IH0 _]. split; [|split; [|split]].
      + intros s y s' _ H. cbn in H. inversion H; subst. apply good_nil.
      + intros ctx s o s' Hw _ Hc H. unfold wenter in H. cbn in Hw.
        destruct (memv (VDig a c0 e sa n v) s) eqn:Em; [discriminate|].
        assert (G0 : good s (VDig a c0 e sa n v :: s) [VDig a c0 e sa n v]).
        { split; [apply Permutation_refl|]. intro Hn. constructor; [|assumption]. intro Hin. apply memv_In in Hin. congruence. }
        cbn [collect]. apply N.eqb_neq in Hc. rewrite Hc.
        destruct (memv (VDig a c0 e sa n v) D); cbn [andb].
        * destruct (N.eqb e ctx); [|discriminate].
          destruct (W v (VDig a c0 e sa n v :: s)) as [[y s2]|] eqn:E; [|discriminate].
          inversion H; subst. apply (good_seq _ _ _ [VDig a c0 e sa n v] _ G0). apply (IH0 _ _ _ Hw E).
        * inversion H; subst. exact G0.
      + intros s o s' _ H. cbn in H. inversion H; subst. apply good_nil.
      + intros s sdl s' _ H. cbn in H. discriminate.
    - (* VArr *) split; [|split; [|split]].
      + intros s y s' Hw H. cbn in H. cbn in Hw.
        destruct (run_elems (map (welem W false D) l) s) as [[l' s1]|] eqn:E; [|discriminate].
        inversion H; subst.
        assert (HS2 : Forall S2 l). { eapply Forall_impl; [|exact IH]. intros x Hx. apply Hx. }
        apply (run_elems_seen l HS2 Hw _ _ _ E).
      + intros ctx s o s' _ Hs. discriminate.
      + intros s o s' _ H. cbn in H. inversion H; subst. apply good_nil.
      + intros s sdl s' Hw H. cbn in H. cbn in Hw. cbn [csd].
        destruct (forallb is_string l) eqn:Ef; [|discriminate].
        assert (HS1 : Forall S1 l). { eapply Forall_impl; [|exact IH]. intros x Hx. apply Hx. }
        apply (run_sd_seen l HS1 Hw Ef _ _ _ _ H).
    - (* VObj *) split; [|split; [|split]].
      + intros s y s' Hw H. cbn [walk] in H. cbn in Hw. apply andb_true_iff in Hw as [Hk Hw].
        assert (HS0 : Forall (fun kv => S0 (snd kv)) m). { eapply Forall_impl; [|exact IH]. intros kv Hx. apply Hx. }
        destruct (hd (fun s => WOk ([], s))
                     (flat_map (fun kv => if String.eqb (fst kv) SD then [wsd W D (snd kv)] else []) m) s)
          as [[sdl s1]|] eqn:E1; [|discriminate].
        destruct (run_plain _ (map fst sdl) [] s1) as [[pl s2]|] eqn:E2; [|discriminate].
        inversion H; subst.
        pose proof (run_plain_seen m HS0 Hw _ _ _ _ _ E2) as G2.
        assert (G1 : good s s1 (flat_map (fun kv => if String.eqb (fst kv) SD then csd (snd kv) else []) m)).
        { destruct (flat_map_once SD (fun kv => wsd W D (snd kv)) (fun kv => csd (snd kv)) m Hk)
            as [[Ha Hb]|[kv [Hin [Ha Hb]]]].
          - rewrite Ha in E1. rewrite Hb. cbn in E1. inversion E1; subst. apply good_nil.
          - rewrite Ha in E1. rewrite Hb. cbn [hd] in E1.
            rewrite Forall_forall in IH. destruct (IH kv Hin) as (_ & _ & _ & HS3).
            rewrite forallb_forall in Hw. apply (HS3 _ _ _ (Hw kv Hin) E1). }
        pose proof (good_seq _ _ _ _ _ G1 G2) as [GP GN]. split; [|exact GN].
        eapply perm_trans; [exact GP|]. apply Permutation_app_tail.
        cbn [collect].
        eapply perm_trans; [apply Permutation_app_comm|]. apply Permutation_sym.
        apply (flat_map_split (fun kv => String.eqb (fst kv) SD) (fun kv => csd (snd kv)) (fun kv => collect D 0 (snd kv)) m).
      + intros ctx s o s' _ Hs. discriminate.
      + intros s o s' Hw H. unfold welem in H. cbn in Hw. apply andb_true_iff in Hw as [Hk Hw]. cbn [celem].
        destruct (flat_map_once DOTS (fun kv => (snd kv, wenter W D 2 (snd kv))) (fun kv => collect D 2 (snd kv)) m Hk)
          as [[Ha Hb]|[kv [Hin [Ha Hb]]]].
        * rewrite Ha in H. rewrite Hb. inversion H; subst. apply good_nil.
        * rewrite Ha in H. rewrite Hb.
          destruct (is_string (snd kv)) eqn:Es; [|discriminate].
          destruct (wenter W D 2 (snd kv) s) as [[o1 s1]|] eqn:E; [|discriminate].
          rewrite Forall_forall in IH. destruct (IH kv Hin) as (_ & HS1 & _).
          rewrite forallb_forall in Hw.
          assert (G : good s s1 (collect D 2 (snd kv))). { apply (HS1 2%N s o1 s1 (Hw kv Hin) Es); [discriminate|exact E]. }
          destruct o1; inversion H; subst; exact G.
      + intros s sdl s' _ H. cbn in H. discriminate.
  Qed.

  Lemma walk_seen v s y s' : wfb v = true -> W v s = WOk (y, s') ->
    Permutation s' (collect D 0 v ++ s) /\ (NoDup s -> NoDup s').
  Proof. apply (proj1 (walk_seen_P v)). Qed.
End Seen.

(* the interleaved verifier accepts only what the layered verifier accepts, with the same output *)
Lemma verify_w_sound vo p out :
  wfb (p_payload p) = true -> verify_w vo p = WOk out -> verify vo p = Ok out.
Proof.
  intros Hwf H. unfold verify_w in H. unfold verify.
  destruct (p_sig_ok p); cbn [negb] in *; [|discriminate].
  destruct (payload_time_ok vo (p_payload p)); cbn [negb] in *; [|discriminate].
  destruct (nodupd (p_discs p)) eqn:Hd; cbn [negb] in *; [|discriminate].
  unfold verify_disclosures_w in H. unfold verify_disclosures.
  destruct (get_alg (p_payload p)) as [a| | |] eqn:Ha; try discriminate. cbn [bind].
  destruct (forallb (fun d => N.leb 2 (d_e d)) (p_discs p)) eqn:Hf; [|discriminate].
  destruct (walk false (map (digest a) (p_discs p)) (p_payload p) []) as [[y0 seen]|] eqn:E0; [|discriminate].
  destruct (forallb (fun g => memv g seen) (map (digest a) (p_discs p))) eqn:Hall; [|discriminate].
  destruct (holder_verification vo (p_payload p) (p_hb p)) as [[]| | |] eqn:Hh; try discriminate.
  destruct (walk true (map (digest a) (p_discs p)) (p_payload p) []) as [[y1 s1]|] eqn:E1; [|discriminate].
  inversion H; subst.
  rewrite (walk_ok_resolve _ _ _ _ _ _ E0). cbn [bind].
  destruct (walk_seen _ _ _ _ _ Hwf E0) as [HP HN]. rewrite app_nil_r in HP.
  assert (Hnd : nodupv (collect (map (digest a) (p_discs p)) 0 (p_payload p)) = true).
  { apply nodupv_NoDup. eapply Permutation_NoDup; [exact HP|]. apply HN. constructor. }
  rewrite Hnd.
  assert (Hin : forallb (fun g => memv g (collect (map (digest a) (p_discs p)) 0 (p_payload p))) (map (digest a) (p_discs p)) = true).
  { apply forallb_forall. intros g Hg. rewrite forallb_forall in Hall. specialize (Hall g Hg).
    apply memv_In. apply memv_In in Hall. eapply Permutation_in; [exact HP|exact Hall]. }
  rewrite Hin. cbn [bind]. rewrite (walk_ok_resolve _ _ _ _ _ _ E1). reflexivity.
Qed.

(* ---------- the acceptance theorems, about the interleaved verifier ---------- *)
Definition w_ok {A} (r : wr A) : bool := match r with WOk _ => true | WErr _ => false end.

Lemma w_committed vo p out :
  wfb (p_payload p) = true -> verify_w vo p = WOk out ->
  exists a, get_alg (p_payload p) = Ok a /\ forall d, In d (p_discs p) -> occurs (digest a d) (p_payload p).
Proof. intros Hw H. eapply accept_committed. apply verify_w_sound; eassumption. Qed.

Lemma w_met_once vo p out :
  wfb (p_payload p) = true -> verify_w vo p = WOk out ->
  exists a, get_alg (p_payload p) = Ok a /\ NoDup (collect (map (digest a) (p_discs p)) 0 (p_payload p)).
Proof.
  intros Hw H. apply verify_w_sound in H; [|assumption]. apply verify_ok_inv in H as (_ & _ & _ & Hv & _).
  apply verify_disclosures_inv in Hv as (a & Ha & _ & Hn & _). exists a; split; assumption.
Qed.

Lemma w_reject_of_layered vo p :
  wfb (p_payload p) = true -> is_ok (verify vo p) = false -> w_ok (verify_w vo p) = false.
Proof.
  intros Hw H. destruct (verify_w vo p) as [out|e] eqn:E; [|reflexivity].
  apply verify_w_sound in E; [|assumption]. rewrite E in H. discriminate.
Qed.

