(* C18 — property theorems about the INTERLEAVED model (Walk.v: discloseClaimValue as the code runs it, one pass
   that threads recData.nestedSD and returns the first error with its class; verify_w = verifier.Parse in the order
   of the code).  verify_w / walk are the definitions Corr.check_case (CVerifyW) evaluates against the real
   verifier.Parse on every run, error class included. *)
From Coq Require Import List String ZArith NArith Bool.
Import ListNotations.
From VF Require Import C18.Model C18.Walk C18.Proofs C18.Exact C18.Accept C18.WalkProofs C18.WalkSound C18.WalkClass C18.WalkComplete C18.WalkHonest C18.WalkIssued.
Open Scope string_scope.
Open Scope list_scope.

(* whatever the interleaved verifier accepts, the layered verifier accepts, with the same output: every acceptance
   theorem of Props.v (committed disclosures, digests met once, holder binding, validity window, exactness of the
   output) is a theorem about the interleaved verifier.  wfb: member names of an object pairwise different, which a
   Go map cannot violate. *)
Theorem interleaved_accept_is_layered_accept : forall vo p out,
  wfb (p_payload p) = true -> verify_w vo p = WOk out -> verify vo p = Ok out.
Proof. exact verify_w_sound. Qed.
Print Assumptions interleaved_accept_is_layered_accept.

(* and conversely: the layered and the interleaved model accept the same presentations with the same output; Model.v's
   layering (value walk, nestedSD list, "every disclosure reached" as three separate computations) is a presentation
   of the code's single pass, not an approximation of it *)
Theorem layered_accept_is_interleaved_accept : forall vo p out,
  wfb (p_payload p) = true -> verify vo p = Ok out -> verify_w vo p = WOk out.
Proof. exact verify_w_complete. Qed.
Print Assumptions layered_accept_is_interleaved_accept.

Theorem interleaved_iff_layered : forall vo p out,
  wfb (p_payload p) = true -> (verify_w vo p = WOk out <-> verify vo p = Ok out).
Proof. exact verify_w_iff. Qed.
Print Assumptions interleaved_iff_layered.

(* whatever the issuer model emits from a clean claim set meets wfb *)
Theorem issued_payload_is_wellformed : forall o claims payload ds,
  clean (VObj claims) = true -> ~ In "iss" (map fst claims) -> ~ In "cnf" (map fst claims) ->
  issue o claims = Ok (payload, ds) -> wfb payload = true.
Proof. exact issue_wfb. Qed.
Print Assumptions issued_payload_is_wellformed.

(* exactly the visible and the chosen claims, about the interleaved verifier: the guard of Props.disclose_exact_partial
   and nothing else *)
Theorem interleaved_disclose_exact_partial : forall o claims sel payload ds vo hb,
  alg_ok (o_alg o) -> clean (VObj claims) = true ->
  ~ In "iss" (map fst claims) -> ~ In "cnf" (map fst claims) ->
  forallb site_path sel = true -> closedb sel ds = true ->
  (o_v5 o = true -> akept5 o sel false [] (VObj claims) = true) ->
  issue o claims = Ok (payload, ds) ->
  payload_time_ok vo payload = true ->
  holder_verification vo payload hb = Ok tt ->
  exists out, verify_w vo {| p_sig_ok := true; p_payload := payload; p_discs := choose sel ds; p_hb := hb |} = WOk out /\
              veq out (reveal o sel claims).
Proof. exact honest_flow_w'. Qed.
Print Assumptions interleaved_disclose_exact_partial.

(* FOREIGN / ALTERED / RE-ENCODED / DECOY PREIMAGE, about the interleaved verifier and issued SD-JWTs, no extra hypothesis *)
Theorem interleaved_rejects_unissued_issued : forall o claims payload ds vo p d,
  alg_ok (o_alg o) -> clean (VObj claims) = true ->
  ~ In "iss" (map fst claims) -> ~ In "cnf" (map fst claims) ->
  issue o claims = Ok (payload, ds) ->
  p_payload p = payload -> In d (p_discs p) -> ~ In d ds -> w_ok (verify_w vo p) = false.
Proof. exact w_reject_unissued_issued. Qed.
Print Assumptions interleaved_rejects_unissued_issued.

(* without any hypothesis: the output, and the tests that do not depend on the walk *)
Theorem interleaved_output_is_layered_output : forall vo p out,
  verify_w vo p = WOk out ->
  exists a, get_alg (p_payload p) = Ok a /\ resolve true (map (digest a) (p_discs p)) (p_payload p) = Ok out /\
            resolve false (map (digest a) (p_discs p)) (p_payload p) <> Err EInvalid /\
            p_sig_ok p = true /\ payload_time_ok vo (p_payload p) = true /\ NoDup (p_discs p) /\
            holder_verification vo (p_payload p) (p_hb p) = Ok tt /\
            Forall (fun d => (2 <= d_e d)%N) (p_discs p).
Proof. exact verify_w_output. Qed.
Print Assumptions interleaved_output_is_layered_output.

(* recData.nestedSD after a walk without error: the layered [collect] up to order, and duplicate free *)
Theorem interleaved_nested_sd_is_collect : forall D v s y s',
  wfb v = true -> walk false D v s = WOk (y, s') ->
  Permutation.Permutation s' (collect D 0 v ++ s) /\ (NoDup s -> NoDup s').
Proof. exact walk_seen. Qed.
Print Assumptions interleaved_nested_sd_is_collect.

(* only issued disclosures are accepted, about the interleaved verifier *)
Theorem interleaved_accepted_disclosures_are_committed : forall vo p out,
  wfb (p_payload p) = true -> verify_w vo p = WOk out ->
  exists a, get_alg (p_payload p) = Ok a /\ forall d, In d (p_discs p) -> occurs (digest a d) (p_payload p).
Proof. exact w_committed. Qed.
Print Assumptions interleaved_accepted_disclosures_are_committed.

Theorem interleaved_accepted_digests_met_once : forall vo p out,
  wfb (p_payload p) = true -> verify_w vo p = WOk out ->
  exists a, get_alg (p_payload p) = Ok a /\ NoDup (collect (map (digest a) (p_discs p)) 0 (p_payload p)).
Proof. exact w_met_once. Qed.
Print Assumptions interleaved_accepted_digests_met_once.

(* every rejection theorem of Props.v carries over *)
Theorem interleaved_rejects_what_layered_rejects : forall vo p,
  wfb (p_payload p) = true -> is_ok (verify vo p) = false -> w_ok (verify_w vo p) = false.
Proof. exact w_reject_of_layered. Qed.
Print Assumptions interleaved_rejects_what_layered_rejects.

(* the walk itself reports four classes only *)
Theorem walk_error_classes : forall c D v s e, walk c D v s = WErr e -> walk_class e.
Proof. exact walk_err_class. Qed.
Print Assumptions walk_error_classes.

(* the class of the error says where verifier.Parse stopped and why *)
Theorem error_class_meaning : forall vo p e, verify_w vo p = WErr e -> class_meaning vo p e.
Proof. exact verify_w_class. Qed.
Print Assumptions error_class_meaning.

(* ---- non-vacuity ---- *)
Definition ex_d1 : disc := {| d_enc := 0; d_e := 3; d_salt := [SIdx 1]; d_name := "a"; d_val := VStr "x" |}.
Definition ex_d2 : disc := {| d_enc := 0; d_e := 2; d_salt := [SIdx 2]; d_name := ""; d_val := VNum 7 |}.
Definition ex_payload : val :=
  VObj [("iss", VStr "i"); (SDALG, VStr "sha-256"); (SD, VArr [digest 256 ex_d1]);
        ("l", VArr [VStr "e0"; VObj [(DOTS, digest 256 ex_d2)]])].
Definition ex_vo : vopts := {| vo_required := false; vo_nonce := ""; vo_aud := ""; vo_now := 0; vo_leeway := 60 |}.
Definition ex_p (ds : list disc) (pl : val) : presentation := {| p_sig_ok := true; p_payload := pl; p_discs := ds; p_hb := None |}.

Example interleaved_example :
  wfb ex_payload = true /\
  verify_w ex_vo (ex_p [ex_d2; ex_d1] ex_payload)
    = WOk (VObj [("a", VStr "x"); ("iss", VStr "i"); ("l", VArr [VStr "e0"; VNum 7])]) /\
  (* a digest placed twice *)
  verify_w ex_vo (ex_p [ex_d1] (VObj [(SDALG, VStr "sha-256"); (SD, VArr [digest 256 ex_d1]);
                                      ("z", VObj [(SD, VArr [digest 256 ex_d1])])])) = WErr XDupDigest /\
  (* an element disclosure behind an "_sd" digest *)
  verify_w ex_vo (ex_p [ex_d2] (VObj [(SDALG, VStr "sha-256"); (SD, VArr [digest 256 ex_d2])])) = WErr XArity /\
  (* a disclosed name the object already has *)
  verify_w ex_vo (ex_p [ex_d1] (VObj [(SDALG, VStr "sha-256"); (SD, VArr [digest 256 ex_d1]); ("a", VNum 1)])) = WErr XClash /\
  verify_w ex_vo (ex_p [ex_d1] (VObj [(SDALG, VStr "sha-256"); ("l", VArr [VObj [(DOTS, VNum 5)]])])) = WErr XStruct /\
  verify_w ex_vo (ex_p [ex_d1] (VObj [(SDALG, VStr "sha-256"); ("k", VNum 1)])) = WErr XNotFound /\
  verify_w ex_vo (ex_p [ex_d1; ex_d1] ex_payload) = WErr XDupDisc.
Proof. vm_compute. repeat split; reflexivity. Qed.

(* an issued SD-JWT (v5, recursive object, array elements, cnf) meets wfb, and the interleaved verifier accepts the
   honest presentation with the output visible + chosen *)
Definition exo5 := {| o_v5 := true; o_alg := 384; o_structured := true; o_decoys := 0; o_nonsd := [];
                      o_always := []; o_recursive := [[SKey "addr"]]; o_iss := "iss"; o_cnf := Some 1%Z |}.
Definition exclaims5 : list (string * val) :=
  [("name", VStr "Ann"); ("addr", VObj [("city", VStr "X"); ("zip", VNum 7)]); ("langs", VArr [VStr "de"; VStr "en"])].
Example interleaved_exact_example :
  let sel := [[SKey "addr"]; [SKey "addr"; SKey "city"]; [SKey "langs"; SIdx 1]] in
  let vo := {| vo_required := false; vo_nonce := ""; vo_aud := ""; vo_now := 1000; vo_leeway := 60 |} in
  match issue exo5 exclaims5 with
  | Ok (payload, ds) =>
      wfb payload = true /\ closedb sel ds = true /\
      verify_w vo {| p_sig_ok := true; p_payload := payload; p_discs := choose sel ds; p_hb := None |}
      = WOk (VObj [("addr", VObj [("city", VStr "X")]); ("iss", VStr "iss"); ("cnf", VObj [("jwk", VNum 1)]);
                   ("langs", VArr [VStr "en"])])
  | _ => False
  end.
Proof. vm_compute. repeat split. Qed.
