(* C18 — what a party that sees a presentation can derive (symbolic closure): a digest string is never opened *)
From Coq Require Import List String ZArith NArith Bool Lia.
Import ListNotations.
From VF Require Import C18.Model C18.Proofs.
Open Scope string_scope.
Open Scope list_scope.

Inductive tm := TVal (v : val) | TSalt (s : path) | TDisc (d : disc).

(* Closure of the observer's knowledge [K]: components of JSON values, the parts of the disclosure texts it
   holds, disclosure texts it can assemble from a salt and a value it knows, and their hashes.  There is no
   rule that takes a digest string [VDig ...] apart: the hash is one-way. *)
Inductive derivable (K : list tm) : tm -> Prop :=
| dv_known : forall t, In t K -> derivable K t
| dv_elem : forall l x, derivable K (TVal (VArr l)) -> In x l -> derivable K (TVal x)
| dv_member : forall m k x, derivable K (TVal (VObj m)) -> In (k, x) m -> derivable K (TVal x)
| dv_salt : forall d, derivable K (TDisc d) -> derivable K (TSalt (d_salt d))
| dv_val : forall d, derivable K (TDisc d) -> derivable K (TVal (d_val d))
| dv_hash : forall a d, derivable K (TDisc d) -> derivable K (TVal (digest a d))
| dv_text : forall c e s n v, derivable K (TSalt s) -> derivable K (TVal v) ->
            derivable K (TDisc {| d_enc := c; d_e := e; d_salt := s; d_name := n; d_val := v |}).

(* the verifier's (or an eavesdropper's) knowledge: the signed payload and the presented disclosure texts *)
Definition knowledge (payload : val) (ds : list disc) : list tm := TVal payload :: map TDisc ds.

(* [sub x v]: x is v or a component of v reachable through arrays and objects only — never below a digest *)
Fixpoint sub (x v : val) {struct v} : Prop :=
  x = v \/
  match v with
  | VArr l => fold_right (fun y acc => sub x y \/ acc) False l
  | VObj m => fold_right (fun kv acc => sub x (snd kv) \/ acc) False m
  | _ => False
  end.

Lemma sub_refl x : sub x x.
Proof. destruct x; left; reflexivity. Qed.

Lemma sub_elem x l y : sub x y -> In y l -> sub x (VArr l).
Proof. intros H Hin. right. apply fold_or. exists y; split; assumption. Qed.
Lemma sub_member x m k y : sub x y -> In (k, y) m -> sub x (VObj m).
Proof. intros H Hin. right. apply fold_or. exists (k, y); split; assumption. Qed.

Lemma sub_trans x y v : sub x y -> sub y v -> sub x v.
Proof.
  revert x y. induction v as [| b | z | s | a c e s n v IH | l IH | m IH] using val_ind'; intros x y Hxy Hyv;
    try (destruct Hyv as [->|[]]; exact Hxy).
  - destruct Hyv as [->|Hyv]; [exact Hxy|]. apply fold_or in Hyv as (w & Hw & Hyw).
    rewrite Forall_forall in IH. eapply sub_elem; [eapply IH; eassumption|assumption].
  - destruct Hyv as [->|Hyv]; [exact Hxy|]. apply fold_or in Hyv as ([k w] & Hw & Hyw). cbn [snd] in Hyw.
    rewrite Forall_forall in IH. eapply sub_member; [eapply (IH (k, w) Hw); eassumption|exact Hw].
Qed.

Section Closure.
  Variables (payload : val) (ds : list disc).

  Definition clear (x : val) : Prop :=
    sub x payload \/ (exists d, In d ds /\ sub x (d_val d)) \/ (exists a c e s n v, x = VDig a c e s n v).

  Definition inv (t : tm) : Prop :=
    match t with
    | TVal x => clear x
    | TSalt s => exists d, In d ds /\ d_salt d = s
    | TDisc d => (exists d0, In d0 ds /\ d_salt d0 = d_salt d) /\ clear (d_val d)
    end.

  Lemma clear_not_dig_sub x y : clear y -> sub x y -> (forall a c e s n v, y <> VDig a c e s n v) -> clear x.
  Proof.
    intros [H|[(d & Hd & H)|(a & c & e & s & n & v & ->)]] Hs Hn.
    - left. eapply sub_trans; eassumption.
    - right; left. exists d. split; [assumption|]. eapply sub_trans; eassumption.
    - exfalso. eapply Hn. reflexivity.
  Qed.

  Lemma derivable_inv t : derivable (knowledge payload ds) t -> inv t.
  Proof.
    induction 1 as [t Hin | l x _ IH Hin | m k x _ IH Hin | d _ IH | d _ IH | a d _ IH | c e s n v _ IH1 _ IH2].
    - destruct Hin as [<-|Hin]; [left; apply sub_refl|].
      apply in_map_iff in Hin as (d & <- & Hd). split; [exists d; split; [assumption|reflexivity]|].
      right; left. exists d. split; [assumption|apply sub_refl].
    - cbn in *. eapply clear_not_dig_sub; [exact IH|eapply sub_elem; [apply sub_refl|exact Hin]|discriminate].
    - cbn in *. eapply clear_not_dig_sub; [exact IH|eapply sub_member; [apply sub_refl|exact Hin]|discriminate].
    - destruct IH as [IH _]. exact IH.
    - destruct IH as [_ IH]. exact IH.
    - right; right. unfold digest. repeat eexists.
    - cbn in *. split; assumption.
  Qed.
End Closure.

(* the salts an observer can get hold of are those of the disclosures it was given *)
Lemma derivable_salts payload ds s :
  derivable (knowledge payload ds) (TSalt s) -> exists d, In d ds /\ d_salt d = s.
Proof. intro H. exact (derivable_inv payload ds _ H). Qed.

(* the JSON values it can get hold of lie in the clear part of the payload or of a disclosure it was given
   (or are digest strings): nothing from below a digest string *)
Lemma derivable_values payload ds x :
  derivable (knowledge payload ds) (TVal x) -> clear payload ds x.
Proof. intro H. exact (derivable_inv payload ds _ H). Qed.
