(* C18 — what a party that sees a presentation can derive (symbolic closure): a digest string is never opened *)
From Coq Require Import List String ZArith NArith Bool Lia.
Import ListNotations.
From VF Require Import C18.Model C18.Proofs C18.Exact.
Open Scope string_scope.
Open Scope list_scope.

Inductive tm := TVal (v : val) | TSalt (s : path) | TDisc (d : disc).

(* Closure of the observer's knowledge [K]: components of JSON values, the parts of the disclosure texts it
   holds, disclosure texts it can assemble from a salt and a value it knows, and their hashes.  There is no
   rule that takes a digest string [VDig ...] apart: the hash is one-way. *)
Inductive derivable (K : list tm) : tm -> Prop :=
| dv_known : forall t, In t K -> derivable K t
| dv_elem : forall l x, derivable K (TVal (VArr l)) -> In x l -> derivable K (TVal x)
| dv_member : forall m k x, derivable K (TVal (VObj m)) -> In (k, x) m -> derivable K (TVal x)
| dv_salt : forall d, derivable K (TDisc d) -> derivable K (TSalt (d_salt d))
| dv_val : forall d, derivable K (TDisc d) -> derivable K (TVal (d_val d))
| dv_hash : forall a d, derivable K (TDisc d) -> derivable K (TVal (digest a d))
| dv_text : forall c e s n v, derivable K (TSalt s) -> derivable K (TVal v) ->
            derivable K (TDisc {| d_enc := c; d_e := e; d_salt := s; d_name := n; d_val := v |}).

(* the verifier's (or an eavesdropper's) knowledge: the signed payload and the presented disclosure texts *)
Definition knowledge (payload : val) (ds : list disc) : list tm := TVal payload :: map TDisc ds.

(* [sub x v]: x is v or a component of v reachable through arrays and objects only — never below a digest *)
Fixpoint sub (x v : val) {struct v} : Prop :=
  x = v \/
  match v with
  | VArr l => fold_right (fun y acc => sub x y \/ acc) False l
  | VObj m => fold_right (fun kv acc => sub x (snd kv) \/ acc) False m
  | _ => False
  end.

Lemma sub_refl x : sub x x.
Proof. destruct x; left; reflexivity. Qed.

Lemma sub_elem x l y : sub x y -> In y l -> sub x (VArr l).
Proof. intros H Hin. right. apply fold_or. exists y; split; assumption. Qed.
Lemma sub_member x m k y : sub x y -> In (k, y) m -> sub x (VObj m).
Proof. intros H Hin. right. apply fold_or. exists (k, y); split; assumption. Qed.

Lemma sub_trans x y v : sub x y -> sub y v -> sub x v.
Proof.
  revert x y. induction v as [| b | z | s | a c e s n v IH | l IH | m IH] using val_ind'; intros x y Hxy Hyv;
    try (destruct Hyv as [->|[]]; exact Hxy).
  - destruct Hyv as [->|Hyv]; [exact Hxy|]. apply fold_or in Hyv as (w & Hw & Hyw).
    rewrite Forall_forall in IH. eapply sub_elem; [eapply IH; eassumption|assumption].
  - destruct Hyv as [->|Hyv]; [exact Hxy|]. apply fold_or in Hyv as ([k w] & Hw & Hyw). cbn [snd] in Hyw.
    rewrite Forall_forall in IH. eapply sub_member; [eapply (IH (k, w) Hw); eassumption|exact Hw].
Qed.

Section Closure.
  Variables (payload : val) (ds : list disc).

  Definition clear (x : val) : Prop :=
    sub x payload \/ (exists d, In d ds /\ sub x (d_val d)) \/ (exists a c e s n v, x = VDig a c e s n v).

  Definition inv (t : tm) : Prop :=
    match t with
    | TVal x => clear x
    | TSalt s => exists d, In d ds /\ d_salt d = s
    | TDisc d => (exists d0, In d0 ds /\ d_salt d0 = d_salt d) /\ clear (d_val d)
    end.

  Lemma clear_not_dig_sub x y : clear y -> sub x y -> (forall a c e s n v, y <> VDig a c e s n v) -> clear x.
  Proof.
    intros [H|[(d & Hd & H)|(a & c & e & s & n & v & ->)]] Hs Hn.
    - left. eapply sub_trans; eassumption.
    - right; left. exists d. split; [assumption|]. eapply sub_trans; eassumption.
    - exfalso. eapply Hn. reflexivity.
  Qed.

  Lemma derivable_inv t : derivable (knowledge payload ds) t -> inv t.
  Proof.
    induction 1 as [t Hin | l x _ IH Hin | m k x _ IH Hin | d _ IH | d _ IH | a d _ IH | c e s n v _ IH1 _ IH2].
    - destruct Hin as [<-|Hin]; [left; apply sub_refl|].
      apply in_map_iff in Hin as (d & <- & Hd). split; [exists d; split; [assumption|reflexivity]|].
      right; left. exists d. split; [assumption|apply sub_refl].
    - cbn in *. eapply clear_not_dig_sub; [exact IH|eapply sub_elem; [apply sub_refl|exact Hin]|discriminate].
    - cbn in *. eapply clear_not_dig_sub; [exact IH|eapply sub_member; [apply sub_refl|exact Hin]|discriminate].
    - destruct IH as [IH _]. exact IH.
    - destruct IH as [_ IH]. exact IH.
    - right; right. unfold digest. repeat eexists.
    - cbn in *. split; assumption.
  Qed.
End Closure.

(* the salts an observer can get hold of are those of the disclosures it was given *)
Lemma derivable_salts payload ds s :
  derivable (knowledge payload ds) (TSalt s) -> exists d, In d ds /\ d_salt d = s.
Proof. intro H. exact (derivable_inv payload ds _ H). Qed.

(* the JSON values it can get hold of lie in the clear part of the payload or of a disclosure it was given
   (or are digest strings): nothing from below a digest string *)
Lemma derivable_values payload ds x :
  derivable (knowledge payload ds) (TVal x) -> clear payload ds x.
Proof. intro H. exact (derivable_inv payload ds _ H). Qed.

(* ---------- the clear part of an issued payload is the always-visible claims ---------- *)
Definition leaf (x : val) : Prop := match x with VBool _ | VNum _ | VStr _ => True | _ => False end.

Lemma sub_obj x m : sub x (VObj m) <-> x = VObj m \/ exists kv, In kv m /\ sub x (snd kv).
Proof. cbn. rewrite fold_or. reflexivity. Qed.
Lemma sub_arr x l : sub x (VArr l) <-> x = VArr l \/ exists y, In y l /\ sub x y.
Proof. cbn. rewrite fold_or. reflexivity. Qed.

Lemma leaf_sub_obj x m : leaf x -> sub x (VObj m) -> exists kv, In kv m /\ sub x (snd kv).
Proof. intros Hl H. apply sub_obj in H as [->|H]; [contradiction|exact H]. Qed.
Lemma leaf_sub_arr x l : leaf x -> sub x (VArr l) -> exists y, In y l /\ sub x y.
Proof. intros Hl H. apply sub_arr in H as [->|H]; [contradiction|exact H]. Qed.

Lemma leaf_not_in_digests a x l : leaf x -> ~ sub x (VArr (map (digest a) l)).
Proof.
  intros Hl H. apply (leaf_sub_arr _ _ Hl) in H as (y & Hy & Hs). apply in_map_iff in Hy as (d & <- & _).
  cbn in Hs. destruct Hs as [->|[]]. exact Hl.
Qed.

(* [t]: a level as written by the issuer; [R]: what the specification shows of it with NOTHING selected *)
Definition clear_ok (t : triple) (R : list (string * val)) : Prop :=
  forall x, leaf x -> (exists kv, In kv (t_vis t) /\ sub x (snd kv)) -> exists kv', In kv' R /\ sub x (snd kv').

Lemma clear_obj_v2 o cur t R x :
  clear_ok t R -> leaf x -> sub x (VObj (t_vis t ++ [sd2 o cur (t_lvl t)])) -> sub x (VObj R).
Proof.
  intros Hok Hl H. apply (leaf_sub_obj _ _ Hl) in H as (kv & Hkv & Hs). apply in_app_or in Hkv as [Hkv|[<-|[]]].
  - destruct (Hok x Hl) as (kv' & Hkv' & Hs'); [exists kv; split; assumption|].
    destruct kv' as [k' y']. eapply sub_member; eassumption.
  - exfalso. unfold sd2, sd_member in Hs. cbn [snd] in Hs.
    destruct (map (digest (o_alg o)) (t_lvl t ++ decoy_discs cur (o_decoys o))) eqn:E.
    + cbn in Hs. destruct Hs as [->|[]]. exact Hl.
    + rewrite <- E in Hs. exact (leaf_not_in_digests _ _ _ Hl Hs).
Qed.

Lemma clear_obj_v5 o cur t R x :
  clear_ok t R -> leaf x -> sub x (obj5 o cur (t_vis t) (t_lvl t)) -> sub x (VObj R).
Proof.
  intros Hok Hl H. unfold obj5 in H. apply (leaf_sub_obj _ _ Hl) in H as (kv & Hkv & Hs). apply in_app_or in Hkv as [Hkv|Hkv].
  - destruct (Hok x Hl) as (kv' & Hkv' & Hs'); [exists kv; split; assumption|].
    destruct kv' as [k' y']. eapply sub_member; eassumption.
  - exfalso. unfold sd5 in Hkv. destruct (t_lvl t ++ decoy_discs cur (o_decoys o)) eqn:E; [contradiction|].
    destruct Hkv as [<-|[]]. cbn [snd] in Hs. rewrite <- E in Hs. exact (leaf_not_in_digests _ _ _ Hl Hs).
Qed.

Lemma clear_ok_members {A} (m : list A) (f : A -> triple) (g : A -> list (string * val)) :
  (forall e, In e m -> clear_ok (f e) (g e)) -> clear_ok (cat3 (map f m)) (flat_map g m).
Proof.
  intros H x Hl (kv & Hkv & Hs). unfold cat3 in Hkv. cbn [t_vis fst] in Hkv. apply in_flat_map in Hkv as (tk & Htk & Hkv).
  apply in_map_iff in Htk as (e & <- & He). destruct (H e He x Hl) as (kv' & Hkv' & Hs'); [exists kv; split; assumption|].
  exists kv'. split; [apply in_flat_map; exists e; split; assumption|assumption].
Qed.

Lemma clear_raw k x0 : clear_ok ([(k, x0)], [], []) [(k, x0)].
Proof. intros x Hl (kv & [<-|[]] & Hs). exists (k, x0). split; [left; reflexivity|exact Hs]. Qed.
Lemma clear_none lvl nst R : clear_ok ([], lvl, nst) R.
Proof. intros x Hl (kv & [] & _). Qed.

Lemma issue2_clear o cv : forall p, clear_ok (issue2 o p cv) (reveal2 o [] p cv).
Proof.
  induction cv as [| b | z | s | a0 e0 e s n v IH | l IH | m IH] using val_ind'; intro p;
    try (intros x Hl (kv & [] & _)).
  cbn [issue2 reveal2]. apply clear_ok_members. intros [k x0] Hkx.
  rewrite Forall_forall in IH. specialize (IH (k, x0) Hkx). cbn [snd] in IH.
  unfold member2, rmember2. cbn [fst snd memp orb]. rewrite orb_false_r.
  assert (Hleaf : clear_ok (if memp (p ++ [SKey k]) (o_nonsd o) then ([(k, x0)], [], []) else ([], [mk 3 (p ++ [SKey k]) k x0], []))
                           (if memp (p ++ [SKey k]) (o_nonsd o) then [(k, x0)] else [])).
  { destruct (memp (p ++ [SKey k]) (o_nonsd o)); [apply clear_raw|apply clear_none]. }
  destruct x0; try exact Hleaf. destruct (o_structured o); [|exact Hleaf].
  intros x Hl (kv & [<-|[]] & Hs). cbn [snd] in Hs.
  eexists. split; [left; reflexivity|]. cbn [snd]. exact (clear_obj_v2 o _ _ _ x (IH (p ++ [SKey k])) Hl Hs).
Qed.

Lemma elems5_clear o p l x : forall i, leaf x ->
  (exists e, In e (fst (elems5 o p i l)) /\ sub x e) -> exists e', In e' (reveal_elems o [] p i l) /\ sub x e'.
Proof.
  induction l as [|y r IH]; intros i Hl (e & He & Hs); [contradiction|].
  cbn [elems5 reveal_elems memp orb] in *. rewrite orb_false_r. specialize (IH (N.succ i) Hl).
  destruct (elems5 o p (N.succ i) r) as [es ds]. destruct (memp (p ++ [SIdx i]) (o_nonsd o)); cbn [fst] in *.
  - destruct He as [<-|He]; [exists y; split; [left; reflexivity|exact Hs]|].
    destruct IH as (e' & He' & Hs'); [exists e; split; assumption|]. exists e'. split; [right|]; assumption.
  - destruct He as [<-|He]; [|apply IH; exists e; split; assumption].
    exfalso. apply (leaf_sub_obj _ _ Hl) in Hs as (kv & [<-|[]] & Hs). cbn in Hs. destruct Hs as [->|[]]. exact Hl.
Qed.

Lemma issue5_clear o cv : forall ign p t, issue5 o ign p cv = Ok t -> clear_ok t (reveal5 o [] ign p cv).
Proof.
  induction cv as [| b | z | s | a0 e0 e s n v IH | l IH | m IH] using val_ind'; intros ign p t Ht;
    try (cbn in Ht; inversion Ht; intros x Hl (kv & [] & _)).
  cbn [issue5] in Ht. destruct (seq3 (map (member5 (issue5 o) o ign p) m)) as [ts| | |] eqn:Es; cbn in Ht; try discriminate.
  inversion Ht; subst t. cbn [reveal5]. apply seq3_inv in Es.
  intros x Hl (kv & Hkv & Hs). unfold cat3 in Hkv. cbn [t_vis fst] in Hkv. apply in_flat_map in Hkv as (tk & Htk & Hkv).
  destruct (Forall2_in_r _ _ _ _ Es Htk) as (rk & Hrk & Ek). apply in_map_iff in Hrk as ([k x0] & <- & Hkx).
  rewrite Forall_forall in IH. specialize (IH (k, x0) Hkx). cbn [snd] in IH.
  assert (Hm : clear_ok tk (rmember5 (reveal5 o []) o [] ign p (k, x0))).
  { unfold member5 in Ek. unfold rmember5. cbn [fst snd memp] in *. set (cur := p ++ [SKey k]) in *. rewrite ?orb_false_r.
    destruct x0 as [| b | z | s | a0 e0 e s n v | l | mm]; try discriminate.
    - destruct (memp cur (o_nonsd o) || ign); injection Ek as <-; [apply clear_raw|apply clear_none].
    - destruct (memp cur (o_nonsd o) || ign); injection Ek as <-; [apply clear_raw|apply clear_none].
    - destruct (memp cur (o_nonsd o) || ign); injection Ek as <-; [apply clear_raw|apply clear_none].
    - destruct (memp cur (o_nonsd o) || ign); injection Ek as <-; [apply clear_raw|apply clear_none].
    - destruct (memp cur (o_nonsd o)); [injection Ek as <-; apply clear_raw|].
      pose proof (fun y Hy => elems5_clear o cur l y 0%N Hy) as Harr. destruct (elems5 o cur 0 l) as [es eds]. cbn [fst] in Harr.
      destruct (memp cur (o_always o) || o_structured o); injection Ek as <-; [|apply clear_none].
      intros y Hy (kv0 & [<-|[]] & Hs0). cbn [snd] in Hs0. eexists. split; [left; reflexivity|]. cbn [snd].
      unfold arr_member in Hs0. destruct es as [|e1 es']; [cbn in Hs0; destruct Hs0 as [->|[]]; contradiction|].
      apply (leaf_sub_arr _ _ Hy) in Hs0. destruct (Harr y Hy Hs0) as (e' & He' & Hs'). eapply sub_elem; eassumption.
    - destruct (memp cur (o_nonsd o)); [injection Ek as <-; apply clear_raw|].
      destruct (issue5 o (negb (memp cur (o_recursive o) || memp cur (o_always o) || o_structured o)) cur (VObj mm)) as [t'| | |] eqn:Et;
        cbn in Ek; try discriminate.
      specialize (IH _ _ _ Et).
      destruct (negb (memp cur (o_recursive o) && negb (memp cur (o_always o))) && (memp cur (o_recursive o) || memp cur (o_always o) || o_structured o));
        injection Ek as <-; [|apply clear_none].
      intros y Hy (kv0 & [<-|[]] & Hs0). cbn [snd] in Hs0. eexists. split; [left; reflexivity|]. cbn [snd].
      exact (clear_obj_v5 o cur t' _ y IH Hy Hs0). }
  destruct (Hm x Hl) as (kv' & Hkv' & Hs'); [exists kv; split; assumption|].
  exists kv'. split; [apply in_flat_map; exists (k, x0); split; assumption|assumption].
Qed.

(* every leaf value readable in the signed payload without opening a digest belongs to an always-visible claim
   (what the specification shows when NOTHING is selected), or is the registered iss / cnf / _sd_alg *)
Lemma clear_payload_visible o claims payload ds x :
  issue o claims = Ok (payload, ds) -> leaf x -> sub x payload ->
  sub x (reveal o [] claims) \/ x = VStr (alg_name (o_alg o)).
Proof.
  intros Hi Hl Hs. unfold issue in Hi. destruct (key_exists_sd (VObj claims)); [discriminate|].
  assert (Hreg : forall rest R, (forall y, leaf y -> sub y (VObj rest) -> sub y (VObj R)) ->
             sub x (VObj (registered o ++ rest)) -> sub x (VObj (registered_out o ++ R)) \/ x = VStr (alg_name (o_alg o))).
  { intros rest R HR H. apply (leaf_sub_obj _ _ Hl) in H as (kv & Hkv & Hsk). apply in_app_or in Hkv as [Hkv|Hkv].
    - unfold registered in Hkv. rewrite !in_app_iff in Hkv. destruct Hkv as [Hkv|[Hkv|Hkv]].
      + left. destruct kv as [k y]. eapply sub_member; [exact Hsk|]. unfold registered_out. apply in_or_app. left.
        apply in_or_app. left. exact Hkv.
      + left. destruct kv as [k y]. eapply sub_member; [exact Hsk|]. unfold registered_out. apply in_or_app. left.
        apply in_or_app. right. exact Hkv.
      + right. destruct Hkv as [<-|[]]. cbn in Hsk. destruct Hsk as [->|[]]. reflexivity.
    - left. assert (Hr : sub x (VObj rest)) by (destruct kv as [k y]; eapply sub_member; eassumption).
      apply HR in Hr; [|exact Hl]. apply (leaf_sub_obj _ _ Hl) in Hr as ([k y] & Hy & Hsy).
      eapply sub_member; [exact Hsy|]. apply in_or_app. right. exact Hy. }
  unfold reveal. destruct (o_v5 o).
  - destruct (issue5 o false [] (VObj claims)) as [t| | |] eqn:Et; cbn in Hi; try discriminate.
    assert (E : payload = VObj (registered o ++ t_vis t ++ sd5 o [] (t_lvl t))) by (inversion Hi; reflexivity).
    rewrite E in Hs. apply (Hreg _ _ (fun y Hy H => clear_obj_v5 o [] t _ y (issue5_clear o _ _ _ _ Et) Hy H) Hs).
  - assert (E : payload = VObj (registered o ++ t_vis (issue2 o [] (VObj claims)) ++ [sd2 o [] (t_lvl (issue2 o [] (VObj claims)))]))
      by (inversion Hi; reflexivity).
    rewrite E in Hs. apply (Hreg _ _ (fun y Hy H => clear_obj_v2 o [] _ _ y (issue2_clear o _ []) Hy H) Hs).
Qed.
