(* C18 — correspondence: the harness runs the real issuer / holder / verifier and records, as symbolic
   terms (digest strings replaced by the disclosure they are the hash of), what they were given and what
   they did; check_case evaluates the model's issue / holder_parse / verify / reveal on the same input. *)
From Coq Require Import List String ZArith NArith Bool.
Import ListNotations.
From VF Require Export C18.Model C18.Walk.
Open Scope string_scope.
Open Scope list_scope.

Fixpoint remove_first (f : val -> bool) (l : list val) : option (list val) :=
  match l with
  | [] => None
  | x :: r => if f x then Some r else match remove_first f r with Some t => Some (x :: t) | None => None end
  end.

(* equality of JSON values where objects are maps (member order irrelevant) and the digest lists under
   "_sd" are multisets (the issuer shuffles them) *)
Fixpoint equiv (a b : val) {struct a} : bool :=
  match a, b with
  | VArr l, VArr l' =>
      (fix go (l1 l2 : list val) {struct l1} : bool :=
         match l1, l2 with
         | [], [] => true
         | x :: r, y :: t => equiv x y && go r t
         | _, _ => false
         end) l l'
  | VObj m, VObj m' =>
      Nat.eqb (List.length m) (List.length m') &&
      (fix go (m1 : list (string * val)) : bool :=
         match m1 with
         | [] => true
         | (k, x) :: r =>
             match lookupv m' k with
             | Some y =>
                 (if String.eqb k SD then
                    match x, y with
                    | VArr gl, VArr gl' =>
                        (fix pm (gl : list val) (rest : list val) : bool :=
                           match gl with
                           | [] => match rest with [] => true | _ => false end
                           | g :: gr => match remove_first (equiv g) rest with Some t => pm gr t | None => false end
                           end) gl gl'
                    | _, _ => equiv x y
                    end
                  else equiv x y)
             | None => false
             end && go r
         end) m
  | VDig a c e s n v, VDig a' c' e' s' n' v' =>
      N.eqb a a' && N.eqb c c' && N.eqb e e' && path_eqb s s' && String.eqb n n' && equiv v v'
  | VNull, VNull => true
  | VBool x, VBool y => Bool.eqb x y
  | VNum x, VNum y => Z.eqb x y
  | VStr x, VStr y => String.eqb x y
  | _, _ => false
  end.

(* forget the salt symbols and the decoys (their number is drawn at random by the issuer) *)
Definition is_decoy (v : val) : bool := match v with VDig _ _ e _ _ _ => N.eqb e 0 | _ => false end.
Fixpoint erase (v : val) {struct v} : val :=
  match v with
  | VDig a c e _ n x => VDig a c e [] n (erase x)
  | VArr l => VArr ((fix go (l : list val) : list val :=
                       match l with [] => [] | x :: r => if is_decoy x then go r else erase x :: go r end) l)
  | VObj m => VObj ((fix go (m : list (string * val)) : list (string * val) :=
                       match m with [] => [] | (k, x) :: r => (k, erase x) :: go r end) m)
  | _ => v
  end.

(* v2 writes "_sd": null for an empty list; after decoys are forgotten an empty list and null coincide *)
Fixpoint null_sd (v : val) {struct v} : val :=
  match v with
  | VObj m => VObj ((fix go (m : list (string * val)) : list (string * val) :=
                       match m with
                       | [] => []
                       | (k, x) :: r =>
                           (k, if String.eqb k SD then match x with VArr [] => VNull | _ => null_sd x end else null_sd x) :: go r
                       end) m)
  | VArr l => VArr ((fix go (l : list val) : list val := match l with [] => [] | x :: r => null_sd x :: go r end) l)
  | VDig a c e s n x => VDig a c e s n (null_sd x)
  | _ => v
  end.

Definition canon (v : val) : val := null_sd (erase v).
Definition bag (a : N) (ds : list disc) : val := canon (VObj [(SD, VArr (map (digest a) ds))]).

Fixpoint nodupp (l : list path) : bool :=
  match l with [] => true | x :: r => negb (memp x r) && nodupp r end.

Inductive case :=
(* verifier.Parse on a presentation: accepted?, output *)
| CVerify (vo : vopts) (p : presentation) (acc : bool) (out : val)
(* issuer.New: 0 = ok, 1 = error, 2 = panic; the signed payload and the disclosure list as observed *)
| CIssue (o : iopts) (claims : list (string * val)) (st : N) (payload : val) (ds : list disc)
(* holder.Parse on an issued SD-JWT: ok?, the claims it lists *)
| CHolder (payload : val) (ds : list disc) (ok : bool) (claims : list (string * val))
(* the specification function on a completed honest flow: claims, options, chosen sites, verifier output *)
| CReveal (o : iopts) (claims : list (string * val)) (sel : list path) (out : val)
(* Credential.MakeSDJWT (issuer.NewFromVC): the subject, the other JWT / credential members, payload and disclosures *)
| CIssueVC (o : iopts) (subject outer vcm : list (string * val)) (payload : val) (ds : list disc)
(* Credential.CreateDisplayCredentialMap: hash, the credential subject of the SD-JWT, the given disclosures, the
   displayed subject *)
| CDisplay (a : N) (cs : val) (given : list disc) (out : val)
(* verifier.Parse again, against the INTERLEAVED model (Walk.v): accepted?, output, and the class of the error the
   code reported (0 = none; wclass_code); the layered model must give the same verdict *)
| CVerifyW (vo : vopts) (p : presentation) (acc : bool) (out : val) (ecls : N).

Definition check_case (c : case) : bool :=
  match c with
  | CVerify vo p acc out =>
      match verify vo p with
      | Ok v => acc && equiv v out
      | Err _ => negb acc
      | _ => false
      end
  | CIssue o claims st payload ds =>
      match issue o claims, st with
      | Ok (pl, ds'), 0%N =>
          equiv (canon pl) (canon payload)
          && equiv (bag 0 ds') (bag 0 ds)
          && nodupp (map d_salt ds)
          && Bool.eqb (existsb (fun d => N.eqb (d_e d) 0) ds') (existsb (fun d => N.eqb (d_e d) 0) ds)
      | Err _, 1%N => true
      | Panic _, 2%N => true
      | _, _ => false
      end
  | CHolder payload ds ok claims =>
      match holder_parse payload ds with
      | Ok l => ok && equiv (VObj [(SD, VArr (map (fun '(n, v) => VObj [("n", VStr n); ("v", v)]) l))])
                            (VObj [(SD, VArr (map (fun '(n, v) => VObj [("n", VStr n); ("v", v)]) claims))])
      | Err _ => negb ok
      | _ => false
      end
  | CReveal o claims sel out => equiv (reveal o sel claims) out
  | CIssueVC o subject outer vcm payload ds =>
      match issue_vc o subject outer vcm with
      | Ok (pl, ds') => equiv (canon pl) (canon payload) && equiv (bag 0 ds') (bag 0 ds) && nodupp (map d_salt ds)
      | _ => false
      end
  | CDisplay a cs given out =>
      match display_subject a cs given with
      | Ok v => equiv v out
      | _ => false
      end
  | CVerifyW vo p acc out ecls =>
      wfb (p_payload p) &&
      match verify_w vo p with
      | WOk v => acc && equiv v out && N.eqb ecls 0 && match verify vo p with Ok v' => equiv v' out | _ => false end
      | WErr e => negb acc && N.eqb (wclass_code e) ecls && negb (is_ok (verify vo p))
      end
  end.

Fixpoint mismatches_from (i : nat) (cs : list case) : list nat :=
  match cs with
  | [] => []
  | c :: r => if check_case c then mismatches_from (S i) r else i :: mismatches_from (S i) r
  end.
Definition mismatches := mismatches_from 0.
