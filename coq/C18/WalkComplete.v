(* C18 — the converse of WalkSound.v: what the layered verifier (Model.v verify) accepts, the interleaved verifier
   (Walk.v verify_w) accepts: when the layered value walk has no error and the layered nestedSD list has no
   duplicate, the interleaved walk meets no error either. *)
From Coq Require Import List String ZArith NArith Bool Lia Permutation.
Import ListNotations.
From VF Require Import C18.Model C18.Walk C18.Proofs C18.WalkProofs C18.WalkSound.
Open Scope string_scope.
Open Scope list_scope.

Lemma NoDup_app_iff {A} (a b : list A) :
  NoDup (a ++ b) <-> NoDup a /\ NoDup b /\ (forall x, In x a -> ~ In x b).
Proof.
  induction a as [|x r IH]; cbn.
  - split; [intro H; repeat split; [constructor|assumption|tauto]|tauto].
  - split.
    + intro H. inversion H as [|? ? Hx Hr]; subst. apply IH in Hr as (Hr1 & Hb & Hd).
      split; [constructor; [intro Hin; apply Hx; apply in_or_app; left; assumption|assumption]|].
      split; [assumption|]. intros y [<-|Hy]; [intro Hin; apply Hx; apply in_or_app; right; assumption|apply Hd; assumption].
    + intros (Ha & Hb & Hd). inversion Ha as [|? ? Hx Hr]; subst. constructor.
      * intro Hin. apply in_app_or in Hin as [Hin|Hin]; [contradiction|]. apply (Hd x); [left; reflexivity|assumption].
      * apply IH. repeat split; try assumption. intros y Hy. apply Hd. right; assumption.
Qed.

(* the three steps of threading a duplicate-free list through a sequence of parts *)
Lemma nd_first {A} (a b s : list A) : NoDup ((a ++ b) ++ s) -> NoDup (a ++ s).
Proof.
  rewrite !NoDup_app_iff. intros ((Ha & Hb & Hab) & Hs & Hd). repeat split; try assumption.
  intros x Hx. apply Hd. apply in_or_app; left; assumption.
Qed.
Lemma nd_rest {A} (a b s s1 : list A) : NoDup ((a ++ b) ++ s) -> incl s1 (a ++ s) -> NoDup s1 -> NoDup (b ++ s1).
Proof.
  rewrite !NoDup_app_iff. intros ((Ha & Hb & Hab) & Hs & Hd) Hi Hn. repeat split; try assumption.
  intros x Hx Hin. apply Hi in Hin. apply in_app_or in Hin as [Hin|Hin].
  - apply (Hab x); assumption.
  - apply (Hd x); [apply in_or_app; right; assumption|assumption].
Qed.
Lemma incl_seq {A} (a b s s1 s2 : list A) : incl s1 (a ++ s) -> incl s2 (b ++ s1) -> incl s2 ((a ++ b) ++ s).
Proof.
  intros H1 H2 x Hx. apply H2 in Hx. apply in_app_or in Hx as [Hx|Hx].
  - apply in_or_app; left; apply in_or_app; right; assumption.
  - apply H1 in Hx. apply in_app_or in Hx as [Hx|Hx]; [apply in_or_app; left; apply in_or_app; left; assumption|apply in_or_app; right; assumption].
Qed.

Definition okc (o : outcome) : Prop := match o with ONone => True | OVal (Ok _) => True | _ => False end.

Lemma seq_elems_okc l : is_ok (seq_elems l) = true -> Forall okc l.
Proof.
  induction l as [|o r IH]; cbn; [constructor|]. destruct o as [|[y|e|n|]]; cbn; try discriminate.
  - intro H. constructor; [exact I|apply IH; assumption].
  - intro H. constructor; [exact I|]. apply IH. destruct (seq_elems r); [reflexivity|discriminate..].
Qed.

Lemma nodups_NoDup' l : NoDup l -> nodups l = true.
Proof.
  induction 1 as [|x r Hx Hr IH]; cbn; [reflexivity|]. rewrite IH, andb_true_r. apply negb_true_iff.
  destruct (mems x r) eqn:E; [|reflexivity]. apply mems_In in E. contradiction.
Qed.

Lemma nodups_ND l : nodups l = true -> NoDup l.
Proof.
  induction l as [|x r IH]; cbn; [constructor|]. intro H. apply andb_true_iff in H as [H1 H2].
  constructor; [|apply IH; assumption]. intro Hin. apply mems_In in Hin. rewrite Hin in H1. discriminate.
Qed.

Lemma seq_plain_okc l : is_ok (seq_plain l) = true -> Forall okc (map snd l).
Proof.
  induction l as [|[k o] r IH]; cbn; [constructor|]. destruct o as [|[y|e|n|]]; cbn; try discriminate.
  - intro H. constructor; [exact I|apply IH; assumption].
  - intro H. constructor; [exact I|]. apply IH. destruct (seq_plain r); [reflexivity|discriminate..].
Qed.

Lemma flat_map_once3 {A B C} (K : string) (f : string * val -> A) (h : string * val -> B) (F : string * val -> list C) m :
  nodups (map fst m) = true ->
  (flat_map (fun kv => if String.eqb (fst kv) K then [f kv] else []) m = [] /\
   flat_map (fun kv => if String.eqb (fst kv) K then [h kv] else []) m = [] /\
   flat_map (fun kv => if String.eqb (fst kv) K then F kv else []) m = []) \/
  exists kv, In kv m /\ fst kv = K /\
    flat_map (fun kv => if String.eqb (fst kv) K then [f kv] else []) m = [f kv] /\
    flat_map (fun kv => if String.eqb (fst kv) K then [h kv] else []) m = [h kv] /\
    flat_map (fun kv => if String.eqb (fst kv) K then F kv else []) m = F kv.
Proof.
  induction m as [|kv r IH]; [left; repeat split; reflexivity|]. cbn. intro H. apply andb_true_iff in H as [H1 H2].
  destruct (String.eqb (fst kv) K) eqn:E.
  - right. exists kv. split; [left; reflexivity|]. apply String.eqb_eq in E. split; [assumption|]. subst K.
    apply negb_true_iff in H1. rewrite !flat_map_none by assumption. repeat split; try reflexivity. apply app_nil_r.
  - destruct (IH H2) as [(Ha & Hb & Hc)|[kv' (Hin & Hk & Ha & Hb & Hc)]]; [left; repeat split; assumption|].
    right. exists kv'. split; [right; assumption|]. repeat split; assumption.
Qed.

Lemma fm_sub_incl {A B} (F G : A -> list B) m : (forall x, G x = F x \/ G x = []) -> incl (flat_map G m) (flat_map F m).
Proof.
  intro H. induction m as [|x r IH]; cbn; [apply incl_refl|].
  destruct (H x) as [->| ->]; [apply incl_app_app; [apply incl_refl|assumption]|].
  cbn. apply incl_appr. assumption.
Qed.

Lemma fm_sub_nd {A B} (F G : A -> list B) m t :
  (forall x, G x = F x \/ G x = []) -> NoDup (flat_map F m ++ t) -> NoDup (flat_map G m ++ t).
Proof.
  intro H. induction m as [|x r IH]; cbn; [tauto|]. intro Hn. rewrite <- app_assoc in Hn.
  destruct (H x) as [->| ->].
  - rewrite <- app_assoc. apply NoDup_app_iff in Hn as (H1 & H2 & H3). apply NoDup_app_iff.
    split; [assumption|]. split; [apply IH; assumption|].
    intros y Hy Hin. apply (H3 y Hy). apply in_app_or in Hin as [Hin|Hin]; apply in_or_app; [left|right; assumption].
    apply (fm_sub_incl F G r H). assumption.
  - cbn. apply IH. apply NoDup_app_iff in Hn as (_ & H2 & _). assumption.
Qed.

Lemma Q1_of c D g : Q1 c D g.
Proof. apply (walk_agrees_P c D g). Qed.

Section Complete.
  Variable c : bool.
  Variable D : list val.
  Notation W := (walk c D).
  Notation R := (resolve c D).

  Definition fine (s s' part : list val) := incl s' (part ++ s) /\ NoDup s'.

  Definition T0 (v : val) := forall s, wfb v = true -> is_ok (R v) = true -> NoDup (collect D 0 v ++ s) ->
      exists y s', W v s = WOk (y, s') /\ fine s s' (collect D 0 v).
  Definition T1 (g : val) := forall ctx s, ctx <> 0%N -> is_string g = true -> wfb g = true ->
      okc (enter R D ctx g) -> NoDup (collect D ctx g ++ s) ->
      exists o s', wenter W D ctx g s = WOk (o, s') /\ fine s s' (collect D ctx g).
  Definition T2 (x : val) := forall s, wfb x = true -> okc (elem_outcome R c D x) -> NoDup (celem D x ++ s) ->
      exists o s', welem W c D x s = WOk (o, s') /\ fine s s' (celem D x).
  Definition T3 (x : val) := forall s sdl, wfb x = true -> sd_outcome R D x = Ok sdl -> nodups (map fst sdl) = true ->
      NoDup (csd D x ++ s) ->
      exists sdl' s', wsd W D x s = WOk (sdl', s') /\ fine s s' (csd D x).
  Definition PT (v : val) := T0 v /\ T1 v /\ T2 v /\ T3 v.

  Lemma fine_nil s : NoDup ([] ++ s) -> fine s s [].
  Proof. cbn. intro H. split; [apply incl_refl|assumption]. Qed.

  Lemma run_elems_total l : Forall T2 l -> forallb wfb l = true ->
      Forall okc (map (elem_outcome R c D) l) -> forall s, NoDup (flat_map (celem D) l ++ s) ->
      exists l' s', run_elems (map (welem W c D) l) s = WOk (l', s') /\ fine s s' (flat_map (celem D) l).
  Proof.
    induction 1 as [|x r Hx Hr IH]; intros Hw Hok s Hn.
    - exists [], s. split; [reflexivity|apply fine_nil; assumption].
    - cbn in Hw. apply andb_true_iff in Hw as [Hwx Hwr]. cbn in Hok. inversion Hok as [|? ? Hokx Hokr]; subst.
      cbn [flat_map] in Hn.
      destruct (Hx s Hwx Hokx (nd_first _ _ _ Hn)) as (o & s1 & E1 & Hi1 & Hn1).
      destruct (IH Hwr Hokr s1 (nd_rest _ _ _ _ Hn Hi1 Hn1)) as (t & s2 & E2 & Hi2 & Hn2).
      cbn. rewrite E1, E2. eexists. exists s2. split; [reflexivity|]. split; [|assumption].
      cbn [flat_map]. eapply incl_seq; eassumption.
  Qed.

  Lemma run_sd_total gl : Forall T1 gl -> forallb wfb gl = true -> forallb is_string gl = true ->
      forall acc t s, seq_named (map (fun g => (dig_name g, enter R D 3 g)) gl) = Ok t ->
      NoDup (map fst acc ++ map fst t) -> NoDup (flat_map (collect D 3) gl ++ s) ->
      exists sdl' s', run_sd (map (fun g => (dig_name g, wenter W D 3 g)) gl) acc s = WOk (sdl', s') /\
                      fine s s' (flat_map (collect D 3) gl).
  Proof.
    induction 1 as [|g r Hg Hr IH]; intros Hw Hs acc t s Ht Hnn Hn.
    - exists acc, s. split; [reflexivity|apply fine_nil; assumption].
    - cbn in Hw, Hs. apply andb_true_iff in Hw as [Hwg Hwr]. apply andb_true_iff in Hs as [Hsg Hsr].
      cbn [map seq_named] in Ht. cbn [flat_map] in Hn.
      assert (Hokg : okc (enter R D 3 g)).
      { destruct (enter R D 3 g) as [|[y|e|n|]]; cbn in Ht; try discriminate; exact I. }
      destruct (Hg 3%N s ltac:(discriminate) Hsg Hwg Hokg (nd_first _ _ _ Hn)) as (o & s1 & E1 & Hi1 & Hn1).
      pose proof (nd_rest _ _ _ _ Hn Hi1 Hn1) as Hn'.
      pose proof (Q1_of c D g) as HQ1. specialize (HQ1 3%N s o s1 Hsg E1).
      cbn. rewrite E1. rewrite HQ1 in Ht.
      destruct o as [y|]; cbn in Ht.
      + destruct (seq_named (map (fun g => (dig_name g, enter R D 3 g)) r)) as [t'| | |] eqn:Et; try discriminate.
        cbn in Ht. inversion Ht; subst t. cbn [map fst] in Hnn.
        assert (Hm : mems (dig_name g) (map fst acc) = false).
        { destruct (mems (dig_name g) (map fst acc)) eqn:Em; [|reflexivity]. apply mems_In in Em.
          apply NoDup_app_iff in Hnn as (_ & _ & Hd). exfalso. apply (Hd _ Em). left; reflexivity. }
        rewrite Hm.
        destruct (IH Hwr Hsr (acc ++ [(dig_name g, y)]) t' s1 eq_refl) as (sdl' & s2 & E2 & Hi2 & Hn2).
        { rewrite map_app. cbn. rewrite <- app_assoc. exact Hnn. }
        { exact Hn'. }
        exists sdl', s2. split; [exact E2|]. split; [|assumption]. eapply incl_seq; eassumption.
      + destruct (IH Hwr Hsr acc t s1 Ht Hnn Hn') as (sdl' & s2 & E2 & Hi2 & Hn2).
        exists sdl', s2. split; [exact E2|]. split; [|assumption]. eapply incl_seq; eassumption.
  Qed.

  Definition ppart (m : list (string * val)) : list val :=
    flat_map (fun kv => if reserved c (fst kv) then [] else collect D 0 (snd kv)) m.

  Lemma run_plain_total m : Forall (fun kv => T0 (snd kv)) m -> forallb (fun kv => wfb (snd kv)) m = true ->
      Forall okc (map (fun kv => if reserved c (fst kv) then ONone else OVal (R (snd kv))) m) ->
      forall taken acc s, NoDup (names c m) -> (forall k, In k (names c m) -> ~ In k taken) -> NoDup (ppart m ++ s) ->
      exists pl s', run_plain (flat_map (fun kv => if reserved c (fst kv) then [] else [(fst kv, W (snd kv))]) m) taken acc s
                    = WOk (pl, s') /\ fine s s' (ppart m).
  Proof.
    induction 1 as [|[k x] r Hx Hr IH]; intros Hw Hok taken acc s Hnn Hdis Hn.
    - exists acc, s. split; [reflexivity|apply fine_nil; assumption].
    - cbn in Hw. apply andb_true_iff in Hw as [Hwx Hwr]. cbn [map fst snd] in Hok. inversion Hok as [|? ? Hokx Hokr]; subst.
      unfold names in Hnn, Hdis. unfold ppart in Hn |- *. cbn [flat_map map fst snd filter] in *.
      destruct (reserved c k) eqn:Er; cbn [negb app] in *.
      + apply (IH Hwr Hokr taken acc s Hnn Hdis Hn).
      + cbn in Hx. cbn in Hokx.
        assert (HokR : is_ok (R x) = true). { destruct (R x); cbn in Hokx; try contradiction; reflexivity. }
        destruct (Hx s Hwx HokR (nd_first _ _ _ Hn)) as (y & s1 & E1 & Hi1 & Hn1).
        inversion Hnn as [|? ? Hk Hnr]; subst.
        assert (Hm : mems k taken = false).
        { destruct (mems k taken) eqn:Em; [|reflexivity]. apply mems_In in Em. exfalso. apply (Hdis k); [left; reflexivity|assumption]. }
        destruct (IH Hwr Hokr (k :: taken) (if is_null y then acc else acc ++ [(k, y)]) s1 Hnr) as (pl & s2 & E2 & Hi2 & Hn2).
        { intros k' Hk' [<-|Hin]; [contradiction|]. apply (Hdis k'); [right; assumption|assumption]. }
        { apply (nd_rest _ _ _ _ Hn Hi1 Hn1). }
        cbn. rewrite E1, Hm. exists pl, s2. split; [exact E2|]. split; [|assumption]. eapply incl_seq; eassumption.
  Qed.

  Lemma Q3_of x : Q3 c D x.
  Proof. apply (walk_agrees_P c D x). Qed.

  Lemma walk_total_P v : PT v.
  Proof.
    induction v as [| b | z | st | a c0 e sa n v IH | l IH | m IH] using val_ind'.
    - split; [|split; [|split]].
      + intros s _ _ Hn. exists VNull, s. split; [reflexivity|apply fine_nil; assumption].
      + intros ctx s _ Hs. discriminate.
      + intros s _ _ Hn. exists (Some VNull), s. split; [reflexivity|apply fine_nil; assumption].
      + intros s sdl _ _ _ Hn. exists [], s. split; [reflexivity|apply fine_nil; assumption].
    - split; [|split; [|split]].
      + intros s _ _ Hn. exists (VBool b), s. split; [reflexivity|apply fine_nil; assumption].
      + intros ctx s _ Hs. discriminate.
      + intros s _ _ Hn. exists (Some (VBool b)), s. split; [reflexivity|apply fine_nil; assumption].
      + intros s sdl _ H. discriminate.
    - split; [|split; [|split]].
      + intros s _ _ Hn. exists (VNum z), s. split; [reflexivity|apply fine_nil; assumption].
      + intros ctx s _ Hs. discriminate.
      + intros s _ _ Hn. exists (Some (VNum z)), s. split; [reflexivity|apply fine_nil; assumption].
      + intros s sdl _ H. discriminate.
    - (* VStr *) split; [|split; [|split]].
      + intros s _ _ Hn. exists (VStr st), s. split; [reflexivity|apply fine_nil; assumption].
      + intros ctx s Hc _ _ _ Hn. cbn [collect] in *. apply N.eqb_neq in Hc. rewrite Hc in *. cbn in Hn.
        unfold wenter. inversion Hn as [|? ? Hx Hr]; subst.
        destruct (memv (VStr st) s) eqn:Em; [apply memv_In in Em; contradiction|].
        exists None, (VStr st :: s). split; [reflexivity|]. split; [apply incl_refl|assumption].
      + intros s _ _ Hn. exists (Some (VStr st)), s. split; [reflexivity|apply fine_nil; assumption].
      + intros s sdl _ H. discriminate.
    - (* VDig *) destruct IH as [IH0 _]. split; [|split; [|split]].
      + intros s _ _ Hn. exists (VDig a c0 e sa n v), s. split; [reflexivity|apply fine_nil; assumption].
      + intros ctx s Hc _ Hw Hok Hn. cbn [collect] in *. apply N.eqb_neq in Hc. rewrite Hc in *. cbn [app] in Hn.
        cbn in Hw. unfold wenter. unfold enter in Hok. inversion Hn as [|? ? Hx Hr]; subst.
        destruct (memv (VDig a c0 e sa n v) s) eqn:Em.
        { apply memv_In in Em. exfalso. apply Hx. apply in_or_app; right; assumption. }
        destruct (memv (VDig a c0 e sa n v) D); cbn [andb] in *.
        * destruct (N.eqb e ctx); cbn in Hok; [|contradiction].
          assert (HokR : is_ok (R v) = true). { destruct (R v); cbn in Hok; try contradiction; reflexivity. }
          destruct (IH0 (VDig a c0 e sa n v :: s) Hw HokR) as (y & s2 & E2 & Hi2 & Hn2).
          { eapply Permutation_NoDup; [apply Permutation_middle|]. exact Hn. }
          rewrite E2. exists (Some y), s2. split; [reflexivity|]. split; [|assumption].
          intros x Hin. apply Hi2 in Hin. apply in_app_or in Hin as [Hin|[<-|Hin]].
          -- right. apply in_or_app; left; assumption.
          -- left; reflexivity.
          -- right. apply in_or_app; right; assumption.
        * exists None, (VDig a c0 e sa n v :: s). split; [reflexivity|]. split; [apply incl_refl|assumption].
      + intros s _ _ Hn. exists (Some (VDig a c0 e sa n v)), s. split; [reflexivity|apply fine_nil; assumption].
      + intros s sdl _ H. discriminate.
    - (* VArr *) split; [|split; [|split]].
      + intros s Hw Hok Hn. cbn in Hw. cbn [resolve] in Hok.
        change (collect D 0 (VArr l)) with (flat_map (celem D) l) in *.
        assert (HT2 : Forall T2 l). { eapply Forall_impl; [|exact IH]. intros x Hx. apply Hx. }
        assert (Hoks : Forall okc (map (elem_outcome R c D) l)).
        { apply seq_elems_okc. destruct (seq_elems (map (elem_outcome R c D) l)); cbn in Hok; try discriminate; reflexivity. }
        destruct (run_elems_total l HT2 Hw Hoks s Hn) as (l' & s' & E & Hf).
        cbn [walk]. rewrite E. exists (arr_or_null l'), s'. split; [reflexivity|exact Hf].
      + intros ctx s _ Hs. discriminate.
      + intros s _ _ Hn. exists (Some (VArr l)), s. split; [reflexivity|apply fine_nil; assumption].
      + intros s sdl Hw Hsd Hnn Hn. cbn in Hw. cbn [sd_outcome] in Hsd. cbn [wsd]. cbn [csd] in *.
        destruct (forallb is_string l) eqn:Ef; [|discriminate].
        assert (HT1 : Forall T1 l). { eapply Forall_impl; [|exact IH]. intros x Hx. apply Hx. }
        apply (run_sd_total l HT1 Hw Ef [] sdl s Hsd); [cbn; apply nodups_ND; assumption|assumption].
    - (* VObj *) split; [|split; [|split]].
      + intros s Hw Hok Hn. cbn in Hw. apply andb_true_iff in Hw as [Hk Hw]. cbn [resolve] in Hok.
        assert (HT0 : Forall (fun kv => T0 (snd kv)) m). { eapply Forall_impl; [|exact IH]. intros kv Hx. apply Hx. }
        set (sdpart := flat_map (fun kv => if String.eqb (fst kv) SD then csd D (snd kv) else []) m) in *.
        set (plain' := flat_map (fun kv => if String.eqb (fst kv) SD then [] else collect D 0 (snd kv)) m) in *.
        assert (HP : Permutation (collect D 0 (VObj m)) (plain' ++ sdpart)).
        { apply (flat_map_split (fun kv => String.eqb (fst kv) SD) (fun kv => csd D (snd kv)) (fun kv => collect D 0 (snd kv)) m). }
        assert (Hsub : forall kv : string * val,
                   (if reserved c (fst kv) then [] else collect D 0 (snd kv))
                   = (if String.eqb (fst kv) SD then [] else collect D 0 (snd kv))
                   \/ (if reserved c (fst kv) then [] else collect D 0 (snd kv)) = []).
        { intros [k x]. cbn [fst snd]. unfold reserved. destruct (String.eqb k SD); cbn [orb]; [left; reflexivity|].
          destruct (String.eqb k SDALG && c); [right|left]; reflexivity. }
        assert (Hn2 : NoDup ((sdpart ++ ppart m) ++ s)).
        { rewrite <- app_assoc. 
          assert (Hn1 : NoDup (sdpart ++ plain' ++ s)).
          { rewrite app_assoc. eapply Permutation_NoDup; [|exact Hn]. apply Permutation_app_tail.
            eapply perm_trans; [exact HP|apply Permutation_app_comm]. }
          apply NoDup_app_iff in Hn1 as (H1 & H2 & H3). apply NoDup_app_iff. split; [assumption|].
          split; [apply (fm_sub_nd _ _ m s Hsub); assumption|].
          intros x Hx Hin. apply (H3 x Hx). apply in_app_or in Hin as [Hin|Hin]; apply in_or_app; [left|right; assumption].
          apply (fm_sub_incl _ _ m Hsub). assumption. }
        assert (Hback : forall s2, incl s2 ((sdpart ++ ppart m) ++ s) -> incl s2 (collect D 0 (VObj m) ++ s)).
        { intros s2 Hi x Hx. apply Hi in Hx. apply in_app_or in Hx as [Hx|Hx]; [|apply in_or_app; right; assumption].
          apply in_or_app; left. eapply Permutation_in; [apply Permutation_sym; exact HP|].
          apply in_app_or in Hx as [Hx|Hx]; apply in_or_app; [right; assumption|left].
          apply (fm_sub_incl _ _ m Hsub). assumption. }
        (* the layered result, taken apart *)
        destruct (hd (Ok []) (flat_map (fun kv => if String.eqb (fst kv) SD then [sd_outcome R D (snd kv)] else []) m))
          as [s0| | |] eqn:Esd; cbn [bind] in Hok; try discriminate.
        destruct (seq_plain (map (fun kv => (fst kv, if reserved c (fst kv) then ONone else OVal (R (snd kv)))) m))
          as [p0| | |] eqn:Epl; cbn [bind] in Hok; try discriminate.
        destruct (nodups (map fst s0 ++ filter (fun k => negb (reserved c k)) (map fst m))) eqn:End; [|discriminate].
        apply nodups_ND in End. apply NoDup_app_iff in End as (Hs0 & Hnames & Hdis).
        assert (Hoks : Forall okc (map (fun kv => if reserved c (fst kv) then ONone else OVal (R (snd kv))) m)).
        { pose proof (seq_plain_okc _ ltac:(rewrite Epl; reflexivity)) as H. rewrite map_map in H. exact H. }
        (* the "_sd" member *)
        assert (Hsda : exists sdl' s1,
                   hd (fun s => WOk ([], s)) (flat_map (fun kv => if String.eqb (fst kv) SD then [wsd W D (snd kv)] else []) m) s
                   = WOk (sdl', s1) /\ fine s s1 sdpart /\ sdl' = s0).
        { destruct (flat_map_once3 SD (fun kv => wsd W D (snd kv)) (fun kv => sd_outcome R D (snd kv)) (fun kv => csd D (snd kv)) m Hk)
            as [(Ha & Hb & Hc)|[kv (Hin & Hkk & Ha & Hb & Hc)]].
          - rewrite Ha. rewrite Hb in Esd. cbn in Esd. inversion Esd; subst s0. fold sdpart in Hc. rewrite Hc.
            exists [], s. split; [reflexivity|]. split; [|reflexivity]. apply fine_nil.
            rewrite Hc in Hn2. cbn in Hn2. apply NoDup_app_iff in Hn2 as (_ & H2 & _). exact H2.
          - rewrite Ha. rewrite Hb in Esd. cbn [hd] in Esd. fold sdpart in Hc. rewrite Hc.
            rewrite Forall_forall in IH. destruct (IH kv Hin) as (_ & _ & _ & HT3).
            rewrite forallb_forall in Hw.
            assert (Hs0b : nodups (map fst s0) = true). { apply nodups_NoDup'. exact Hs0. }
            destruct (HT3 s s0 (Hw kv Hin) Esd Hs0b) as (sdl' & s1 & E1 & Hf1).
            { rewrite Hc in Hn2. apply (nd_first _ _ _ Hn2). }
            exists sdl', s1. split; [exact E1|]. split; [exact Hf1|].
            destruct (Q3_of (snd kv) _ _ _ E1) as [Hq _]. rewrite Esd in Hq. inversion Hq; reflexivity. }
        destruct Hsda as (sdl' & s1 & E1 & [Hi1 Hn1] & ->).
        destruct (run_plain_total m HT0 Hw Hoks (map fst s0) [] s1 Hnames) as (pl & s2 & E2 & Hi2 & Hnd2).
        { intros k Hk' Hin. apply (Hdis k Hin Hk'). }
        { apply (nd_rest _ _ _ _ Hn2 Hi1 Hn1). }
        cbn [walk]. rewrite E1, E2. exists (VObj (s0 ++ pl)), s2. split; [reflexivity|]. split; [|assumption].
        apply Hback. eapply incl_seq; eassumption.
      + intros ctx s _ Hs. discriminate.
      + intros s Hw Hok Hn. cbn in Hw. apply andb_true_iff in Hw as [Hk Hw]. unfold welem. unfold elem_outcome in Hok.
        cbn [celem] in *.
        destruct (flat_map_once3 DOTS (fun kv => (snd kv, wenter W D 2 (snd kv))) (fun kv => enter R D 2 (snd kv))
                                 (fun kv => collect D 2 (snd kv)) m Hk)
          as [(Ha & Hb & Hc)|[kv (Hin & Hkk & Ha & Hb & Hc)]].
        * rewrite Ha. rewrite Hc in *. exists (Some (VObj m)), s. split; [reflexivity|apply fine_nil; assumption].
        * rewrite Ha. rewrite Hb in Hok. rewrite Hc in *.
          rewrite Forall_forall in IH. destruct (IH kv Hin) as (_ & HT1 & _). rewrite forallb_forall in Hw.
          destruct (is_string (snd kv)) eqn:Es.
          -- assert (Hokg : okc (enter R D 2 (snd kv))).
             { destruct (enter R D 2 (snd kv)) as [|r0]; [exact I|exact Hok]. }
             destruct (HT1 2%N s ltac:(discriminate) Es (Hw kv Hin) Hokg Hn) as (o & s1 & E1 & Hf1).
             rewrite E1. destruct o as [y|]; eexists; exists s1; (split; [reflexivity|exact Hf1]).
          -- exfalso. destruct (snd kv); cbn in Es; try discriminate; cbn in Hok; exact Hok.
      + intros s sdl _ H. discriminate.
  Qed.

  Lemma walk_total v s : wfb v = true -> is_ok (R v) = true -> NoDup (collect D 0 v ++ s) ->
    exists y s', W v s = WOk (y, s') /\ incl s' (collect D 0 v ++ s).
  Proof.
    intros Hw Hok Hn. destruct (proj1 (walk_total_P v) s Hw Hok Hn) as (y & s' & E & Hi & _). exists y, s'. split; assumption.
  Qed.
End Complete.

(* what the layered verifier accepts, the interleaved verifier accepts, with the same output *)
Lemma verify_w_complete vo p out :
  wfb (p_payload p) = true -> verify vo p = Ok out -> verify_w vo p = WOk out.
Proof.
  intros Hwf H. unfold verify in H. unfold verify_w.
  destruct (p_sig_ok p); cbn [negb] in *; [|discriminate].
  destruct (payload_time_ok vo (p_payload p)); cbn [negb] in *; [|discriminate].
  destruct (nodupd (p_discs p)) eqn:Hd; cbn [negb] in *; [|discriminate].
  unfold verify_disclosures in H. unfold verify_disclosures_w.
  destruct (get_alg (p_payload p)) as [a| | |] eqn:Ha; try discriminate. cbn [bind] in H.
  destruct (forallb (fun d => N.leb 2 (d_e d)) (p_discs p)) eqn:Hf; [|discriminate].
  destruct (resolve false (map (digest a) (p_discs p)) (p_payload p)) as [y0| | |] eqn:R0; try discriminate. cbn [bind] in H.
  destruct (nodupv (collect (map (digest a) (p_discs p)) 0 (p_payload p))) eqn:Hnd; [|discriminate].
  destruct (forallb (fun g => memv g (collect (map (digest a) (p_discs p)) 0 (p_payload p))) (map (digest a) (p_discs p))) eqn:Hall;
    [|discriminate].
  cbn [bind] in H.
  destruct (holder_verification vo (p_payload p) (p_hb p)) as [[]| | |] eqn:Hh; try discriminate. cbn [bind] in H.
  apply nodupv_NoDup in Hnd.
  assert (Hn0 : NoDup (collect (map (digest a) (p_discs p)) 0 (p_payload p) ++ [])). { rewrite app_nil_r. exact Hnd. }
  destruct (walk_total false _ _ [] Hwf ltac:(rewrite R0; reflexivity) Hn0) as (y0' & seen & E0 & _).
  rewrite E0.
  destruct (walk_seen _ _ _ _ _ Hwf E0) as [HP _]. rewrite app_nil_r in HP.
  assert (Hall' : forallb (fun g => memv g seen) (map (digest a) (p_discs p)) = true).
  { apply forallb_forall. intros g Hg. rewrite forallb_forall in Hall. specialize (Hall g Hg).
    apply memv_In. apply memv_In in Hall. eapply Permutation_in; [apply Permutation_sym; exact HP|exact Hall]. }
  rewrite Hall'.
  destruct (walk_total true _ _ [] Hwf ltac:(rewrite H; reflexivity) Hn0) as (y1 & s1 & E1 & _).
  rewrite E1. rewrite (walk_ok_resolve _ _ _ _ _ _ E1) in H. inversion H; subst. reflexivity.
Qed.

Lemma verify_w_iff vo p out :
  wfb (p_payload p) = true -> (verify_w vo p = WOk out <-> verify vo p = Ok out).
Proof. intro Hw. split; [apply verify_w_sound|apply verify_w_complete]; assumption. Qed.
