(* C18 — obligations over the tables regenerated from /repo's source on every run (gen/Gen_C18.v, harness/c18gen):
   a change of the order of the verifier's checks, a new comparison or member of the binding JWT, or another key /
   arity constant breaks one of these. *)
From Coq Require Import List String ZArith NArith Bool.
Import ListNotations.
From VF Require Import gen.Gen_C18 C18.Model C18.Walk C18.Proofs C18.Order.
Open Scope string_scope.
Open Scope list_scope.

(* the interleaved model refuses with the class of the FIRST refusing call in the order of the code's calls
   (verifier.Parse with validateIssuerSignedSDJWT in place), and accepts when none refuses *)
Theorem refusal_order_is_the_code's : forall vo p,
  match verify_w vo p with
  | WErr e => first_failure vo p flat_order = Some e
  | WOk _ => first_failure vo p flat_order = None
  end.
Proof. exact verify_w_follows_order. Qed.
Print Assumptions refusal_order_is_the_code's.

Theorem verify_disclosures_order_is_the_code's :
  g_verify_disclosures_calls = ["GetCryptoHashFromClaims"; "getDisclosureClaims"; "discloseClaimValue"].
Proof. exact verify_disclosures_order. Qed.
Print Assumptions verify_disclosures_order_is_the_code's.

(* the model's nonce / audience test is the generated list of comparisons, for the v5 key binding and the v2 holder
   binding alike (key, algorithm and iat being right) *)
Theorem binding_checks_are_the_code's : forall checks vo payload h,
  checks = g_kb_checks_v5 \/ checks = g_kb_checks_v2 ->
  get_cnf_key payload = Ok (hb_key h) -> hb_ok h = true ->
  time_ok (vo_now vo) (vo_leeway vo) (hb_iat h) None None = true ->
  (holder_verification vo payload (Some h) = Ok tt <-> forallb (check_pass vo h) checks = true).
Proof. exact binding_follows_checks. Qed.
Print Assumptions binding_checks_are_the_code's.

(* the binding payload has the members nonce, aud, iat in both versions (no hash of the disclosures), the decoder's
   two error checks are the only other top-level tests, kb+jwt selects the v5 form *)
Theorem binding_tables_are_the_code's :
  g_kb_typ = "kb+jwt" /\ g_kb_members_v5 = ["nonce"; "aud"; "iat"] /\ g_kb_members_v2 = ["nonce"; "aud"; "iat"] /\
  g_kb_other_ifs_v5 = 2%N /\ g_kb_other_ifs_v2 = 2%N /\
  g_holder_calls = ["getSignatureVerifier"; "afgjwt.Parse"; "afgjwt.WithSignatureVerifier"; "verifyHolderVerificationJWT"] /\
  g_holder_jwt_calls = ["common.VerifySigningAlg"; "common.VerifyJWT"; "verifyKeyBindingJWT"; "verifyHolderBindingJWT"].
Proof. exact binding_tables. Qed.
Print Assumptions binding_tables_are_the_code's.

Theorem layout_constants_are_the_code's :
  SD = g_sd_key /\ SDALG = g_sd_alg_key /\ DOTS = g_array_digest_key /\ "cnf" = g_cnf_key /\ g_separator = "~" /\
  g_arity_array = 2%N /\ g_arity_sd = 3%N /\ g_positions = [0; 1; 1; 2]%N.
Proof. exact layout_constants. Qed.
Print Assumptions layout_constants_are_the_code's.

Example refusal_order_example :
  flat_order = ["afgjwt.Parse"; "afgjwt.WithSignatureVerifier"; "afgjwt.WithJWTDetachedPayload"; "common.VerifySigningAlg";
                "common.VerifyJWT"; "checkForDuplicates"; "common.VerifyDisclosuresInSDJWT"; "common.VerifyTyp";
                "runHolderVerification"; "common.GetCryptoHashFromClaims"; "getDisclosedClaims"].
Proof. reflexivity. Qed.
