(* C18 — the interleaved walk (Walk.v) against the layered model (Model.v): whatever the interleaved walk returns
   without error, the layered [resolve] returns as well; hence every acceptance theorem's statement about the OUTPUT
   is a statement about what the interleaved verifier outputs. *)
From Coq Require Import List String ZArith NArith Bool Lia.
Import ListNotations.
From VF Require Import C18.Model C18.Walk C18.Proofs.
Open Scope string_scope.
Open Scope list_scope.

Definition oc (o : option val) : outcome := match o with Some y => OVal (Ok y) | None => ONone end.

Section Agree.
  Variable c : bool.
  Variable D : list val.

  Definition Q0 (v : val) := forall s y s', walk c D v s = WOk (y, s') -> resolve c D v = Ok y.
  Definition Q1 (g : val) := forall ctx s o s',
      is_string g = true -> wenter (walk c D) D ctx g s = WOk (o, s') -> enter (resolve c D) D ctx g = oc o.
  Definition Q2 (x : val) := forall s o s',
      welem (walk c D) c D x s = WOk (o, s') -> elem_outcome (resolve c D) c D x = oc o.
  Definition Q3 (x : val) := forall s sdl s',
      wsd (walk c D) D x s = WOk (sdl, s') -> sd_outcome (resolve c D) D x = Ok sdl /\ nodups (map fst sdl) = true.
  Definition PW (v : val) := Q0 v /\ Q1 v /\ Q2 v /\ Q3 v.

  Lemma mems_app k l1 l2 : mems k (l1 ++ l2) = mems k l1 || mems k l2.
  Proof. induction l1 as [|x r IH]; cbn; [reflexivity|]. rewrite IH, orb_assoc. reflexivity. Qed.

  Lemma nodups_snoc l n : nodups l = true -> mems n l = false -> nodups (l ++ [n]) = true.
  Proof.
    induction l as [|x r IH]; cbn; [reflexivity|]. intros H1 H2.
    apply andb_true_iff in H1 as [Hx Hr]. apply orb_false_iff in H2 as [Hn Hm].
    rewrite mems_app. cbn [mems]. rewrite (String.eqb_sym x n), Hn. cbn [orb]. rewrite orb_false_r, Hx. cbn [andb].
    apply IH; assumption.
  Qed.

  (* the first member of a given name, seen by two flat_maps at once *)
  Lemma first_member {A B} (K : string) (f : string * val -> A) (h : string * val -> B) (m : list (string * val)) :
    (flat_map (fun kv => if String.eqb (fst kv) K then [f kv] else []) m = [] /\
     flat_map (fun kv => if String.eqb (fst kv) K then [h kv] else []) m = []) \/
    exists kv r1 r2, In kv m /\
      flat_map (fun kv => if String.eqb (fst kv) K then [f kv] else []) m = f kv :: r1 /\
      flat_map (fun kv => if String.eqb (fst kv) K then [h kv] else []) m = h kv :: r2.
  Proof.
    induction m as [|kv r IH]; [left; split; reflexivity|]. cbn.
    destruct (String.eqb (fst kv) K).
    - right. exists kv. eexists. eexists. split; [left; reflexivity|]. split; reflexivity.
    - destruct IH as [[H1 H2]|[kv' [r1 [r2 [Hin [H1 H2]]]]]]; [left; split; assumption|].
      right. exists kv', r1, r2. split; [right; assumption|]. split; assumption.
  Qed.

  Lemma run_elems_ok l : Forall Q2 l -> forall s l' s',
      run_elems (map (welem (walk c D) c D) l) s = WOk (l', s') ->
      seq_elems (map (elem_outcome (resolve c D) c D) l) = Ok l'.
  Proof.
    induction 1 as [|x r Hx Hr IH]; intros s l' s' H; cbn in H.
    - inversion H; subst. reflexivity.
    - destruct (welem (walk c D) c D x s) as [[o s1]|] eqn:E1; [|discriminate].
      destruct (run_elems (map (welem (walk c D) c D) r) s1) as [[t s2]|] eqn:E2; [|discriminate].
      inversion H; subst. cbn. rewrite (Hx _ _ _ E1), (IH _ _ _ E2). destruct o; reflexivity.
  Qed.

  Lemma run_sd_ok gl : Forall Q1 gl -> forallb is_string gl = true -> forall acc s sdl s',
      run_sd (map (fun g => (dig_name g, wenter (walk c D) D 3 g)) gl) acc s = WOk (sdl, s') ->
      nodups (map fst acc) = true ->
      exists t, seq_named (map (fun g => (dig_name g, enter (resolve c D) D 3 g)) gl) = Ok t /\ sdl = acc ++ t /\
                nodups (map fst sdl) = true.
  Proof.
    induction 1 as [|g r Hg Hr IH]; intros Hs acc s sdl s' H Hn; cbn in H.
    - inversion H; subst. exists []. rewrite app_nil_r. repeat split; assumption.
    - cbn in Hs. apply andb_true_iff in Hs as [Hsg Hsr].
      destruct (wenter (walk c D) D 3 g s) as [[o s1]|] eqn:E1; [|discriminate].
      pose proof (Hg _ _ _ _ Hsg E1) as He. cbn. rewrite He.
      destruct o as [y|]; cbn.
      + destruct (mems (dig_name g) (map fst acc)) eqn:Em; [discriminate|].
        assert (Hn' : nodups (map fst (acc ++ [(dig_name g, y)])) = true).
        { rewrite map_app. cbn. apply nodups_snoc; assumption. }
        destruct (IH Hsr _ _ _ _ H Hn') as [t [Ht [Heq Hnd]]]. rewrite Ht. cbn.
        exists ((dig_name g, y) :: t). split; [reflexivity|]. split; [|assumption].
        rewrite Heq, <- app_assoc. reflexivity.
      + destruct (IH Hsr _ _ _ _ H Hn) as [t [Ht [Heq Hnd]]]. exists t. repeat split; assumption.
  Qed.

  Definition names (m : list (string * val)) : list string := filter (fun k => negb (reserved c k)) (map fst m).

  Lemma run_plain_ok m : Forall (fun kv => Q0 (snd kv)) m -> forall taken acc s pl s',
      run_plain (flat_map (fun kv => if reserved c (fst kv) then [] else [(fst kv, walk c D (snd kv))]) m) taken acc s
        = WOk (pl, s') ->
      exists p, seq_plain (map (fun kv => (fst kv, if reserved c (fst kv) then ONone else OVal (resolve c D (snd kv)))) m) = Ok p /\
                pl = acc ++ p /\
                forall L, nodups L = true -> (forall k, mems k L = true -> mems k taken = true) -> nodups (L ++ names m) = true.
  Proof.
    induction 1 as [|[k x] r Hx Hr IH]; intros taken acc s pl s' H.
    - cbn in H. inversion H; subst. exists []. rewrite app_nil_r. split; [reflexivity|]. split; [reflexivity|].
      intros L HL _. unfold names. cbn. rewrite app_nil_r. assumption.
    - cbn [flat_map fst snd] in H. unfold names. cbn [map fst snd filter].
      destruct (reserved c k) eqn:Er; cbn [negb app] in *.
      + destruct (IH _ _ _ _ _ H) as [p [Hp [Heq HL]]]. exists p. split; [cbn; assumption|]. split; assumption.
      + cbn in H. destruct (walk c D x s) as [[y s1]|] eqn:E1; [|discriminate].
        destruct (mems k taken) eqn:Em; [discriminate|].
        destruct (IH _ _ _ _ _ H) as [p [Hp [Heq HL]]].
        exists (if is_null y then p else (k, y) :: p). split; [|split].
        * cbn. cbn in Hx. rewrite (Hx _ _ _ E1). cbn. rewrite Hp. cbn. reflexivity.
        * rewrite Heq. destruct (is_null y); [reflexivity|]. rewrite <- app_assoc. reflexivity.
        * intros L HnL Hsub.
          assert (HkL : mems k L = false).
          { destruct (mems k L) eqn:E; [|reflexivity]. apply Hsub in E. congruence. }
          specialize (HL (L ++ [k]) (nodups_snoc _ _ HnL HkL)).
          rewrite <- app_assoc in HL. cbn in HL. apply HL.
          intros k' Hk'. rewrite mems_app in Hk'. cbn in Hk'. cbn.
          apply orb_true_iff in Hk' as [Hk'|Hk']; [rewrite (Hsub _ Hk'); apply orb_true_r|].
          rewrite orb_false_r in Hk'. rewrite Hk'. reflexivity.
  Qed.

  Ltac base_case :=
    split; [ intros s y s' H; cbn in H; inversion H; subst; reflexivity
           | split; [ intros ctx s o s' Hs H; cbn in Hs; first [ discriminate
                                       | unfold wenter in H; destruct (memv _ s); [discriminate|]; inversion H; subst; reflexivity ]
                    | split; [ intros s o s' H; cbn in H; inversion H; subst; reflexivity
                             | intros s sdl s' H; cbn in H; try discriminate; inversion H; subst; split; reflexivity ] ] ].

  Lemma walk_agrees_P v : PW v.
  Proof.
    induction v as [| b | z | st | a c0 e sa n v IH | l IH | m IH] using val_ind'.
    - base_case. - base_case. - base_case. - base_case.
    - (* VDig *)
      destruct IH as [IH0 _]. split; [|split; [|split]].
      + intros s y s' H; cbn in H; inversion H; subst; reflexivity.
      + intros ctx s o s' _ H. unfold wenter in H. unfold enter.
        destruct (memv (VDig a c0 e sa n v) s); [discriminate|].
        destruct (memv (VDig a c0 e sa n v) D).
        * destruct (N.eqb e ctx); [|discriminate].
          destruct (walk c D v (VDig a c0 e sa n v :: s)) as [[y s2]|] eqn:E; [|discriminate].
          inversion H; subst. rewrite (IH0 _ _ _ E). reflexivity.
        * inversion H; subst. reflexivity.
      + intros s o s' H; cbn in H; inversion H; subst; reflexivity.
      + intros s sdl s' H; cbn in H; discriminate.
    - (* VArr *)
      split; [|split; [|split]].
      + intros s y s' H. cbn in H.
        destruct (run_elems (map (welem (walk c D) c D) l) s) as [[l' s1]|] eqn:E; [|discriminate].
        inversion H; subst. cbn.
        assert (HQ2 : Forall Q2 l). { eapply Forall_impl; [|exact IH]. intros x Hx. apply Hx. }
        rewrite (run_elems_ok l HQ2 _ _ _ E). reflexivity.
      + intros ctx s o s' Hs _. cbn in Hs. discriminate.
      + intros s o s' H; cbn in H; inversion H; subst; reflexivity.
      + intros s sdl s' H. cbn in H. cbn.
        destruct (forallb is_string l) eqn:Ef; [|discriminate].
        assert (HQ1 : Forall Q1 l). { eapply Forall_impl; [|exact IH]. intros x Hx. apply Hx. }
        destruct (run_sd_ok l HQ1 Ef [] s sdl s' H eq_refl) as [t [Ht [Heq Hn]]].
        cbn in Heq. subst. split; assumption.
    - (* VObj *)
      split; [|split; [|split]].
      + intros s y s' H. cbn [walk] in H. cbn [resolve].
        assert (HQ0 : Forall (fun kv => Q0 (snd kv)) m). { eapply Forall_impl; [|exact IH]. intros kv Hx. apply Hx. }
        assert (Hsd : forall s0 sdl s1,
                   hd (fun s => WOk ([], s))
                      (flat_map (fun kv => if String.eqb (fst kv) SD then [wsd (walk c D) D (snd kv)] else []) m) s0 = WOk (sdl, s1) ->
                   hd (Ok []) (flat_map (fun kv => if String.eqb (fst kv) SD then [sd_outcome (resolve c D) D (snd kv)] else []) m) = Ok sdl
                   /\ nodups (map fst sdl) = true).
        { intros s0 sdl s1 Hh.
          destruct (first_member SD (fun kv => wsd (walk c D) D (snd kv)) (fun kv => sd_outcome (resolve c D) D (snd kv)) m)
            as [[H1 H2]|[kv [r1 [r2 [Hin [H1 H2]]]]]].
          - rewrite H1 in Hh. rewrite H2. cbn in *. inversion Hh; subst. split; reflexivity.
          - rewrite H1 in Hh. rewrite H2. cbn [hd] in *.
            rewrite Forall_forall in IH. destruct (IH kv Hin) as (_ & _ & _ & HQ3). apply (HQ3 _ _ _ Hh). }
        destruct (hd (fun s => WOk ([], s))
                     (flat_map (fun kv => if String.eqb (fst kv) SD then [wsd (walk c D) D (snd kv)] else []) m) s)
          as [[sdl s1]|] eqn:E1; [|discriminate].
        destruct (Hsd _ _ _ E1) as [Hsdl Hnd]. rewrite Hsdl. cbn [bind].
        destruct (run_plain _ (map fst sdl) [] s1) as [[pl s2]|] eqn:E2; [|discriminate].
        inversion H; subst.
        destruct (run_plain_ok m HQ0 _ _ _ _ _ E2) as [p [Hp [Heq HL]]]. cbn in Heq. subst pl.
        rewrite Hp. cbn [bind].
        specialize (HL (map fst sdl) Hnd (fun k Hk => Hk)). unfold names in HL. rewrite HL. reflexivity.
      + intros ctx s o s' Hs _. cbn in Hs. discriminate.
      + intros s o s' H. unfold welem in H. unfold elem_outcome.
        destruct (first_member DOTS (fun kv => (snd kv, wenter (walk c D) D 2 (snd kv)))
                               (fun kv => enter (resolve c D) D 2 (snd kv)) m)
          as [[H1 H2]|[kv [r1 [r2 [Hin [H1 H2]]]]]].
        * rewrite H1 in H. rewrite H2. inversion H; subst. reflexivity.
        * rewrite H1 in H. rewrite H2.
          destruct (is_string (snd kv)) eqn:Es; [|discriminate].
          destruct (wenter (walk c D) D 2 (snd kv) s) as [[o1 s1]|] eqn:E; [|discriminate].
          rewrite Forall_forall in IH. destruct (IH kv Hin) as (_ & HQ1 & _).
          rewrite (HQ1 _ _ _ _ Es E).
          destruct o1 as [y1|]; inversion H; subst; cbn; [reflexivity|]. destruct c; reflexivity.
      + intros s sdl s' H; cbn in H; discriminate.
  Qed.

  Lemma walk_ok_resolve v s y s' : walk c D v s = WOk (y, s') -> resolve c D v = Ok y.
  Proof. apply (proj1 (walk_agrees_P v)). Qed.
End Agree.

(* what the interleaved verifier outputs is what the layered output pass gives *)
Lemma verify_w_output vo p out :
  verify_w vo p = WOk out ->
  exists a, get_alg (p_payload p) = Ok a /\ resolve true (map (digest a) (p_discs p)) (p_payload p) = Ok out /\
            resolve false (map (digest a) (p_discs p)) (p_payload p) <> Err EInvalid /\
            p_sig_ok p = true /\ payload_time_ok vo (p_payload p) = true /\ NoDup (p_discs p) /\
            holder_verification vo (p_payload p) (p_hb p) = Ok tt /\
            Forall (fun d => (2 <= d_e d)%N) (p_discs p).
Proof.
  unfold verify_w.
  destruct (p_sig_ok p); cbn [negb]; [|discriminate].
  destruct (payload_time_ok vo (p_payload p)); cbn [negb]; [|discriminate].
  destruct (nodupd (p_discs p)) eqn:Hd; cbn [negb]; [|discriminate].
  unfold verify_disclosures_w.
  destruct (get_alg (p_payload p)) as [a| | |] eqn:Ha; try discriminate.
  destruct (forallb (fun d => N.leb 2 (d_e d)) (p_discs p)) eqn:Hf; [|discriminate].
  destruct (walk false (map (digest a) (p_discs p)) (p_payload p) []) as [[y0 seen]|] eqn:E0; [|discriminate].
  destruct (forallb (fun g => memv g seen) (map (digest a) (p_discs p))); [|discriminate].
  destruct (holder_verification vo (p_payload p) (p_hb p)) as [[]| | |] eqn:Hh; try discriminate.
  destruct (walk true (map (digest a) (p_discs p)) (p_payload p) []) as [[y1 s1]|] eqn:E1; [|discriminate].
  intro H. inversion H; subst. exists a.
  split; [reflexivity|]. split; [eapply walk_ok_resolve; eassumption|].
  split; [rewrite (walk_ok_resolve _ _ _ _ _ _ E0); discriminate|].
  repeat split; try reflexivity.
  - apply nodupd_NoDup; assumption.
  - apply Forall_forall. intros d Hin. rewrite forallb_forall in Hf. apply N.leb_le. apply Hf; assumption.
Qed.
