(* C18 — the verifier ACCEPTS an honest presentation of an issued SD-JWT (VerifyDisclosuresInSDJWT passes):
   every digest string is met once, every presented disclosure is reached. *)
From Coq Require Import List String ZArith NArith Bool Lia Permutation.
Import ListNotations.
From VF Require Import C18.Model C18.Proofs C18.Exact.
Open Scope string_scope.
Open Scope list_scope.

Definition sal (g : val) : path := match g with VDig _ _ _ s _ _ => s | _ => [] end.

Lemma collect_obj_eq D m :
  collect D 0 (VObj m) =
  flat_map (fun kv : string * val => if String.eqb (fst kv) SD
                      then match snd kv with VArr gl => flat_map (collect D 3) gl | _ => [] end
                      else collect D 0 (snd kv)) m.
Proof. reflexivity. Qed.

Lemma collect_arr_eq D l :
  collect D 0 (VArr l) =
  flat_map (fun x => match x with
                     | VObj m => flat_map (fun kv : string * val => if String.eqb (fst kv) DOTS then collect D 2 (snd kv) else []) m
                     | _ => []
                     end) l.
Proof. reflexivity. Qed.

Lemma flat_map_nil {A B} (f : A -> list B) l : (forall x, In x l -> f x = []) -> flat_map f l = [].
Proof. induction l as [|x r IH]; intro H; [reflexivity|]. cbn. rewrite (H x (or_introl eq_refl)), IH; [reflexivity|]. intros y Hy. apply H. right; assumption. Qed.

Lemma collect_clean D v : clean v = true -> collect D 0 v = [].
Proof.
  induction v as [| b | z | s | a c e s n v IH | l IH | m IH] using val_ind'; intro Hc; try reflexivity; try discriminate.
  - rewrite collect_arr_eq. apply flat_map_nil. intros x Hx. cbn in Hc. apply andb_true_iff in Hc as [_ Hc].
    rewrite forallb_forall in Hc. specialize (Hc x Hx). destruct x; try reflexivity.
    apply flat_map_nil. intros [k y] Hy. cbn [fst snd]. cbn in Hc. apply andb_true_iff in Hc as [_ Hc].
    rewrite forallb_forall in Hc. specialize (Hc (k, y) Hy). cbn [fst snd] in Hc. apply andb_true_iff in Hc as [Hk _].
    apply negb_true_iff in Hk. unfold resv in Hk. apply orb_false_iff in Hk as [_ Hk]. rewrite Hk. reflexivity.
  - rewrite collect_obj_eq. apply flat_map_nil. intros [k y] Hy. cbn [fst snd].
    destruct (clean_obj_inv m Hc) as [_ Hm]. rewrite forallb_forall in Hm. specialize (Hm (k, y) Hy). cbn [fst snd] in Hm.
    apply andb_true_iff in Hm as [Hk Hcy]. apply negb_true_iff in Hk. unfold resv in Hk.
    apply orb_false_iff in Hk as [Hk _]. apply orb_false_iff in Hk as [Hk _]. rewrite Hk.
    rewrite Forall_forall in IH. exact (IH (k, y) Hy Hcy).
Qed.

Lemma collect_members_nosd D ms :
  (forall kv, In kv ms -> String.eqb (fst kv) SD = false) ->
  flat_map (fun kv : string * val => if String.eqb (fst kv) SD
                      then match snd kv with VArr gl => flat_map (collect D 3) gl | _ => [] end
                      else collect D 0 (snd kv)) ms
  = flat_map (fun kv => collect D 0 (snd kv)) ms.
Proof.
  induction ms as [|kv r IH]; intro H; [reflexivity|]. cbn. rewrite (H kv (or_introl eq_refl)), IH; [reflexivity|].
  intros x Hx. apply H. right; assumption.
Qed.

Section Acc.
  Variables (a : N) (D : list val) (ALL : list disc).
  Hypothesis Hnd : Dnodecoy D.
  (* parent closure: an issued disclosure whose site lies above the site of a presented one is presented *)
  Hypothesis Hclosed : forall d0 d', In d0 ALL -> In d' ALL -> In (digest a d') D ->
                         (exists s r, d_salt d' = d_salt d0 ++ s :: r) -> In (digest a d0) D.

  Definition Cv (t : triple) : list val := flat_map (fun kv => collect D 0 (snd kv)) (t_vis t).
  Definition Cs (t : triple) : list val := flat_map (collect D 3) (map (digest a) (t_lvl t)).

  (* the digest strings met below a member at [cur], and the disclosures nested there *)
  Definition block_ok (cur : path) (LV : list val) (nst : list disc) : Prop :=
    (forall g, In g LV -> exists s r, sal g = cur ++ s :: r) /\ NoDup LV /\
    (forall d, In d nst -> In (digest a d) D -> In (digest a d) LV) /\
    (forall d, In d nst -> exists s r, d_salt d = cur ++ s :: r) /\
    NoDup (map d_salt nst).

  Definition col_ok (p : path) (t : triple) (K : list string) : Prop :=
    (forall g, In g (Cv t ++ Cs t) -> exists k r, In k K /\ sal g = p ++ SKey k :: r) /\
    (NoDup K -> NoDup (Cv t ++ Cs t)) /\
    (forall d, In d (t_lvl t ++ t_nst t) -> In (digest a d) D -> In (digest a d) (Cv t ++ Cs t)) /\
    (forall d, In d (t_lvl t ++ t_nst t) -> exists k r, In k K /\ d_salt d = p ++ SKey k :: r) /\
    (NoDup K -> NoDup (map d_salt (t_lvl t ++ t_nst t))).

  Lemma col_ok_nil p : col_ok p ([], [], []) [].
  Proof. repeat split; cbn; try tauto; intros _; constructor. Qed.

  Lemma block_raw cur : block_ok cur [] [].
  Proof. repeat split; try (intros ? []); constructor. Qed.

  Lemma path_ext_neq (p : path) s r : p ++ s :: r <> p.
  Proof. intro H. rewrite <- (app_nil_r p) in H at 2. apply app_inv_head in H. discriminate. Qed.

  Lemma NoDup_app_intro {A} (l1 l2 : list A) : NoDup l1 -> NoDup l2 -> (forall x, In x l1 -> ~ In x l2) -> NoDup (l1 ++ l2).
  Proof.
    intros H1 H2 H3. induction l1 as [|x r IH]; [assumption|]. inversion H1; subst. cbn. constructor.
    - intro Hin. apply in_app_or in Hin as [Hin|Hin]; [contradiction|]. exact (H3 x (or_introl eq_refl) Hin).
    - apply IH; [assumption|]. intros y Hy. apply H3. right; assumption.
  Qed.

  (* a member whose value is visible *)
  Lemma cstep_vis p k xv LV nstk t K :
    collect D 0 xv = LV -> block_ok (p ++ [SKey k]) LV nstk -> col_ok p t K ->
    col_ok p ((k, xv) :: t_vis t, t_lvl t, nstk ++ t_nst t) (k :: K).
  Proof.
    intros HL (B1 & B2 & B3 & B4 & B5) (C1 & C2 & C3 & C4 & C5). unfold col_ok, Cv, Cs in *. cbn [t_vis t_lvl t_nst fst snd flat_map] in *.
    rewrite HL, <- app_assoc. repeat split.
    - intros g Hg. apply in_app_or in Hg as [Hg|Hg].
      + destruct (B1 g Hg) as (s & r & E). exists k, (s :: r). split; [left; reflexivity|]. rewrite E, <- app_assoc. reflexivity.
      + destruct (C1 g Hg) as (k' & r & Hk' & E). exists k', r. split; [right; assumption|assumption].
    - intro HK. inversion HK; subst. apply NoDup_app_intro; [assumption|apply C2; assumption|].
      intros g Hg1 Hg2. destruct (B1 g Hg1) as (s & r & E1). destruct (C1 g Hg2) as (k' & r' & Hk' & E2).
      rewrite E1, <- app_assoc in E2. apply app_inv_head in E2. cbn in E2. inversion E2; subst. contradiction.
    - intros d Hd HD. rewrite in_app_iff. rewrite !in_app_iff in Hd. destruct Hd as [Hd|[Hd|Hd]].
      + right. apply C3; [rewrite in_app_iff; left; assumption|assumption].
      + left. apply B3; assumption.
      + right. apply C3; [rewrite in_app_iff; right; assumption|assumption].
    - intros d Hd. rewrite !in_app_iff in Hd. destruct Hd as [Hd|[Hd|Hd]].
      + destruct (C4 d) as (k' & r & Hk' & E); [rewrite in_app_iff; left; assumption|]. exists k', r. split; [right|]; assumption.
      + destruct (B4 d Hd) as (s & r & E). exists k, (s :: r). split; [left; reflexivity|]. rewrite E, <- app_assoc. reflexivity.
      + destruct (C4 d) as (k' & r & Hk' & E); [rewrite in_app_iff; right; assumption|]. exists k', r. split; [right|]; assumption.
    - intro HK. inversion HK; subst.
      eapply Permutation_NoDup; [apply Permutation_map; apply Permutation_app_swap_app|].
      rewrite map_app. apply NoDup_app_intro; [assumption|apply C5; assumption|].
      intros q Hq1 Hq2. apply in_map_iff in Hq1 as (d1 & <- & Hd1). apply in_map_iff in Hq2 as (d2 & E & Hd2).
      destruct (B4 d1 Hd1) as (s1 & r1 & E1). destruct (C4 d2 Hd2) as (k' & r' & Hk' & E2).
      rewrite E1, E2, <- app_assoc in E. apply app_inv_head in E. cbn in E. inversion E; subst. contradiction.
  Qed.

  Lemma collect3_mk3 cur k xv :
    collect D 3 (digest a (mk 3 cur k xv)) =
    digest a (mk 3 cur k xv) :: (if memv (digest a (mk 3 cur k xv)) D then collect D 0 xv else []).
  Proof. unfold digest, mk. cbn [collect d_enc d_e d_salt d_name d_val N.eqb Pos.eqb]. rewrite andb_true_r. reflexivity. Qed.

  (* a member that is selectively disclosable: its digest is met; its value is entered iff it is presented *)
  Lemma cstep_sd p k xv LV nstk t K :
    collect D 0 xv = LV -> block_ok (p ++ [SKey k]) LV nstk ->
    In (mk 3 (p ++ [SKey k]) k xv) ALL -> incl nstk ALL ->
    col_ok p t K ->
    col_ok p (t_vis t, mk 3 (p ++ [SKey k]) k xv :: t_lvl t, nstk ++ t_nst t) (k :: K).
  Proof.
    intros HL (B1 & B2 & B3 & B4 & B5) Hin0 Hincl (C1 & C2 & C3 & C4 & C5). unfold col_ok, Cv, Cs in *.
    cbn [t_vis t_lvl t_nst fst snd flat_map map] in *. rewrite collect3_mk3, HL.
    set (g0 := digest a (mk 3 (p ++ [SKey k]) k xv)) in *.
    set (X := if memv g0 D then LV else []).
    set (CV := flat_map (fun kv : string * val => collect D 0 (snd kv)) (fst (fst t))) in *.
    set (CS := flat_map (collect D 3) (map (digest a) (snd (fst t)))) in *.
    assert (HX : forall g, In g X -> In g LV) by (intros g Hg; unfold X in Hg; destruct (memv g0 D); [assumption|contradiction]).
    assert (Hblk : forall g, In g (g0 :: X) -> exists r, sal g = p ++ SKey k :: r).
    { intros g [<-|Hg]; [exists []; reflexivity|]. destruct (B1 g (HX g Hg)) as (s & r & E). exists (s :: r). rewrite E, <- app_assoc. reflexivity. }
    assert (Hperm : Permutation ((g0 :: X) ++ CV ++ CS) (CV ++ (g0 :: X) ++ CS)) by apply Permutation_app_swap_app.
    repeat split.
    - intros g Hg. apply (Permutation_in _ (Permutation_sym Hperm)) in Hg. apply in_app_or in Hg as [Hg|Hg].
      + destruct (Hblk g Hg) as (r & E). exists k, r. split; [left; reflexivity|assumption].
      + destruct (C1 g Hg) as (k' & r & Hk' & E). exists k', r. split; [right; assumption|assumption].
    - intro HK. inversion HK; subst. eapply Permutation_NoDup; [exact Hperm|].
      apply NoDup_app_intro; [|apply C2; assumption|].
      + constructor.
        * intro Hg. destruct (B1 g0 (HX g0 Hg)) as (s & r & E). cbn in E. exact (path_ext_neq _ _ _ (eq_sym E)).
        * unfold X. destruct (memv g0 D); [assumption|constructor].
      + intros g Hg1 Hg2. destruct (Hblk g Hg1) as (r & E1). destruct (C1 g Hg2) as (k' & r' & Hk' & E2).
        rewrite E1 in E2. apply app_inv_head in E2. inversion E2; subst. contradiction.
    - intros d Hd HD. apply (Permutation_in _ Hperm). rewrite in_app_iff. cbn [app In] in Hd. rewrite !in_app_iff in Hd.
      destruct Hd as [<-|[Hd|[Hd|Hd]]].
      + left. left. reflexivity.
      + right. apply C3; [rewrite in_app_iff; left; assumption|assumption].
      + left. right. unfold X.
        assert (Hg0 : In g0 D).
        { apply (Hclosed (mk 3 (p ++ [SKey k]) k xv) d Hin0 (Hincl d Hd) HD). exact (B4 d Hd). }
        apply memv_In in Hg0. rewrite Hg0. apply B3; assumption.
      + right. apply C3; [rewrite in_app_iff; right; assumption|assumption].
    - intros d Hd. cbn [app In] in Hd. rewrite !in_app_iff in Hd. destruct Hd as [<-|[Hd|[Hd|Hd]]].
      + exists k, []. split; [left; reflexivity|reflexivity].
      + destruct (C4 d) as (k' & r & Hk' & E); [rewrite in_app_iff; left; assumption|]. exists k', r. split; [right|]; assumption.
      + destruct (B4 d Hd) as (s & r & E). exists k, (s :: r). split; [left; reflexivity|]. rewrite E, <- app_assoc. reflexivity.
      + destruct (C4 d) as (k' & r & Hk' & E); [rewrite in_app_iff; right; assumption|]. exists k', r. split; [right|]; assumption.
    - intro HK. inversion HK; subst. cbn [app map d_salt mk].
      assert (Hrest : NoDup (map d_salt (snd (fst t) ++ nstk ++ snd t))).
      { eapply Permutation_NoDup; [apply Permutation_map; apply Permutation_app_swap_app|].
        rewrite map_app. apply NoDup_app_intro; [assumption|apply C5; assumption|].
        intros q Hq1 Hq2. apply in_map_iff in Hq1 as (d1 & <- & Hd1). apply in_map_iff in Hq2 as (d2 & E & Hd2).
        destruct (B4 d1 Hd1) as (s1 & r1 & E1). destruct (C4 d2 Hd2) as (k' & r' & Hk' & E2).
        rewrite E1, E2, <- app_assoc in E. apply app_inv_head in E. cbn in E. inversion E; subst. contradiction. }
      constructor; [|exact Hrest].
      intro Hin. apply in_map_iff in Hin as (d & E & Hd). rewrite !in_app_iff in Hd. destruct Hd as [Hd|[Hd|Hd]].
      + destruct (C4 d) as (k' & r & Hk' & E2); [rewrite in_app_iff; left; assumption|]. rewrite E2 in E.
        apply app_inv_head in E. inversion E; subst. contradiction.
      + destruct (B4 d Hd) as (s1 & r1 & E1). rewrite E1 in E. exact (path_ext_neq _ _ _ E).
      + destruct (C4 d) as (k' & r & Hk' & E2); [rewrite in_app_iff; right; assumption|]. rewrite E2 in E.
        apply app_inv_head in E. inversion E; subst. contradiction.
  Qed.

  (* ----- decoys ----- *)
  Lemma decoy_in p n d : In d (decoy_discs p n) -> exists j, (j < n)%nat /\ d = mk 0 (p ++ [SDecoy (N.of_nat j)]) "" VNull.
  Proof.
    induction n as [|k IH]; [intros []|]. cbn [decoy_discs]. intro H. apply in_app_or in H as [H|[<-|[]]].
    - destruct (IH H) as (j & Hj & E). exists j. split; [lia|assumption].
    - exists k. split; [lia|reflexivity].
  Qed.

  Lemma decoys_nodup p n : NoDup (map (digest a) (decoy_discs p n)).
  Proof.
    induction n as [|k IH]; [constructor|]. cbn [decoy_discs]. rewrite map_app. apply NoDup_app_intro; [assumption|repeat constructor; intros []|].
    intros g Hg [<-|[]]. apply in_map_iff in Hg as (d & He & Hd). apply decoy_in in Hd as (j & Hj & ->).
    unfold digest, mk in He. cbn in He. inversion He as [E]. apply app_inv_head in E. inversion E as [E']. apply Nat2N.inj in E'. lia.
  Qed.

  Lemma decoy_salts_nodup p n : NoDup (map d_salt (decoy_discs p n)).
  Proof.
    induction n as [|k IH]; [constructor|]. cbn [decoy_discs]. rewrite map_app. apply NoDup_app_intro; [assumption|repeat constructor; intros []|].
    intros q Hq [<-|[]]. apply in_map_iff in Hq as (d & He & Hd). apply decoy_in in Hd as (j & Hj & ->).
    cbn in He. apply app_inv_head in He. inversion He as [E']. apply Nat2N.inj in E'. lia.
  Qed.

  Lemma decoys_collect p n : flat_map (collect D 3) (map (digest a) (decoy_discs p n)) = map (digest a) (decoy_discs p n).
  Proof.
    induction n as [|k IH]; [reflexivity|]. cbn [decoy_discs]. rewrite !map_app, flat_map_app, IH. f_equal.
    unfold digest, mk. cbn. rewrite andb_false_r. reflexivity.
  Qed.

  Lemma decoys_not_presented p n d : In d (decoy_discs p n) -> ~ In (digest a d) D.
  Proof.
    intros Hd Hin. apply decoy_in in Hd as (j & _ & ->). apply memv_In in Hin. unfold digest, mk in Hin. cbn in Hin.
    rewrite Hnd in Hin. discriminate.
  Qed.

  (* ----- the object written for a level ----- *)
  Lemma level_block cur t K (decs : nat) :
    col_ok cur t K -> NoDup K ->
    block_ok cur (Cv t ++ Cs t ++ map (digest a) (decoy_discs cur decs)) (decoy_discs cur decs ++ t_lvl t ++ t_nst t).
  Proof.
    intros (C1 & C2 & C3 & C4 & C5) HK. repeat split.
    - intros g Hg. rewrite app_assoc in Hg. apply in_app_or in Hg as [Hg|Hg].
      + destruct (C1 g Hg) as (k & r & _ & E). exists (SKey k), r. assumption.
      + apply in_map_iff in Hg as (d & <- & Hd). apply decoy_in in Hd as (j & _ & ->). exists (SDecoy (N.of_nat j)), []. reflexivity.
    - rewrite app_assoc. apply NoDup_app_intro; [apply C2; assumption|apply decoys_nodup|].
      intros g Hg1 Hg2. destruct (C1 g Hg1) as (k & r & _ & E). apply in_map_iff in Hg2 as (d & <- & Hd).
      apply decoy_in in Hd as (j & _ & ->). cbn in E. apply app_inv_head in E. discriminate.
    - intros d Hd HD. apply in_app_or in Hd as [Hd|Hd]; [exfalso; exact (decoys_not_presented _ _ _ Hd HD)|].
      rewrite app_assoc. apply in_or_app. left. apply C3; assumption.
    - intros d Hd. apply in_app_or in Hd as [Hd|Hd].
      + apply decoy_in in Hd as (j & _ & ->). exists (SDecoy (N.of_nat j)), []. reflexivity.
      + destruct (C4 d Hd) as (k & r & _ & E). exists (SKey k), r. assumption.
    - rewrite map_app. apply NoDup_app_intro; [apply decoy_salts_nodup|apply C5; assumption|].
      intros q Hq1 Hq2. apply in_map_iff in Hq1 as (d1 & <- & Hd1). apply in_map_iff in Hq2 as (d2 & E & Hd2).
      apply decoy_in in Hd1 as (j & _ & ->). destruct (C4 d2 Hd2) as (k & r & _ & E2). rewrite E2 in E. cbn in E.
      apply app_inv_head in E. discriminate.
  Qed.

  Lemma block_drop_nst cur LV pre nst' : block_ok cur LV (pre ++ nst') -> block_ok cur LV nst'.
  Proof.
    intros (B1 & B2 & B3 & B4 & B5). repeat split; try assumption.
    - intros d Hd. apply B3. apply in_or_app; right; assumption.
    - intros d Hd. apply B4. apply in_or_app; right; assumption.
    - rewrite map_app in B5. clear -B5. induction (map d_salt pre) as [|x r IH]; [exact B5|]. inversion B5; subst. apply IH. assumption.
  Qed.

  Lemma collect_obj_v2 o cur t :
    o_alg o = a -> Forall (fun kv : string * val => resv (fst kv) = false) (t_vis t) ->
    collect D 0 (VObj (t_vis t ++ [sd2 o cur (t_lvl t)])) = Cv t ++ Cs t ++ map (digest a) (decoy_discs cur (o_decoys o)).
  Proof.
    intros Ha Hv. rewrite collect_obj_eq, flat_map_app, (collect_members_nosd D _ (nosd_of_notresv _ Hv)).
    unfold Cv, Cs. f_equal. unfold sd2, sd_member. cbn [flat_map fst snd]. rewrite String.eqb_refl, app_nil_r, Ha.
    destruct (map (digest a) (t_lvl t ++ decoy_discs cur (o_decoys o))) eqn:E.
    - apply map_eq_nil in E. apply app_eq_nil in E as [E1 E2]. rewrite E1, E2. reflexivity.
    - rewrite <- E, map_app, flat_map_app, decoys_collect. reflexivity.
  Qed.

  Lemma collect_obj_v5 o cur t :
    o_alg o = a -> Forall (fun kv : string * val => resv (fst kv) = false) (t_vis t) ->
    collect D 0 (obj5 o cur (t_vis t) (t_lvl t)) = Cv t ++ Cs t ++ map (digest a) (decoy_discs cur (o_decoys o)).
  Proof.
    intros Ha Hv. unfold obj5. rewrite collect_obj_eq, flat_map_app, (collect_members_nosd D _ (nosd_of_notresv _ Hv)).
    unfold Cv, Cs. f_equal. unfold sd5.
    destruct (t_lvl t ++ decoy_discs cur (o_decoys o)) eqn:E.
    - apply app_eq_nil in E as [E1 E2]. rewrite E1, E2. reflexivity.
    - rewrite <- E. cbn [flat_map fst snd]. rewrite String.eqb_refl, app_nil_r, Ha, map_app, flat_map_app, decoys_collect. reflexivity.
  Qed.

  (* ----- arrays ----- *)
  Definition elemfun (x : val) : list val :=
    match x with
    | VObj m => flat_map (fun kv : string * val => if String.eqb (fst kv) DOTS then collect D 2 (snd kv) else []) m
    | _ => []
    end.

  Lemma elemfun_clean x : clean x = true -> elemfun x = [].
  Proof.
    intro Hc. destruct x; try reflexivity. cbn. apply flat_map_nil. intros [k y] Hy. cbn [fst].
    destruct (clean_obj_inv m Hc) as [_ Hm]. rewrite forallb_forall in Hm. specialize (Hm (k, y) Hy). cbn [fst snd] in Hm.
    apply andb_true_iff in Hm as [Hk _]. apply negb_true_iff in Hk. unfold resv in Hk. apply orb_false_iff in Hk as [_ Hk].
    rewrite Hk. reflexivity.
  Qed.

  Lemma collect2_mk2 ep x :
    collect D 2 (digest a (mk 2 ep "" x)) =
    digest a (mk 2 ep "" x) :: (if memv (digest a (mk 2 ep "" x)) D then collect D 0 x else []).
  Proof. unfold digest, mk. cbn [collect d_enc d_e d_salt d_name d_val N.eqb Pos.eqb]. rewrite andb_true_r. reflexivity. Qed.

  Lemma elems5_collect o p l : forall i,
    o_alg o = a -> forallb clean l = true ->
    flat_map elemfun (fst (elems5 o p i l)) = map (digest a) (snd (elems5 o p i l)) /\
    (forall d, In d (snd (elems5 o p i l)) -> exists j, (i <= j)%N /\ d = mk 2 (p ++ [SIdx j]) "" (d_val d)).
  Proof.
    induction l as [|x r IH]; intros i Ha Hc; [split; [reflexivity|intros d []]|].
    cbn [forallb] in Hc. apply andb_true_iff in Hc as [Hcx Hcr]. destruct (IH (N.succ i) Ha Hcr) as [IH1 IH2].
    cbn [elems5]. destruct (elems5 o p (N.succ i) r) as [es ds]. cbn [fst snd] in *.
    destruct (memp (p ++ [SIdx i]) (o_nonsd o)); cbn [fst snd flat_map map].
    - rewrite (elemfun_clean x Hcx). split; [exact IH1|]. intros d Hd. destruct (IH2 d Hd) as (j & Hj & E). exists j. split; [lia|assumption].
    - split.
      + cbn [elemfun flat_map fst snd]. rewrite String.eqb_refl, app_nil_r, Ha, collect2_mk2, (collect_clean D x Hcx).
        destruct (memv _ D); cbn [app]; rewrite IH1; reflexivity.
      + intros d [<-|Hd]; [exists i; split; [lia|reflexivity]|]. destruct (IH2 d Hd) as (j & Hj & E). exists j. split; [lia|assumption].
  Qed.

  Lemma elems5_nodup o p l : forall i, o_alg o = a -> forallb clean l = true -> NoDup (map (digest a) (snd (elems5 o p i l))).
  Proof.
    induction l as [|x r IH]; intros i Ha Hc; [constructor|].
    cbn [forallb] in Hc. apply andb_true_iff in Hc as [Hcx Hcr]. specialize (IH (N.succ i) Ha Hcr).
    pose proof (proj2 (elems5_collect o p r (N.succ i) Ha Hcr)) as Hj.
    cbn [elems5]. destruct (elems5 o p (N.succ i) r) as [es ds]. cbn [snd] in *.
    destruct (memp (p ++ [SIdx i]) (o_nonsd o)); cbn [snd map]; [assumption|].
    constructor; [|assumption]. intro Hin. apply in_map_iff in Hin as (d & He & Hd). destruct (Hj d Hd) as (j & Hij & E).
    rewrite E in He. unfold digest, mk in He. cbn in He. inversion He as [[E1 E2]]. apply app_inv_head in E1. inversion E1. lia.
  Qed.

  Lemma elems5_salts_nodup o p l : forall i, o_alg o = a -> forallb clean l = true -> NoDup (map d_salt (snd (elems5 o p i l))).
  Proof.
    induction l as [|x r IH]; intros i Ha Hc; [constructor|].
    cbn [forallb] in Hc. apply andb_true_iff in Hc as [Hcx Hcr]. specialize (IH (N.succ i) Ha Hcr).
    pose proof (proj2 (elems5_collect o p r (N.succ i) Ha Hcr)) as Hj.
    cbn [elems5]. destruct (elems5 o p (N.succ i) r) as [es ds]. cbn [snd] in *.
    destruct (memp (p ++ [SIdx i]) (o_nonsd o)); cbn [snd map]; [assumption|].
    constructor; [|assumption]. intro Hin. apply in_map_iff in Hin as (d & He & Hd). destruct (Hj d Hd) as (j & Hij & E).
    rewrite E in He. cbn in He. apply app_inv_head in He. inversion He. lia.
  Qed.

  Lemma array_block o cur l :
    o_alg o = a -> clean (VArr l) = true ->
    block_ok cur (collect D 0 (arr_member (fst (elems5 o cur 0 l)))) (snd (elems5 o cur 0 l)).
  Proof.
    intros Ha Hc. cbn in Hc. apply andb_true_iff in Hc as [_ Hall].
    destruct (elems5_collect o cur l 0 Ha Hall) as [E1 E2]. pose proof (elems5_nodup o cur l 0 Ha Hall) as E3.
    assert (EL : collect D 0 (arr_member (fst (elems5 o cur 0 l))) = map (digest a) (snd (elems5 o cur 0 l))).
    { unfold arr_member. destruct (fst (elems5 o cur 0 l)) eqn:E.
      - cbn in E1. cbn. exact E1.
      - rewrite collect_arr_eq. exact E1. }
    rewrite EL. repeat split.
    - intros g Hg. apply in_map_iff in Hg as (d & <- & Hd). destruct (E2 d Hd) as (j & _ & E). rewrite E. exists (SIdx j), []. reflexivity.
    - exact E3.
    - intros d Hd _. apply in_map. assumption.
    - intros d Hd. destruct (E2 d Hd) as (j & _ & E). rewrite E. exists (SIdx j), []. reflexivity.
    - exact (elems5_salts_nodup o cur l 0 Ha Hall).
  Qed.

  (* ----- v2 ----- *)
  Section V2c.
    Variable o : iopts.
    Hypothesis Ha : o_alg o = a.

    Definition P2c (cv : val) : Prop :=
      forall p, clean cv = true -> incl (t_lvl (issue2 o p cv) ++ t_nst (issue2 o p cv)) ALL ->
        col_ok p (issue2 o p cv) (keys_of cv) /\ Forall (fun kv : string * val => resv (fst kv) = false) (t_vis (issue2 o p cv)).

    Lemma members2c m :
      Forall (fun kv => P2c (snd kv)) m ->
      forall p, forallb (fun kv => negb (resv (fst kv)) && clean (snd kv)) m = true ->
        incl (t_lvl (cat3 (map (member2 (issue2 o) o p) m)) ++ t_nst (cat3 (map (member2 (issue2 o) o p) m))) ALL ->
        col_ok p (cat3 (map (member2 (issue2 o) o p) m)) (map fst m) /\
        Forall (fun kv : string * val => resv (fst kv) = false) (t_vis (cat3 (map (member2 (issue2 o) o p) m))).
    Proof.
      induction 1 as [|[k x] r Hx Hr IH]; intros p Hcl Hinc; [split; [apply col_ok_nil|constructor]|].
      cbn [forallb fst snd] in Hcl. apply andb_true_iff in Hcl as [Hkx Hcl]. apply andb_true_iff in Hkx as [Hk Hcx].
      apply negb_true_iff in Hk.
      cbn [map fst] in *. remember (member2 (issue2 o) o p (k, x)) as tk eqn:Etk.
      remember (map (member2 (issue2 o) o p) r) as ts eqn:Ets.
      unfold cat3 in *. cbn [flat_map t_vis t_lvl t_nst fst snd] in *.
      assert (Hinc' : incl (flat_map t_lvl ts ++ flat_map t_nst ts) ALL).
      { intros d Hd. apply Hinc. revert Hd. rewrite !in_app_iff. tauto. }
      assert (Hinck : incl (t_lvl tk ++ t_nst tk) ALL).
      { intros d Hd. apply Hinc. revert Hd. rewrite !in_app_iff. tauto. }
      destruct (IH p Hcl) as [HT HV]; [subst ts; exact Hinc'|]. subst ts. clear IH Hinc Hinc'.
      set (T := (flat_map t_vis (map (member2 (issue2 o) o p) r), flat_map t_lvl (map (member2 (issue2 o) o p) r),
                 flat_map t_nst (map (member2 (issue2 o) o p) r))) in *.
      assert (Hleaf : tk = (if memp (p ++ [SKey k]) (o_nonsd o) then ([(k, x)], [], []) else ([], [mk 3 (p ++ [SKey k]) k x], [])) ->
                col_ok p (t_vis tk ++ t_vis T, t_lvl tk ++ t_lvl T, t_nst tk ++ t_nst T) (k :: map fst r) /\
                Forall (fun kv : string * val => resv (fst kv) = false) (t_vis tk ++ t_vis T)).
      { intros ->. destruct (memp (p ++ [SKey k]) (o_nonsd o)); cbn [t_vis t_lvl t_nst fst snd app] in *.
        - split; [|constructor; assumption].
          exact (cstep_vis p k x [] [] T _ (collect_clean D x Hcx) (block_raw _) HT).
        - split; [|assumption].
          refine (cstep_sd p k x [] [] T _ (collect_clean D x Hcx) (block_raw _) _ _ HT).
          + apply Hinck. left. reflexivity.
          + intros ? []. }
      unfold member2 in Etk. cbn [fst snd] in Etk.
      destruct x as [| | | | | |mm]; try (apply Hleaf; exact Etk).
      destruct (o_structured o); [|apply Hleaf; exact Etk].
      subst tk. cbn [t_vis t_lvl t_nst fst snd app] in *. cbn in Hx.
      destruct (Hx (p ++ [SKey k]) Hcx Hinck) as [Hin Hvn].
      destruct (clean_obj_inv mm Hcx) as [Hnd' _].
      pose proof (level_block (p ++ [SKey k]) _ _ (o_decoys o) Hin Hnd') as Hb.
      apply block_drop_nst in Hb.
      split; [|constructor; assumption].
      exact (cstep_vis p k _ _ _ T _ (collect_obj_v2 o (p ++ [SKey k]) _ Ha Hvn) Hb HT).
    Qed.

    Lemma level2c_all cv : P2c cv.
    Proof.
      induction cv as [| b | z | s | a0 e0 e s n v IH | l IH | m IH] using val_ind'; intros p Hc Hinc;
        try (split; [apply col_ok_nil|constructor]).
      destruct (clean_obj_inv m Hc) as [_ Hm].
      exact (members2c m IH p Hm Hinc).
    Qed.
  End V2c.

  (* ----- v5 ----- *)
  Section V5c.
    Variable o : iopts.
    Hypothesis Ha : o_alg o = a.

    Definition P5c (cv : val) : Prop :=
      forall ign p t, clean cv = true -> issue5 o ign p cv = Ok t -> incl (t_lvl t ++ t_nst t) ALL ->
        col_ok p t (keys_of cv) /\ Forall (fun kv : string * val => resv (fst kv) = false) (t_vis t).

    Lemma member5c k x ign p tk :
      P5c x -> resv k = false -> clean x = true ->
      member5 (issue5 o) o ign p (k, x) = Ok tk -> incl (t_lvl tk ++ t_nst tk) ALL ->
      Forall (fun kv : string * val => resv (fst kv) = false) (t_vis tk) /\
      forall T K, col_ok p T K -> col_ok p (t_vis tk ++ t_vis T, t_lvl tk ++ t_lvl T, t_nst tk ++ t_nst T) (k :: K).
    Proof.
      intros HP Hk Hc Hm Hinc. unfold member5 in Hm. cbn [fst snd] in Hm. set (cur := p ++ [SKey k]) in *.
      assert (Hraw : tk = ([(k, x)], [], []) ->
                Forall (fun kv : string * val => resv (fst kv) = false) (t_vis tk) /\
                forall T K, col_ok p T K -> col_ok p (t_vis tk ++ t_vis T, t_lvl tk ++ t_lvl T, t_nst tk ++ t_nst T) (k :: K)).
      { intros ->. split; [constructor; [exact Hk|constructor]|]. intros T K HT. cbn [t_vis t_lvl t_nst fst snd app].
        exact (cstep_vis p k x [] [] T K (collect_clean D x Hc) (block_raw _) HT). }
      assert (Hprim : tk = ([], [mk 3 cur k x], []) ->
                Forall (fun kv : string * val => resv (fst kv) = false) (t_vis tk) /\
                forall T K, col_ok p T K -> col_ok p (t_vis tk ++ t_vis T, t_lvl tk ++ t_lvl T, t_nst tk ++ t_nst T) (k :: K)).
      { intros E. subst tk. split; [constructor|]. intros T K HT. cbn [t_vis t_lvl t_nst fst snd app] in *.
        refine (cstep_sd p k x [] [] T K (collect_clean D x Hc) (block_raw _) _ _ HT); [apply Hinc; left; reflexivity|intros ? []]. }
      destruct x as [| b | z | s | a0 e0 e s n v | l | mm]; try discriminate.
      - destruct (memp cur (o_nonsd o) || ign); injection Hm as E; [apply Hraw|apply Hprim]; symmetry; exact E.
      - destruct (memp cur (o_nonsd o) || ign); injection Hm as E; [apply Hraw|apply Hprim]; symmetry; exact E.
      - destruct (memp cur (o_nonsd o) || ign); injection Hm as E; [apply Hraw|apply Hprim]; symmetry; exact E.
      - (* array *)
        destruct (memp cur (o_nonsd o)); [injection Hm as E; apply Hraw; symmetry; exact E|].
        pose proof (array_block o cur l Ha Hc) as Hb.
        destruct (elems5 o cur 0 l) as [es eds]. cbn [fst snd] in Hb.
        destruct (memp cur (o_always o) || o_structured o); inversion Hm; subst tk; cbn [t_vis t_lvl t_nst fst snd app] in *.
        + split; [constructor; [exact Hk|constructor]|]. intros T K HT.
          exact (cstep_vis p k _ _ eds T K eq_refl Hb HT).
        + split; [constructor|]. intros T K HT.
          refine (cstep_sd p k _ _ eds T K eq_refl Hb _ _ HT); [apply Hinc; left; reflexivity|].
          intros d Hd. apply Hinc. right. exact Hd.
      - (* object *)
        destruct (memp cur (o_nonsd o)); [injection Hm as E; apply Hraw; symmetry; exact E|].
        destruct (issue5 o (negb (memp cur (o_recursive o) || memp cur (o_always o) || o_structured o)) cur (VObj mm)) as [t'| | |] eqn:Et;
          cbn in Hm; try discriminate.
        destruct (clean_obj_inv mm Hc) as [Hnd' _].
        assert (Hinc' : incl (t_lvl t' ++ t_nst t') ALL).
        { intros d Hd. apply Hinc.
          destruct (negb (memp cur (o_recursive o) && negb (memp cur (o_always o))) && (memp cur (o_recursive o) || memp cur (o_always o) || o_structured o));
            inversion Hm; subst tk; cbn [t_lvl t_nst fst snd app In]; rewrite ?in_app_iff; rewrite in_app_iff in Hd; tauto. }
        destruct (HP _ _ _ Hc Et Hinc') as [Hin Hvn]. cbn [keys_of] in Hin.
        pose proof (level_block cur t' _ (o_decoys o) Hin Hnd') as Hb.
        pose proof (collect_obj_v5 o cur t' Ha Hvn) as Hcol.
        destruct (negb (memp cur (o_recursive o) && negb (memp cur (o_always o))) && (memp cur (o_recursive o) || memp cur (o_always o) || o_structured o));
          inversion Hm; subst tk; cbn [t_vis t_lvl t_nst fst snd app] in *.
        + split; [constructor; [exact Hk|constructor]|]. intros T K HT.
          exact (cstep_vis p k _ _ _ T K Hcol Hb HT).
        + split; [constructor|]. intros T K HT.
          refine (cstep_sd p k _ _ _ T K Hcol Hb _ _ HT); [apply Hinc; left; reflexivity|].
          intros d Hd. apply Hinc. right. exact Hd.
    Qed.

    Lemma members5c m :
      Forall (fun kv => P5c (snd kv)) m ->
      forall ign p ts, forallb (fun kv => negb (resv (fst kv)) && clean (snd kv)) m = true ->
        seq3 (map (member5 (issue5 o) o ign p) m) = Ok ts ->
        incl (t_lvl (cat3 ts) ++ t_nst (cat3 ts)) ALL ->
        col_ok p (cat3 ts) (map fst m) /\ Forall (fun kv : string * val => resv (fst kv) = false) (t_vis (cat3 ts)).
    Proof.
      induction 1 as [|[k x] r Hx Hr IH]; intros ign p ts Hcl Hs Hinc.
      - cbn in Hs. inversion Hs. split; [apply col_ok_nil|constructor].
      - cbn [forallb fst snd] in Hcl. apply andb_true_iff in Hcl as [Hkx Hcl]. apply andb_true_iff in Hkx as [Hk Hcx].
        apply negb_true_iff in Hk. cbn [map seq3] in Hs.
        destruct (member5 (issue5 o) o ign p (k, x)) as [tk| | |] eqn:Em; cbn [bind] in Hs; try discriminate.
        destruct (seq3 (map (member5 (issue5 o) o ign p) r)) as [ts'| | |] eqn:Es; cbn [bind] in Hs; try discriminate.
        inversion Hs; subst ts; clear Hs. unfold cat3 in *. cbn [flat_map t_vis t_lvl t_nst fst snd map] in *.
        destruct (IH ign p ts' Hcl Es) as [HT HV].
        { intros d Hd. apply Hinc. revert Hd. rewrite !in_app_iff. tauto. }
        destruct (member5c k x ign p tk Hx Hk Hcx Em) as [Hvk Hstep].
        { intros d Hd. apply Hinc. revert Hd. rewrite !in_app_iff. tauto. }
        split; [|apply Forall_app; split; assumption].
        exact (Hstep _ _ HT).
    Qed.

    Lemma level5c_all cv : P5c cv.
    Proof.
      induction cv as [| b | z | s | a0 e0 e s n v IH | l IH | m IH] using val_ind'; intros ign p t Hc Ht Hinc;
        try (cbn in Ht; inversion Ht; split; [apply col_ok_nil|constructor]).
      destruct (clean_obj_inv m Hc) as [_ Hm]. cbn [issue5] in Ht.
      destruct (seq3 (map (member5 (issue5 o) o ign p) m)) as [ts| | |] eqn:Es; cbn in Ht; try discriminate.
      inversion Ht; subst t. exact (members5c m IH ign p ts Hm Es Hinc).
    Qed.
  End V5c.
End Acc.

(* ---------- parent-closed selections ---------- *)
Fixpoint proper_prefixb (p q : path) : bool :=
  match p, q with
  | [], _ :: _ => true
  | x :: r, y :: t => step_eqb x y && proper_prefixb r t
  | _, _ => false
  end.

Lemma proper_prefixb_complete p : forall s r, proper_prefixb p (p ++ s :: r) = true.
Proof.
  induction p as [|x t IH]; intros s r; [reflexivity|]. cbn. rewrite (proj2 (step_eqb_eq x x) eq_refl). apply IH.
Qed.

(* an issued disclosure whose site lies above a selected one is selected *)
Definition closedb (sel : list path) (ds : list disc) : bool :=
  forallb (fun d' => negb (memp (d_salt d') sel) ||
                     forallb (fun d0 => negb (proper_prefixb (d_salt d0) (d_salt d')) || memp (d_salt d0) sel) ds) ds.

Lemma closedb_closed a sel ds :
  closedb sel ds = true ->
  forall d0 d', In d0 ds -> In d' ds -> In (digest a d') (map (digest a) (choose sel ds)) ->
    (exists s r, d_salt d' = d_salt d0 ++ s :: r) -> In (digest a d0) (map (digest a) (choose sel ds)).
Proof.
  intros Hcl d0 d' H0 H' Hin (s & r & E). apply in_map. apply filter_In. split; [assumption|].
  apply in_map_iff in Hin as (d2 & He & Hd2). apply digest_inj in He. subst d2. apply filter_In in Hd2 as [_ Hsel].
  unfold closedb in Hcl. rewrite forallb_forall in Hcl. specialize (Hcl d' H'). rewrite Hsel in Hcl. cbn in Hcl.
  rewrite forallb_forall in Hcl. specialize (Hcl d0 H0). rewrite E, proper_prefixb_complete in Hcl. cbn in Hcl. exact Hcl.
Qed.

(* ---------- the registered claims at the top level ---------- *)
Lemma registered_collect o D : flat_map (fun kv : string * val => if String.eqb (fst kv) SD
                      then match snd kv with VArr gl => flat_map (collect D 3) gl | _ => [] end
                      else collect D 0 (snd kv)) (registered o) = [].
Proof. unfold registered. destruct (o_cnf o); reflexivity. Qed.

Lemma registered_plain_false o D : seq_plain (map (Fm false D) (registered o)) = Ok (registered o).
Proof.
  unfold registered. destruct (o_cnf o); cbn [app map].
  - rewrite (Fm_raw false D "iss" (VStr (o_iss o)) eq_refl eq_refl), (Fm_raw false D "cnf" (VObj [("jwk", VNum z)]) eq_refl eq_refl),
            (Fm_raw false D SDALG (VStr (alg_name (o_alg o))) eq_refl eq_refl). reflexivity.
  - rewrite (Fm_raw false D "iss" (VStr (o_iss o)) eq_refl eq_refl), (Fm_raw false D SDALG (VStr (alg_name (o_alg o))) eq_refl eq_refl). reflexivity.
Qed.

Lemma registered_keys_false o : filter (notres false) (map fst (registered o)) = map fst (registered o).
Proof. unfold registered. destruct (o_cnf o); reflexivity. Qed.
Lemma registered_nodup o : NoDup (map fst (registered o)).
Proof. apply nodups_NoDup. unfold registered. destruct (o_cnf o); reflexivity. Qed.
Lemma registered_keys_in o x : In x (map fst (registered o)) -> x = "iss" \/ x = "cnf" \/ x = SDALG.
Proof. unfold registered. destruct (o_cnf o); cbn; intuition. Qed.

Lemma clean_keys_not_sdalg m : clean (VObj m) = true -> ~ In SDALG (map fst m).
Proof.
  intros Hc Hin. destruct (clean_obj_inv m Hc) as [_ Hm]. rewrite forallb_forall in Hm.
  apply in_map_iff in Hin as ([k x] & Ek & Hkx). cbn in Ek. subst k. specialize (Hm _ Hkx). cbn [fst snd] in Hm.
  apply andb_true_iff in Hm as [Hk _]. apply negb_true_iff in Hk. vm_compute in Hk. discriminate.
Qed.

(* ---------- VerifyDisclosuresInSDJWT passes on an honest presentation ---------- *)
Lemma accepts o claims sel payload ds :
  alg_ok (o_alg o) -> clean (VObj claims) = true ->
  ~ In "iss" (map fst claims) -> ~ In "cnf" (map fst claims) ->
  forallb site_path sel = true -> closedb sel ds = true ->
  (o_v5 o = true -> akept5 o sel false [] (VObj claims) = true) ->
  issue o claims = Ok (payload, ds) ->
  verify_disclosures payload (choose sel ds) = Ok tt.
Proof.
  intros Halg Hc Hiss Hcnf Hsel Hclo Hak Hi.
  pose proof (issue_payload_alg o claims payload ds Halg Hi) as Hga.
  unfold verify_disclosures. rewrite Hga. cbn [bind].
  set (a := o_alg o). set (D := map (digest a) (choose sel ds)).
  destruct (clean_obj_inv claims Hc) as [Hnd _].
  assert (Hdisj : forall x, In x (filter (notres false) (map fst (registered o))) -> ~ In x (keys_of (VObj claims))).
  { intros x Hx. rewrite registered_keys_false in Hx. apply registered_keys_in in Hx as [Hx|[Hx|Hx]]; subst x;
      [assumption|assumption|apply clean_keys_not_sdalg; assumption]. }
  assert (Hnil : Dnodecoy []) by (intros ? ? ? ? ?; reflexivity).
  unfold issue in Hi. destruct (key_exists_sd (VObj claims)); [discriminate|].
  (* common final step *)
  assert (Hfin : forall (t : triple) (decs : list disc),
            Forall Qd ds -> incl (t_lvl t ++ t_nst t) ds ->
            (forall d, In d ds -> In d decs \/ In d (t_lvl t ++ t_nst t)) ->
            (forall d, In d decs -> site_path (d_salt d) = false) ->
            (exists w, resolve false D payload = Ok w) ->
            block_ok a D [] (collect D 0 payload) (t_lvl t ++ t_nst t) ->
            (if forallb (fun d => N.leb 2 (d_e d)) (choose sel ds)
             then bind (resolve false D payload) (fun _ =>
                    if nodupv (collect D 0 payload)
                    then if forallb (fun g => memv g (collect D 0 payload)) D then Ok tt else Err ENotFound
                    else Err ERejected)
             else Err EInvalid) = Ok tt).
  { intros t decs HQ Hinc Hcov Hdec (w & Hw) (B1 & B2 & B3 & B4).
    assert (Hchosen : forall d, In d (choose sel ds) -> (2 <= d_e d)%N /\ In d (t_lvl t ++ t_nst t)).
    { intros d Hd. apply filter_In in Hd as [Hin Hs]. apply memp_In in Hs. rewrite forallb_forall in Hsel. specialize (Hsel _ Hs).
      rewrite Forall_forall in HQ. split.
      - destruct (HQ d Hin) as [H|H]; [assumption|congruence].
      - destruct (Hcov d Hin) as [H|H]; [rewrite (Hdec d H) in Hsel; discriminate|assumption]. }
    assert (E1 : forallb (fun d => N.leb 2 (d_e d)) (choose sel ds) = true).
    { apply forallb_forall. intros d Hd. apply N.leb_le. apply (Hchosen d Hd). }
    rewrite E1, Hw. cbn [bind]. rewrite (proj2 (nodupv_NoDup _) B2).
    assert (E2 : forallb (fun g => memv g (collect D 0 payload)) D = true).
    { apply forallb_forall. intros g Hg. apply memv_In. unfold D in Hg. apply in_map_iff in Hg as (d & <- & Hd).
      apply B3; [apply (Hchosen d Hd)|]. apply in_map. assumption. }
    rewrite E2. reflexivity. }
  destruct (o_v5 o) eqn:Ev.
  - destruct (level5_all o sel [] Hnil (VObj claims) false false [] Hc (Hak eq_refl)) as (t & Ht & _).
    rewrite Ht in Hi. cbn [bind] in Hi.
    assert (E : payload = VObj (registered o ++ t_vis t ++ sd5 o [] (t_lvl t)) /\ ds = decoy_discs [] (o_decoys o) ++ t_lvl t ++ t_nst t)
      by (inversion Hi; split; reflexivity).
    destruct E as [Ep Ed]. clear Hi.
    assert (HQ : Forall Qd ds).
    { rewrite Ed. apply Forall_app. split; [apply Qd_decoys|exact (issue5_Qd o _ _ _ _ Ht)]. }
    assert (HD : Dnodecoy D) by (apply Dnodecoy_choose; assumption).
    assert (Hinc : incl (t_lvl t ++ t_nst t) ds) by (rewrite Ed; intros d Hd; apply in_or_app; right; exact Hd).
    apply (Hfin t (decoy_discs [] (o_decoys o)) HQ Hinc).
    + intros d Hd. rewrite Ed in Hd. apply in_app_or in Hd. exact Hd.
    + intros d Hd. destruct (decoy_in [] _ d Hd) as (j & _ & Ej); subst d. apply site_path_decoy.
    + destruct (level5_all o sel D HD (VObj claims) false false [] Hc (Hak eq_refl)) as (t' & Ht' & Hl).
      rewrite Ht in Ht'. inversion Ht'; subst t'; clear Ht'.
      assert (Hok : Dok a sel D (t_lvl t ++ t_nst t)) by (intros d Hd; apply Dok_choose; apply Hinc; exact Hd).
      destruct (obj_v5 a D HD false t _ _ o [] (registered o) (registered o) eq_refl Hnd (Hl Hok)
                  (registered_nosd o) (registered_plain_false o D)) as (y & Hy1 & _ & _).
      * rewrite registered_keys_false. apply registered_nodup.
      * exact Hdisj.
      * exists y. rewrite Ep. exact Hy1.
    + destruct (level5c_all a D ds HD (closedb_closed a sel ds Hclo) o eq_refl (VObj claims) false [] t Hc Ht Hinc) as [Hcol Hvn].
      pose proof (level_block a D HD [] t _ (o_decoys o) Hcol Hnd) as Hb.
      assert (Ecol : collect D 0 payload = Cv D t ++ Cs a D t ++ map (digest a) (decoy_discs [] (o_decoys o))).
      { rewrite Ep, collect_obj_eq, flat_map_app, registered_collect. cbn [app].
        rewrite <- (collect_obj_v5 a D o [] t eq_refl Hvn). unfold obj5. rewrite collect_obj_eq. reflexivity. }
      rewrite Ecol. exact (block_drop_nst a D _ _ _ _ Hb).
  - assert (E : payload = VObj (registered o ++ t_vis (issue2 o [] (VObj claims)) ++ [sd2 o [] (t_lvl (issue2 o [] (VObj claims)))])
                /\ ds = t_lvl (issue2 o [] (VObj claims)) ++ t_nst (issue2 o [] (VObj claims)))
      by (inversion Hi; split; reflexivity).
    destruct E as [Ep Ed]. clear Hi. set (t := issue2 o [] (VObj claims)) in *.
    assert (HQ : Forall Qd ds).
    { apply Forall_forall. intros d Hd. left. rewrite Ed in Hd. rewrite (issue2_Qd o _ _ _ Hd). lia. }
    assert (HD : Dnodecoy D) by (apply Dnodecoy_choose; assumption).
    assert (Hinc : incl (t_lvl t ++ t_nst t) ds) by (rewrite Ed; apply incl_refl).
    apply (Hfin t [] HQ Hinc).
    + intros d Hd. right. rewrite <- Ed. exact Hd.
    + intros d [].
    + assert (Hok : Dok a sel D (t_lvl t ++ t_nst t)) by (intros d Hd; apply Dok_choose; apply Hinc; exact Hd).
      pose proof (level2_all o sel D HD (VObj claims) false [] Hc Hok) as Hl.
      destruct (obj_v2 a D HD false t _ _ o [] (registered o) (registered o) eq_refl Hnd Hl
                  (registered_nosd o) (registered_plain_false o D)) as (y & Hy1 & _ & _).
      * rewrite registered_keys_false. apply registered_nodup.
      * exact Hdisj.
      * exists y. rewrite Ep. exact Hy1.
    + destruct (level2c_all a D ds HD (closedb_closed a sel ds Hclo) o eq_refl (VObj claims) [] Hc Hinc) as [Hcol Hvn].
      pose proof (level_block a D HD [] t _ (o_decoys o) Hcol Hnd) as Hb.
      assert (Ecol : collect D 0 payload = Cv D t ++ Cs a D t ++ map (digest a) (decoy_discs [] (o_decoys o))).
      { rewrite Ep, collect_obj_eq, flat_map_app, registered_collect. cbn [app].
        rewrite <- (collect_obj_v2 a D o [] t eq_refl Hvn). rewrite collect_obj_eq. reflexivity. }
      rewrite Ecol. exact (block_drop_nst a D _ _ _ _ Hb).
Qed.

(* the issued disclosures are pairwise different texts: their salts (sites) are pairwise different *)
Lemma issued_nodup o claims payload ds :
  clean (VObj claims) = true -> issue o claims = Ok (payload, ds) -> NoDup (map d_salt ds).
Proof.
  intros Hc Hi. destruct (clean_obj_inv claims Hc) as [Hnd _].
  assert (Hnil : Dnodecoy []) by (intros ? ? ? ? ?; reflexivity).
  assert (Hcl0 : forall d0 d', In d0 ds -> In d' ds -> In (digest (o_alg o) d') [] ->
             (exists s r, d_salt d' = d_salt d0 ++ s :: r) -> In (digest (o_alg o) d0) []) by (intros ? ? _ _ []).
  unfold issue in Hi. destruct (key_exists_sd (VObj claims)); [discriminate|]. destruct (o_v5 o).
  - destruct (issue5 o false [] (VObj claims)) as [t| | |] eqn:Et; cbn in Hi; try discriminate.
    assert (Ed : ds = decoy_discs [] (o_decoys o) ++ t_lvl t ++ t_nst t) by (inversion Hi; reflexivity).
    assert (Hinc : incl (t_lvl t ++ t_nst t) ds) by (rewrite Ed; intros d Hd; apply in_or_app; right; exact Hd).
    destruct (level5c_all (o_alg o) [] ds Hnil Hcl0 o eq_refl (VObj claims) false [] t Hc Et Hinc) as [Hcol _].
    destruct (level_block (o_alg o) [] Hnil [] t _ (o_decoys o) Hcol Hnd) as (_ & _ & _ & _ & B5).
    rewrite Ed. exact B5.
  - assert (Ed : ds = t_lvl (issue2 o [] (VObj claims)) ++ t_nst (issue2 o [] (VObj claims))) by (inversion Hi; reflexivity).
    assert (Hinc : incl (t_lvl (issue2 o [] (VObj claims)) ++ t_nst (issue2 o [] (VObj claims))) ds) by (rewrite Ed; apply incl_refl).
    destruct (level2c_all (o_alg o) [] ds Hnil Hcl0 o eq_refl (VObj claims) [] Hc Hinc) as [(_ & _ & _ & _ & C5) _].
    rewrite Ed. apply C5. exact Hnd.
Qed.

Lemma NoDup_of_map {A B} (f : A -> B) l : NoDup (map f l) -> NoDup l.
Proof.
  induction l as [|x r IH]; intro H; [constructor|]. cbn in H. inversion H; subst. constructor; [|apply IH; assumption].
  intro Hin. apply H2. apply in_map. assumption.
Qed.

Lemma NoDup_filter {A} (f : A -> bool) l : NoDup l -> NoDup (filter f l).
Proof.
  induction 1 as [|x r Hx Hr IH]; [constructor|]. cbn. destruct (f x); [|assumption]. constructor; [|assumption].
  intro Hin. apply filter_In in Hin as [Hin _]. contradiction.
Qed.

(* (i) complete: verifier.Parse accepts the honest presentation and outputs visible + chosen *)
Lemma honest_flow o claims sel payload ds vo hb :
  alg_ok (o_alg o) -> clean (VObj claims) = true ->
  ~ In "iss" (map fst claims) -> ~ In "cnf" (map fst claims) ->
  forallb site_path sel = true -> closedb sel ds = true ->
  (o_v5 o = true -> akept5 o sel false [] (VObj claims) = true) ->
  issue o claims = Ok (payload, ds) ->
  payload_time_ok vo payload = true ->
  holder_verification vo payload hb = Ok tt ->
  exists out, verify vo {| p_sig_ok := true; p_payload := payload; p_discs := choose sel ds; p_hb := hb |} = Ok out /\
              veq out (reveal o sel claims).
Proof.
  intros Ha Hc Hiss Hcnf Hsel Hclo Hak Hi Htime Hhb.
  destruct (exact_output o claims sel payload ds Ha Hc Hiss Hcnf Hsel Hak Hi) as (Hal & y & Hy & Hveq).
  exists y. split; [|exact Hveq]. unfold verify. cbn [p_sig_ok p_payload p_discs p_hb negb]. rewrite Htime. cbn [negb].
  assert (Hn : nodupd (choose sel ds) = true).
  { apply nodupd_NoDup. apply NoDup_filter. apply (NoDup_of_map d_salt). exact (issued_nodup o claims payload ds Hc Hi). }
  rewrite Hn. cbn [negb].
  rewrite (accepts o claims sel payload ds Ha Hc Hiss Hcnf Hsel Hclo Hak Hi). cbn [bind].
  rewrite Hhb. cbn [bind]. rewrite Hal. cbn [bind]. exact Hy.
Qed.
