(* C18 — lemmas *)
From Coq Require Import List String ZArith NArith Bool Lia.
Import ListNotations.
From VF Require Import C18.Model.
Open Scope string_scope.
Open Scope list_scope.

(* ---------- nested induction on values ---------- *)
Section ValInd.
  Variable P : val -> Prop.
  Hypothesis Hnull : P VNull.
  Hypothesis Hbool : forall b, P (VBool b).
  Hypothesis Hnum : forall z, P (VNum z).
  Hypothesis Hstr : forall s, P (VStr s).
  Hypothesis Hdig : forall a c e s n v, P v -> P (VDig a c e s n v).
  Hypothesis Harr : forall l, Forall P l -> P (VArr l).
  Hypothesis Hobj : forall m, Forall (fun kv => P (snd kv)) m -> P (VObj m).
  Fixpoint val_ind' (v : val) : P v :=
    match v with
    | VNull => Hnull | VBool b => Hbool b | VNum z => Hnum z | VStr s => Hstr s
    | VDig a c e s n x => Hdig a c e s n x (val_ind' x)
    | VArr l => Harr l ((fix go (l : list val) : Forall P l :=
                           match l with [] => Forall_nil _ | x :: r => Forall_cons _ (val_ind' x) (go r) end) l)
    | VObj m => Hobj m ((fix go (m : list (string * val)) : Forall (fun kv => P (snd kv)) m :=
                           match m with [] => Forall_nil _ | kv :: r => Forall_cons _ (val_ind' (snd kv)) (go r) end) m)
    end.
End ValInd.

(* ---------- equality tests decide equality ---------- *)
Lemma step_eqb_eq a b : step_eqb a b = true <-> a = b.
Proof.
  destruct a, b; cbn; split; intro H; try discriminate; try (inversion H; subst).
  - apply String.eqb_eq in H; subst; reflexivity.
  - apply String.eqb_refl.
  - apply N.eqb_eq in H; subst; reflexivity.
  - apply N.eqb_refl.
  - apply N.eqb_eq in H; subst; reflexivity.
  - apply N.eqb_refl.
Qed.

Lemma path_eqb_eq a : forall b, path_eqb a b = true <-> a = b.
Proof.
  induction a as [|x r IH]; intros [|y t]; cbn; split; intro H; try discriminate; try reflexivity.
  - apply andb_true_iff in H as [H1 H2]. apply step_eqb_eq in H1. apply IH in H2. subst; reflexivity.
  - inversion H; subst. apply andb_true_iff; split; [apply step_eqb_eq|apply IH]; reflexivity.
Qed.

Lemma val_eqb_true x : forall y, val_eqb x y = true -> x = y.
Proof.
  induction x as [| b | z | s | a c e s n v IH | l IH | m IH] using val_ind'; intros y H; destruct y; cbn in H; try discriminate.
  - reflexivity.
  - apply Bool.eqb_prop in H; subst; reflexivity.
  - apply Z.eqb_eq in H; subst; reflexivity.
  - apply String.eqb_eq in H; subst; reflexivity.
  - repeat (apply andb_true_iff in H as [H ?]).
    apply N.eqb_eq in H. repeat match goal with X : N.eqb _ _ = true |- _ => apply N.eqb_eq in X end.
    match goal with X : path_eqb _ _ = true |- _ => apply path_eqb_eq in X end.
    match goal with X : String.eqb _ _ = true |- _ => apply String.eqb_eq in X end.
    match goal with X : val_eqb _ _ = true |- _ => apply IH in X end. subst; reflexivity.
  - f_equal. revert l0 H. induction IH as [|x r Hx Hr IHr]; intros [|y t] H; try discriminate; try reflexivity.
    apply andb_true_iff in H as [H1 H2]. apply Hx in H1. apply IHr in H2. subst; reflexivity.
  - f_equal. revert m0 H. induction IH as [|[k x] r Hx Hr IHr]; intros [|[k' y] t] H; try discriminate; try reflexivity.
    apply andb_true_iff in H as [H1 H2]. apply andb_true_iff in H1 as [H0 H1].
    apply String.eqb_eq in H0. apply Hx in H1. apply IHr in H2. subst; reflexivity.
Qed.

Lemma val_eqb_refl x : val_eqb x x = true.
Proof.
  induction x as [| b | z | s | a c e s n v IH | l IH | m IH] using val_ind'; cbn.
  - reflexivity.
  - apply Bool.eqb_reflx.
  - apply Z.eqb_refl.
  - apply String.eqb_refl.
  - rewrite !N.eqb_refl, String.eqb_refl, IH. cbn. rewrite (proj2 (path_eqb_eq s s) eq_refl). reflexivity.
  - induction IH as [|x r Hx Hr IHr]; [reflexivity|]. rewrite Hx, IHr; reflexivity.
  - induction IH as [|[k x] r Hx Hr IHr]; [reflexivity|]. cbn in Hx. rewrite String.eqb_refl, Hx, IHr; reflexivity.
Qed.

Lemma val_eqb_eq x y : val_eqb x y = true <-> x = y.
Proof. split; [apply val_eqb_true|intros ->; apply val_eqb_refl]. Qed.

Lemma memv_In g D : memv g D = true <-> In g D.
Proof.
  induction D as [|x r IH]; cbn; [split; [discriminate|tauto]|].
  rewrite orb_true_iff, IH, val_eqb_eq. split; intros [H|H]; auto.
Qed.

Lemma nodupv_NoDup l : nodupv l = true <-> NoDup l.
Proof.
  induction l as [|x r IH]; cbn; [split; [constructor|reflexivity]|].
  rewrite andb_true_iff, negb_true_iff, IH. split.
  - intros [H1 H2]. constructor; [|assumption]. intro Hin. apply memv_In in Hin. congruence.
  - intro H. inversion H; subst. split; [|assumption].
    destruct (memv x r) eqn:E; [|reflexivity]. apply memv_In in E. contradiction.
Qed.

Lemma digest_inj a d d' : digest a d = digest a d' -> d = d'.
Proof. destruct d, d'; cbn. intro H. inversion H; subst; reflexivity. Qed.

Lemma disc_eqb_eq d d' : disc_eqb d d' = true <-> d = d'.
Proof. unfold disc_eqb. rewrite val_eqb_eq. split; [apply digest_inj|intros ->; reflexivity]. Qed.

Lemma memd_In d l : memd d l = true <-> In d l.
Proof.
  induction l as [|x r IH]; [cbn; split; [discriminate|tauto]|].
  change (memd d (x :: r)) with (disc_eqb d x || memd d r).
  rewrite orb_true_iff, IH, disc_eqb_eq. cbn. split; intros [H|H]; auto.
Qed.

Lemma nodupd_NoDup l : nodupd l = true <-> NoDup l.
Proof.
  induction l as [|x r IH]; [cbn; split; [constructor|reflexivity]|].
  change (nodupd (x :: r)) with (negb (memd x r) && nodupd r).
  rewrite andb_true_iff, negb_true_iff, IH. split.
  - intros [H1 H2]. constructor; [|assumption]. intro Hin. apply memd_In in Hin. congruence.
  - intro H. inversion H; subst. split; [|assumption].
    destruct (memd x r) eqn:E; [|reflexivity]. apply memd_In in E. contradiction.
Qed.

(* ---------- the verifier's steps, as implications of acceptance ---------- *)
Lemma bind_ok {A B} (r : res A) (f : A -> res B) b : bind r f = Ok b -> exists a, r = Ok a /\ f a = Ok b.
Proof. destruct r; cbn; try discriminate. intro H; eauto. Qed.

Lemma verify_ok_inv vo p out :
  verify vo p = Ok out ->
  p_sig_ok p = true /\ payload_time_ok vo (p_payload p) = true /\ NoDup (p_discs p) /\
  verify_disclosures (p_payload p) (p_discs p) = Ok tt /\
  holder_verification vo (p_payload p) (p_hb p) = Ok tt /\
  exists a, get_alg (p_payload p) = Ok a /\ resolve true (map (digest a) (p_discs p)) (p_payload p) = Ok out.
Proof.
  unfold verify. destruct (p_sig_ok p); cbn; [|discriminate].
  destruct (payload_time_ok vo (p_payload p)) eqn:Ht; cbn; [|discriminate].
  destruct (nodupd (p_discs p)) eqn:Hd; cbn; [|discriminate].
  intro H. apply bind_ok in H as [[] [H1 H]]. apply bind_ok in H as [[] [H2 H]]. apply bind_ok in H as [a [H3 H]].
  repeat split; try assumption. - apply nodupd_NoDup; assumption. - exists a; split; assumption.
Qed.

(* a digest string occurring in a value (anywhere, also inside the preimage of another digest string) *)
Fixpoint occurs (g : val) (v : val) {struct v} : Prop :=
  match v with
  | VDig _ _ _ _ _ x => g = v \/ occurs g x
  | VStr _ => g = v
  | VArr l => fold_right (fun x acc => occurs g x \/ acc) False l
  | VObj m => fold_right (fun kv acc => occurs g (snd kv) \/ acc) False m
  | _ => False
  end.

Lemma fold_or {A} (P : A -> Prop) l : fold_right (fun x acc => P x \/ acc) False l <-> exists x, In x l /\ P x.
Proof.
  induction l as [|x r IH]; cbn; [split; [tauto|intros [? [[] _]]]|].
  rewrite IH. split.
  - intros [H|[y [Hy H]]]; eauto.
  - intros [y [[->|Hy] H]]; eauto.
Qed.

(* every digest string the walk meets (recData.nestedSD) is a string of the payload or of the preimage of one *)
Definition Qc (D : list val) (v : val) : Prop := forall ctx g, In g (collect D ctx v) -> occurs g v.
Definition Pc (D : list val) (v : val) : Prop :=
  Qc D v /\ match v with
            | VObj m => Forall (fun kv => Qc D (snd kv)) m
            | VArr l => Forall (Qc D) l
            | _ => True
            end.

Lemma collect_occurs_P D v : Pc D v.
Proof.
  induction v as [| b | z | s | a c e s n v IH | l IH | m IH] using val_ind'; (split; [|try exact I]).
  1-3: intros ctx g Hin; cbn in Hin; contradiction.
  - intros ctx g Hin; cbn in Hin. destruct (N.eqb ctx 0); [contradiction|]. destruct Hin as [<-|[]]. reflexivity.
  - intros ctx g Hin; cbn in Hin. destruct (N.eqb ctx 0); [contradiction|]. cbn. destruct Hin as [<-|Hin]; [left; reflexivity|].
    right. destruct (memv (VDig a c e s n v) D && N.eqb e ctx); [|contradiction]. destruct IH as [IH _]. eapply IH; eassumption.
  - intros ctx g Hin; cbn in Hin. cbn. apply fold_or. apply in_flat_map in Hin as [x [Hx Hin]].
    exists x; split; [assumption|]. rewrite Forall_forall in IH. specialize (IH x Hx).
    destruct x; try contradiction. destruct IH as [_ IH]. rewrite Forall_forall in IH.
    apply in_flat_map in Hin as [[k y] [Hy Hin]]. cbn in Hin. destruct (String.eqb k DOTS); [|contradiction].
    cbn. apply fold_or. exists (k, y); split; [assumption|]. cbn. eapply (IH (k, y) Hy); eassumption.
  - apply Forall_forall. intros x Hx. rewrite Forall_forall in IH. apply (IH x Hx).
  - intros ctx g Hin; cbn in Hin. cbn. apply fold_or. apply in_flat_map in Hin as [[k x] [Hx Hin]].
    exists (k, x); split; [assumption|]. rewrite Forall_forall in IH. specialize (IH (k, x) Hx). cbn in *.
    destruct IH as [IH IH2].
    destruct (String.eqb k SD).
    + destruct x; try contradiction. apply in_flat_map in Hin as [y [Hy Hin]].
      rewrite Forall_forall in IH2. cbn. apply fold_or. exists y; split; [assumption|]. eapply (IH2 y Hy); eassumption.
    + eapply IH; eassumption.
  - apply Forall_forall. intros kv Hkv. rewrite Forall_forall in IH. apply (IH kv Hkv).
Qed.

Lemma collect_occurs D v ctx g : In g (collect D ctx v) -> occurs g v.
Proof. apply (proj1 (collect_occurs_P D v)). Qed.

Lemma verify_disclosures_inv payload ds :
  verify_disclosures payload ds = Ok tt ->
  exists a, get_alg payload = Ok a /\ Forall (fun d => (2 <= d_e d)%N) ds /\
            NoDup (collect (map (digest a) ds) 0 payload) /\
            forall d, In d ds -> In (digest a d) (collect (map (digest a) ds) 0 payload).
Proof.
  unfold verify_disclosures. intro H. apply bind_ok in H as [a [Ha H]]. exists a. split; [assumption|].
  destruct (forallb (fun d => N.leb 2 (d_e d)) ds) eqn:He; [|discriminate].
  apply bind_ok in H as [o [_ H]].
  destruct (nodupv (collect (map (digest a) ds) 0 payload)) eqn:Hn; [|discriminate].
  destruct (forallb (fun g => memv g (collect (map (digest a) ds) 0 payload)) (map (digest a) ds)) eqn:Hf; [|discriminate].
  repeat split.
  - apply Forall_forall. intros d Hd. rewrite forallb_forall in He. apply N.leb_le. apply He; assumption.
  - apply nodupv_NoDup; assumption.
  - intros d Hd. rewrite forallb_forall in Hf. apply memv_In. apply Hf. apply in_map; assumption.
Qed.

(* the issuer committed to every accepted disclosure *)
Lemma accept_committed vo p out :
  verify vo p = Ok out ->
  exists a, get_alg (p_payload p) = Ok a /\ forall d, In d (p_discs p) -> occurs (digest a d) (p_payload p).
Proof.
  intro H. apply verify_ok_inv in H as (_ & _ & _ & Hv & _ & _).
  apply verify_disclosures_inv in Hv as (a & Ha & _ & _ & Hall).
  exists a; split; [assumption|]. intros d Hd. eapply collect_occurs. apply Hall; assumption.
Qed.

Lemma reject_duplicate vo p : ~ NoDup (p_discs p) -> is_ok (verify vo p) = false.
Proof.
  intro H. destruct (verify vo p) eqn:E; try reflexivity.
  apply verify_ok_inv in E as (_ & _ & Hn & _). contradiction.
Qed.

Lemma reject_malformed vo p d : In d (p_discs p) -> (d_e d < 2)%N -> is_ok (verify vo p) = false.
Proof.
  intros Hd He. destruct (verify vo p) eqn:E; try reflexivity.
  apply verify_ok_inv in E as (_ & _ & _ & Hv & _). apply verify_disclosures_inv in Hv as (a0 & _ & Hf & _).
  rewrite Forall_forall in Hf. specialize (Hf d Hd). lia.
Qed.

Lemma reject_bad_signature vo p : p_sig_ok p = false -> is_ok (verify vo p) = false.
Proof. intro H. unfold verify. rewrite H. reflexivity. Qed.

Lemma reject_bad_time vo p : payload_time_ok vo (p_payload p) = false -> is_ok (verify vo p) = false.
Proof. intro H. destruct (verify vo p) eqn:E; try reflexivity. apply verify_ok_inv in E as (_ & Ht & _). congruence. Qed.

(* ---------- holder binding ---------- *)
Lemma binding_inv vo p out :
  verify vo p = Ok out ->
  match p_hb p with
  | None => vo_required vo = false
  | Some h =>
      get_cnf_key (p_payload p) = Ok (hb_key h) /\ hb_ok h = true /\
      time_ok (vo_now vo) (vo_leeway vo) (hb_iat h) None None = true /\
      (vo_nonce vo = "" \/ vo_nonce vo = hb_nonce h) /\ (vo_aud vo = "" \/ vo_aud vo = hb_aud h)
  end.
Proof.
  intro H. apply verify_ok_inv in H as (_ & _ & _ & _ & Hh & _).
  unfold holder_verification in Hh. destruct (p_hb p) as [h|].
  - apply bind_ok in Hh as [k [Hk Hh]].
    destruct (Z.eqb k (hb_key h)) eqn:E1; cbn [negb andb] in Hh; [|discriminate].
    destruct (hb_ok h) eqn:E2; cbn [negb andb] in Hh; [|discriminate].
    destruct (time_ok (vo_now vo) (vo_leeway vo) (hb_iat h) None None) eqn:E7; cbn [negb andb] in Hh; [|discriminate].
    apply Z.eqb_eq in E1. subst k. split; [assumption|]. split; [reflexivity|]. split; [reflexivity|].
    destruct (String.eqb (vo_nonce vo) "") eqn:E3; cbn [negb andb] in Hh.
    + apply String.eqb_eq in E3. split; [left; assumption|].
      destruct (String.eqb (vo_aud vo) "") eqn:E5; cbn [negb andb] in Hh; [apply String.eqb_eq in E5; left; assumption|].
      destruct (String.eqb (vo_aud vo) (hb_aud h)) eqn:E6; cbn [negb andb] in Hh; [|discriminate]. apply String.eqb_eq in E6. right; assumption.
    + destruct (String.eqb (vo_nonce vo) (hb_nonce h)) eqn:E4; cbn [negb andb] in Hh; [|discriminate].
      apply String.eqb_eq in E4. split; [right; assumption|].
      destruct (String.eqb (vo_aud vo) "") eqn:E5; cbn [negb andb] in Hh; [apply String.eqb_eq in E5; left; assumption|].
      destruct (String.eqb (vo_aud vo) (hb_aud h)) eqn:E6; cbn [negb andb] in Hh; [|discriminate]. apply String.eqb_eq in E6. right; assumption.
  - destruct (vo_required vo); [discriminate|reflexivity].
Qed.
