(* C18 — the error classes of the interleaved verifier (Walk.v): which classes the walk itself can report, and what
   each class of verify_w says about where verifier.Parse stopped. *)
From Coq Require Import List String ZArith NArith Bool Lia.
Import ListNotations.
From VF Require Import C18.Model C18.Walk C18.Proofs C18.WalkProofs.
Open Scope string_scope.
Open Scope list_scope.

Definition walk_class (e : wclass) : Prop :=
  match e with XDupDigest | XArity | XClash | XStruct => True | _ => False end.

Section Classes.
  Variable c : bool.
  Variable D : list val.

  Definition E0 (v : val) := forall s e, walk c D v s = WErr e -> walk_class e.
  Definition E1 (g : val) := forall ctx s e, wenter (walk c D) D ctx g s = WErr e -> walk_class e.
  Definition E2 (x : val) := forall s e, welem (walk c D) c D x s = WErr e -> walk_class e.
  Definition E3 (x : val) := forall s e, wsd (walk c D) D x s = WErr e -> walk_class e.
  Definition PE (v : val) := E0 v /\ E1 v /\ E2 v /\ E3 v.

  Lemma run_elems_err l : Forall E2 l -> forall s e, run_elems (map (welem (walk c D) c D) l) s = WErr e -> walk_class e.
  Proof.
    induction 1 as [|x r Hx Hr IH]; intros s e H; cbn in H; [discriminate|].
    destruct (welem (walk c D) c D x s) as [[o s1]|e1] eqn:E1'.
    - destruct (run_elems (map (welem (walk c D) c D) r) s1) as [[t s2]|e2] eqn:E2'; [discriminate|].
      inversion H; subst. apply (IH _ _ E2').
    - inversion H; subst. apply (Hx _ _ E1').
  Qed.

  Lemma run_sd_err gl : Forall E1 gl -> forall acc s e,
      run_sd (map (fun g => (dig_name g, wenter (walk c D) D 3 g)) gl) acc s = WErr e -> walk_class e.
  Proof.
    induction 1 as [|g r Hg Hr IH]; intros acc s e H; cbn in H; [discriminate|].
    destruct (wenter (walk c D) D 3 g s) as [[o s1]|e1] eqn:E1'.
    - destruct o as [y|].
      + destruct (mems (dig_name g) (map fst acc)); [inversion H; subst; exact I|apply (IH _ _ _ H)].
      + apply (IH _ _ _ H).
    - inversion H; subst. apply (Hg _ _ _ E1').
  Qed.

  Lemma run_plain_err m : Forall (fun kv => E0 (snd kv)) m -> forall taken acc s e,
      run_plain (flat_map (fun kv => if reserved c (fst kv) then [] else [(fst kv, walk c D (snd kv))]) m) taken acc s = WErr e ->
      walk_class e.
  Proof.
    induction 1 as [|[k x] r Hx Hr IH]; intros taken acc s e H; [cbn in H; discriminate|].
    cbn [flat_map fst snd] in H. destruct (reserved c k); cbn [app] in H; [apply (IH _ _ _ _ H)|].
    cbn in H. destruct (walk c D x s) as [[y s1]|e1] eqn:E1'.
    - destruct (mems k taken); [inversion H; subst; exact I|apply (IH _ _ _ _ H)].
    - inversion H; subst. apply (Hx _ _ E1').
  Qed.

  Lemma walk_class_P v : PE v.
  Proof.
    induction v as [| b | z | st | a c0 e0 sa n v IH | l IH | m IH] using val_ind'.
    - split; [|split; [|split]]; [intros s e H|intros ctx s e H|intros s e H|intros s e H]; cbn in H; try discriminate.
      unfold wenter in H. destruct (memv VNull s); [inversion H; subst; exact I|discriminate].
    - split; [|split; [|split]]; [intros s e H|intros ctx s e H|intros s e H|intros s e H]; cbn in H; try discriminate.
      + unfold wenter in H. destruct (memv (VBool b) s); [inversion H; subst; exact I|discriminate].
      + inversion H; subst; exact I.
    - split; [|split; [|split]]; [intros s e H|intros ctx s e H|intros s e H|intros s e H]; cbn in H; try discriminate.
      + unfold wenter in H. destruct (memv (VNum z) s); [inversion H; subst; exact I|discriminate].
      + inversion H; subst; exact I.
    - split; [|split; [|split]]; [intros s e H|intros ctx s e H|intros s e H|intros s e H]; cbn in H; try discriminate.
      + unfold wenter in H. destruct (memv (VStr st) s); [inversion H; subst; exact I|discriminate].
      + inversion H; subst; exact I.
    - destruct IH as [IH0 _].
      split; [|split; [|split]]; [intros s e H|intros ctx s e H|intros s e H|intros s e H]; cbn in H; try discriminate.
      + unfold wenter in H. destruct (memv (VDig a c0 e0 sa n v) s); [inversion H; subst; exact I|].
        destruct (memv (VDig a c0 e0 sa n v) D); [|discriminate].
        destruct (N.eqb e0 ctx); [|inversion H; subst; exact I].
        destruct (walk c D v (VDig a c0 e0 sa n v :: s)) as [[y s2]|e2] eqn:E; [discriminate|].
        inversion H; subst. apply (IH0 _ _ E).
      + inversion H; subst; exact I.
    - split; [|split; [|split]]; [intros s e H|intros ctx s e H|intros s e H|intros s e H].
      + cbn in H. destruct (run_elems (map (welem (walk c D) c D) l) s) as [[l' s1]|e1] eqn:E; [discriminate|].
        inversion H; subst. assert (HE2 : Forall E2 l). { eapply Forall_impl; [|exact IH]. intros x Hx. apply Hx. }
        apply (run_elems_err l HE2 _ _ E).
      + unfold wenter in H. destruct (memv (VArr l) s); [inversion H; subst; exact I|discriminate].
      + cbn in H. discriminate.
      + cbn in H. destruct (forallb is_string l); [|inversion H; subst; exact I].
        assert (HE1 : Forall E1 l). { eapply Forall_impl; [|exact IH]. intros x Hx. apply Hx. }
        apply (run_sd_err l HE1 _ _ _ H).
    - split; [|split; [|split]]; [intros s e H|intros ctx s e H|intros s e H|intros s e H].
      + cbn [walk] in H.
        assert (HE0 : Forall (fun kv => E0 (snd kv)) m). { eapply Forall_impl; [|exact IH]. intros kv Hx. apply Hx. }
        destruct (hd (fun s => WOk ([], s))
                     (flat_map (fun kv => if String.eqb (fst kv) SD then [wsd (walk c D) D (snd kv)] else []) m) s)
          as [[sdl s1]|e1] eqn:E1'.
        * destruct (run_plain _ (map fst sdl) [] s1) as [[pl s2]|e2] eqn:E2'; [discriminate|].
          inversion H; subst. apply (run_plain_err m HE0 _ _ _ _ E2').
        * inversion H; subst.
          destruct (first_member SD (fun kv => wsd (walk c D) D (snd kv)) (fun kv => wsd (walk c D) D (snd kv)) m)
            as [[H1 _]|[kv [r1 [r2 [Hin [H1 _]]]]]]; rewrite H1 in E1'; cbn in E1'; [discriminate|].
          rewrite Forall_forall in IH. destruct (IH kv Hin) as (_ & _ & _ & HE3). apply (HE3 _ _ E1').
      + unfold wenter in H. destruct (memv (VObj m) s); [inversion H; subst; exact I|discriminate].
      + unfold welem in H.
        destruct (first_member DOTS (fun kv => (snd kv, wenter (walk c D) D 2 (snd kv)))
                               (fun kv => (snd kv, wenter (walk c D) D 2 (snd kv))) m)
          as [[H1 _]|[kv [r1 [r2 [Hin [H1 _]]]]]]; rewrite H1 in H; [discriminate|].
        destruct (is_string (snd kv)); [|inversion H; subst; exact I].
        destruct (wenter (walk c D) D 2 (snd kv) s) as [[[y|] s1]|e1] eqn:E; try discriminate.
        inversion H; subst. rewrite Forall_forall in IH. destruct (IH kv Hin) as (_ & HE1 & _). apply (HE1 _ _ _ E).
      + cbn in H. inversion H; subst; exact I.
  Qed.

  Lemma walk_err_class v s e : walk c D v s = WErr e -> walk_class e.
  Proof. apply (proj1 (walk_class_P v)). Qed.
End Classes.

(* what the class of an error of verifier.Parse says *)
Definition class_meaning (vo : vopts) (p : presentation) (e : wclass) : Prop :=
  match e with
  | XSig => p_sig_ok p = false
  | XTime => p_sig_ok p = true /\ payload_time_ok vo (p_payload p) = false
  | XDupDisc => ~ NoDup (p_discs p)
  | XAlg => is_ok (get_alg (p_payload p)) = false
  | XMalformed => exists d, In d (p_discs p) /\ (d_e d < 2)%N
  | XNotFound =>
      exists a y seen, get_alg (p_payload p) = Ok a /\
        walk false (map (digest a) (p_discs p)) (p_payload p) [] = WOk (y, seen) /\
        exists d, In d (p_discs p) /\ ~ In (digest a d) seen
  | XBinding => verify_disclosures_w (p_payload p) (p_discs p) = WOk tt /\
                is_ok (holder_verification vo (p_payload p) (p_hb p)) = false
  | _ => exists a cl s e', get_alg (p_payload p) = Ok a /\
                           walk cl (map (digest a) (p_discs p)) (p_payload p) s = WErr e' /\ e' = e
  end.

Lemma verify_w_class vo p e : verify_w vo p = WErr e -> class_meaning vo p e.
Proof.
  unfold verify_w.
  destruct (p_sig_ok p) eqn:Hs; cbn [negb]; [|intro H; inversion H; subst; exact Hs].
  destruct (payload_time_ok vo (p_payload p)) eqn:Ht; cbn [negb]; [|intro H; inversion H; subst; split; [exact Hs|exact Ht]].
  destruct (nodupd (p_discs p)) eqn:Hd; cbn [negb].
  2:{ intro H; inversion H; subst. cbn. intro Hn. apply nodupd_NoDup in Hn. congruence. }
  assert (Hvd : forall e1, verify_disclosures_w (p_payload p) (p_discs p) = WErr e1 -> class_meaning vo p e1).
  { unfold verify_disclosures_w.
    destruct (get_alg (p_payload p)) as [a|ec|n|] eqn:Ha; try (intros e1 H; inversion H; subst; cbn; rewrite Ha; reflexivity).
    destruct (forallb (fun d => N.leb 2 (d_e d)) (p_discs p)) eqn:Hf.
    - destruct (walk false (map (digest a) (p_discs p)) (p_payload p) []) as [[y0 seen]|e0] eqn:E0.
      + destruct (forallb (fun g => memv g seen) (map (digest a) (p_discs p))) eqn:Hall; [discriminate|].
        intros e1 H; inversion H; subst. cbn. exists a, y0, seen. split; [exact Ha|]. split; [exact E0|].
        assert (Hex : existsb (fun g => negb (memv g seen)) (map (digest a) (p_discs p)) = true).
        { clear -Hall. induction (map (digest a) (p_discs p)) as [|g r IH]; cbn in *; [discriminate|].
          destruct (memv g seen); cbn in *; [apply IH; assumption|reflexivity]. }
        apply existsb_exists in Hex as [g [Hg Hm]]. apply in_map_iff in Hg as [d [Hdg Hin]]. subst g.
        exists d. split; [assumption|]. intro Hc. apply memv_In in Hc. rewrite Hc in Hm. discriminate.
      + intros e1 H; inversion H; subst. pose proof (walk_err_class _ _ _ _ _ E0) as Hc.
        destruct e1; cbn in Hc; try contradiction; cbn; (exists a, false, []; eexists; (split; [exact Ha|split; [exact E0|reflexivity]])).
    - intros e1 H; inversion H; subst. cbn.
      assert (Hex : existsb (fun d => negb (N.leb 2 (d_e d))) (p_discs p) = true).
      { clear -Hf. induction (p_discs p) as [|d r IH]; cbn in *; [discriminate|].
        destruct (N.leb 2 (d_e d)); cbn in *; [apply IH; assumption|reflexivity]. }
      apply existsb_exists in Hex as [d [Hdi Hm]]. exists d. split; [assumption|].
      apply negb_true_iff in Hm. apply N.leb_gt in Hm. exact Hm. }
  destruct (verify_disclosures_w (p_payload p) (p_discs p)) as [[]|e1] eqn:Ev.
  2:{ intro H; inversion H; subst. apply Hvd. reflexivity. }
  destruct (holder_verification vo (p_payload p) (p_hb p)) as [[]|ec|n|] eqn:Hh;
    try (intro H; inversion H; subst; cbn; split; [exact Ev|rewrite Hh; reflexivity]).
  destruct (get_alg (p_payload p)) as [a|ec|n|] eqn:Ha; try (intro H; inversion H; subst; cbn; rewrite Ha; reflexivity).
  destruct (walk true (map (digest a) (p_discs p)) (p_payload p) []) as [[y1 s1]|e1] eqn:E1; [discriminate|].
  intro H; inversion H; subst. pose proof (walk_err_class _ _ _ _ _ E1) as Hc.
  destruct e; cbn in Hc; try contradiction; cbn; (exists a, true, []; eexists; (split; [exact Ha|split; [exact E1|reflexivity]])).
Qed.
