(* C18 — the exactness theorem about the interleaved verifier: an honest presentation of an issued SD-JWT is accepted
   by Walk.v verify_w and the output is visible + chosen (Accept.honest_flow through WalkComplete.verify_w_complete). *)
From Coq Require Import List String ZArith NArith Bool.
Import ListNotations.
From VF Require Import C18.Model C18.Walk C18.Proofs C18.Exact C18.Accept C18.WalkSound C18.WalkComplete.
Open Scope string_scope.
Open Scope list_scope.

Lemma honest_flow_w o claims sel payload ds vo hb :
  alg_ok (o_alg o) -> clean (VObj claims) = true ->
  ~ In "iss" (map fst claims) -> ~ In "cnf" (map fst claims) ->
  forallb site_path sel = true -> closedb sel ds = true ->
  (o_v5 o = true -> akept5 o sel false [] (VObj claims) = true) ->
  issue o claims = Ok (payload, ds) ->
  wfb payload = true ->
  payload_time_ok vo payload = true ->
  holder_verification vo payload hb = Ok tt ->
  exists out, verify_w vo {| p_sig_ok := true; p_payload := payload; p_discs := choose sel ds; p_hb := hb |} = WOk out /\
              veq out (reveal o sel claims).
Proof.
  intros Ha Hc Hiss Hcnf Hsel Hclo Hak Hi Hw Htime Hhb.
  destruct (honest_flow o claims sel payload ds vo hb Ha Hc Hiss Hcnf Hsel Hclo Hak Hi Htime Hhb) as (out & Hv & Hq).
  exists out. split; [|exact Hq]. apply verify_w_complete; [exact Hw|exact Hv].
Qed.
