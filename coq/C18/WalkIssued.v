(* C18 — an issued payload has pairwise different member names in every object, also inside the texts behind its
   digest strings (wfb): the hypothesis of the interleaved / layered equivalence holds for whatever the issuer model
   emits from a clean claim set, so the exactness theorem about the interleaved verifier needs no extra hypothesis. *)
From Coq Require Import List String ZArith NArith Bool Lia.
Import ListNotations.
From VF Require Import C18.Model C18.Walk C18.Proofs C18.Exact C18.Accept C18.WalkSound C18.WalkComplete C18.WalkHonest.
Open Scope string_scope.
Open Scope list_scope.

Inductive subseq : list string -> list string -> Prop :=
| sub_nil : subseq [] []
| sub_skip a b x : subseq a b -> subseq a (x :: b)
| sub_take a b x : subseq a b -> subseq (x :: a) (x :: b).

Lemma subseq_incl a b : subseq a b -> incl a b.
Proof.
  induction 1 as [|a b x H IH|a b x H IH]; intros y Hy; [contradiction|right; apply IH; assumption|].
  destruct Hy as [<-|Hy]; [left; reflexivity|right; apply IH; assumption].
Qed.
Lemma subseq_NoDup a b : subseq a b -> NoDup b -> NoDup a.
Proof.
  induction 1 as [|a b x H IH|a b x H IH]; intro Hn; [constructor| |]; inversion Hn; subst; [apply IH; assumption|].
  constructor; [|apply IH; assumption]. intro Hin. apply (subseq_incl _ _ H) in Hin. contradiction.
Qed.
Lemma subseq_app a1 b1 a2 b2 : subseq a1 b1 -> subseq a2 b2 -> subseq (a1 ++ a2) (b1 ++ b2).
Proof. induction 1; intro H2; cbn; [assumption|apply sub_skip; auto|apply sub_take; auto]. Qed.
Lemma subseq_nil_l b : subseq [] b.
Proof. induction b; [constructor|apply sub_skip; assumption]. Qed.
Lemma subseq_refl a : subseq a a.
Proof. induction a; [constructor|apply sub_take; assumption]. Qed.

Lemma clean_wfb v : clean v = true -> wfb v = true.
Proof.
  induction v as [| b | z | s | a0 e0 e s n v IH | l IH | m IH] using val_ind'; intro H; try reflexivity; try (cbn in H; discriminate).
  - cbn in H. apply andb_true_iff in H as [_ H]. cbn. apply forallb_forall. intros x Hx.
    rewrite Forall_forall in IH. rewrite forallb_forall in H. apply IH; [assumption|apply H; assumption].
  - cbn in H. apply andb_true_iff in H as [H1 H2]. cbn. rewrite H1. cbn. apply forallb_forall. intros kv Hkv.
    rewrite Forall_forall in IH. rewrite forallb_forall in H2. specialize (H2 kv Hkv). apply andb_true_iff in H2 as [_ H2].
    apply IH; assumption.
Qed.

(* what the issuer's recursion keeps: values and disclosed values are wfb, the visible names are a subsequence of
   the given names *)
Definition twf (names : list string) (t : triple) : Prop :=
  (forall kv, In kv (t_vis t) -> wfb (snd kv) = true) /\
  (forall d, In d (t_lvl t ++ t_nst t) -> wfb (d_val d) = true) /\
  subseq (map fst (t_vis t)) names.

Lemma decoys_wfb p n d : In d (decoy_discs p n) -> wfb (d_val d) = true.
Proof.
  induction n as [|k IH]; cbn; [contradiction|]. intro H. apply in_app_or in H as [H|[<-|[]]]; [apply IH; assumption|reflexivity].
Qed.

Lemma digests_wfb a ds : (forall d, In d ds -> wfb (d_val d) = true) -> forallb wfb (map (digest a) ds) = true.
Proof.
  intro H. apply forallb_forall. intros g Hg. apply in_map_iff in Hg as (d & <- & Hd). cbn. apply H; assumption.
Qed.

Lemma nodups_snoc_sd names : NoDup names -> ~ In SD names -> nodups (names ++ [SD]) = true.
Proof.
  intros Hn Hs. apply nodups_NoDup'. apply NoDup_app_iff. split; [assumption|]. split; [constructor; [tauto|constructor]|].
  intros x Hx [<-|[]]. contradiction.
Qed.

(* an object the issuer builds: visible members and an "_sd" member *)
Lemma obj_wfb names vis sdv :
  NoDup names -> ~ In SD names -> subseq (map fst vis) names ->
  (forall kv, In kv vis -> wfb (snd kv) = true) -> wfb sdv = true ->
  wfb (VObj (vis ++ [(SD, sdv)])) = true /\ wfb (VObj vis) = true.
Proof.
  intros Hn Hs Hsub Hv Hsd.
  assert (Hnv : NoDup (map fst vis)) by (eapply subseq_NoDup; eassumption).
  assert (Hsv : ~ In SD (map fst vis)) by (intro Hin; apply Hs; eapply subseq_incl; eassumption).
  split; cbn [wfb].
  - rewrite map_app. cbn [map fst]. rewrite (nodups_snoc_sd _ Hnv Hsv). cbn [andb].
    rewrite forallb_app. cbn [forallb snd]. rewrite Hsd. rewrite andb_true_r. apply forallb_forall. assumption.
  - rewrite (nodups_NoDup' _ Hnv). cbn [andb]. apply forallb_forall. assumption.
Qed.

Lemma sd_member_wfb a ds : (forall d, In d ds -> wfb (d_val d) = true) -> wfb (sd_member (map (digest a) ds)) = true.
Proof.
  intro H. unfold sd_member. destruct (map (digest a) ds) eqn:E; [reflexivity|]. rewrite <- E. cbn [wfb]. apply digests_wfb; assumption.
Qed.

Lemma names_of m : map fst m = flat_map (fun kv : string * val => [fst kv]) m.
Proof. induction m as [|kv r IH]; cbn; [reflexivity|]. rewrite IH. reflexivity. Qed.

Lemma twf_cat3 (m : list (string * val)) ts :
  Forall2 (fun kv t => twf [fst kv] t) m ts -> twf (map fst m) (cat3 ts).
Proof.
  induction 1 as [|kv t r ts' (Hv & Hd & Hs) Hr (IHv & IHd & IHs)]; [repeat split; try (intros ? []); constructor|].
  unfold twf, cat3, t_vis, t_lvl, t_nst in *. cbn [fst snd flat_map map] in *. repeat split.
  - intros x Hx. apply in_app_or in Hx as [Hx|Hx]; [apply Hv|apply IHv]; assumption.
  - intros d Hx. apply in_app_or in Hx as [Hx|Hx]; apply in_app_or in Hx as [Hx|Hx].
    + apply Hd. apply in_or_app; left; assumption.
    + apply IHd. apply in_or_app; left; assumption.
    + apply Hd. apply in_or_app; right; assumption.
    + apply IHd. apply in_or_app; right; assumption.
  - rewrite map_app. change (fst kv :: map fst r) with ([fst kv] ++ map fst r). apply subseq_app; assumption.
Qed.

Lemma twf_vis k x : wfb x = true -> twf [k] ([(k, x)], [], []).
Proof. intro H. repeat split; [intros kv [<-|[]]; exact H|intros d []|apply subseq_refl]. Qed.
Lemma twf_sd k d nst : wfb (d_val d) = true -> (forall d', In d' nst -> wfb (d_val d') = true) -> twf [k] ([], [d], nst).
Proof.
  intros H Hn. repeat split; [intros kv []| |apply subseq_nil_l]. intros d' [<-|Hin]; [exact H|apply Hn; assumption].
Qed.

Lemma clean_names m : clean (VObj m) = true -> NoDup (map fst m) /\ ~ In SD (map fst m) /\ ~ In SDALG (map fst m).
Proof.
  intro Hc. destruct (clean_obj_inv m Hc) as [Hn Hm]. split; [assumption|]. rewrite forallb_forall in Hm.
  split; intro Hin; apply in_map_iff in Hin as (kv & Hk & Hkv); specialize (Hm kv Hkv); apply andb_true_iff in Hm as [Hm _];
    rewrite Hk in Hm; vm_compute in Hm; discriminate.
Qed.

Lemma issue2_twf o cv : forall p m, cv = VObj m -> clean cv = true -> twf (map fst m) (issue2 o p cv).
Proof.
  induction cv as [| b | z | s | a0 e0 e s n v IH | l IH | m0 IH] using val_ind'; intros p m E Hc; try discriminate.
  inversion E; subst m0. cbn [issue2]. apply twf_cat3.
  destruct (clean_obj_inv m Hc) as [_ Hm]. rewrite forallb_forall in Hm. rewrite Forall_forall in IH.
  assert (HF : forall kv, In kv m -> twf [fst kv] (member2 (issue2 o) o p kv)).
  { intros [k x] Hkx. specialize (Hm (k, x) Hkx). cbn [fst snd] in Hm. apply andb_true_iff in Hm as [_ Hcx].
    specialize (IH (k, x) Hkx). cbn [snd] in IH. unfold member2. cbn [fst snd].
    assert (Hleaf : twf [k] (if memp (p ++ [SKey k]) (o_nonsd o) then ([(k, x)], [], []) else ([], [mk 3 (p ++ [SKey k]) k x], []))).
    { destruct (memp (p ++ [SKey k]) (o_nonsd o)); [apply twf_vis|apply twf_sd; [|intros ? []]]; apply clean_wfb; exact Hcx. }
    destruct x as [| | | | | |mm]; try exact Hleaf. destruct (o_structured o); [|exact Hleaf].
    destruct (IH (p ++ [SKey k]) mm eq_refl Hcx) as (Hv & Hd & Hs).
    destruct (clean_names mm Hcx) as (Hn & Hsd & _).
    repeat split.
    - intros kv [<-|[]]. cbn [snd]. unfold sd2.
      assert (Hall : forall d, In d (t_lvl (issue2 o (p ++ [SKey k]) (VObj mm)) ++ decoy_discs (p ++ [SKey k]) (o_decoys o)) ->
                               wfb (d_val d) = true).
      { intros d Hin. apply in_app_or in Hin as [Hin|Hin]; [apply Hd; apply in_or_app; left; assumption|eapply decoys_wfb; eassumption]. }
      apply (proj1 (obj_wfb (map fst mm) _ _ Hn Hsd Hs Hv (sd_member_wfb _ _ Hall))).
    - intros d Hin. cbn [t_lvl t_nst fst snd app] in Hin. apply Hd. exact Hin.
    - cbn. apply subseq_refl. }
  clear -HF. induction m as [|kv r IHr]; cbn; constructor; [apply HF; left; reflexivity|apply IHr; intros kv' Hin; apply HF; right; assumption].
Qed.

(* ---------- v5 ---------- *)
Lemma elems5_wfb o p l : forall i, forallb clean l = true ->
  forallb wfb (fst (elems5 o p i l)) = true /\ (forall d, In d (snd (elems5 o p i l)) -> wfb (d_val d) = true).
Proof.
  induction l as [|x r IH]; intros i Hc; [split; [reflexivity|intros d []]|].
  cbn [forallb] in Hc. apply andb_true_iff in Hc as [Hcx Hcr]. cbn [elems5].
  specialize (IH (N.succ i) Hcr). destruct (elems5 o p (N.succ i) r) as [es ds]. cbn [fst snd] in IH. destruct IH as [IH1 IH2].
  pose proof (clean_wfb x Hcx) as Hwx.
  destruct (memp (p ++ [SIdx i]) (o_nonsd o)); cbn [fst snd forallb].
  - split; [rewrite Hwx, IH1; reflexivity|exact IH2].
  - split.
    + rewrite IH1, andb_true_r. cbn. rewrite Hwx. reflexivity.
    + intros d [<-|Hin]; [exact Hwx|apply IH2; assumption].
Qed.

Lemma arr_member_wfb es : forallb wfb es = true -> wfb (arr_member es) = true.
Proof. intro H. unfold arr_member. destruct es; [reflexivity|exact H]. Qed.

Lemma sd5_wfb o cur lvl : (forall d, In d lvl -> wfb (d_val d) = true) ->
  sd5 o cur lvl = [] \/ exists sdv, sd5 o cur lvl = [(SD, sdv)] /\ wfb sdv = true.
Proof.
  intro H. unfold sd5. destruct (lvl ++ decoy_discs cur (o_decoys o)) as [|d1 l1] eqn:E; [left; reflexivity|].
  right. eexists. split; [reflexivity|]. rewrite <- E. cbn [wfb]. apply digests_wfb.
  intros d Hin. apply in_app_or in Hin as [Hin|Hin]; [apply H; assumption|eapply decoys_wfb; eassumption].
Qed.

Lemma obj5_wfb o cur names t :
  NoDup names -> ~ In SD names -> twf names t -> wfb (obj5 o cur (t_vis t) (t_lvl t)) = true.
Proof.
  intros Hn Hs (Hv & Hd & Hsub). unfold obj5.
  assert (Hl : forall d, In d (t_lvl t) -> wfb (d_val d) = true). { intros d Hin. apply Hd. apply in_or_app; left; assumption. }
  destruct (sd5_wfb o cur (t_lvl t) Hl) as [-> |(sdv & -> & Hsd)].
  - rewrite app_nil_r. apply (proj2 (obj_wfb names (t_vis t) VNull Hn Hs Hsub Hv eq_refl)).
  - apply (proj1 (obj_wfb names (t_vis t) sdv Hn Hs Hsub Hv Hsd)).
Qed.

Lemma issue5_twf o cv : forall ign p m t, cv = VObj m -> clean cv = true -> issue5 o ign p cv = Ok t -> twf (map fst m) t.
Proof.
  induction cv as [| b | z | s | a0 e0 e s n v IH | l IH | m0 IH] using val_ind'; intros ign p m t E Hc Ht; try discriminate.
  inversion E; subst m0. cbn [issue5] in Ht.
  destruct (seq3 (map (member5 (issue5 o) o ign p) m)) as [ts| | |] eqn:Es; cbn in Ht; try discriminate.
  inversion Ht; subst t. apply twf_cat3. apply seq3_inv in Es.
  destruct (clean_obj_inv m Hc) as [_ Hm]. rewrite forallb_forall in Hm. rewrite Forall_forall in IH.
  assert (HF : forall kv t, In kv m -> member5 (issue5 o) o ign p kv = Ok t -> twf [fst kv] t).
  { intros [k x] t Hkx Ek. specialize (Hm (k, x) Hkx). cbn [fst snd] in Hm. apply andb_true_iff in Hm as [_ Hcx].
    specialize (IH (k, x) Hkx). cbn [snd] in IH. unfold member5 in Ek. cbn [fst snd] in Ek. set (cur := p ++ [SKey k]) in *.
    pose proof (clean_wfb x Hcx) as Hwx.
    destruct x as [| b | z | s | a0 e0 e s n v | l | mm]; try discriminate.
    - destruct (memp cur (o_nonsd o) || ign); inversion Ek; subst; [apply twf_vis|apply twf_sd; [|intros ? []]]; exact Hwx.
    - destruct (memp cur (o_nonsd o) || ign); inversion Ek; subst; [apply twf_vis|apply twf_sd; [|intros ? []]]; exact Hwx.
    - destruct (memp cur (o_nonsd o) || ign); inversion Ek; subst; [apply twf_vis|apply twf_sd; [|intros ? []]]; exact Hwx.
    - destruct (memp cur (o_nonsd o)); [inversion Ek; subst; apply twf_vis; exact Hwx|].
      assert (Hcl : forallb clean l = true) by (cbn in Hcx; apply andb_true_iff in Hcx as [_ H]; exact H).
      pose proof (elems5_wfb o cur l 0 Hcl) as [He1 He2].
      destruct (elems5 o cur 0 l) as [es eds]. cbn [fst snd] in He1, He2.
      destruct (memp cur (o_always o) || o_structured o); inversion Ek; subst.
      + repeat split; [intros kv [<-|[]]; apply arr_member_wfb; exact He1|exact He2|apply subseq_refl].
      + apply twf_sd; [apply arr_member_wfb; exact He1|exact He2].
    - destruct (memp cur (o_nonsd o)); [inversion Ek; subst; apply twf_vis; exact Hwx|].
      destruct (issue5 o (negb (memp cur (o_recursive o) || memp cur (o_always o) || o_structured o)) cur (VObj mm)) as [t'| | |] eqn:Et;
        cbn in Ek; try discriminate.
      pose proof (IH _ _ mm t' eq_refl Hcx Et) as Ht'.
      destruct (clean_names mm Hcx) as (Hn & Hsd & _).
      pose proof (obj5_wfb o cur (map fst mm) t' Hn Hsd Ht') as Hobj.
      destruct Ht' as (Hv & Hd & Hs).
      assert (Hall : forall d, In d (decoy_discs cur (o_decoys o) ++ t_lvl t' ++ t_nst t') -> wfb (d_val d) = true).
      { intros d Hin. apply in_app_or in Hin as [Hin|Hin]; [eapply decoys_wfb; eassumption|apply Hd; assumption]. }
      destruct (negb (memp cur (o_recursive o) && negb (memp cur (o_always o))) && (memp cur (o_recursive o) || memp cur (o_always o) || o_structured o));
        inversion Ek; subst.
      + repeat split; [intros kv [<-|[]]; exact Hobj|exact Hall|apply subseq_refl].
      + apply twf_sd; [exact Hobj|exact Hall]. }
  clear -HF Es. revert ts Es. induction m as [|kv r IHr]; intros ts Es; inversion Es; subst; constructor.
  - apply HF; [left; reflexivity|assumption].
  - apply IHr; [intros kv' t' Hin; apply HF; right; assumption|assumption].
Qed.

(* ---------- issuer.New ---------- *)
Lemma issue_wfb o claims payload ds :
  clean (VObj claims) = true -> ~ In "iss" (map fst claims) -> ~ In "cnf" (map fst claims) ->
  issue o claims = Ok (payload, ds) -> wfb payload = true.
Proof.
  intros Hc Hiss Hcnf Hi. unfold issue in Hi. destruct (key_exists_sd (VObj claims)); [discriminate|].
  destruct (clean_names claims Hc) as (Hn & Hsd & Hsa).
  assert (Hreg : forall vis tail, subseq (map fst vis) (map fst claims) ->
             (forall kv, In kv vis -> wfb (snd kv) = true) ->
             (tail = [] \/ exists sdv, tail = [(SD, sdv)] /\ wfb sdv = true) ->
             wfb (VObj (registered o ++ vis ++ tail)) = true).
  { intros vis tail Hsub Hv Ht.
    assert (Hnv : NoDup (map fst vis)) by (eapply subseq_NoDup; eassumption).
    assert (Hno : forall k, In k (map fst vis) -> In k (map fst claims)) by (intros k Hk; eapply subseq_incl; eassumption).
    assert (Hnames : NoDup (map fst (registered o) ++ map fst vis ++ map fst tail)).
    { assert (Hvt : NoDup (map fst vis ++ map fst tail)).
      { destruct Ht as [-> |(sdv & -> & _)]; cbn; [rewrite app_nil_r; assumption|].
        apply NoDup_app_iff. split; [assumption|]. split; [constructor; [tauto|constructor]|].
        intros x Hx [<-|[]]. apply Hsd. apply Hno. assumption. }
      assert (Hdis : forall k, In k (map fst (registered o)) -> ~ In k (map fst vis ++ map fst tail)).
      { intros k Hk Hin. apply in_app_or in Hin as [Hin|Hin].
        - apply Hno in Hin. unfold registered in Hk. destruct (o_cnf o); cbn in Hk;
            repeat (destruct Hk as [<-|Hk]; [first [apply Hiss; exact Hin|apply Hcnf; exact Hin|apply Hsa; exact Hin]|]); contradiction.
        - destruct Ht as [-> |(sdv & -> & _)]; cbn in Hin; [contradiction|]. destruct Hin as [<-|[]].
          unfold registered in Hk. destruct (o_cnf o); cbn in Hk; repeat (destruct Hk as [Hk|Hk]; [vm_compute in Hk; discriminate|]); contradiction. }
      apply NoDup_app_iff. split; [|split; [exact Hvt|exact Hdis]].
      unfold registered. destruct (o_cnf o); cbn; repeat constructor; cbn; intuition discriminate. }
    cbn [wfb]. rewrite !map_app. rewrite (nodups_NoDup' _ Hnames). cbn [andb]. rewrite !forallb_app.
    assert (H1 : forallb (fun kv => wfb (snd kv)) (registered o) = true) by (unfold registered; destruct (o_cnf o); reflexivity).
    assert (H2 : forallb (fun kv => wfb (snd kv)) vis = true) by (apply forallb_forall; assumption).
    assert (H3 : forallb (fun kv => wfb (snd kv)) tail = true) by (destruct Ht as [-> |(sdv & -> & Hs)]; cbn; [reflexivity|rewrite Hs; reflexivity]).
    rewrite H1, H2, H3. reflexivity. }
  destruct (o_v5 o).
  - destruct (issue5 o false [] (VObj claims)) as [t| | |] eqn:Et; cbn in Hi; try discriminate. inversion Hi; subst.
    destruct (issue5_twf o _ false [] claims t eq_refl Hc Et) as (Hv & Hd & Hs).
    apply Hreg; [exact Hs|exact Hv|]. apply sd5_wfb. intros d Hin. apply Hd. apply in_or_app; left; assumption.
  - inversion Hi; subst.
    destruct (issue2_twf o _ [] claims eq_refl Hc) as (Hv & Hd & Hs).
    apply Hreg; [exact Hs|exact Hv|]. right. eexists. split; [reflexivity|]. apply sd_member_wfb.
    intros d Hin. apply in_app_or in Hin as [Hin|Hin]; [apply Hd; apply in_or_app; left; assumption|eapply decoys_wfb; eassumption].
Qed.

(* exactness about the interleaved verifier, with the guard of Props.disclose_exact_partial and nothing else *)
Lemma honest_flow_w' o claims sel payload ds vo hb :
  alg_ok (o_alg o) -> clean (VObj claims) = true ->
  ~ In "iss" (map fst claims) -> ~ In "cnf" (map fst claims) ->
  forallb site_path sel = true -> closedb sel ds = true ->
  (o_v5 o = true -> akept5 o sel false [] (VObj claims) = true) ->
  issue o claims = Ok (payload, ds) ->
  payload_time_ok vo payload = true ->
  holder_verification vo payload hb = Ok tt ->
  exists out, verify_w vo {| p_sig_ok := true; p_payload := payload; p_discs := choose sel ds; p_hb := hb |} = WOk out /\
              veq out (reveal o sel claims).
Proof.
  intros Ha Hc Hiss Hcnf Hsel Hclo Hak Hi Htime Hhb.
  apply honest_flow_w; try assumption. eapply issue_wfb; eassumption.
Qed.

(* a presentation of an issued SD-JWT containing any text the issuer did not emit is refused by the interleaved verifier *)
Lemma w_reject_unissued_issued o claims payload ds vo p d :
  alg_ok (o_alg o) -> clean (VObj claims) = true ->
  ~ In "iss" (map fst claims) -> ~ In "cnf" (map fst claims) ->
  issue o claims = Ok (payload, ds) ->
  p_payload p = payload -> In d (p_discs p) -> ~ In d ds -> w_ok (verify_w vo p) = false.
Proof.
  intros Ha Hc Hiss Hcnf Hi Hp Hd Hn. apply w_reject_of_layered.
  - rewrite Hp. eapply issue_wfb; eassumption.
  - eapply reject_unissued_issued; eassumption.
Qed.
