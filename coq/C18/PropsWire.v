(* C18 — the end-to-end statement about the WIRE string: C08's model of jwt.Parse composed with the interleaved
   SD-JWT verifier (Wire.v).  The C08 primitives (header decoding, DID resolution, meaning of signature bytes,
   PayloadToMap) and the JSON decoding of the payload bytes are parameters quantified in the statements. *)
From Coq Require Import List NArith String Bool.
Import ListNotations.
From VF Require C08.Model C08.Proofs.
From VF Require Import C18.Model C18.Walk C18.Proofs C18.WalkSound C18.Wire.
Open Scope list_scope.

Theorem wire_only_issued_claims_accepted : forall ph rs sm po pd c vo tok ds hb out,
  VF.C08.Proofs.sig_checking c -> verify_wire ph rs sm po pd c vo tok ds hb = WOk out ->
  exists h payload pl,
    VF.C08.Model.parse_jwt ph rs sm po VF.C08.Model.Fixed c false None tok = VF.C08.Model.Accept h payload /\
    VF.C08.Proofs.accepted_facts ph rs sm c None tok h payload /\
    pd payload = Some pl /\
    (wfb pl = true ->
     exists a, get_alg pl = Ok a /\ (forall d, In d ds -> occurs (digest a d) pl) /\ NoDup ds /\
               NoDup (collect (map (digest a) ds) 0 pl) /\
               payload_time_ok vo pl = true /\ holder_verification vo pl hb = Ok tt /\
               resolve true (map (digest a) ds) pl = Ok out).
Proof. exact wire_accept. Qed.
Print Assumptions wire_only_issued_claims_accepted.

Theorem wire_rejected_jws_never_reaches_disclosures : forall ph rs sm po pd c vo tok ds hb,
  (forall h payload, VF.C08.Model.parse_jwt ph rs sm po VF.C08.Model.Fixed c false None tok <> VF.C08.Model.Accept h payload) ->
  verify_wire ph rs sm po pd c vo tok ds hb = WErr XSig.
Proof. exact wire_bad_jws. Qed.
Print Assumptions wire_rejected_jws_never_reaches_disclosures.
