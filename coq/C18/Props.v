(* C18 — property theorems (thin stage) *)
From Coq Require Import List String ZArith NArith Bool.
Import ListNotations.
From VF Require Import C18.Model.

Theorem rejects_duplicate_placeholder : forall vo p, nodupd (p_discs p) = false -> is_ok (verify vo p) = false.
Proof. intros vo p H. unfold verify. destruct (p_sig_ok p); cbn; [rewrite H|]; reflexivity. Qed.
Print Assumptions rejects_duplicate_placeholder.
