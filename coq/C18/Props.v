(* C18 — property theorems.  The definitions (issue, present, choose, verify, reveal, holder_parse) are the ones
   Corr.check_case evaluates against the real issuer / holder / verifier on every run.
   Digest strings are symbolic terms [VDig alg e salt name v] (ideal hash + injective JSON/base64 text):
   "the issuer committed to d" = the digest string of d occurs in the signed payload (possibly inside the
   preimage of another committed digest string): [occurs]. *)
From Coq Require Import List String ZArith NArith Bool.
Import ListNotations.
From VF Require Import C18.Model C18.Proofs C18.Exact C18.Accept C18.Hiding C18.Corr.
Open Scope string_scope.
Open Scope list_scope.

(* ---- only issued disclosures are accepted ---- *)

(* FOREIGN / ALTERED: whatever the verifier accepts, the signed payload commits to every presented disclosure:
   the hash of its very text occurs in the payload (or in the text of another committed disclosure). *)
Theorem accepted_disclosures_are_committed : forall vo p out,
  verify vo p = Ok out ->
  exists a, get_alg (p_payload p) = Ok a /\ forall d, In d (p_discs p) -> occurs (digest a d) (p_payload p).
Proof. exact accept_committed. Qed.
Print Assumptions accepted_disclosures_are_committed.

Theorem rejects_uncommitted : forall vo p a d,
  get_alg (p_payload p) = Ok a -> In d (p_discs p) -> ~ occurs (digest a d) (p_payload p) ->
  is_ok (verify vo p) = false.
Proof.
  intros vo p a d Ha Hd Hn. destruct (verify vo p) eqn:E; try reflexivity.
  apply accept_committed in E as (a' & Ha' & H). rewrite Ha in Ha'. inversion Ha'; subst. elim Hn. apply H; assumption.
Qed.
Print Assumptions rejects_uncommitted.

(* an altered disclosure (any change of arity, salt, member name or value, or another text of the same JSON,
   which the harness gives another salt symbol) has another digest: a commitment to d is none to d' *)
Theorem altered_has_other_digest : forall a d d', d <> d' -> digest a d <> digest a d'.
Proof. intros a d d' Hne He. apply Hne. eapply digest_inj; eassumption. Qed.
Print Assumptions altered_has_other_digest.

(* with the issuer's commitments spelled out: if the digest strings of the payload are those of the set I of
   issued disclosures, every presentation containing a disclosure outside I is rejected *)
Theorem rejects_unissued : forall vo p a I d,
  get_alg (p_payload p) = Ok a ->
  (forall g, occurs g (p_payload p) -> exists d0, In d0 I /\ g = digest a d0) ->
  In d (p_discs p) -> ~ In d I -> is_ok (verify vo p) = false.
Proof.
  intros vo p a I d Ha HI Hd Hn. eapply rejects_uncommitted; try eassumption.
  intro Ho. apply HI in Ho as (d0 & Hd0 & He). apply digest_inj in He. subst. contradiction.
Qed.
Print Assumptions rejects_unissued.

(* the same about ISSUED SD-JWTs, without the hypothesis: the issuer model's payload commits to its own disclosure
   list only (every digest string in it is the digest of an issued disclosure or a decoy: Exact.issued_commitments),
   so a presentation of it that contains any disclosure text the issuer did not emit — foreign, altered in any
   part, re-encoded, a decoy preimage — is rejected, for every claim tree and option set *)
Theorem rejects_unissued_issued : forall o claims payload ds vo p d,
  alg_ok (o_alg o) -> clean (VObj claims) = true -> issue o claims = Ok (payload, ds) ->
  p_payload p = payload -> In d (p_discs p) -> ~ In d ds -> is_ok (verify vo p) = false.
Proof. exact reject_unissued_issued. Qed.
Print Assumptions rejects_unissued_issued.

Theorem issued_payload_commits_to_issued_only : forall o claims payload ds,
  clean (VObj claims) = true -> issue o claims = Ok (payload, ds) ->
  forall g, isdig g -> occurs g payload -> (exists d0, In d0 ds /\ g = digest (o_alg o) d0) \/ dig_e g = 0%N.
Proof. exact issued_commitments. Qed.
Print Assumptions issued_payload_commits_to_issued_only.

(* DUPLICATED *)
Theorem rejects_duplicated : forall vo p, ~ NoDup (p_discs p) -> is_ok (verify vo p) = false.
Proof. exact reject_duplicate. Qed.
Print Assumptions rejects_duplicated.

(* each committed digest is met once: a digest string placed twice in the payload is refused as well *)
Theorem accepted_digests_met_once : forall vo p out,
  verify vo p = Ok out ->
  exists a, get_alg (p_payload p) = Ok a /\ NoDup (collect (map (digest a) (p_discs p)) 0 (p_payload p)).
Proof.
  intros vo p out H. apply verify_ok_inv in H as (_ & _ & _ & Hv & _).
  apply verify_disclosures_inv in Hv as (a & Ha & _ & Hn & _). exists a; split; assumption.
Qed.
Print Assumptions accepted_digests_met_once.

(* not a disclosure at all (not base64 / not a JSON array / fewer than two elements / salt or name no string) *)
Theorem rejects_malformed : forall vo p d, In d (p_discs p) -> (d_e d < 2)%N -> is_ok (verify vo p) = false.
Proof. exact reject_malformed. Qed.
Print Assumptions rejects_malformed.

Theorem rejects_bad_issuer_signature : forall vo p, p_sig_ok p = false -> is_ok (verify vo p) = false.
Proof. exact reject_bad_signature. Qed.
Print Assumptions rejects_bad_issuer_signature.

(* the issuer-signed JWT outside its validity window (nbf / exp / iat with the verifier's leeway) *)
Theorem rejects_outside_validity_window : forall vo p,
  payload_time_ok vo (p_payload p) = false -> is_ok (verify vo p) = false.
Proof. exact reject_bad_time. Qed.
Print Assumptions rejects_outside_validity_window.

(* ---- holder binding ---- *)
Theorem binding_checked : forall vo p out,
  verify vo p = Ok out ->
  match p_hb p with
  | None => vo_required vo = false
  | Some h =>
      get_cnf_key (p_payload p) = Ok (hb_key h) /\ hb_ok h = true /\
      time_ok (vo_now vo) (vo_leeway vo) (hb_iat h) None None = true /\       (* iat not in the future *)
      (vo_nonce vo = "" \/ vo_nonce vo = hb_nonce h) /\ (vo_aud vo = "" \/ vo_aud vo = hb_aud h)
  end.
Proof. exact binding_inv. Qed.
Print Assumptions binding_checked.

Theorem binding_required : forall vo p,
  vo_required vo = true ->
  (p_hb p = None \/
   exists h, p_hb p = Some h /\
     (get_cnf_key (p_payload p) <> Ok (hb_key h)                       (* no cnf, or signed with another key *)
      \/ (vo_nonce vo <> "" /\ vo_nonce vo <> hb_nonce h)               (* other nonce *)
      \/ (vo_aud vo <> "" /\ vo_aud vo <> hb_aud h))) ->                (* other audience *)
  is_ok (verify vo p) = false.
Proof.
  intros vo p Hr Hbad. destruct (verify vo p) eqn:E; try reflexivity.
  apply binding_inv in E. destruct Hbad as [Hn|(h & Hh & Hbad)].
  - rewrite Hn in E. congruence.
  - rewrite Hh in E. destruct E as (Hk & _ & _ & Hno & Hau).
    destruct Hbad as [Hb|[[Hb1 Hb2]|[Hb1 Hb2]]]; [contradiction| destruct Hno; contradiction | destruct Hau; contradiction].
Qed.
Print Assumptions binding_required.

(* a binding that is present is checked even when none is required *)
Theorem binding_wrong_key_rejected : forall vo p h k,
  p_hb p = Some h -> get_cnf_key (p_payload p) = Ok k -> k <> hb_key h -> is_ok (verify vo p) = false.
Proof.
  intros vo p h k Hh Hk Hne. destruct (verify vo p) eqn:E; try reflexivity.
  apply binding_inv in E. rewrite Hh in E. destruct E as (Hk' & _). rewrite Hk in Hk'. inversion Hk'. contradiction.
Qed.
Print Assumptions binding_wrong_key_rejected.

(* ---- exactly the visible and the chosen claims ----
   FULL STATEMENT (disclose_exact): for all claims, options and parent-closed selections sel,
     verify (present (choose sel (issue claims))) = Ok (reveal sel claims).
   It is REFUTED for the code as it is (known findings, pinned by the repository's own tests):
   (1) a visible member whose issued value is null is dropped; (2) an array none of whose selectively
   disclosable elements is chosen is output as absent instead of []. *)
Definition flow (o : iopts) (claims : list (string * val)) (sel : list path) (vo : vopts) (hb : option hbjwt) : res val :=
  bind (issue o claims) (fun '(payload, ds) =>
  bind (present payload ds (choose sel ds) hb) (fun p => verify vo p)).

Definition o2 := {| o_v5 := false; o_alg := 256; o_structured := false; o_decoys := 0; o_nonsd := [[SKey "a"]];
                    o_always := []; o_recursive := []; o_iss := "iss"; o_cnf := None |}.
Definition o5 := {| o_v5 := true; o_alg := 384; o_structured := true; o_decoys := 0; o_nonsd := [];
                    o_always := []; o_recursive := [[SKey "addr"]]; o_iss := "iss"; o_cnf := Some 1%Z |}.
Definition vo0 := {| vo_required := false; vo_nonce := ""; vo_aud := ""; vo_now := 1000; vo_leeway := 60 |}.
Definition claims5 : list (string * val) :=
  [("name", VStr "Ann"); ("addr", VObj [("city", VStr "X"); ("zip", VNum 7)]); ("langs", VArr [VStr "de"; VStr "en"])].

Theorem disclose_exact_refuted :
  (exists o claims sel out, flow o claims sel vo0 None = Ok out /\ equiv out (reveal o sel claims) = false) /\
  (exists o claims sel out, o_v5 o = true /\ flow o claims sel vo0 None = Ok out /\ equiv out (reveal o sel claims) = false).
Proof.
  split.
  - exists o2, [("a", VNull); ("b", VStr "x")], [[SKey "b"]]. eexists. split; vm_compute; reflexivity.
  - exists o5, [("l", VArr [VNum 1; VNum 2]); ("b", VStr "x")], [[SKey "b"]]. eexists. split; [reflexivity|]. split; vm_compute; reflexivity.
Qed.
Print Assumptions disclose_exact_refuted.

(* PARTIAL (output exactness).  Guard = the claim set is well formed and outside the recorded finding classes:
   [clean]: member names distinct, none of _sd / _sd_alg / ..., NO null and NO empty array anywhere (finding
   null-or-empty-array-claim-not-preserved); [akept5]: every array whose elements the v5 issuer made disclosable
   keeps an element under the selection (finding array-without-disclosed-element-collapses); the selection names
   disclosure sites, not decoy salts (finding v5-decoy-digests-emitted-as-disclosures concerns holder.Parse
   only); top-level names differ from the registered iss / cnf; the hash is one of the three supported.
   For EVERY such claim tree, option set (v2 and v5: flat, structured, always-include, recursive, non-SD paths,
   array elements, decoys, cnf), parent-closed selection and holder-binding configuration that passes:
   verifier.Parse ACCEPTS the presentation (signature, no duplicate, every digest met once, every chosen disclosure
   reached, both passes of discloseClaimValue succeed) and outputs the always-visible claims plus the chosen ones
   with their issued values (equal up to the order of object members: [veq]). *)
Theorem disclose_exact_partial : forall o claims sel payload ds vo hb,
  alg_ok (o_alg o) -> clean (VObj claims) = true ->
  ~ In "iss" (map fst claims) -> ~ In "cnf" (map fst claims) ->
  forallb site_path sel = true ->
  closedb sel ds = true ->                                   (* the subset is parent-closed *)
  (o_v5 o = true -> akept5 o sel false [] (VObj claims) = true) ->
  issue o claims = Ok (payload, ds) ->
  payload_time_ok vo payload = true ->                       (* the verifier's clock lies in the validity window *)
  holder_verification vo payload hb = Ok tt ->               (* whatever binding configuration passes *)
  exists out, verify vo {| p_sig_ok := true; p_payload := payload; p_discs := choose sel ds; p_hb := hb |} = Ok out /\
              veq out (reveal o sel claims).
Proof. exact honest_flow. Qed.
Print Assumptions disclose_exact_partial.

(* without parent-closedness: whenever the verifier accepts, the output is still visible + chosen *)
Theorem disclose_exact_when_accepted_partial : forall o claims sel payload ds vo hb out,
  alg_ok (o_alg o) -> clean (VObj claims) = true ->
  ~ In "iss" (map fst claims) -> ~ In "cnf" (map fst claims) ->
  forallb site_path sel = true ->
  (o_v5 o = true -> akept5 o sel false [] (VObj claims) = true) ->
  issue o claims = Ok (payload, ds) ->
  verify vo {| p_sig_ok := true; p_payload := payload; p_discs := choose sel ds; p_hb := hb |} = Ok out ->
  veq out (reveal o sel claims).
Proof.
  intros o claims sel payload ds vo hb out Ha Hc Hi Hn Hs Hk Hiss Hv.
  destruct (exact_output o claims sel payload ds Ha Hc Hi Hn Hs Hk Hiss) as (Hal & y & Hy & Hveq).
  apply verify_ok_inv in Hv as (_ & _ & _ & _ & _ & a' & Ha' & Hr). cbn [p_payload p_discs] in *.
  rewrite Hal in Ha'. inversion Ha'; subst a'. rewrite Hy in Hr. inversion Hr; subst. exact Hveq.
Qed.
Print Assumptions disclose_exact_when_accepted_partial.

(* VerifyDisclosuresInSDJWT passes on every honest presentation: every digest is met once, every chosen
   disclosure is reached, the first (non-cleaning) pass succeeds *)
Theorem honest_presentation_passes_partial : forall o claims sel payload ds,
  alg_ok (o_alg o) -> clean (VObj claims) = true ->
  ~ In "iss" (map fst claims) -> ~ In "cnf" (map fst claims) ->
  forallb site_path sel = true -> closedb sel ds = true ->
  (o_v5 o = true -> akept5 o sel false [] (VObj claims) = true) ->
  issue o claims = Ok (payload, ds) ->
  verify_disclosures payload (choose sel ds) = Ok tt.
Proof. exact accepts. Qed.
Print Assumptions honest_presentation_passes_partial.

(* fresh salts: the disclosures of an issued SD-JWT have pairwise different salts (one per site), so choosing
   by site is choosing disclosure texts, and an unselected disclosure shares its salt with no presented one *)
Theorem issued_salts_fresh : forall o claims payload ds,
  clean (VObj claims) = true -> issue o claims = Ok (payload, ds) -> NoDup (map d_salt ds).
Proof. exact issued_nodup. Qed.
Print Assumptions issued_salts_fresh.

(* the output pass itself never fails on an issued SD-JWT and a selection of its sites *)
Theorem disclose_output_pass_partial : forall o claims sel payload ds,
  alg_ok (o_alg o) -> clean (VObj claims) = true ->
  ~ In "iss" (map fst claims) -> ~ In "cnf" (map fst claims) ->
  forallb site_path sel = true ->
  (o_v5 o = true -> akept5 o sel false [] (VObj claims) = true) ->
  issue o claims = Ok (payload, ds) ->
  get_alg payload = Ok (o_alg o) /\
  exists y, resolve true (map (digest (o_alg o)) (choose sel ds)) payload = Ok y /\ veq y (reveal o sel claims).
Proof. exact exact_output. Qed.
Print Assumptions disclose_output_pass_partial.

(* ---- nothing reveals an undisclosed claim ----
   The observer (verifier, eavesdropper) knows the signed payload and the presented disclosure texts; [derivable]
   closes that under taking JSON values apart, reading the parts of a disclosure text, assembling and hashing
   disclosure texts; a digest string is never opened (ideal hash).
   hiding_salts: the only salts it can derive are those of the disclosures it was given — for an issued SD-JWT and
   a selection, the salt of every unselected disclosure stays underivable, so the digest of that disclosure can
   neither be opened nor confirmed by guessing the value (the guess needs the salt).
   hiding_values: every JSON value it can derive lies in the clear part of the payload or of a presented
   disclosure ([sub]: reachable through arrays and objects only) or is a digest string: the value of an undisclosed
   claim, which the issuer placed below Hash(salt, name, value) only, is not among them unless the same value is
   also visible or disclosed elsewhere. *)
Theorem hiding_salts : forall payload ds sel d,
  In d ds -> memp (d_salt d) sel = false ->
  ~ derivable (knowledge payload (choose sel ds)) (TSalt (d_salt d)).
Proof.
  intros payload ds sel d Hd Hs H. apply derivable_salts in H as (d' & Hd' & He).
  apply filter_In in Hd' as [_ Hsel]. rewrite He in Hsel. congruence.
Qed.
Print Assumptions hiding_salts.

Theorem hiding_values : forall payload ds x,
  derivable (knowledge payload ds) (TVal x) ->
  sub x payload \/ (exists d, In d ds /\ sub x (d_val d)) \/ (exists a c e s n v, x = VDig a c e s n v).
Proof. exact derivable_values. Qed.
Print Assumptions hiding_values.

(* hiding, on issued SD-JWTs: every leaf value (string, number, boolean) an observer of the payload and of the
   presented disclosures can derive belongs to an ALWAYS-VISIBLE claim (the specification with nothing selected;
   Hiding.clear_payload_visible: the clear part of the issued payload is exactly that, plus the registered iss / cnf /
   _sd_alg) or to the value of a PRESENTED disclosure.  The value of an undisclosed claim is derivable only where
   it coincides with one of those. *)
Theorem hiding : forall o claims sel payload ds x,
  issue o claims = Ok (payload, ds) ->
  derivable (knowledge payload (choose sel ds)) (TVal x) -> leaf x ->
  sub x (reveal o [] claims) \/ x = VStr (alg_name (o_alg o)) \/ (exists d, In d (choose sel ds) /\ sub x (d_val d)).
Proof.
  intros o claims sel payload ds x Hi Hd Hl. apply derivable_values in Hd as [H|[H|(a & c & e & s & n & v & ->)]].
  - destruct (clear_payload_visible o claims payload ds x Hi Hl H) as [H1|H1]; [left|right; left]; assumption.
  - right; right. exact H.
  - contradiction.
Qed.
Print Assumptions hiding.

Theorem clear_part_of_issued_payload_is_visible : forall o claims payload ds x,
  issue o claims = Ok (payload, ds) -> leaf x -> sub x payload ->
  sub x (reveal o [] claims) \/ x = VStr (alg_name (o_alg o)).
Proof. exact clear_payload_visible. Qed.
Print Assumptions clear_part_of_issued_payload_is_visible.

(* non-vacuity: a chosen claim IS derivable, its digest is recomputable; the unchosen sibling's salt is not *)
Example hiding_example :
  match issue o5 claims5 with
  | Ok (payload, ds) =>
      let sel := [[SKey "addr"]; [SKey "addr"; SKey "city"]] in
      let K := knowledge payload (choose sel ds) in
      derivable K (TVal (VStr "X")) /\ derivable K (TSalt [SKey "addr"; SKey "city"]) /\
      ~ derivable K (TSalt [SKey "addr"; SKey "zip"]) /\ memd (mk 3 [SKey "addr"; SKey "zip"] "zip" (VNum 7)) ds = true
  | _ => False
  end.
Proof.
  destruct (issue o5 claims5) as [[payload ds]| | |] eqn:E; try (vm_compute in E; discriminate).
  assert (Hc : memd (mk 3 [SKey "addr"; SKey "city"] "city" (VStr "X")) ds = true /\
               memd (mk 3 [SKey "addr"; SKey "zip"] "zip" (VNum 7)) ds = true)
    by (vm_compute in E; inversion E; subst; vm_compute; split; reflexivity).
  destruct Hc as [Hc Hz]. apply memd_In in Hc. apply memd_In in Hz.
  assert (Hk : derivable (knowledge payload (choose [[SKey "addr"]; [SKey "addr"; SKey "city"]] ds))
                 (TDisc (mk 3 [SKey "addr"; SKey "city"] "city" (VStr "X")))).
  { apply dv_known. right. apply in_map. apply filter_In. split; [assumption|reflexivity]. }
  repeat split.
  - exact (dv_val _ _ Hk).
  - exact (dv_salt _ _ Hk).
  - exact (hiding_salts payload ds [[SKey "addr"]; [SKey "addr"; SKey "city"]] _ Hz eq_refl).
  - apply memd_In. assumption.
Qed.

(* what the issuer emits is accepted by the holder: REFUTED for v5 with decoy digests (the decoy salts are put
   into the disclosure list; known finding), while the same claims without decoys, and v2 with decoys, parse *)
Definition issue_parse (o : iopts) (claims : list (string * val)) : res (list (string * val)) :=
  bind (issue o claims) (fun '(payload, ds) => holder_parse payload ds).

Theorem issue_parseable_refuted :
  let o d v5 := {| o_v5 := v5; o_alg := 256; o_structured := false; o_decoys := d; o_nonsd := [];
                   o_always := []; o_recursive := []; o_iss := "iss"; o_cnf := None |} in
  let claims := [("d", VStr "v")] in
  is_ok (issue_parse (o 1%nat true) claims) = false /\
  is_ok (issue_parse (o 0%nat true) claims) = true /\
  is_ok (issue_parse (o 1%nat false) claims) = true.
Proof. vm_compute. repeat split. Qed.
Print Assumptions issue_parseable_refuted.

(* ---- non-vacuity: concrete flows through the same functions ---- *)

(* recursive object + array elements, holder binding required and right: output = visible + chosen *)
Example disclose_exact_example :
  let sel := [[SKey "addr"]; [SKey "addr"; SKey "city"]; [SKey "langs"; SIdx 1]] in
  let hb := Some {| hb_key := 1; hb_nonce := "n"; hb_aud := "v"; hb_ok := true; hb_iat := Some 990%Z |} in
  let vo := {| vo_required := true; vo_nonce := "n"; vo_aud := "v"; vo_now := 1000; vo_leeway := 60 |} in
  match flow o5 claims5 sel vo hb with
  | Ok out => equiv out (reveal o5 sel claims5) = true /\
              equiv out (VObj [("iss", VStr "iss"); ("cnf", VObj [("jwk", VNum 1)]);
                               ("addr", VObj [("city", VStr "X")]); ("langs", VArr [VStr "en"])]) = true
  | _ => False
  end.
Proof. vm_compute. split; reflexivity. Qed.

Example disclose_exact_guard_met :
  let sel := [[SKey "addr"]; [SKey "addr"; SKey "city"]; [SKey "langs"; SIdx 1]] in
  alg_ok (o_alg o5) /\ clean (VObj claims5) = true /\ forallb site_path sel = true /\
  akept5 o5 sel false [] (VObj claims5) = true /\
  match issue o5 claims5 with Ok (_, ds) => closedb sel ds = true | _ => False end.
Proof. cbn zeta. split; [right; left; reflexivity|]. vm_compute. repeat split. Qed.

(* the same SD-JWT: a child without its parent, a foreign, a duplicated, an altered disclosure, a wrong nonce *)
Example rejections_example :
  match issue o5 claims5 with
  | Ok (payload, ds) =>
      let pres l hb := {| p_sig_ok := true; p_payload := payload; p_discs := l; p_hb := hb |} in
      let city := mk 3 [SKey "addr"; SKey "city"] "city" (VStr "X") in
      let forged := mk 3 [SKey "addr"; SKey "city"] "city" (VStr "Y") in
      let retext := {| d_enc := 1; d_e := 3; d_salt := [SKey "addr"; SKey "city"]; d_name := "city"; d_val := VStr "X" |} in
      let addr := choose [[SKey "addr"]] ds in
      memd city ds = true /\
      is_ok (verify vo0 (pres (addr ++ [city]) None)) = true /\
      is_ok (verify vo0 (pres [city] None)) = false /\
      is_ok (verify vo0 (pres (addr ++ [forged]) None)) = false /\
      is_ok (verify vo0 (pres (addr ++ [city; city]) None)) = false /\
      is_ok (verify vo0 (pres (addr ++ [retext]) None)) = false /\
      is_ok (verify vo0 (pres (addr ++ [city; retext]) None)) = false /\
      is_ok (verify {| vo_required := true; vo_nonce := "n"; vo_aud := ""; vo_now := 1000; vo_leeway := 60 |}
                    (pres addr (Some {| hb_key := 1; hb_nonce := "m"; hb_aud := ""; hb_ok := true; hb_iat := Some 990%Z |}))) = false /\
      is_ok (verify {| vo_required := true; vo_nonce := "n"; vo_aud := ""; vo_now := 1000; vo_leeway := 60 |}
                    (pres addr (Some {| hb_key := 1; hb_nonce := "n"; hb_aud := ""; hb_ok := true; hb_iat := Some 990%Z |}))) = true
  | _ => False
  end.
Proof. vm_compute. repeat split. Qed.

(* VC-form SD-JWT (Credential.MakeSDJWT, v2): _sd_alg (sha-384) and the digests sit inside the "vc" claim; the
   verifier reads the hash from there and outputs the credential with the chosen subject claims *)
Example vc_form_example :
  let o := {| o_v5 := false; o_alg := 384; o_structured := true; o_decoys := 0; o_nonsd := [[SKey "id"]];
              o_always := []; o_recursive := []; o_iss := ""; o_cnf := None |} in
  match issue_vc o [("id", VStr "did:h"); ("degree", VObj [("type", VStr "BSc"); ("name", VStr "CS")])]
                 [("iss", VStr "did:i"); ("nbf", VNum 900)] [("type", VArr [VStr "VerifiableCredential"])] with
  | Ok (payload, ds) =>
      get_alg payload = Ok 384%N /\
      match verify vo0 {| p_sig_ok := true; p_payload := payload; p_discs := choose [[SKey "degree"; SKey "name"]] ds; p_hb := None |} with
      | Ok out => equiv out (VObj [("iss", VStr "did:i"); ("nbf", VNum 900);
                                   ("vc", VObj [("type", VArr [VStr "VerifiableCredential"]);
                                                ("credentialSubject", VObj [("id", VStr "did:h"); ("degree", VObj [("name", VStr "CS")])])])]) = true
      | _ => False
      end /\
      is_ok (verify {| vo_required := false; vo_nonce := ""; vo_aud := ""; vo_now := 100; vo_leeway := 60 |}
                    {| p_sig_ok := true; p_payload := payload; p_discs := []; p_hb := None |}) = false   (* before nbf *)
  | _ => False
  end.
Proof. vm_compute. repeat split. Qed.
