(* C18 — verifier.Parse on the WIRE string: the issuer-signed JWT of the combined format goes through C08's model
   of jwt.Parse (parse_jwt: compact serialisation, header, algorithm / key agreement, signature over the received
   bytes), its payload bytes are decoded to a JSON tree, and the interleaved SD-JWT verifier (Walk.v verify_w) runs
   on that tree.  "The issuer signature verified" (p_sig_ok) is no longer a flag of the input but C08's acceptance.
   This file is glue: parse_jwt is tied to the real jwt.Parse by C08's correspondence, verify_w to the real
   verifier.Parse by C18's; the JSON decoding of the payload bytes is a parameter (as the header decoding is in C08). *)
From Coq Require Import List NArith String Bool.
Import ListNotations.
From VF Require C08.Types C08.Model C08.Proofs.
From VF Require Import C18.Model C18.Walk C18.Proofs C18.WalkSound.
Open Scope list_scope.

Module J := VF.C08.Model.

Module JP := VF.C08.Proofs.

Section Wire.
  (* C08's primitive parameters: header decoding, DID resolution, the meaning of signature bytes, PayloadToMap *)
  Variable ph : list N -> option J.hview.
  Variable rs : string -> string -> option J.pkey.
  Variable sm : list N -> J.sigv.
  Variable po : list N -> bool.
  (* the JSON decoder on the payload bytes, with digest strings read as the hashes they are (symbolic abstraction) *)
  Variable pd : list N -> option val.

  (* verifier.Parse(sdjwt~d1~...~dn~[binding]) with WithSignatureVerifier(c) *)
  Definition verify_wire (c : J.vcfg) (vo : vopts) (tok : list N) (ds : list disc) (hb : option hbjwt) : wr val :=
    match J.parse_jwt ph rs sm po J.Fixed c false None tok with
    | J.Accept h payload =>
        match pd payload with
        | Some pl => verify_w vo {| p_sig_ok := true; p_payload := pl; p_discs := ds; p_hb := hb |}
        | None => WErr XSig
        end
    | _ => WErr XSig
    end.

  (* only issued claims are accepted, about the wire string: if the verifier accepts, then the three segments of the
     received token are such that the key the verifier's configuration resolves signed exactly the received header
     and payload segments (C08 accepted_facts), the payload bytes decode to a tree that commits — by a digest string
     occurring in it — to every presented disclosure text, no text is presented twice, each digest is met once, the
     validity window and the holder binding hold, and the output is the layered output pass on that tree *)
  Lemma wire_accept c vo tok ds hb out :
    JP.sig_checking c -> verify_wire c vo tok ds hb = WOk out ->
    exists h payload pl,
      J.parse_jwt ph rs sm po J.Fixed c false None tok = J.Accept h payload /\
      JP.accepted_facts ph rs sm c None tok h payload /\
      pd payload = Some pl /\
      (wfb pl = true ->
       exists a, get_alg pl = Ok a /\ (forall d, In d ds -> occurs (digest a d) pl) /\ NoDup ds /\
                 NoDup (collect (map (digest a) ds) 0 pl) /\
                 payload_time_ok vo pl = true /\ holder_verification vo pl hb = Ok tt /\
                 resolve true (map (digest a) ds) pl = Ok out).
  Proof.
    intros SC H. unfold verify_wire in H.
    destruct (J.parse_jwt ph rs sm po J.Fixed c false None tok) as [h payload| |] eqn:EJ; try discriminate.
    destruct (pd payload) as [pl|] eqn:Ed; [|discriminate].
    exists h, payload, pl. split; [reflexivity|].
    split; [exact (JP.jws_accept_sound ph rs sm c None tok h payload SC (JP.jwt_accept_jws ph rs sm po c false None tok h payload EJ))|].
    split; [exact Ed|]. intro Hw.
    pose proof (verify_w_sound vo {| p_sig_ok := true; p_payload := pl; p_discs := ds; p_hb := hb |} out Hw H) as Hv.
    pose proof (accept_committed _ _ _ Hv) as (a & Ha & Hc). cbn [p_payload p_discs] in *.
    apply verify_ok_inv in Hv as (_ & Ht & Hn & Hvd & Hh & a' & Ha' & Hr). cbn [p_payload p_discs p_hb] in *.
    apply verify_disclosures_inv in Hvd as (a'' & Ha'' & _ & Hnd & _).
    rewrite Ha in Ha', Ha''. inversion Ha'; inversion Ha''; subst a' a''.
    exists a. repeat split; assumption.
  Qed.

  (* a token the JWS layer refuses never reaches the disclosures *)
  Lemma wire_bad_jws c vo tok ds hb :
    (forall h payload, J.parse_jwt ph rs sm po J.Fixed c false None tok <> J.Accept h payload) ->
    verify_wire c vo tok ds hb = WErr XSig.
  Proof.
    intro H. unfold verify_wire. destruct (J.parse_jwt ph rs sm po J.Fixed c false None tok) as [h payload| |] eqn:E; try reflexivity.
    exfalso. apply (H h payload). reflexivity.
  Qed.
End Wire.
