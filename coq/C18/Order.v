(* C18 — the order in which verifier.Parse can refuse a presentation, and the comparisons of the binding JWT, as
   tables generated from /repo's source (gen/Gen_C18.v, regenerated on every run by harness/c18gen): the interleaved
   model verify_w reports the class of the FIRST call of the generated order that refuses; holder_verification's
   nonce / audience logic is the generated list of comparisons. *)
From Coq Require Import List String ZArith NArith Bool.
Import ListNotations.
From VF Require Import gen.Gen_C18 C18.Model C18.Walk C18.Proofs.
Open Scope string_scope.
Open Scope list_scope.

(* Parse's calls with validateIssuerSignedSDJWT's calls in its place *)
Definition flat_order : list string :=
  flat_map (fun c => if String.eqb c "validateIssuerSignedSDJWT" then g_validate_calls else [c]) g_parse_calls.

(* what a call decides in the model; option constructors decide nothing, VerifySigningAlg and VerifyTyp (algorithm
   allow-list, expected typ header) are taken as satisfied *)
Definition stage_class (vo : vopts) (p : presentation) (name : string) : option wclass :=
  if String.eqb name "afgjwt.Parse" then (if p_sig_ok p then None else Some XSig)
  else if String.eqb name "common.VerifyJWT" then (if payload_time_ok vo (p_payload p) then None else Some XTime)
  else if String.eqb name "checkForDuplicates" then (if nodupd (p_discs p) then None else Some XDupDisc)
  else if String.eqb name "common.VerifyDisclosuresInSDJWT" then
    match verify_disclosures_w (p_payload p) (p_discs p) with WOk _ => None | WErr e => Some e end
  else if String.eqb name "runHolderVerification" then
    match holder_verification vo (p_payload p) (p_hb p) with Ok _ => None | _ => Some XBinding end
  else if String.eqb name "common.GetCryptoHashFromClaims" then
    match get_alg (p_payload p) with Ok _ => None | _ => Some XAlg end
  else if String.eqb name "getDisclosedClaims" then
    match get_alg (p_payload p) with
    | Ok a => match walk true (map (digest a) (p_discs p)) (p_payload p) [] with WOk _ => None | WErr e => Some e end
    | _ => None
    end
  else None.

Fixpoint first_failure (vo : vopts) (p : presentation) (order : list string) : option wclass :=
  match order with
  | [] => None
  | c :: r => match stage_class vo p c with Some e => Some e | None => first_failure vo p r end
  end.

Lemma verify_w_follows_order vo p :
  match verify_w vo p with
  | WErr e => first_failure vo p flat_order = Some e
  | WOk _ => first_failure vo p flat_order = None
  end.
Proof.
  unfold verify_w. change flat_order with (ltac:(let x := eval vm_compute in flat_order in exact x)).
  cbn [first_failure]. unfold stage_class. cbn [String.eqb Ascii.eqb Bool.eqb].
  destruct (p_sig_ok p); cbn [negb]; [|reflexivity].
  destruct (payload_time_ok vo (p_payload p)); cbn [negb]; [|reflexivity].
  destruct (nodupd (p_discs p)); cbn [negb]; [|reflexivity].
  destruct (verify_disclosures_w (p_payload p) (p_discs p)) as [[]|e]; [|reflexivity].
  destruct (holder_verification vo (p_payload p) (p_hb p)) as [[]| | |]; try reflexivity.
  destruct (get_alg (p_payload p)) as [a| | |]; try reflexivity.
  destruct (walk true (map (digest a) (p_discs p)) (p_payload p) []) as [[o s]|e]; reflexivity.
Qed.

(* VerifyDisclosuresInSDJWT: hash algorithm, then the disclosure texts, then the walk *)
Lemma verify_disclosures_order :
  g_verify_disclosures_calls = ["GetCryptoHashFromClaims"; "getDisclosureClaims"; "discloseClaimValue"].
Proof. reflexivity. Qed.

(* ---- the binding JWT ---- *)
Definition opt_value (vo : vopts) (o : string) : option string :=
  if String.eqb o "expectedNonceForHolderVerification" then Some (vo_nonce vo)
  else if String.eqb o "expectedAudienceForHolderVerification" then Some (vo_aud vo) else None.
Definition member_value (h : hbjwt) (m : string) : option string :=
  if String.eqb m "Nonce" then Some (hb_nonce h) else if String.eqb m "Audience" then Some (hb_aud h) else None.
(* `if pOpts.X != "" && pOpts.X != bindingPayload.Y { return err }` passes *)
Definition check_pass (vo : vopts) (h : hbjwt) (c : string * string) : bool :=
  match opt_value vo (fst c), member_value h (snd c) with
  | Some x, Some y => String.eqb x "" || String.eqb x y
  | _, _ => false
  end.

Lemma binding_follows_checks checks vo payload h :
  checks = g_kb_checks_v5 \/ checks = g_kb_checks_v2 ->
  get_cnf_key payload = Ok (hb_key h) -> hb_ok h = true ->
  time_ok (vo_now vo) (vo_leeway vo) (hb_iat h) None None = true ->
  (holder_verification vo payload (Some h) = Ok tt <-> forallb (check_pass vo h) checks = true).
Proof.
  intros Hc Hk Hok Ht.
  assert (Hc' : checks = [("expectedNonceForHolderVerification", "Nonce"); ("expectedAudienceForHolderVerification", "Audience")]).
  { destruct Hc as [-> | ->]; reflexivity. }
  subst checks. unfold holder_verification. rewrite Hk. cbn [bind]. rewrite Z.eqb_refl, Hok, Ht. cbn [negb].
  unfold forallb, check_pass, opt_value, member_value. cbn [fst snd].
  change (String.eqb "expectedNonceForHolderVerification" "expectedNonceForHolderVerification") with true.
  change (String.eqb "expectedAudienceForHolderVerification" "expectedNonceForHolderVerification") with false.
  change (String.eqb "expectedAudienceForHolderVerification" "expectedAudienceForHolderVerification") with true.
  change (String.eqb "Nonce" "Nonce") with true. change (String.eqb "Audience" "Nonce") with false.
  change (String.eqb "Audience" "Audience") with true. cbv iota.
  destruct (String.eqb (vo_nonce vo) ""); destruct (String.eqb (vo_nonce vo) (hb_nonce h));
    destruct (String.eqb (vo_aud vo) ""); destruct (String.eqb (vo_aud vo) (hb_aud h)); cbn; split; intro H; try reflexivity; try discriminate.
Qed.

Lemma binding_tables :
  g_kb_typ = "kb+jwt" /\ g_kb_members_v5 = ["nonce"; "aud"; "iat"] /\ g_kb_members_v2 = ["nonce"; "aud"; "iat"] /\
  g_kb_other_ifs_v5 = 2%N /\ g_kb_other_ifs_v2 = 2%N /\
  g_holder_calls = ["getSignatureVerifier"; "afgjwt.Parse"; "afgjwt.WithSignatureVerifier"; "verifyHolderVerificationJWT"] /\
  g_holder_jwt_calls = ["common.VerifySigningAlg"; "common.VerifyJWT"; "verifyKeyBindingJWT"; "verifyHolderBindingJWT"].
Proof. repeat split; reflexivity. Qed.

Lemma layout_constants :
  SD = g_sd_key /\ SDALG = g_sd_alg_key /\ DOTS = g_array_digest_key /\ "cnf" = g_cnf_key /\ g_separator = "~" /\
  g_arity_array = 2%N /\ g_arity_sd = 3%N /\ g_positions = [0; 1; 1; 2]%N.
Proof. repeat split; reflexivity. Qed.
