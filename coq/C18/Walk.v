(* C18 — the INTERLEAVED model of common/verification.go discloseClaimValue and of verifier.Parse — NO proofs here.

   Model.v's [resolve] / [collect] describe the walk in layers (the value and its errors; the list recData.nestedSD).
   Here the walk is modelled as the code runs it: one recursive pass that threads recData.nestedSD ([seen]) through
   the tree, tests "has been included in more than one place" at the moment a digest string is met, enters the
   disclosure behind it at once, and returns the FIRST error — with the error class the code reports:

     XSig        afgjwt.Parse / VerifySigningAlg of the issuer-signed JWT
     XTime       common.VerifyJWT of the issuer-signed JWT (nbf / exp / iat)
     XDupDisc    checkForDuplicates
     XAlg        GetCryptoHashFromClaims (_sd_alg)
     XMalformed  getDisclosureClaim (base64, JSON array, fewer than two elements, salt / name not a string)
     XDupDigest  "digest ... has been included in more than one place"
     XArity      "invald disclosure associated with array element / sd element digest"
     XClash      "claim name ... already exists at the same level"
     XStruct     "invalid array struct" / "get disclosure digests" (an "_sd" member that is no list of strings)
     XNotFound   "disclosure digest ... not found in SD-JWT disclosure digests"
     XBinding    runHolderVerification

   Go ranges over a map in random order; the model walks "_sd" first (as the code does) and the other members in the
   order of the member list.  recursion goes through map / flat_map that build lists of state-passing closures
   ([act]), which a plain list recursion then runs; so the proofs are list inductions.

   setDisclosureClaimValue's IsValueParsed short cut is never taken: a disclosure is entered only after its digest
   string was appended to nestedSD, and a digest string already in nestedSD is refused before the look-up; on a
   walk without error every met digest string that has a disclosure was entered, so "IsValueParsed" in the final
   loop of VerifyDisclosuresInSDJWT is "the digest is in nestedSD". *)
From Coq Require Import List String ZArith NArith Bool.
Import ListNotations.
From VF Require Export C18.Model.
Open Scope string_scope.
Open Scope list_scope.

Inductive wclass :=
| XSig | XTime | XDupDisc | XAlg | XMalformed | XDupDigest | XArity | XClash | XStruct | XNotFound | XBinding.
Inductive wr (A : Type) := WOk (a : A) | WErr (e : wclass).
Arguments WOk {A}. Arguments WErr {A}.

Definition wclass_code (e : wclass) : N :=
  match e with
  | XSig => 1 | XTime => 2 | XDupDisc => 3 | XMalformed => 4 | XDupDigest => 5 | XArity => 6 | XClash => 7
  | XStruct => 8 | XNotFound => 9 | XBinding => 10 | XAlg => 11
  end%N.

(* a step of the walk: from recData.nestedSD before to (result, recData.nestedSD after) *)
Definition act (A : Type) := list val -> wr (A * list val).

(* a digest STRING met under "_sd" (ctx 3) or "..." (ctx 2) *)
Definition wenter (rec : val -> act val) (D : list val) (ctx : N) (g : val) : act (option val) :=
  fun s =>
    if memv g s then WErr XDupDigest
    else
      let s1 := g :: s in
      match g with
      | VDig _ _ e _ _ v' =>
          if memv g D then
            if N.eqb e ctx then
              match rec v' s1 with WOk (y, s2) => WOk (Some y, s2) | WErr x => WErr x end
            else WErr XArity
          else WOk (None, s1)
      | _ => WOk (None, s1)
      end.

(* one array element *)
Definition welem (rec : val -> act val) (cleanup : bool) (D : list val) (x : val) : act (option val) :=
  match x with
  | VObj m =>
      match flat_map (fun kv => if String.eqb (fst kv) DOTS then [(snd kv, wenter rec D 2 (snd kv))] else []) m with
      | [] => fun s => WOk (Some x, s)
      | (g, a) :: _ =>
          if is_string g then
            fun s => match a s with
                     | WOk (Some y, s') => WOk (Some y, s')
                     | WOk (None, s') => WOk (if cleanup then None else Some x, s')
                     | WErr e => WErr e
                     end
          else fun _ => WErr XStruct
      end
  | _ => fun s => WOk (Some x, s)
  end.

Fixpoint run_elems (l : list (act (option val))) (s : list val) : wr (list val * list val) :=
  match l with
  | [] => WOk ([], s)
  | a :: r =>
      match a s with
      | WErr e => WErr e
      | WOk (o, s') =>
          match run_elems r s' with
          | WErr e => WErr e
          | WOk (t, s'') => WOk (match o with Some y => y :: t | None => t end, s'')
          end
      end
  end.

(* the digests of an "_sd" list, in order; [acc]: the members disclosed so far *)
Fixpoint run_sd (l : list (string * act (option val))) (acc : list (string * val)) (s : list val)
  : wr (list (string * val) * list val) :=
  match l with
  | [] => WOk (acc, s)
  | (n, a) :: r =>
      match a s with
      | WErr e => WErr e
      | WOk (None, s') => run_sd r acc s'
      | WOk (Some y, s') => if mems n (map fst acc) then WErr XClash else run_sd r (acc ++ [(n, y)]) s'
      end
  end.

Definition wsd (rec : val -> act val) (D : list val) (x : val) : act (list (string * val)) :=
  match x with
  | VNull => fun s => WOk ([], s)
  | VArr gl => if forallb is_string gl then run_sd (map (fun g => (dig_name g, wenter rec D 3 g)) gl) []
               else fun _ => WErr XStruct
  | _ => fun _ => WErr XStruct
  end.

(* the ordinary members; [taken]: the names newValues already has *)
Fixpoint run_plain (l : list (string * act val)) (taken : list string) (acc : list (string * val)) (s : list val)
  : wr (list (string * val) * list val) :=
  match l with
  | [] => WOk (acc, s)
  | (k, a) :: r =>
      match a s with
      | WErr e => WErr e
      | WOk (y, s') =>
          if mems k taken then WErr XClash
          else run_plain r (k :: taken) (if is_null y then acc else acc ++ [(k, y)]) s'
      end
  end.

Fixpoint walk (cleanup : bool) (D : list val) (v : val) {struct v} : act val :=
  match v with
  | VArr l =>
      fun s => match run_elems (map (welem (walk cleanup D) cleanup D) l) s with
               | WErr e => WErr e
               | WOk (l', s') => WOk (arr_or_null l', s')
               end
  | VObj m =>
      let sda := hd (fun s => WOk ([], s))
                    (flat_map (fun kv => if String.eqb (fst kv) SD then [wsd (walk cleanup D) D (snd kv)] else []) m) in
      let plain := flat_map (fun kv => if reserved cleanup (fst kv) then [] else [(fst kv, walk cleanup D (snd kv))]) m in
      fun s => match sda s with
               | WErr e => WErr e
               | WOk (sdl, s1) =>
                   match run_plain plain (map fst sdl) [] s1 with
                   | WErr e => WErr e
                   | WOk (pl, s2) => WOk (VObj (sdl ++ pl), s2)
                   end
               end
  | _ => fun s => WOk (v, s)
  end.

(* VerifyDisclosuresInSDJWT *)
Definition verify_disclosures_w (payload : val) (ds : list disc) : wr unit :=
  match get_alg payload with
  | Ok a =>
      if forallb (fun d => N.leb 2 (d_e d)) ds then
        let D := map (digest a) ds in
        match walk false D payload [] with
        | WErr e => WErr e
        | WOk (_, seen) => if forallb (fun g => memv g seen) D then WOk tt else WErr XNotFound
        end
      else WErr XMalformed
  | _ => WErr XAlg
  end.

(* verifier.Parse, in the order of the code *)
Definition verify_w (vo : vopts) (p : presentation) : wr val :=
  if negb (p_sig_ok p) then WErr XSig
  else if negb (payload_time_ok vo (p_payload p)) then WErr XTime
  else if negb (nodupd (p_discs p)) then WErr XDupDisc
  else
    match verify_disclosures_w (p_payload p) (p_discs p) with
    | WErr e => WErr e
    | WOk _ =>
        match holder_verification vo (p_payload p) (p_hb p) with
        | Ok _ =>
            match get_alg (p_payload p) with
            | Ok a =>
                match walk true (map (digest a) (p_discs p)) (p_payload p) [] with
                | WOk (out, _) => WOk out
                | WErr e => WErr e
                end
            | _ => WErr XAlg
            end
        | _ => WErr XBinding
        end
    end.

(* member names of an object are pairwise different, hereditarily (also inside the texts behind digest strings):
   what a Go map cannot violate; the hypothesis of the theorems relating this walk to the layered model, evaluated
   on every observed payload by Corr.check_case *)
Fixpoint wfb (v : val) {struct v} : bool :=
  match v with
  | VDig _ _ _ _ _ x => wfb x
  | VArr l => forallb wfb l
  | VObj m => nodups (map fst m) && forallb (fun kv => wfb (snd kv)) m
  | _ => true
  end.


(* holder.Parse begins with the same VerifyDisclosuresInSDJWT *)
Definition holder_check_w (payload : val) (ds : list disc) : wr unit := verify_disclosures_w payload ds.
