(* C17 — executable model of the credential level: component/models/signature/suite/bbsblssignatureproof2020
   (signer.go buildDocVerificationData / buildVerificationData, suite.go GetCanonicalDocument / restoreBlankNodeOrder /
   Verify) and signature/verifier BBSG2SignatureProofVerifier (splitMessageIntoLines + transformFromBlankNode).
   NO proofs here.

   A statement (one canonical N-Quad) is its token list [subject; predicate; object].  A token is a blank node label
   _:c14nK, the IRI <urn:bnid:_:c14nK> the holder's framing step puts in its place, or any other text, represented by
   the RANK of that text in the bytewise order of the token texts of the case (so that the model can sort statements
   the way the code sorts their text).  JSON-LD framing and URDNA2015 themselves are NOT modelled: the canonical
   statement lists are inputs (parameters of the theorems, observed lists in the correspondence). *)
From Coq Require Import List NArith Bool Arith.
Import ListNotations.
From VF Require Import C17.Model.

Inductive tok := TPlain (r : N) | TBlank (k : N) | TBnid (k : N).
Definition stmt := list tok.

Definition tok_eqb (a b : tok) : bool :=
  match a, b with
  | TPlain x, TPlain y => N.eqb x y
  | TBlank x, TBlank y => N.eqb x y
  | TBnid x, TBnid y => N.eqb x y
  | _, _ => false
  end.
Fixpoint stmt_eqb (a b : stmt) : bool :=
  match a, b with
  | [], [] => true
  | x :: r, y :: s => tok_eqb x y && stmt_eqb r s
  | _, _ => false
  end.
Fixpoint stmts_eqb (a b : list stmt) : bool :=
  match a, b with
  | [], [] => true
  | x :: r, y :: s => stmt_eqb x y && stmts_eqb r s
  | _, _ => false
  end.

(* processor.TransformBlankNode: every _:c14nK becomes <urn:bnid:_:c14nK> (since fix 2ce6575: every one, not only the
   first of a row) *)
Definition to_bnid_tok (t : tok) : tok := match t with TBlank k => TBnid k | _ => t end.
Definition to_bnid (s : stmt) : stmt := map to_bnid_tok s.
(* verifier.transformFromBlankNode: the way back *)
Definition from_bnid_tok (t : tok) : tok := match t with TBnid k => TBlank k | _ => t end.
Definition from_bnid (s : stmt) : stmt := map from_bnid_tok s.
Definition is_bnid (t : tok) : bool := match t with TBnid _ => true | _ => false end.
Definition has_bnid (s : stmt) : bool := existsb is_bnid s.

(* where "<urn:bnid:_:c14n" and "_:c14n" sort among the other token texts of the case (number of texts before them) *)
Record ranks := { bnid_pos : N; blank_pos : N }.
Definition trank (rk : ranks) (t : tok) : N :=
  match t with
  | TPlain r => (2 * r + 1) * 1024
  | TBnid k => 2 * bnid_pos rk * 1024 + k
  | TBlank k => 2 * blank_pos rk * 1024 + k
  end.
(* the text order of whole statements: lexicographic over the tokens (base 2^40 digits) *)
Definition skey (rk : ranks) (s : stmt) : N := fold_left (fun a t => a * 1099511627776 + trank rk t)%N s 0%N.

(* sort.SliceStable by key *)
Fixpoint insert_by {A} (key : A -> N) (x : A) (l : list A) : list A :=
  match l with
  | [] => [x]
  | y :: r => if (key x <=? key y)%N then x :: l else y :: insert_by key x r
  end.
Definition isort {A} (key : A -> N) (l : list A) : list A := fold_right (insert_by key) [] l.

Fixpoint sorted_by {A} (key : A -> N) (l : list A) : bool :=
  match l with
  | x :: ((y :: _) as r) => (key x <=? key y)%N && sorted_by key r
  | _ => true
  end.

(* Suite.GetCanonicalDocument = URDNA2015 (rows sorted by their text) followed by restoreBlankNodeOrder (fix e86aea1):
   if a row names <urn:bnid:_:c14n, the rows are stably re-sorted by the text they have with _:c14nK in its place *)
Definition restore_order (rk : ranks) (C : list stmt) : list stmt :=
  if existsb has_bnid C then isort (fun s => skey rk (from_bnid s)) C else C.

(* buildDocVerificationData: documentStatementsMap[transformed statement] = index (a later duplicate overwrites), then
   one lookup per statement of the reveal document; a statement that is not found fails the derivation (fix 72f8af8) *)
Fixpoint last_index_from (i : nat) (s : stmt) (l : list stmt) : option nat :=
  match l with
  | [] => None
  | x :: r => match last_index_from (S i) s r with
              | Some j => Some j
              | None => if stmt_eqb x s then Some i else None
              end
  end.
Definition doc_reveal_indexes (D RV : list stmt) : option (list nat) :=
  fold_right (fun s acc => match last_index_from 0 s (map to_bnid D), acc with
                           | Some i, Some r => Some (i :: r)
                           | _, _ => None
                           end) (Some []) RV.
(* buildVerificationData: every proof statement, then the document indexes shifted by their number *)
Definition cred_reveal (np : nat) (dri : list nat) : list nat := seq 0 np ++ map (Nat.add np) dri.
(* the vector handed to DeriveProof (and signed by the issuer) *)
Definition holder_messages (P D : list stmt) : list stmt := P ++ D.
(* what the proof suite hands to its verifier for a derived document: proof options, then the document *)
Definition verifier_doc (rk : ranks) (P C0 : list stmt) : list stmt := restore_order rk P ++ restore_order rk C0.
(* BBSG2SignatureProofVerifier: splitMessageIntoLines(doc, true) *)
Definition verifier_messages (vdoc : list stmt) : list stmt := map from_bnid vdoc.
(* Suite.Verify (fix 8e44881): the document has exactly as many statements as the proof reveals *)
Definition suite_count_ok (mask : list bool) (vdoc : list stmt) : bool := Nat.eqb (length vdoc) (count_true mask).

(* the holder's side as a whole: reveal list and payload of the derived proof *)
Definition holder_reveal (np : nat) (S RV : list stmt) : option (list nat) :=
  option_map (cred_reveal np) (doc_reveal_indexes (skipn np S) RV).
