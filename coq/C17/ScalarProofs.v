(* C17 — lemmas, part 4: the byte encoding of response scalars (big-endian, canonical = below the group order). *)
From Coq Require Import List NArith Bool Arith Lia.
Import ListNotations.
From VF Require Import C17.Model.
Local Open Scope N_scope.

Definition bytes_ok (l : list N) : Prop := Forall (fun b => b < 256) l.

Lemma be_acc_inj : forall a b acc1 acc2, length a = length b -> bytes_ok a -> bytes_ok b ->
  fold_left (fun x y => x * 256 + y) a acc1 = fold_left (fun x y => x * 256 + y) b acc2 -> acc1 = acc2 /\ a = b.
Proof.
  induction a as [|x r IH]; intros [|y s] acc1 acc2 Hl Ha Hb H; try discriminate.
  - cbn in H. auto.
  - cbn [fold_left] in H. injection Hl as Hl. inversion_clear Ha as [|? ? Hx Hr]. inversion_clear Hb as [|? ? Hy Hs].
    destruct (IH s _ _ Hl Hr Hs H) as [E1 E2]. subst s. split; [lia|]. f_equal. lia.
Qed.

(* the big-endian reading of byte strings of one length is injective *)
Lemma be_value_injective_lemma : forall a b, length a = length b -> bytes_ok a -> bytes_ok b ->
  be_value a = be_value b -> a = b.
Proof. intros a b Hl Ha Hb H. unfold be_value in H. exact (proj2 (be_acc_inj a b 0 0 Hl Ha Hb H)). Qed.

(* two canonical chunks that stand for the same scalar are the same bytes *)
Lemma canonical_unique_lemma : forall a b, length a = length b -> bytes_ok a -> bytes_ok b ->
  fr_canonical a = true -> fr_canonical b = true -> fr_value a = fr_value b -> a = b.
Proof.
  intros a b Hl Ha Hb Ca Cb H. unfold fr_canonical, fr_value in *. apply N.ltb_lt in Ca. apply N.ltb_lt in Cb.
  rewrite !N.mod_small in H by assumption. apply be_value_injective_lemma; assumption.
Qed.

(* hence ANY alteration of a response chunk (one byte or many) is rejected by the parser or stands for another scalar *)
Lemma altered_chunk_lemma : forall a b, length a = length b -> bytes_ok a -> bytes_ok b ->
  fr_canonical a = true -> a <> b -> fr_canonical b = false \/ fr_value b <> fr_value a.
Proof.
  intros a b Hl Ha Hb Ca Hne. destruct (fr_canonical b) eqn:Cb; [right|left; reflexivity].
  intros E. apply Hne. apply canonical_unique_lemma; auto.
Qed.
