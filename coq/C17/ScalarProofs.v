(* C17 — lemmas, part 4: the byte encoding of response scalars (big-endian, canonical = below the group order). *)
From Coq Require Import List NArith Bool Arith Lia.
Import ListNotations.
From VF Require Import C17.Model.
Local Open Scope N_scope.

Definition bytes_ok (l : list N) : Prop := Forall (fun b => b < 256) l.

Lemma be_acc_inj : forall a b acc1 acc2, length a = length b -> bytes_ok a -> bytes_ok b ->
  fold_left (fun x y => x * 256 + y) a acc1 = fold_left (fun x y => x * 256 + y) b acc2 -> acc1 = acc2 /\ a = b.
Proof.
  induction a as [|x r IH]; intros [|y s] acc1 acc2 Hl Ha Hb H; try discriminate.
  - cbn in H. auto.
  - cbn [fold_left] in H. injection Hl as Hl. inversion_clear Ha as [|? ? Hx Hr]. inversion_clear Hb as [|? ? Hy Hs].
    destruct (IH s _ _ Hl Hr Hs H) as [E1 E2]. subst s. split; [lia|]. f_equal. lia.
Qed.

(* the big-endian reading of byte strings of one length is injective *)
Lemma be_value_injective_lemma : forall a b, length a = length b -> bytes_ok a -> bytes_ok b ->
  be_value a = be_value b -> a = b.
Proof. intros a b Hl Ha Hb H. unfold be_value in H. exact (proj2 (be_acc_inj a b 0 0 Hl Ha Hb H)). Qed.

(* two canonical chunks that stand for the same scalar are the same bytes *)
Lemma canonical_unique_lemma : forall a b, length a = length b -> bytes_ok a -> bytes_ok b ->
  fr_canonical a = true -> fr_canonical b = true -> fr_value a = fr_value b -> a = b.
Proof.
  intros a b Hl Ha Hb Ca Cb H. unfold fr_canonical, fr_value in *. apply N.ltb_lt in Ca. apply N.ltb_lt in Cb.
  rewrite !N.mod_small in H by assumption. apply be_value_injective_lemma; assumption.
Qed.

(* hence ANY alteration of a response chunk (one byte or many) is rejected by the parser or stands for another scalar *)
Lemma altered_chunk_lemma : forall a b, length a = length b -> bytes_ok a -> bytes_ok b ->
  fr_canonical a = true -> a <> b -> fr_canonical b = false \/ fr_value b <> fr_value a.
Proof.
  intros a b Hl Ha Hb Ca Hne. destruct (fr_canonical b) eqn:Cb; [right|left; reflexivity].
  intros E. apply Hne. apply canonical_unique_lemma; auto.
Qed.

(* ---------- compressed G1 points: the flag byte ---------- *)
Definition byte_shape (b : N) : bool :=
  N.eqb b ((if N.testbit b 7 then 128 else 0) + (if N.testbit b 6 then 64 else 0) + (if N.testbit b 5 then 32 else 0)
           + N.land b 31).

Lemma byte_shape_all : forallb byte_shape (map N.of_nat (seq 0 256)) = true.
Proof. vm_compute. reflexivity. Qed.

Lemma byte_shape_lemma : forall b, b < 256 ->
  b = (if N.testbit b 7 then 128 else 0) + (if N.testbit b 6 then 64 else 0) + (if N.testbit b 5 then 32 else 0)
      + N.land b 31.
Proof.
  intros b Hb. pose proof byte_shape_all as A. rewrite forallb_forall in A.
  assert (Hin : In b (map N.of_nat (seq 0 256))).
  { apply in_map_iff. exists (N.to_nat b). split; [apply N2Nat.id|]. apply in_seq. lia. }
  specialize (A b Hin). unfold byte_shape in A. apply N.eqb_eq in A. exact A.
Qed.

Lemma all_zero_eq : forall a b : list N, length a = length b ->
  forallb (N.eqb 0) a = true -> forallb (N.eqb 0) b = true -> a = b.
Proof.
  induction a as [|x r IH]; intros [|y s] Hl Ha Hb; try discriminate; [reflexivity|].
  cbn [forallb] in Ha, Hb. apply andb_true_iff in Ha. apply andb_true_iff in Hb. destruct Ha as [Hx Hr]. destruct Hb as [Hy Hs].
  apply N.eqb_eq in Hx. apply N.eqb_eq in Hy. subst. f_equal. apply IH; auto.
Qed.

(* two byte strings the flag/range checks accept and that decode to the same (infinity | x, sign) are equal *)
Lemma g1_flags_injective_lemma : forall a b, bytes_ok a -> bytes_ok b ->
  g1_flags_decode a <> GErr -> g1_flags_decode a = g1_flags_decode b -> a = b.
Proof.
  intros a b Ha Hb Hne E. unfold g1_flags_decode in *.
  destruct a as [|a0 ra]; [contradiction|]. destruct b as [|b0 rb]; [exact (False_ind _ (Hne E))|].
  destruct (Nat.eqb_spec (length (a0 :: ra)) 48) as [La|La]; cbn [negb] in *; [|contradiction].
  destruct (Nat.eqb_spec (length (b0 :: rb)) 48) as [Lb|Lb]; cbn [negb] in *; [|exact (False_ind _ (Hne E))].
  inversion_clear Ha as [|? ? Ha0 Hra]. inversion_clear Hb as [|? ? Hb0 Hrb].
  assert (Hlr : length ra = length rb) by (cbn in La, Lb; lia).
  destruct (N.testbit a0 7) eqn:A7; cbn [negb] in *; [|contradiction].
  destruct (N.testbit b0 7) eqn:B7; cbn [negb] in *; [|exact (False_ind _ (Hne E))].
  destruct (N.testbit a0 6) eqn:A6.
  - destruct (N.eqb a0 192 && forallb (N.eqb 0) ra) eqn:Az; [|contradiction].
    apply andb_true_iff in Az. destruct Az as [Az1 Az2]. apply N.eqb_eq in Az1.
    destruct (N.testbit b0 6) eqn:B6.
    + destruct (N.eqb b0 192 && forallb (N.eqb 0) rb) eqn:Bz; [|discriminate].
      apply andb_true_iff in Bz. destruct Bz as [Bz1 Bz2]. apply N.eqb_eq in Bz1. subst.
      f_equal. apply all_zero_eq; auto.
    + destruct (be_value (N.land b0 31 :: rb) <? field_modulus); discriminate.
  - destruct (be_value (N.land a0 31 :: ra) <? field_modulus) eqn:Ax; [|contradiction].
    destruct (N.testbit b0 6) eqn:B6.
    + destruct (N.eqb b0 192 && forallb (N.eqb 0) rb); discriminate.
    + destruct (be_value (N.land b0 31 :: rb) <? field_modulus) eqn:Bx; [|discriminate].
      injection E as Ex Es.
      assert (Hla : N.land a0 31 < 256).
      { pose proof (byte_shape_lemma a0 Ha0). destruct (N.testbit a0 5); rewrite A7, A6 in *; lia. }
      assert (Hlb : N.land b0 31 < 256).
      { pose proof (byte_shape_lemma b0 Hb0). destruct (N.testbit b0 5); rewrite B7, B6 in *; lia. }
      assert (Hcons : N.land a0 31 :: ra = N.land b0 31 :: rb).
      { apply be_value_injective_lemma; [cbn; lia| constructor; auto | constructor; auto | exact Ex]. }
      injection Hcons as H31 Hr. subst rb. f_equal.
      rewrite (byte_shape_lemma a0 Ha0), (byte_shape_lemma b0 Hb0), A7, A6, B7, B6, Es, H31. reflexivity.
Qed.
