(* C17 — correspondence: for the same message vector, reveal set, nonce, key and verifier-side attacks the
   harness records what the real implementation did (payload bytes, proof length, proof bytes, accept/reject
   per attack); check_case evaluates the model's codec, layout parser and exponent-model derive/verify
   (instantiated over Z_p, p = 2^61-1, with pseudo-random scalars derived from the case) on them. *)
From Coq Require Import List NArith Bool Arith.
Import ListNotations.
From VF Require Export C17.Model C17.CredModel.
Local Open Scope N_scope.

(* ---------- Z_p instance of the field operations (p = 2^61 - 1) ---------- *)
Definition zp : N := 2305843009213693951.
(* reduction modulo the Mersenne prime 2^61-1 by folding (valid for arguments below 2^183) *)
Definition zfold (x : N) : N := N.land x zp + N.shiftr x 61.
Definition zred (x : N) : N := let y := zfold (zfold (zfold x)) in if zp <=? y then y - zp else y.
Definition zadd (a b : N) : N := zred (a + b).
Definition zmul (a b : N) : N := zred (a * b).
Definition zopp (a : N) : N := zred (zp - zred a).
Definition zsub (a b : N) : N := zadd a (zopp b).
Fixpoint zpow_pos (a : N) (e : positive) : N :=
  match e with
  | xH => zred a
  | xO e' => let t := zpow_pos a e' in zmul t t
  | xI e' => let t := zpow_pos a e' in zmul (zmul t t) a
  end.
Definition zinv (a : N) : N := match zp - 2 with Npos e => zpow_pos a e | N0 => 0 end.
Definition zdiv (a b : N) : N := zmul a (zinv b).

Definition zmix (s k : N) : N :=
  let t := zred (s * 6364136223846793005 + k * 1442695040888963407 + 1013904223) in
  zred (zmul t t + 3 * t + 7).
(* generators: a function of key, count and index *)
Definition zgen (w : N) (n i : nat) : N := zmix w (N.of_nat n * 1000003 + N.of_nat i * 7919 + 5).
(* challenge: a function of the whole transcript and the nonce *)
Definition zH (l : list N) (nonce : N) : N :=
  zmix (fold_left (fun acc x => zred (acc * 1000003 + x + 1)) l 17) (nonce + 3).

Definition zverify := verify N 0 1 zadd zmul zsub zopp N.eqb zH zgen.
(* strict = true: verification through the BbsBlsSignatureProof2020 suite (exact statement count, fix 8e44881) *)
Definition zverify_g := verify_gen N 0 1 zadd zmul zsub zopp N.eqb zH zgen.
Definition zderive := derive N 0 1 zadd zmul zsub zopp zdiv N.eqb zH zgen.
Definition zsign := sign N 0 1 zadd zmul zdiv zgen.

(* injective embeddings of the harness's message / nonce / key ids *)
Definition m_of (id : N) : N := zred (id * id * 31 + id * 7 + 3).
Definition nonce_of (id : N) : N := id + 1.
Definition key_of (id : N) : N := zmix (id + 1) 99.

Inductive attack :=
| AHonest
| ASupplied (l : list N)        (* the verifier is given these messages *)
| ANonce (k : N)                (* another nonce *)
| AKey                          (* another issuer key *)
| AAlter (pos : nat) (x : N)    (* proof byte pos XOR x *)
| APrefix (pos : nat) (x : N)   (* byte pos of the keyset's output prefix XOR x *)
| AAddQ (pos : nat)             (* the response chunk at byte pos replaced by the encoding of value + group order *)
| AForge (fam : N) (cR : list nat) (sup : list N) (pads : list nat).
   (* a structurally crafted proof (family fam, see harness/c17/forge.go) whose payload reveals cR ++ pads,
      presented with the messages sup *)

(* credential level: rank positions, number of proof statements, the statements the issuer signed, the canonical
   statements of the derived document, the statements the proof suite handed to its verifier *)
Record cred_obs := { cr_rk : ranks; cr_np : nat; cr_signed : list stmt; cr_c0 : list stmt; cr_vdoc : list stmt }.

Record case := {
  c_msgs : list N; c_R : list nat; c_nonce : N; c_key : N;
  c_payload : list N; c_len : N; c_proof : list N; c_intact : bool;
  c_ks : list kentry; c_signer : nat;      (* the verifier's keyset; the key that signed *)
  c_sigpfx : list N; c_pfx : list N;      (* observed prefix of the signature / of the derived proof *)
  c_gd : N;                               (* generators h0, h_1.. pairwise distinct: 0 not observed, 1 yes, 2 no *)
  c_tr : list (list nat * nat * list N);   (* padding bits, extra messages, observed challenge-input labels *)
  c_q : N;                                (* the curve library's group order (0: not observed) *)
  c_strict : bool;                        (* verified through the proof suite (credential level) *)
  c_cred : option cred_obs;
  c_att : list (attack * verdict) }.

Definition list_N_eqb (a b : list N) : bool :=
  (Nat.eqb (length a) (length b)) && forallb (fun '(x, y) => N.eqb x y) (combine a b).
Definition list_bool_eqb (a b : list bool) : bool :=
  (Nat.eqb (length a) (length b)) && forallb (fun '(x, y) => Bool.eqb x y) (combine a b).

Definition bump (changed : bool) (a : N) : N := if changed then zadd a 1 else a.

(* responses of an altered proof: chunk j stands for the same scalar (same value modulo the group order) -> the honest
   response, otherwise a different scalar *)
Fixpoint diff_resp (old new : list (list N)) (rs : list N) : list N :=
  match new with
  | [] => []
  | c :: nr =>
      match old, rs with
      | o :: orr, r :: rr => bump (negb (N.eqb (fr_value o) (fr_value c))) r :: diff_resp orr nr rr
      | _, _ => 1 :: diff_resp [] nr []
      end
  end.

(* ---------- the verifier's challenge input, symbolically: the model's own transcript/vsplit instantiated on labels
   1 Abar, 2 A', 3 h0, 4 VC1 commitment, 5 d, 6 VC2 commitment, 7 nonce, 100+i generator h_i ---------- *)
Definition label_transcript (n : nat) (R pads : list nat) (nsup : nat) : list N :=
  let bits := mask_of (8 * bv_len n) (R ++ pads) in
  let gens := map (fun i => 100 + N.of_nat i) (seq 0 n) in
  transcript N 1 2 3 4 5 (snd (vsplit N 0 bits gens (repeat 0 nsup))) 6 ++ [7].

Fixpoint drop_last {A} (l : list A) : list A :=
  match l with [] => [] | [_] => [] | x :: r => x :: drop_last r end.

(* the forger of harness/c17/forge.go in the exponent model.  pf: the honest proof; e r2: witnesses of VC1;
   bl: the honest blinding factors; z: the forger's random scalars *)
Definition forge (fam : N) (x : N) (pf : proof N) (e r2 : N) (bl z : nat -> N) (nonce : N)
           (n : nat) (cR pads : list nat) (sup : list N) : proof N :=
  let bits := mask_of (8 * bv_len n) (cR ++ pads) in
  let hh0 := h0 N zgen x n in
  let '(rv, hidden) := vsplit N 0 bits (hs N zgen x n) sup in
  let b1 := [p_aprime pf; hh0] in
  let st1 := zsub (p_abar pf) (p_d pf) in
  let b2 := p_d pf :: hh0 :: hidden in
  let st2 := zopp (zadd 1 (dot N 0 zadd zmul rv)) in
  let zs k off := map (fun i => z (off + i)%nat) (seq 0 k) in
  let lin' := lin N 0 zadd zmul in
  let chal c1 c2 := zH (transcript N (p_abar pf) (p_aprime pf) hh0 c1 (p_d pf) hidden c2) nonce in
  let honest1 c := resp N zmul zsub c [bl 0%nat; bl 1%nat] [zopp e; r2] in
  let mk c1 r1 c2 r2' := {| p_count := n; p_mask := bits; p_aprime := p_aprime pf; p_abar := p_abar pf; p_d := p_d pf;
                            p_c1 := c1; p_r1 := r1; p_c2 := c2; p_r2 := r2' |} in
  let sim bases st c off := let rs := zs (length bases) off in (zadd (lin' bases rs) (zmul st c), rs) in
  let sur bases st off := let rs := zs (S (length bases)) off in (lin' (bases ++ [st]) rs, rs) in
  match fam with
  | 1 => let '(c1, r1) := sur b1 st1 0%nat in let '(c2, r2') := sur b2 st2 10%nat in mk c1 r1 c2 r2'
  | 2 => let '(c2, r2') := sur b2 st2 10%nat in mk (p_c1 pf) (honest1 (chal (p_c1 pf) c2)) c2 r2'
  | 3 => let c := z 99%nat in
         let '(c1, r1) := sim b1 st1 c 0%nat in let '(c2, r2') := sim b2 st2 c 10%nat in mk c1 r1 c2 r2'
  | 4 => let c := chal (p_c1 pf) 1 in
         let '(c2, r2') := sim b2 st2 c 10%nat in mk (p_c1 pf) (honest1 c) c2 r2'
  | 5 => let c := chal 1 1 in
         let '(c1, r1) := sim b1 st1 c 0%nat in let '(c2, r2') := sim b2 st2 c 10%nat in mk c1 r1 c2 r2'
  | 6 => mk (p_c1 pf) (p_r1 pf) (p_c2 pf) (p_r2 pf)
  | 7 => mk (p_c1 pf) (p_r1 pf ++ [z 0%nat]) (p_c2 pf) (p_r2 pf)
  | 8 => mk (p_c1 pf) (p_r1 pf) (p_c2 pf) (p_r2 pf ++ [z 0%nat])
  | 9 => mk (p_c1 pf) (drop_last (p_r1 pf)) (p_c2 pf) (p_r2 pf)
  | _ => mk (p_c1 pf) (p_r1 pf) (p_c2 pf) (drop_last (p_r2 pf))
  end.

Fixpoint nodup_N (l : list N) : bool :=
  match l with [] => true | a :: r => negb (existsb (N.eqb a) r) && nodup_N r end.

(* the credential level: the holder's statement -> index mapping gives the payload of the real derived proof; the suite
   hands its verifier the proof statements followed by the document statements in the signer's order; after the
   blank-node rewriting these are exactly the signed statements selected by the proof's mask, and as many *)
Definition check_cred (n : nat) (payload : list N) (cr : cred_obs) : bool :=
  let rk := cr_rk cr in
  let S := cr_signed cr in
  let np := cr_np cr in
  let P := firstn np S in
  let D := skipn np S in
  Nat.eqb (length S) n && (np <=? n)%nat &&
  sorted_by (skey rk) (cr_c0 cr) && sorted_by (skey rk) D && nodup_N (map (skey rk) D) &&
  negb (existsb has_bnid S) &&
  match holder_reveal np S (cr_c0 cr) with
  | None => false
  | Some R =>
      match payload_bytes n R with Some pb => list_N_eqb pb payload | None => false end &&
      stmts_eqb (cr_vdoc cr) (verifier_doc rk P (cr_c0 cr)) &&
      stmts_eqb (verifier_messages (cr_vdoc cr)) (select (mask_of n R) S) &&
      suite_count_ok (mask_of n R) (cr_vdoc cr)
  end.

Definition expected_len (n hidden : nat) : N :=
  N.of_nat (2 + bv_len n + 144 + 4 + 116 + 52 + 32 * (2 + hidden)).

Definition check_case (c : case) : bool :=
  let n := length (c_msgs c) in
  let mask := mask_of n (c_R c) in
  let nrev := count_true mask in
  let hidden := (n - nrev)%nat in
  let msgs := map m_of (c_msgs c) in
  let x := key_of (c_key c) in
  let seed := fold_left (fun acc m => zred (acc * 1000003 + m + 1)) msgs (c_nonce c + 1) in
  let sg := zsign x msgs (zmix seed 1) (zmix seed 2) in
  let nonce := nonce_of (c_nonce c) in
  (* payload codec *)
  match payload_bytes n (c_R c) with
  | Some pb => list_N_eqb pb (c_payload c)
  | None => false
  end &&
  N.eqb (c_len c) (expected_len n hidden) &&
  (N.eqb (c_q c) 0 || N.eqb (c_q c) group_order) &&
  match c_cred c with Some cr => check_cred n (c_payload c) cr | None => true end &&
  Bool.eqb (c_intact c) (list_N_eqb (proof_after_verify Fixed (c_proof c)) (c_proof c)) &&
  (* the signature carries the signing key's output prefix; the wrapper's DeriveProof (only the signing key's
     primitive can derive) puts the same prefix in front of the proof *)
  let spfx := match nth_error (c_ks c) (c_signer c) with Some e => k_pfx e | None => [99] end in
  list_N_eqb (c_sigpfx c) spfx &&
  match wrapped_derive_ks (c_ks c) (c_sigpfx c ++ [0; 0; 0; 0; 0])
          (fun i _ => if Nat.eqb i (c_signer c) then Some (c_payload c ++ [0; 0; 0; 0; 0]) else None) with
  | Some out => list_N_eqb out (c_pfx c ++ c_payload c ++ [0; 0; 0; 0; 0])
  | None => false
  end &&
  (* generator distinctness: the model's generators are pairwise distinct, so must be the real ones *)
  (match c_gd c with
   | 0 => true
   | g => Bool.eqb (N.eqb g 1) (nodup_N (h0 N zgen x n :: hs N zgen x n))
   end) &&
  (* the bytes the verifier hashes into the challenge, point by point *)
  forallb (fun '(pads, extra, labels) =>
             list_N_eqb labels (label_transcript n (idx_from 0 mask) pads (nrev + extra)%nat)) (c_tr c) &&
  (* layout of the real proof bytes *)
  let lay :=
    match c_proof c with
    | [] => None
    | bs => match parse_payload bs with
            | Some (n', bits, rest) =>
                match parse_sigproof Fixed rest with
                | POk L => Some (n', bits, rest, L)
                | _ => None
                end
            | None => None
            end
    end in
  match c_proof c, lay with
  | [], _ => true
  | _, Some (n', bits, rest, L) =>
      Nat.eqb n' n && list_bool_eqb bits (mask_of (8 * bv_len n) (c_R c)) &&
      N.eqb (l_len1 L) 116 && N.eqb (g_n (l_vc1 L)) 2 && N.eqb (g_n (l_vc2 L)) (N.of_nat (2 + hidden)) &&
      Nat.eqb (length (g_trail (l_vc1 L))) 0 && Nat.eqb (length (g_trail (l_vc2 L))) 0 &&
      layout_canonical Fixed L && points_ok L &&
      list_N_eqb (layout_bytes L) rest
  | _, None => false
  end &&
  (* derive and verify in the exponent model *)
  match zderive x msgs sg nonce mask (zmix seed 3) (zmix seed 4) (fun i => zmix seed (N.of_nat i + 10)) with
  | None => false
  | Some pf =>
      let rv := select mask msgs in
      (* the verdict on other proof bytes: the model parses them itself; a chunk that differs from the honest one
         stands for a different element (sampled assumption for points; for canonical scalars: canonical_encoding_unique) *)
      let of_bytes (bs' : list N) : verdict :=
              match lay with
              | None => VPanic (* alterations need the proof bytes *)
              | Some (_, _, _, L) =>
                  match parse_payload bs' with
                  | None => VReject
                  | Some (n', bits', rest') =>
                      match parse_sigproof Fixed rest' with
                      | PErr => VReject
                      | PPanic => VPanic
                      | POk L' =>
                          if negb (layout_canonical Fixed L' && points_ok L') then VReject else
                          let pf' := {|
                            p_count := n'; p_mask := bits';
                            p_aprime := bump (negb (list_N_eqb (l_aprime L) (l_aprime L'))) (p_aprime pf);
                            p_abar := bump (negb (list_N_eqb (l_abar L) (l_abar L'))) (p_abar pf);
                            p_d := bump (negb (list_N_eqb (l_d L) (l_d L'))) (p_d pf);
                            p_c1 := bump (negb (list_N_eqb (g_commit (l_vc1 L)) (g_commit (l_vc1 L')))) (p_c1 pf);
                            p_r1 := diff_resp (g_resp (l_vc1 L)) (g_resp (l_vc1 L')) (p_r1 pf);
                            p_c2 := bump (negb (list_N_eqb (g_commit (l_vc2 L)) (g_commit (l_vc2 L')))) (p_c2 pf);
                            p_r2 := diff_resp (g_resp (l_vc2 L)) (g_resp (l_vc2 L')) (p_r2 pf) |} in
                          zverify_g (c_strict c) Fixed x pf' nonce rv
                      end
                  end
              end in
      forallb (fun '(a, obs) =>
        let pred :=
          match a with
          | AHonest =>
              wrapped_verify_ks (c_ks c) (c_pfx c ++ c_payload c ++ [0; 0; 0; 0; 0])
                             (fun i _ => if Nat.eqb i (c_signer c) then zverify_g (c_strict c) Fixed x pf nonce rv else VReject)
          | ASupplied l => zverify_g (c_strict c) Fixed x pf nonce (map m_of l)
          | ANonce k => zverify_g (c_strict c) Fixed x pf (nonce_of (c_nonce c + 1 + k)) rv
          | AKey => zverify_g (c_strict c) Fixed (key_of (c_key c + 1000)) pf nonce rv
          | APrefix pos xm =>
              (* the wrapper on (altered prefix ++ proof); the inner verifier would see the honest proof *)
              wrapped_verify_ks (c_ks c) (alter pos xm (c_pfx c) ++ c_payload c ++ [0; 0; 0; 0; 0])
                             (fun i _ => if Nat.eqb i (c_signer c) then zverify_g (c_strict c) Fixed x pf nonce rv else VReject)
          | AForge fam cR sup pads =>
              zverify_g (c_strict c) Fixed x
                (forge fam x pf (zmix seed 1) (zmix seed 4) (fun i => zmix seed (N.of_nat i + 10))
                       (fun i => zmix seed (N.of_nat i + 500)) nonce n cR pads (map m_of sup))
                nonce (map m_of sup)
          | AAlter pos xm => of_bytes (alter pos xm (c_proof c))
          | AAddQ pos => of_bytes (addq_at pos (c_proof c))
          end in
        verdict_eqb pred obs) (c_att c)
  end.

Fixpoint mismatches_from (i : nat) (cs : list case) : list nat :=
  match cs with
  | [] => []
  | c :: r => if check_case c then mismatches_from (S i) r else i :: mismatches_from (S i) r
  end.
Definition mismatches := mismatches_from 0.
