(* C17 — property theorems only.  The exponent-model theorems hold for EVERY field F (field_theory hypothesis, with a
   boolean equality deciding Leibniz equality), every challenge function H and every generator function gen; these
   primitive assumptions stay visible as hypotheses of the closed statements.  Instance: Qc (Examples below);
   the correspondence executes the same definitions over Z_(2^61-1). *)
From Coq Require Import List NArith Bool Arith Field QArith Qcanon.
Import ListNotations.
From VF Require Import C17.Model C17.Proofs C17.ExpProofs C17.CredModel C17.CredProofs C17.ScalarProofs.

(* ---------- codec ---------- *)
(* what DeriveProof writes as payload is read back by VerifyProof as the same count and the same revealed indexes,
   for every count below 2^16 and every strictly sorted index list below the count *)
Theorem payload_roundtrip : forall (n : nat) (R : list nat) (rest : list N),
  (N.of_nat n < 65536)%N -> sorted_below n R ->
  exists pb, payload_bytes n R = Some pb /\
             exists bits, parse_payload (pb ++ rest) = Some (n, bits, rest) /\ revealed_of bits = R.
Proof. exact payload_roundtrip_lemma. Qed.
Print Assumptions payload_roundtrip.

Section Statements.
  Variable F : Type.
  Variables (f0 f1 : F) (fadd fmul fsub : F -> F -> F) (fopp : F -> F) (fdiv : F -> F -> F) (finv : F -> F).
  Variable feqb : F -> F -> bool.
  Variable H : list F -> F -> F.
  Variable gen : F -> nat -> nat -> F.
  Definition is_field : Prop := field_theory f0 f1 fadd fmul fsub fopp fdiv finv (@eq F).
  Definition decides_eq : Prop := forall a b, feqb a b = true <-> a = b.
  Definition verify_m := verify_gen F f0 f1 fadd fmul fsub fopp feqb H gen.
  Definition derive_m := derive F f0 f1 fadd fmul fsub fopp fdiv feqb H gen.
  Definition dot_m := dot F f0 fadd fmul.
  Definition lin_m := lin F f0 fadd fmul.
  Definition rv_of (w : F) (pf : proof F) (sup : list F) := fst (vsplit F f0 (p_mask pf) (hs F gen w (p_count pf)) sup).
  Definition hidden_of (w : F) (pf : proof F) (sup : list F) := snd (vsplit F f0 (p_mask pf) (hs F gen w (p_count pf)) sup).
End Statements.

(* the reveal list a caller passes (any order, indexes named twice) denotes a SET: payload, mask and therefore the whole
   derivation depend only on which indexes occur *)
Theorem reveal_list_is_a_set : forall m R1 R2, (forall i, In i R1 <-> In i R2) ->
  mask_of m R1 = mask_of m R2 /\ payload_bytes m R1 = payload_bytes m R2.
Proof.
  intros m R1 R2 H. split; [apply mask_of_set_lemma; exact H|].
  unfold payload_bytes. rewrite (mask_of_set_lemma _ R1 R2 H).
  replace (existsb (fun r => 8 * bv_len m <=? r) R1) with (existsb (fun r => 8 * bv_len m <=? r) R2); [reflexivity|].
  destruct (existsb _ R2) eqn:E2; destruct (existsb (fun r => 8 * bv_len m <=? r) R1) eqn:E1; auto.
  - apply existsb_exists in E2. destruct E2 as [x [Hx Hi]]. apply H in Hx.
    assert (existsb (fun r => 8 * bv_len m <=? r) R1 = true) by (apply existsb_exists; eauto). congruence.
  - apply existsb_exists in E1. destruct E1 as [x [Hx Hi]]. apply H in Hx.
    assert (existsb (fun r => 8 * bv_len m <=? r) R2 = true) by (apply existsb_exists; eauto). congruence.
Qed.
Print Assumptions reveal_list_is_a_set.

(* ---------- index bookkeeping ---------- *)
(* for every mask, generator list and message vector: from the selected messages (followed by anything) the verifier
   rebuilds exactly the prover's partition: message i is paired with generator h_i for exactly the revealed i *)
Theorem bookkeeping : forall F (f0 : F) mask gens msgs extra,
  length gens = length msgs ->
  vsplit F f0 mask gens (map snd (fst (split_mask F mask (combine gens msgs))) ++ extra)
  = (fst (split_mask F mask (combine gens msgs)), map fst (snd (split_mask F mask (combine gens msgs)))).
Proof.
  intros F f0 mask gens msgs extra Hl. pose proof (ExpProofs.bookkeeping F f0 mask gens msgs extra Hl) as B.
  destruct (split_mask F mask (combine gens msgs)); exact B.
Qed.
Print Assumptions bookkeeping.

(* ---------- completeness ---------- *)
(* for every message vector, every signature that verifies, every non-empty reveal mask, every nonce and all prover
   randomness (r1 <> 0): the derived proof verifies with exactly the selected messages *)
Theorem completeness : forall F f0 f1 fadd fmul fsub fopp fdiv finv feqb H gen,
  is_field F f0 f1 fadd fmul fsub fopp fdiv finv -> decides_eq F feqb ->
  forall w msgs sg nonce mask r1 r2 bl pf,
  derive_m F f0 f1 fadd fmul fsub fopp fdiv feqb H gen w msgs sg nonce mask r1 r2 bl = Some pf ->
  r1 <> f0 -> length mask = length msgs ->
  verify_m F f0 f1 fadd fmul fsub fopp feqb H gen false Fixed w pf nonce (select mask msgs) = VAccept.
Proof.
  intros until pf. intros Hd Hr Hl. rewrite <- (app_nil_r (select mask msgs)).
  eapply complete_lemma; eauto.
Qed.
Print Assumptions completeness.

(* ---------- exact message count ---------- *)
(* FULL statement "a supplemented list is rejected" is REFUTED for the code as it is (known finding
   supplemented-suffix-accept): every honest proof also verifies with any messages appended *)
Theorem exact_count_refuted : forall F f0 f1 fadd fmul fsub fopp fdiv finv feqb H gen,
  is_field F f0 f1 fadd fmul fsub fopp fdiv finv -> decides_eq F feqb ->
  forall w msgs sg nonce mask r1 r2 bl pf extra,
  derive_m F f0 f1 fadd fmul fsub fopp fdiv feqb H gen w msgs sg nonce mask r1 r2 bl = Some pf ->
  r1 <> f0 -> length mask = length msgs ->
  verify_m F f0 f1 fadd fmul fsub fopp feqb H gen false Fixed w pf nonce (select mask msgs ++ extra) = VAccept.
Proof. intros; eapply complete_lemma; eauto. Qed.
Print Assumptions exact_count_refuted.

(* what holds instead: fewer messages than revealed indexes are rejected, and the verdict on a longer list is the
   verdict on its first |revealed| messages (the surplus is never looked at) *)
Theorem exact_count_partial : forall F f0 f1 fadd fmul fsub fopp feqb H gen w pf nonce sup,
  ((length sup < count_true (p_mask pf))%nat ->
     verify_m F f0 f1 fadd fmul fsub fopp feqb H gen false Fixed w pf nonce sup = VReject) /\
  ((count_true (p_mask pf) <= length sup)%nat ->
     verify_m F f0 f1 fadd fmul fsub fopp feqb H gen false Fixed w pf nonce sup
     = verify_m F f0 f1 fadd fmul fsub fopp feqb H gen false Fixed w pf nonce (firstn (count_true (p_mask pf)) sup)).
Proof.
  intros. split.
  - intros Hlt. unfold verify_m, verify_gen. apply Nat.ltb_lt in Hlt. rewrite Hlt.
    destruct (pads_bad _ _ _); reflexivity.
  - apply surplus_lemma.
Qed.
Print Assumptions exact_count_partial.

(* the strict variant (the repair that two existing tests do not admit) has the exact-count property *)
Theorem exact_count_strict : forall F f0 f1 fadd fmul fsub fopp fdiv finv feqb H gen,
  is_field F f0 f1 fadd fmul fsub fopp fdiv finv -> decides_eq F feqb ->
  forall w pf nonce sup,
  verify_m F f0 f1 fadd fmul fsub fopp feqb H gen true Fixed w pf nonce sup = VAccept ->
  length sup = count_true (p_mask pf).
Proof.
  intros until sup. intros A. eapply verify_accept_iff in A; eauto. destruct A as [_ [_ [E _]]]. auto.
Qed.
Print Assumptions exact_count_strict.

(* ---------- binding (symbolic counterpart of soundness: acceptance of two different inputs forces an algebraic
   coincidence among the challenge value and the generator logs) ---------- *)
(* changed / reordered / other revealed messages: if the same proof is accepted with two message lists then the
   challenge is 0 or the two lists have the same generator-weighted sum *)
Theorem binding_messages : forall F f0 f1 fadd fmul fsub fopp fdiv finv feqb H gen,
  is_field F f0 f1 fadd fmul fsub fopp fdiv finv -> decides_eq F feqb ->
  forall strict w pf nonce s1 s2,
  verify_m F f0 f1 fadd fmul fsub fopp feqb H gen strict Fixed w pf nonce s1 = VAccept ->
  verify_m F f0 f1 fadd fmul fsub fopp feqb H gen strict Fixed w pf nonce s2 = VAccept ->
  challenge_of F f0 H gen w pf nonce = f0 \/
  dot_m F f0 fadd fmul (rv_of F f0 gen w pf s1) = dot_m F f0 fadd fmul (rv_of F f0 gen w pf s2).
Proof. intros; eapply binding_messages_lemma; eauto. Qed.
Print Assumptions binding_messages.

(* other nonce: accepted under two nonces only if the two challenges collide or Abar = d *)
Theorem binding_nonce : forall F f0 f1 fadd fmul fsub fopp fdiv finv feqb H gen,
  is_field F f0 f1 fadd fmul fsub fopp fdiv finv -> decides_eq F feqb ->
  forall strict w pf n1 n2 sup,
  verify_m F f0 f1 fadd fmul fsub fopp feqb H gen strict Fixed w pf n1 sup = VAccept ->
  verify_m F f0 f1 fadd fmul fsub fopp feqb H gen strict Fixed w pf n2 sup = VAccept ->
  challenge_of F f0 H gen w pf n1 = challenge_of F f0 H gen w pf n2 \/ p_abar pf = p_d pf.
Proof. intros; eapply binding_nonce_lemma; eauto. Qed.
Print Assumptions binding_nonce.

(* other key: accepted under two keys only if they are equal or A' is the identity *)
Theorem binding_key : forall F f0 f1 fadd fmul fsub fopp fdiv finv feqb H gen,
  is_field F f0 f1 fadd fmul fsub fopp fdiv finv -> decides_eq F feqb ->
  forall strict w1 w2 pf n1 n2 s1 s2,
  verify_m F f0 f1 fadd fmul fsub fopp feqb H gen strict Fixed w1 pf n1 s1 = VAccept ->
  verify_m F f0 f1 fadd fmul fsub fopp feqb H gen strict Fixed w2 pf n2 s2 = VAccept ->
  w1 = w2 \/ p_aprime pf = f0.
Proof. intros; eapply binding_key_lemma; eauto. Qed.
Print Assumptions binding_key.

(* altered response scalars: the altered vectors must give the same linear combinations of the bases *)
Theorem binding_responses : forall F f0 f1 fadd fmul fsub fopp fdiv finv feqb H gen,
  is_field F f0 f1 fadd fmul fsub fopp fdiv finv -> decides_eq F feqb ->
  forall strict w pf r1' r2' nonce sup,
  verify_m F f0 f1 fadd fmul fsub fopp feqb H gen strict Fixed w pf nonce sup = VAccept ->
  verify_m F f0 f1 fadd fmul fsub fopp feqb H gen strict Fixed w
    {| p_count := p_count pf; p_mask := p_mask pf; p_aprime := p_aprime pf; p_abar := p_abar pf; p_d := p_d pf;
       p_c1 := p_c1 pf; p_r1 := r1'; p_c2 := p_c2 pf; p_r2 := r2' |} nonce sup = VAccept ->
  lin_m F f0 fadd fmul [p_aprime pf; h0 F gen w (p_count pf)] r1'
  = lin_m F f0 fadd fmul [p_aprime pf; h0 F gen w (p_count pf)] (p_r1 pf) /\
  lin_m F f0 fadd fmul (p_d pf :: h0 F gen w (p_count pf) :: hidden_of F f0 gen w pf sup) r2'
  = lin_m F f0 fadd fmul (p_d pf :: h0 F gen w (p_count pf) :: hidden_of F f0 gen w pf sup) (p_r2 pf).
Proof. intros; eapply binding_responses_lemma; eauto. Qed.
Print Assumptions binding_responses.

(* ---------- response counts, challenge coverage, simulated sub-proofs (crafted proofs) ---------- *)
(* an accepted proof has exactly one response per base in both sub-proofs (2, and 2 + number of hidden messages) *)
Theorem response_counts_exact : forall F f0 f1 fadd fmul fsub fopp fdiv finv feqb H gen,
  is_field F f0 f1 fadd fmul fsub fopp fdiv finv -> decides_eq F feqb ->
  forall strict w pf nonce sup,
  verify_m F f0 f1 fadd fmul fsub fopp feqb H gen strict Fixed w pf nonce sup = VAccept ->
  length (p_r1 pf) = 2%nat /\ length (p_r2 pf) = (2 + length (hidden_of F f0 gen w pf sup))%nat.
Proof. intros; eapply response_counts_lemma; eauto. Qed.
Print Assumptions response_counts_exact.

(* the challenge input has 7 + |hidden| points and determines Abar, A', h0, both commitments, d and every hidden base:
   no commitment can drop out of it *)
Theorem challenge_covers_commitments : forall F (a b h c d : F) hid e a' b' h' c' d' hid' e',
  length (transcript F a b h c d hid e) = (7 + length hid)%nat /\
  (transcript F a b h c d hid e = transcript F a' b' h' c' d' hid' e' ->
   a = a' /\ b = b' /\ h = h' /\ c = c' /\ d = d' /\ hid = hid' /\ e = e').
Proof. intros. split; [apply transcript_length|apply transcript_inj]. Qed.
Print Assumptions challenge_covers_commitments.

(* Schnorr simulation fails: a sub-proof whose commitment was computed for a challenge cstar chosen first is accepted
   only if the verifier's challenge (hash of a transcript containing that commitment) equals cstar, or the statement
   point is the identity *)
Theorem simulated_vc2_rejected : forall F f0 f1 fadd fmul fsub fopp fdiv finv feqb H gen,
  is_field F f0 f1 fadd fmul fsub fopp fdiv finv -> decides_eq F feqb ->
  forall strict w pf nonce sup cstar,
  p_c2 pf = fadd (lin_m F f0 fadd fmul (p_d pf :: h0 F gen w (p_count pf) :: hidden_of F f0 gen w pf sup) (p_r2 pf))
                 (fmul (fopp (fadd f1 (dot_m F f0 fadd fmul (rv_of F f0 gen w pf sup)))) cstar) ->
  verify_m F f0 f1 fadd fmul fsub fopp feqb H gen strict Fixed w pf nonce sup = VAccept ->
  fopp (fadd f1 (dot_m F f0 fadd fmul (rv_of F f0 gen w pf sup))) = f0 \/
  H (transcript F (p_abar pf) (p_aprime pf) (h0 F gen w (p_count pf)) (p_c1 pf) (p_d pf)
                (hidden_of F f0 gen w pf sup) (p_c2 pf)) nonce = cstar.
Proof. intros until cstar. intros Hs A. eapply simulated_vc2_lemma; eauto. Qed.
Print Assumptions simulated_vc2_rejected.

Theorem simulated_vc1_rejected : forall F f0 f1 fadd fmul fsub fopp fdiv finv feqb H gen,
  is_field F f0 f1 fadd fmul fsub fopp fdiv finv -> decides_eq F feqb ->
  forall strict w pf nonce sup cstar,
  p_c1 pf = fadd (lin_m F f0 fadd fmul [p_aprime pf; h0 F gen w (p_count pf)] (p_r1 pf))
                 (fmul (fsub (p_abar pf) (p_d pf)) cstar) ->
  verify_m F f0 f1 fadd fmul fsub fopp feqb H gen strict Fixed w pf nonce sup = VAccept ->
  p_abar pf = p_d pf \/
  H (transcript F (p_abar pf) (p_aprime pf) (h0 F gen w (p_count pf)) (p_c1 pf) (p_d pf)
                (hidden_of F f0 gen w pf sup) (p_c2 pf)) nonce = cstar.
Proof. intros until cstar. intros Hs A. eapply simulated_vc1_lemma; eauto. Qed.
Print Assumptions simulated_vc1_rejected.

(* a payload with a set bit at an index >= its message count is rejected by the repaired verifier (fix 99687e9);
   the code as found tolerated it (such a bit only raised the number of messages the verifier asked for) *)
Theorem padding_bits_rejected : forall F f0 f1 fadd fmul fsub fopp feqb H gen strict w pf nonce sup i,
  In i (revealed_of (p_mask pf)) -> (p_count pf <= i)%nat ->
  verify_m F f0 f1 fadd fmul fsub fopp feqb H gen strict Fixed w pf nonce sup = VReject.
Proof.
  intros until i. intros Hin Hge. unfold verify_m, verify_gen, pads_bad.
  replace (forallb (fun i0 => i0 <? p_count pf) (idx_from 0 (p_mask pf))) with false; [reflexivity|].
  symmetry. apply not_true_is_false. intros Hf. rewrite forallb_forall in Hf. specialize (Hf i Hin).
  apply Nat.ltb_lt in Hf. apply (Nat.lt_irrefl i). eapply Nat.lt_le_trans; eauto.
Qed.
Print Assumptions padding_bits_rejected.

(* ---------- the Tink wrapper: a keyset accepts only what one of its keys verified ---------- *)
(* for a keyset with one key of any output prefix type: an accepted input has at least 5 bytes and either the key is
   RAW and the primitive verified the whole input, or the input starts with that key's prefix and the primitive
   verified the rest.  In particular an input whose prefix matches no key is never accepted. *)
Theorem wrapped_accept_sound : forall k kp bytes inner,
  wrapped_verify k kp bytes inner = VAccept ->
  (5 <= length bytes)%nat /\
  ((k = PRaw /\ inner bytes = VAccept) \/
   (k <> PRaw /\ firstn 5 bytes = kp /\ inner (skipn 5 bytes) = VAccept)).
Proof. exact wrapped_accept_lemma. Qed.
Print Assumptions wrapped_accept_sound.

(* several keys (rotated keysets, mixed prefix types): soundness and completeness of the wrapper *)
Theorem wrapped_keyset_accept_sound : forall ks bytes vf,
  wrapped_verify_ks ks bytes vf = VAccept ->
  exists i e, nth_error ks i = Some e /\
    ((k_kind e <> PRaw /\ k_pfx e = firstn 5 bytes /\ vf i (skipn 5 bytes) = VAccept) \/
     (k_kind e = PRaw /\ vf i bytes = VAccept)).
Proof. exact wrapped_ks_sound_lemma. Qed.
Print Assumptions wrapped_keyset_accept_sound.

(* a signature made by ANY key of the keyset - primary or rotated out - can be turned into a proof, and the keyset
   accepts that proof, provided each key's primitive is complete (dv i / vf i: DeriveProof / VerifyProof of key i on
   prefix-less bytes) and non-RAW prefixes have 5 bytes *)
Theorem wrapped_keyset_complete : forall ks sig dv vf,
  (forall e, In e ks -> k_kind e <> PRaw -> length (k_pfx e) = 5%nat) ->
  (forall i s p, dv i s = Some p -> vf i p = VAccept) ->
  (forall i s p, dv i s = Some p -> (5 <= length p)%nat) ->
  (5 <= length sig)%nat ->
  (exists j e, nth_error ks j = Some e /\
     ((k_kind e <> PRaw /\ k_pfx e = firstn 5 sig /\ dv j (skipn 5 sig) <> None) \/
      (k_kind e = PRaw /\ dv j sig <> None))) ->
  exists out, wrapped_derive_ks ks sig dv = Some out /\ wrapped_verify_ks ks out vf = VAccept.
Proof. exact wrapped_ks_complete_lemma. Qed.
Print Assumptions wrapped_keyset_complete.

Example wrapped_keyset_nonvacuous :
  let ks := [{| k_kind := PTink; k_pfx := [1; 0; 0; 0; 7]%N |}; {| k_kind := PRaw; k_pfx := [] |};
             {| k_kind := PTink; k_pfx := [1; 0; 0; 0; 9]%N |}] in
  let dv := fun (i : nat) (s : list N) => if Nat.eqb i 0 then Some (s ++ [42; 42; 42; 42; 42]%N) else None in
  let vf := fun (i : nat) (p : list N) => if Nat.eqb i 0 then VAccept else VReject in
  (* signed by key 0, which is not the last (primary) key *)
  wrapped_derive_ks ks [1; 0; 0; 0; 7; 5; 5]%N dv = Some [1; 0; 0; 0; 7; 5; 5; 42; 42; 42; 42; 42]%N /\
  wrapped_verify_ks ks [1; 0; 0; 0; 7; 5; 5; 42; 42; 42; 42; 42]%N vf = VAccept /\
  wrapped_verify_ks ks [1; 0; 0; 0; 9; 5; 5; 42; 42; 42; 42; 42]%N vf = VReject.
Proof. vm_compute. repeat split. Qed.

(* ---------- positions: two revealed messages presented at each other's positions ---------- *)
(* if the same proof is accepted with the revealed messages mi, mj at generators gi, gj and with the two exchanged,
   then the challenge is 0, or the two GENERATORS ARE EQUAL, or the two messages are equal.  Generator distinctness
   (h0, h_1..h_n pairwise distinct) is checked on the real generators on every run. *)
Theorem swapped_messages_rejected : forall F f0 f1 fadd fmul fsub fopp fdiv finv feqb H gen,
  is_field F f0 f1 fadd fmul fsub fopp fdiv finv -> decides_eq F feqb ->
  forall strict w pf nonce s1 s2 G1 gi G2 gj G3 M1 mi M2 mj M3,
  rv_of F f0 gen w pf s1 = combine (G1 ++ gi :: G2 ++ gj :: G3) (M1 ++ mi :: M2 ++ mj :: M3) ->
  rv_of F f0 gen w pf s2 = combine (G1 ++ gi :: G2 ++ gj :: G3) (M1 ++ mj :: M2 ++ mi :: M3) ->
  length G1 = length M1 -> length G2 = length M2 ->
  verify_m F f0 f1 fadd fmul fsub fopp feqb H gen strict Fixed w pf nonce s1 = VAccept ->
  verify_m F f0 f1 fadd fmul fsub fopp feqb H gen strict Fixed w pf nonce s2 = VAccept ->
  challenge_of F f0 H gen w pf nonce = f0 \/ gi = gj \/ mi = mj.
Proof.
  intros F f0 f1 fadd fmul fsub fopp fdiv finv feqb H gen Hfield Hdec.
  intros strict w pf nonce s1 s2 G1 gi G2 gj G3 M1 mi M2 mj M3 R1 R2 L1 L2 A1 A2.
  destruct (binding_messages_lemma F f0 f1 fadd fmul fsub fopp fdiv finv Hfield feqb Hdec H gen strict w pf nonce s1 s2 A1 A2) as [Hc|Hd].
  - left; exact Hc.
  - right. unfold rv_of in R1, R2. rewrite R1, R2 in Hd.
    exact (swap_dot_lemma F f0 f1 fadd fmul fsub fopp fdiv finv Hfield feqb Hdec G1 gi G2 gj G3 M1 mi M2 mj M3 L1 L2 Hd).
Qed.
Print Assumptions swapped_messages_rejected.

(* a single altered response scalar of VC2 (everything else equal) is rejected unless the base it multiplies is the
   identity; `upd j x` replaces response j *)
Theorem single_response_rejected : forall F f0 f1 fadd fmul fsub fopp fdiv finv feqb H gen,
  is_field F f0 f1 fadd fmul fsub fopp fdiv finv -> decides_eq F feqb ->
  forall strict w pf j x nonce sup,
  verify_m F f0 f1 fadd fmul fsub fopp feqb H gen strict Fixed w pf nonce sup = VAccept ->
  verify_m F f0 f1 fadd fmul fsub fopp feqb H gen strict Fixed w
    {| p_count := p_count pf; p_mask := p_mask pf; p_aprime := p_aprime pf; p_abar := p_abar pf; p_d := p_d pf;
       p_c1 := p_c1 pf; p_r1 := p_r1 pf; p_c2 := p_c2 pf; p_r2 := upd F j x (p_r2 pf) |} nonce sup = VAccept ->
  (j < length (p_r2 pf))%nat ->
  nth j (p_d pf :: h0 F gen w (p_count pf) :: hidden_of F f0 gen w pf sup) f0 = f0 \/ x = nth j (p_r2 pf) f0.
Proof. intros; eapply single_response_lemma; eauto. Qed.
Print Assumptions single_response_rejected.

(* ---------- proof byte layout ---------- *)
(* whatever ParseSignatureProof accepts re-serialises to exactly the input bytes: the bytes determine A', Abar, d,
   the length field, both sub-proofs (commitment, count bytes, responses, trailing bytes) - two inputs with the same
   parse are equal, so a single altered byte changes a parsed component or makes the parse fail *)
Theorem layout_roundtrip : forall v bs L, parse_sigproof v bs = POk L -> layout_bytes L = bs.
Proof. exact layout_roundtrip_lemma. Qed.
Print Assumptions layout_roundtrip.

Theorem layout_injective : forall v bs1 bs2 L,
  parse_sigproof v bs1 = POk L -> parse_sigproof v bs2 = POk L -> bs1 = bs2.
Proof.
  intros v bs1 bs2 L H1 H2. rewrite <- (layout_roundtrip_lemma v bs1 L H1). apply (layout_roundtrip_lemma v bs2 L H2).
Qed.
Print Assumptions layout_injective.

(* the payload in front: count bytes, bit-vector bytes and the rest partition the input and determine (n, bits) *)
Theorem payload_partition : forall bs n bits rest, parse_payload bs = Some (n, bits, rest) ->
  exists hi lo bv, bs = hi :: lo :: bv ++ rest /\ n = N.to_nat (hi * 256 + lo) /\ length bv = bv_len n /\
                   bits = concat (map bits_of_byte (rev bv)).
Proof. exact payload_partition_lemma. Qed.
Print Assumptions payload_partition.

(* ---------- crafted proof bytes never crash the repaired verifier; the proof buffer is left alone ---------- *)
Theorem never_panics : forall bs, parse_sigproof Fixed bs <> PPanic.
Proof.
  intros bs. unfold parse_sigproof.
  destruct (length bs <? 144); [discriminate|]. destruct (length bs <? 148); [discriminate|].
  destruct (N.ltb _ _); [discriminate|].
  destruct (parse_pg1 _); [destruct (parse_pg1 _)|]; discriminate.
Qed.
Print Assumptions never_panics.

Theorem verify_never_panics : forall F f0 f1 fadd fmul fsub fopp feqb H gen strict w pf nonce sup,
  verify_m F f0 f1 fadd fmul fsub fopp feqb H gen strict Fixed w pf nonce sup <> VPanic.
Proof.
  intros. unfold verify_m, verify_gen. destruct (pads_bad _ _ _); [discriminate|].
  destruct (_ || _); [discriminate|].
  destruct (vsplit _ _ _ _ _). destruct (negb _); [discriminate|]. unfold pg1_verify.
  destruct (Nat.eqb _ _); [destruct (feqb _ _)|]; try discriminate.
  destruct (Nat.eqb _ _); [destruct (feqb _ _)|]; discriminate.
Qed.
Print Assumptions verify_never_panics.

Theorem proof_buffer_untouched : forall bs, proof_after_verify Fixed bs = bs.
Proof. reflexivity. Qed.
Print Assumptions proof_buffer_untouched.

(* HISTORICAL REFUTATIONS (code before the fix: commits; witnesses in corpus/C17) *)
Theorem never_panics_asis_refuted :
  parse_sigproof AsIs (repeat 0%N 144) = PPanic /\
  parse_sigproof AsIs (repeat 0%N 144 ++ [0; 0; 9; 8]%N ++ repeat 0%N 300) = PPanic /\
  pg1_verify nat 0%nat Nat.add Nat.mul Nat.eqb AsIs [1; 1]%nat 0%nat 0%nat 0%nat [1]%nat = VPanic.
Proof. repeat split; vm_compute; reflexivity. Qed.
Print Assumptions never_panics_asis_refuted.

Theorem proof_buffer_untouched_asis_refuted :
  proof_after_verify AsIs [0; 9; 1; 20; 7]%N <> [0; 9; 1; 20; 7]%N.
Proof. vm_compute. discriminate. Qed.
Print Assumptions proof_buffer_untouched_asis_refuted.

(* ---------- byte encoding of the response scalars ---------- *)
(* the parser of the repaired code (6fcc1d0) accepts a 32-byte response chunk only if its big-endian value is below the
   group order; two accepted chunks that stand for the same scalar are the same bytes *)
Theorem canonical_encoding_unique : forall a b, length a = length b -> bytes_ok a -> bytes_ok b ->
  fr_canonical a = true -> fr_canonical b = true -> fr_value a = fr_value b -> a = b.
Proof. exact canonical_unique_lemma. Qed.
Print Assumptions canonical_encoding_unique.

(* ANY alteration of an honest response chunk - one position or many - is rejected by the parser or stands for a
   different scalar (then binding_responses / single_response_rejected apply) *)
Theorem altered_response_chunk : forall a b, length a = length b -> bytes_ok a -> bytes_ok b ->
  fr_canonical a = true -> a <> b -> fr_canonical b = false \/ fr_value b <> fr_value a.
Proof. exact altered_chunk_lemma. Qed.
Print Assumptions altered_response_chunk.

(* the code as found took any 32 bytes: the chunk for 5 and the chunk for 5 + group order differ in 25 bytes, stand for
   the same scalar, and both passed the parser (confirmed on the real code: the altered proof verified); the repaired
   parser rejects the second *)
Theorem canonical_encoding_asis_refuted :
  let a := be_bytes 32 5 in
  let b := be_bytes 32 (5 + group_order) in
  let p := {| g_commit := []; g_nb := []; g_resp := [b]; g_trail := [] |} in
  a <> b /\ length a = length b /\ fr_value a = fr_value b /\ addq_at 0 a = b /\
  responses_canonical AsIs p = true /\ responses_canonical Fixed p = false.
Proof. vm_compute. repeat split. discriminate. Qed.
Print Assumptions canonical_encoding_asis_refuted.

(* ---------- byte encoding of the G1 points of a proof (A', Abar, d, both commitments) ---------- *)
(* the flag and range checks of the compressed encoding (compression bit set; infinity bit only as 0xc0 00..00; x below
   the field modulus) are in the model; two byte strings they accept and that give the same (infinity | x, sign of y) are
   equal - so a changed 48-byte chunk fails these checks or names another (x, sign).  That (x, sign) determines the
   point, and that x is the abscissa of a subgroup point, is the curve library's part (assumption). *)
Theorem g1_encoding_injective : forall a b, bytes_ok a -> bytes_ok b ->
  g1_flags_decode a <> GErr -> g1_flags_decode a = g1_flags_decode b -> a = b.
Proof. exact g1_flags_injective_lemma. Qed.
Print Assumptions g1_encoding_injective.

Theorem altered_point_chunk : forall a b, bytes_ok a -> bytes_ok b -> g1_flags_decode a <> GErr -> a <> b ->
  g1_flags_decode b <> g1_flags_decode a.
Proof. intros a b Ha Hb Hne Hab E. apply Hab. apply g1_flags_injective_lemma; auto. Qed.
Print Assumptions altered_point_chunk.

Example g1_flags_nonvacuous :
  g1_flags_decode (192 :: repeat 0 47)%N = GInf /\
  g1_flags_decode (160 :: repeat 0 46 ++ [1])%N = GPoint 1 true /\
  g1_flags_decode (32 :: repeat 0 46 ++ [1])%N = GErr /\            (* compression flag cleared *)
  g1_flags_decode (224 :: repeat 0 46 ++ [1])%N = GErr /\           (* infinity flag on a finite point *)
  g1_flags_decode (128 :: repeat 0 46 ++ [1])%N = GPoint 1 false /\ (* sign flipped: another point *)
  g1_flags_decode (159 :: repeat 255 47)%N = GErr.                    (* x not below the field modulus *)
Proof. vm_compute. repeat split. Qed.

(* ---------- the credential level (bbsblssignatureproof2020): statements, indexes, exact statement count ---------- *)
(* the holder rewrites every blank node label of a signed statement into a urn:bnid: IRI, the verifier rewrites back:
   the signed statement returns, for every statement that does not itself name such an IRI - and ONLY for those *)
Theorem blank_roundtrip : forall s, has_bnid s = false -> from_bnid (to_bnid s) = s.
Proof. exact blank_roundtrip_lemma. Qed.
Print Assumptions blank_roundtrip.

Theorem blank_roundtrip_guard_exact : forall s, has_bnid s = true -> from_bnid (to_bnid s) <> s.
Proof. exact blank_roundtrip_guard_exact. Qed.
Print Assumptions blank_roundtrip_guard_exact.

(* every statement of the reveal document is the rewritten signed statement AT THE INDEX the holder reveals for it *)
Theorem cred_revealed_are_signed : forall D RV dri, doc_reveal_indexes D RV = Some dri ->
  Forall2 (fun c i => exists d, nth_error D i = Some d /\ c = to_bnid d) RV dri.
Proof. exact reveal_indexes_lemma. Qed.
Print Assumptions cred_revealed_are_signed.

(* for all proof statements P, document statements D and document indexes dri (any order, repetitions): the mask of
   the derived proof selects from the signed vector P ++ D every proof statement and exactly the document statements
   at the indexes dri *)
Theorem cred_selection : forall (P D : list stmt) dri,
  mask_of (length P + length D) (cred_reveal (length P) dri) = repeat true (length P) ++ mask_of (length D) dri /\
  select (mask_of (length P + length D) (cred_reveal (length P) dri)) (P ++ D) = P ++ select (mask_of (length D) dri) D.
Proof. intros. split; [apply cred_mask_lemma|apply cred_selection_lemma]. Qed.
Print Assumptions cred_selection.

(* END TO END, from the statement lists to VerifyProof: for every P, D, dri, signature, nonce, prover randomness and
   message encoding: if the statements the suite hands its verifier are, after the verifier's rewriting, P followed by
   the selected document statements (the order-restoration condition; evaluated by the correspondence on every recorded
   credential), then the repaired suite (exact statement count, /repo 8e44881) accepts the derived proof *)
Theorem cred_disclose_and_prove : forall F f0 f1 fadd fmul fsub fopp fdiv finv feqb H gen (enc : stmt -> F),
  is_field F f0 f1 fadd fmul fsub fopp fdiv finv -> decides_eq F feqb ->
  forall w (P D vdoc : list stmt) dri sg nonce r1 r2 bl pf,
  derive_m F f0 f1 fadd fmul fsub fopp fdiv feqb H gen w (map enc (holder_messages P D)) sg nonce
           (mask_of (length P + length D) (cred_reveal (length P) dri)) r1 r2 bl = Some pf ->
  r1 <> f0 ->
  verifier_messages vdoc = P ++ select (mask_of (length D) dri) D ->
  verify_m F f0 f1 fadd fmul fsub fopp feqb H gen true Fixed w pf nonce (map enc (verifier_messages vdoc)) = VAccept /\
  suite_count_ok (p_mask pf) vdoc = true.
Proof. intros until enc. intros Hf Hd. exact (cred_complete_lemma F f0 f1 fadd fmul fsub fopp fdiv finv Hf feqb Hd H gen enc). Qed.
Print Assumptions cred_disclose_and_prove.

(* FULL exact-count statement at the credential level: a document the repaired suite accepts has exactly as many
   statements as the proof reveals - no statement can be added to a derived credential *)
Theorem cred_exact_statements : forall F f0 f1 fadd fmul fsub fopp fdiv finv feqb H gen (enc : stmt -> F),
  is_field F f0 f1 fadd fmul fsub fopp fdiv finv -> decides_eq F feqb ->
  forall w pf nonce (vdoc : list stmt),
  verify_m F f0 f1 fadd fmul fsub fopp feqb H gen true Fixed w pf nonce (map enc (verifier_messages vdoc)) = VAccept ->
  length vdoc = count_true (p_mask pf).
Proof. intros until enc. intros Hf Hd. exact (cred_exact_lemma F f0 f1 fadd fmul fsub fopp feqb Hd H gen enc). Qed.
Print Assumptions cred_exact_statements.

(* the suite AS FOUND (no count check; before 8e44881) accepted the derived credential with any statements added after
   the revealed ones (witness on the real code: corpus/C17/cred-claim-added.json) *)
Theorem cred_exact_statements_asis_refuted : forall F f0 f1 fadd fmul fsub fopp fdiv finv feqb H gen (enc : stmt -> F),
  is_field F f0 f1 fadd fmul fsub fopp fdiv finv -> decides_eq F feqb ->
  forall w (P D vdoc extra : list stmt) dri sg nonce r1 r2 bl pf,
  derive_m F f0 f1 fadd fmul fsub fopp fdiv feqb H gen w (map enc (holder_messages P D)) sg nonce
           (mask_of (length P + length D) (cred_reveal (length P) dri)) r1 r2 bl = Some pf ->
  r1 <> f0 ->
  verifier_messages vdoc = P ++ select (mask_of (length D) dri) D ->
  verify_m F f0 f1 fadd fmul fsub fopp feqb H gen false Fixed w pf nonce (map enc (verifier_messages (vdoc ++ extra))) = VAccept.
Proof. intros until enc. intros Hf Hd. exact (cred_added_asis_lemma F f0 f1 fadd fmul fsub fopp fdiv finv Hf feqb Hd H gen enc). Qed.
Print Assumptions cred_exact_statements_asis_refuted.

(* non-vacuity at the statement level: a credential with a blank subject and a urn:uuid: id (tokens 0..: literals, IRIs;
   the credential id sorts AFTER urn:bnid:, the case of fix e86aea1): the holder finds the indexes, the restored order is
   the signer's, the order-restoration condition of cred_disclose_and_prove holds *)
Example cred_statements_nonvacuous :
  let rk := {| bnid_pos := 3; blank_pos := 5 |} in
  let P := [[TBlank 0; TPlain 1; TPlain 0]] in
  let D := [[TPlain 4; TPlain 1; TPlain 2]; [TPlain 4; TPlain 2; TBlank 0]; [TBlank 0; TPlain 1; TPlain 0]; [TBlank 0; TPlain 2; TPlain 1]]%N in
  (* canonical form of the derived document: the bnid IRI sorts BEFORE the credential id (token 4) *)
  let C0 := [[TBnid 0; TPlain 1; TPlain 0]; [TPlain 4; TPlain 1; TPlain 2]; [TPlain 4; TPlain 2; TBnid 0]]%N in
  doc_reveal_indexes D C0 = Some [2; 0; 1]%nat /\
  verifier_messages (verifier_doc rk P C0) = P ++ select (mask_of (length D) [2; 0; 1]%nat) D /\
  payload_bytes 5 (cred_reveal 1 [2; 0; 1]%nat) = Some [0; 5; 15]%N /\
  verifier_messages (P ++ C0) <> P ++ select (mask_of (length D) [2; 0; 1]%nat) D.   (* without the order restoration *)
Proof. vm_compute. repeat split. discriminate. Qed.

(* ---------- non-vacuity: the hypotheses are satisfiable (Qc) and an honest derivation exists ---------- *)
Definition qeqb (a b : Qc) : bool := if Qc_eq_dec a b then true else false.
Definition qH (l : list Qc) (nonce : Qc) : Qc := fold_left (fun a x => a * Q2Qc 2 + x) l (Q2Qc 1) + nonce.
Definition qgen (w : Qc) (n i : nat) : Qc := Q2Qc (inject_Z (Z.of_nat (3 + n + 2 * i))) + w.

Example qc_is_field : is_field Qc 0%Qc 1%Qc Qcplus Qcmult Qcminus Qcopp Qcdiv Qcinv.
Proof. exact Qcft. Qed.
Example qc_decides_eq : decides_eq Qc qeqb.
Proof. intros a b. unfold qeqb. destruct (Qc_eq_dec a b); split; auto; discriminate. Qed.

Example honest_nonvacuous :
  let msgs := map (fun z => Q2Qc (inject_Z z)) [5; 7; 11; 13]%Z in
  let w := Q2Qc 2 in
  let sg := sign Qc 0%Qc 1%Qc Qcplus Qcmult Qcdiv qgen w msgs (Q2Qc 3) (Q2Qc 4) in
  let mask := [true; false; true; false] in
  match derive Qc 0%Qc 1%Qc Qcplus Qcmult Qcminus Qcopp Qcdiv qeqb qH qgen w msgs sg (Q2Qc 9) mask (Q2Qc 5) (Q2Qc 6)
               (fun i => Q2Qc (inject_Z (Z.of_nat (i + 2)))) with
  | None => False
  | Some pf =>
      let v := verify Qc 0%Qc 1%Qc Qcplus Qcmult Qcminus Qcopp qeqb qH qgen Fixed w pf (Q2Qc 9) in
      v (select mask msgs) = VAccept /\
      v (select mask msgs ++ [Q2Qc 99]) = VAccept /\                       (* the known finding *)
      v [Q2Qc 5; Q2Qc 12] = VReject /\                                    (* changed *)
      v [Q2Qc 11; Q2Qc 5] = VReject /\                                    (* reordered *)
      v [Q2Qc 5] = VReject /\                                             (* dropped *)
      verify Qc 0%Qc 1%Qc Qcplus Qcmult Qcminus Qcopp qeqb qH qgen Fixed w pf (Q2Qc 10) (select mask msgs) = VReject /\
      verify Qc 0%Qc 1%Qc Qcplus Qcmult Qcminus Qcopp qeqb qH qgen Fixed (Q2Qc 3) pf (Q2Qc 9) (select mask msgs) = VReject
  end.
Proof. vm_compute. repeat split. Qed.

(* the code as found had NO response-count check: with one surplus response per sub-proof the surplus response, not
   the challenge, multiplies the statement point, and a holder of A', Abar (any pair with A'*w = Abar) gets a proof
   for a message of its choice accepted.  Fix a44bd6b (count equality) rejects it. *)
Definition surplus_forgery : proof Qc :=
  let w := Q2Qc 2 in let m := Q2Qc 42 in
  let hh0 := h0 Qc qgen w 1 in
  {| p_count := 1; p_mask := [true]; p_aprime := Q2Qc 1; p_abar := Q2Qc 2; p_d := Q2Qc 5;
     p_c1 := lin Qc 0%Qc Qcplus Qcmult [Q2Qc 1; hh0; (Q2Qc 2 - Q2Qc 5)%Qc] [Q2Qc 3; Q2Qc 4; Q2Qc 6];
     p_r1 := [Q2Qc 3; Q2Qc 4; Q2Qc 6];
     p_c2 := lin Qc 0%Qc Qcplus Qcmult [Q2Qc 5; hh0; (- (1 + qgen w 1 1 * m))%Qc] [Q2Qc 7; Q2Qc 8; Q2Qc 9];
     p_r2 := [Q2Qc 7; Q2Qc 8; Q2Qc 9] |}.
Theorem surplus_forgery_asis_refuted :
  verify Qc 0%Qc 1%Qc Qcplus Qcmult Qcminus Qcopp qeqb qH qgen AsIs (Q2Qc 2) surplus_forgery (Q2Qc 9) [Q2Qc 42] = VAccept /\
  verify Qc 0%Qc 1%Qc Qcplus Qcmult Qcminus Qcopp qeqb qH qgen Fixed (Q2Qc 2) surplus_forgery (Q2Qc 9) [Q2Qc 42] = VReject.
Proof. split; vm_compute; reflexivity. Qed.
Print Assumptions surplus_forgery_asis_refuted.

