(* C17 — property theorems only. *)
From Coq Require Import List NArith Bool Arith.
Import ListNotations.
From VF Require Import C17.Model C17.Proofs.

Theorem payload_roundtrip : forall (n : nat) (R : list nat) (rest : list N),
  (N.of_nat n < 65536)%N -> sorted_below n R ->
  exists pb, payload_bytes n R = Some pb /\
             exists bits, parse_payload (pb ++ rest) = Some (n, bits, rest) /\ revealed_of bits = R.
Proof. exact payload_roundtrip_lemma. Qed.
Print Assumptions payload_roundtrip.
