(* C17 — lemmas, part 1: payload codec and index bookkeeping. *)
From Coq Require Import List NArith Bool Arith Lia Sorted.
Import ListNotations.
From VF Require Import C17.Model.

Definition sorted_below (n : nat) (R : list nat) : Prop :=
  StronglySorted lt R /\ Forall (fun r => r < n) R.

Lemma bits_byte_roundtrip : forall l, length l = 8 -> bits_of_byte (byte_of_bits l) = l.
Proof.
  intros l Hl.
  do 8 (destruct l as [|? l]; [discriminate Hl|]). destruct l; [|discriminate Hl].
  repeat match goal with b : bool |- _ => destruct b end; reflexivity.
Qed.

Lemma chunks_roundtrip : forall L (bits : list bool), length bits = 8 * L ->
  concat (map bits_of_byte (map byte_of_bits (chunks 8 L bits))) = bits.
Proof.
  induction L as [|L IH]; intros bits Hl.
  - destruct bits; [reflexivity|simpl in Hl; lia].
  - cbn [chunks map concat]. rewrite bits_byte_roundtrip.
    + rewrite IH. apply firstn_skipn. rewrite skipn_length. lia.
    + rewrite firstn_length. lia.
Qed.

Lemma chunks_length : forall {A} k L (l : list A), length (chunks k L l) = L.
Proof. intros A k L; induction L; intros; cbn; auto. Qed.

Lemma mem_nat_above : forall s R, Forall (fun r => s < r) R -> mem_nat s R = false.
Proof.
  intros s R H; induction H as [|r R Hr _ IH]; cbn; auto.
  unfold mem_nat in IH. rewrite IH. replace (s =? r) with false; auto. symmetry; apply Nat.eqb_neq; lia.
Qed.

Lemma idx_mask_roundtrip : forall m s R,
  StronglySorted lt R -> Forall (fun r => s <= r < s + m) R ->
  idx_from s (map (fun i => mem_nat i R) (seq s m)) = R.
Proof.
  induction m as [|m IH]; intros s R Hs Hb.
  - destruct R as [|r R]; [reflexivity|]. inversion Hb; lia.
  - cbn [seq map idx_from]. destruct R as [|r R'].
    + cbn. apply (IH (S s) []); constructor.
    + inversion Hs as [|? ? Hs' Hlt]; subst. inversion Hb as [|? ? Hr Hb']; subst.
      destruct (Nat.eq_dec r s) as [->|Hne].
      * replace (mem_nat s (s :: R')) with true by (cbn; rewrite Nat.eqb_refl; reflexivity).
        f_equal. transitivity (idx_from (S s) (map (fun i => mem_nat i R') (seq (S s) m))); [|apply IH; auto].
        -- f_equal. apply map_ext_in. intros i Hi. apply in_seq in Hi. cbn.
           replace (i =? s) with false; auto. symmetry; apply Nat.eqb_neq; lia.
        -- rewrite Forall_forall in *. intros y Hy. specialize (Hlt y Hy). specialize (Hb' y Hy). lia.
      * rewrite mem_nat_above.
        -- apply IH; auto. constructor; [lia|]. rewrite Forall_forall in *. intros y Hy.
           specialize (Hlt y Hy). specialize (Hb' y Hy). lia.
        -- constructor; [lia|]. rewrite Forall_forall in *. intros y Hy. specialize (Hlt y Hy). lia.
Qed.

Lemma bv_bound : forall n, n < 8 * bv_len n.
Proof. intros n. unfold bv_len. pose proof (Nat.div_mod n 8). pose proof (Nat.mod_upper_bound n 8). lia. Qed.

Lemma count_bytes : forall n, (N.of_nat n < 65536)%N ->
  N.to_nat ((N.of_nat (n / 256) mod 256) * 256 + N.of_nat (n mod 256))%N = n.
Proof.
  intros n Hn.
  rewrite Nat2N.inj_div, Nat2N.inj_mod. change (N.of_nat 256) with 256%N.
  assert (Hq : (N.of_nat n / 256 < 256)%N) by (apply N.div_lt_upper_bound; lia).
  rewrite N.mod_small by exact Hq.
  pose proof (N.div_mod (N.of_nat n) 256%N ltac:(lia)) as Hd.
  replace (N.of_nat n / 256 * 256 + N.of_nat n mod 256)%N with (N.of_nat n) by lia.
  apply Nat2N.id.
Qed.

Lemma payload_roundtrip_lemma : forall (n : nat) (R : list nat) (rest : list N),
  (N.of_nat n < 65536)%N -> sorted_below n R ->
  exists pb, payload_bytes n R = Some pb /\
             exists bits, parse_payload (pb ++ rest) = Some (n, bits, rest) /\ revealed_of bits = R.
Proof.
  intros n R rest Hn [Hs Hb].
  pose proof (bv_bound n) as Hbv.
  unfold payload_bytes.
  assert (Hex : existsb (fun r => 8 * bv_len n <=? r) R = false).
  { apply not_true_is_false. intros Hex. apply existsb_exists in Hex. destruct Hex as [r [Hin Hle]].
    rewrite Forall_forall in Hb. specialize (Hb r Hin). apply Nat.leb_le in Hle. lia. }
  rewrite Hex. eexists. split; [reflexivity|].
  remember (8 * bv_len n) as m eqn:Hm.
  remember (chunks 8 (bv_len n) (mask_of m R)) as ch eqn:Hch.
  exists (mask_of m R). split.
  - cbn [app parse_payload]. rewrite count_bytes by exact Hn.
    assert (Hlen : length (rev (map byte_of_bits ch)) = bv_len n).
    { rewrite rev_length, map_length, Hch. apply chunks_length. }
    replace (length (rev (map byte_of_bits ch) ++ rest) <? bv_len n) with false
      by (symmetry; apply Nat.ltb_ge; rewrite app_length; lia).
    assert (Hf : firstn (bv_len n) (rev (map byte_of_bits ch) ++ rest) = rev (map byte_of_bits ch)).
    { rewrite <- Hlen. rewrite firstn_app, Nat.sub_diag, firstn_all. cbn [firstn]. apply app_nil_r. }
    assert (Hk : skipn (bv_len n) (rev (map byte_of_bits ch) ++ rest) = rest).
    { rewrite <- Hlen. rewrite skipn_app, Nat.sub_diag, skipn_all. reflexivity. }
    rewrite Hf, Hk.
    rewrite rev_involutive, Hch, chunks_roundtrip; [reflexivity|].
    unfold mask_of. rewrite map_length, seq_length. exact Hm.
  - unfold revealed_of, mask_of. apply idx_mask_roundtrip; auto.
    rewrite Forall_forall in *. intros r Hr. specialize (Hb r Hr). lia.
Qed.

(* ---------- the Tink wrapper ---------- *)
Lemma bytes_eqb_eq : forall a b, bytes_eqb a b = true -> a = b.
Proof.
  unfold bytes_eqb. induction a as [|x a IH]; intros [|y b] H; cbn in H; try discriminate; auto.
  apply andb_true_iff in H. destruct H as [Hl H]. apply andb_true_iff in H. destruct H as [Hxy H].
  apply N.eqb_eq in Hxy. subst y. f_equal. apply IH. rewrite Hl, H. reflexivity.
Qed.

Lemma wrapped_accept_lemma : forall k kp bytes inner,
  wrapped_verify k kp bytes inner = VAccept ->
  5 <= length bytes /\
  ((k = PRaw /\ inner bytes = VAccept) \/
   (k <> PRaw /\ firstn 5 bytes = kp /\ inner (skipn 5 bytes) = VAccept)).
Proof.
  intros k kp bytes inner H. unfold wrapped_verify in H.
  destruct (Nat.ltb_spec (length bytes) 5) as [Hlt|Hge]; [discriminate|]. split; [exact Hge|].
  destruct k; [left; auto| | |];
    (destruct (bytes_eqb (firstn 5 bytes) kp) eqn:E; [|discriminate];
     apply bytes_eqb_eq in E; right; repeat split; auto; discriminate).
Qed.

(* ---------- the Tink wrapper over keysets of several keys ---------- *)
Lemma bytes_eqb_refl : forall a, bytes_eqb a a = true.
Proof.
  unfold bytes_eqb. induction a as [|x a IH]; cbn; auto.
  rewrite N.eqb_refl. cbn. apply andb_true_iff in IH. destruct IH as [_ IH]. rewrite Nat.eqb_refl, IH. reflexivity.
Qed.

Lemma find_first_some : forall {A} (f : nat -> kentry -> option A) ks s a,
  find_first f s ks = Some a -> exists i e, nth_error ks i = Some e /\ f (s + i) e = Some a.
Proof.
  intros A f ks; induction ks as [|e r IH]; intros s a H; cbn in H; [discriminate|].
  destruct (f s e) eqn:E.
  - injection H as <-. exists 0, e. rewrite Nat.add_0_r. auto.
  - apply IH in H. destruct H as [i [e' [Hn Hf]]]. exists (S i), e'. rewrite <- plus_n_Sm. auto.
Qed.

Lemma find_first_none : forall {A} (f : nat -> kentry -> option A) ks s,
  find_first f s ks = None -> forall i e, nth_error ks i = Some e -> f (s + i) e = None.
Proof.
  intros A f ks; induction ks as [|e r IH]; intros s H i e' Hn; [destruct i; discriminate|].
  cbn in H. destruct (f s e) eqn:E; [discriminate|].
  destruct i as [|i]; cbn in Hn.
  - injection Hn as <-. rewrite Nat.add_0_r. exact E.
  - rewrite <- plus_n_Sm. apply (IH (S s) H i e' Hn).
Qed.

Lemma accepted_some : forall v u, accepted v = Some u -> v = VAccept.
Proof. intros [] u H; cbn in H; try discriminate; reflexivity. Qed.

(* soundness: whatever is accepted was verified by the primitive of a key of the keyset, addressed by its prefix *)
Lemma wrapped_ks_sound_lemma : forall ks bytes vf,
  wrapped_verify_ks ks bytes vf = VAccept ->
  exists i e, nth_error ks i = Some e /\
    ((k_kind e <> PRaw /\ k_pfx e = firstn 5 bytes /\ vf i (skipn 5 bytes) = VAccept) \/
     (k_kind e = PRaw /\ vf i bytes = VAccept)).
Proof.
  intros ks bytes vf H. unfold wrapped_verify_ks in H.
  destruct (length bytes <? 5); [discriminate|].
  destruct (find_first _ 0 ks) eqn:F1.
  - apply find_first_some in F1. destruct F1 as [i [e [Hn Hf]]]. cbv beta in Hf. rewrite ?Nat.add_0_l in Hf. exists i, e. split; [exact Hn|left].
    unfold nonraw_match in Hf. destruct (k_kind e) eqn:K; cbv beta iota in Hf; try discriminate;
      (destruct (bytes_eqb (k_pfx e) (firstn 5 bytes)) eqn:B; cbv beta iota in Hf; [|discriminate];
       apply bytes_eqb_eq in B; apply accepted_some in Hf; split; [discriminate|split; [exact B|exact Hf]]).
  - destruct (find_first _ 0 ks) eqn:F2 in H; [|discriminate].
    apply find_first_some in F2. destruct F2 as [i [e [Hn Hf]]]. cbv beta in Hf. rewrite ?Nat.add_0_l in Hf. exists i, e. split; [exact Hn|right].
    unfold is_raw in Hf. destruct (k_kind e) eqn:K; cbv beta iota in Hf; try discriminate. apply accepted_some in Hf. auto.
Qed.

Lemma find_first_exists : forall {A} (f : nat -> kentry -> option A) ks s i e a,
  nth_error ks i = Some e -> f (s + i) e = Some a -> exists a', find_first f s ks = Some a'.
Proof.
  intros A f ks s i e a Hn Hf. destruct (find_first f s ks) eqn:F; [eauto|].
  pose proof (find_first_none f ks s F i e Hn) as Hc. congruence.
Qed.

(* completeness: a signature made by ANY key of the keyset (primary or not) can be turned into a proof, and that
   proof is accepted - provided the primitives are complete (a proof derived with key i verifies with key i) *)
Lemma wrapped_ks_complete_lemma : forall ks sig dv vf,
  (forall e, In e ks -> k_kind e <> PRaw -> length (k_pfx e) = 5) ->
  (forall i s p, dv i s = Some p -> vf i p = VAccept) ->
  (forall i s p, dv i s = Some p -> 5 <= length p) ->
  5 <= length sig ->
  (exists j e, nth_error ks j = Some e /\
     ((k_kind e <> PRaw /\ k_pfx e = firstn 5 sig /\ dv j (skipn 5 sig) <> None) \/
      (k_kind e = PRaw /\ dv j sig <> None))) ->
  exists out, wrapped_derive_ks ks sig dv = Some out /\ wrapped_verify_ks ks out vf = VAccept.
Proof.
  intros ks sig dv vf Hwf Hpc Hlen Hs [j [e [Hn Hsig]]].
  unfold wrapped_derive_ks. replace (length sig <? 5) with false by (symmetry; apply Nat.ltb_ge; exact Hs).
  (* acceptance of an output that came from entry i *)
  assert (Hacc_nonraw : forall i ei p, nth_error ks i = Some ei -> nonraw_match (firstn 5 sig) ei = true ->
            dv i (skipn 5 sig) = Some p -> wrapped_verify_ks ks (k_pfx ei ++ p) vf = VAccept).
  { intros i ei p Hni Hm Hd. unfold wrapped_verify_ks.
    assert (Hk : k_kind ei <> PRaw) by (unfold nonraw_match in Hm; destruct (k_kind ei); [discriminate| | |]; discriminate).
    assert (Hl5 : length (k_pfx ei) = 5) by (apply Hwf; [eapply nth_error_In; eauto|exact Hk]).
    replace (length (k_pfx ei ++ p) <? 5) with false by (symmetry; apply Nat.ltb_ge; rewrite app_length; lia).
    assert (Hf5 : firstn 5 (k_pfx ei ++ p) = k_pfx ei).
    { rewrite <- Hl5. rewrite firstn_app, Nat.sub_diag, firstn_all. cbn. apply app_nil_r. }
    assert (Hs5 : skipn 5 (k_pfx ei ++ p) = p).
    { rewrite <- Hl5. rewrite skipn_app, Nat.sub_diag, skipn_all. reflexivity. }
    rewrite Hf5, Hs5.
    destruct (find_first_exists
                (fun i0 e0 => if nonraw_match (k_pfx ei) e0 then accepted (vf i0 p) else None) ks 0 i ei tt Hni) as [a' Hff].
    { cbv beta. change (0 + i) with i. unfold nonraw_match. destruct (k_kind ei); try (exfalso; apply Hk; reflexivity);
        rewrite bytes_eqb_refl, (Hpc _ _ _ Hd); reflexivity. }
    rewrite Hff. reflexivity. }
  destruct (find_first _ 0 ks) as [out|] eqn:F1.
  - exists out. split; [reflexivity|].
    apply find_first_some in F1. destruct F1 as [i [ei [Hni Hf]]]. cbv beta in Hf; change (0 + i) with i in Hf.
    destruct (nonraw_match (firstn 5 sig) ei) eqn:Hm; [|discriminate].
    destruct (dv i (skipn 5 sig)) as [p|] eqn:Hd; [|discriminate]. cbv beta in Hf; change (0 + i) with i in Hf. injection Hf as <-.
    eapply Hacc_nonraw; eauto.
  - (* no non-raw key derived: the signing key must be raw *)
    destruct Hsig as [[Hk [Hp Hd]]|[Hk Hd]].
    + exfalso. pose proof (find_first_none _ ks 0 F1 j e Hn) as Hc. cbv beta in Hc; change (0 + j) with j in Hc.
      unfold nonraw_match in Hc. rewrite Hp, bytes_eqb_refl in Hc.
      destruct (dv j (skipn 5 sig)) eqn:E; [|congruence].
      destruct (k_kind e); [exfalso; apply Hk; reflexivity| | |]; discriminate.
    + destruct (dv j sig) as [p|] eqn:Hdj; [|congruence].
      destruct (find_first_exists (fun i0 e0 => if is_raw e0 then dv i0 sig else None) ks 0 j e p Hn) as [out Hout].
      { cbv beta. change (0 + j) with j. unfold is_raw. rewrite Hk. exact Hdj. }
      exists out. split; [exact Hout|].
      apply find_first_some in Hout. destruct Hout as [i [ei [Hni Hf]]]. cbv beta in Hf; change (0 + i) with i in Hf.
      destruct (is_raw ei) eqn:Hr; [|discriminate].
      unfold wrapped_verify_ks.
      replace (length out <? 5) with false by (symmetry; apply Nat.ltb_ge; eapply Hlen; eauto).
      match goal with |- context [find_first ?f 0 ks] => destruct (find_first f 0 ks) eqn:G1 end; [reflexivity|].
      destruct (find_first_exists (fun i0 e0 => if is_raw e0 then accepted (vf i0 out) else None) ks 0 i ei tt Hni) as [a' Hff].
      { cbv beta. change (0 + i) with i. rewrite Hr, (Hpc _ _ _ Hf). reflexivity. }
      rewrite Hff. reflexivity.
Qed.

(* ---------- proof byte layout: what is parsed re-serialises to exactly the input ---------- *)
Lemma skipn_skipn : forall {A} a b (l : list A), skipn a (skipn b l) = skipn (a + b) l.
Proof.
  intros A a b; induction b as [|b IH]; intros l.
  - rewrite Nat.add_0_r. reflexivity.
  - rewrite <- plus_n_Sm. destruct l as [|x l]; [rewrite !skipn_nil; reflexivity|]. cbn [skipn]. apply IH.
Qed.

Lemma chunks_concat : forall {A} k f (l : list A), k * f <= length l ->
  concat (chunks k f l) ++ skipn (k * f) l = l.
Proof.
  intros A k f; induction f as [|f IH]; intros l Hl.
  - rewrite Nat.mul_0_r. reflexivity.
  - cbn [chunks concat]. rewrite <- app_assoc.
    replace (k * S f) with (k * f + k) by lia. rewrite <- skipn_skipn.
    rewrite IH by (rewrite skipn_length; lia). apply firstn_skipn.
Qed.

Lemma pg1_roundtrip : forall bs p, parse_pg1 bs = Some p -> pg1_bytes p = bs.
Proof.
  intros bs p H. unfold parse_pg1 in H.
  destruct (length bs <? 52) eqn:L1; [discriminate|]. apply Nat.ltb_ge in L1.
  destruct (N.ltb_spec (N.of_nat (length bs)) (52 + u32 (firstn 4 (skipn 48 bs)) * 32)) as [L2|L2]; [discriminate|].
  apply (f_equal (fun o => match o with Some q => pg1_bytes q | None => [] end)) in H. cbv beta match in H.
  rewrite <- H. clear H p. cbv beta match delta [pg1_bytes g_commit g_nb g_resp g_trail].
  set (K := N.to_nat (u32 (firstn 4 (skipn 48 bs)))) in *.
  assert (HK : 32 * K <= length (skipn 52 bs)) by (rewrite skipn_length; unfold K; lia).
  replace (skipn (52 + 32 * K) bs) with (skipn (32 * K) (skipn 52 bs)) by (rewrite skipn_skipn; f_equal; lia).
  rewrite (chunks_concat 32 K (skipn 52 bs) HK).
  replace (skipn 52 bs) with (skipn 4 (skipn 48 bs)) by (rewrite skipn_skipn; reflexivity).
  rewrite firstn_skipn. apply firstn_skipn.
Qed.

Lemma layout_roundtrip_lemma : forall v bs L, parse_sigproof v bs = POk L -> layout_bytes L = bs.
Proof.
  intros v bs L H. unfold parse_sigproof in H.
  destruct (length bs <? 144); [discriminate|].
  destruct (length bs <? 148); [destruct v; discriminate|].
  destruct (N.ltb _ _); [destruct v; discriminate|].
  set (l1 := N.to_nat (u32 (firstn 4 (skipn 144 bs)))) in *.
  destruct (parse_pg1 (firstn l1 (skipn 148 bs))) as [p1|] eqn:P1; [|discriminate].
  destruct (parse_pg1 (skipn (148 + l1) bs)) as [p2|] eqn:P2; [|discriminate].
  apply (f_equal (fun o => match o with POk q => layout_bytes q | _ => [] end)) in H. cbv beta match in H.
  rewrite <- H. clear H L. cbv beta match delta [layout_bytes l_aprime l_abar l_d l_len1b l_vc1 l_vc2].
  rewrite (pg1_roundtrip _ _ P1), (pg1_roundtrip _ _ P2).
  replace (skipn (148 + l1) bs) with (skipn l1 (skipn 148 bs)) by (rewrite skipn_skipn; f_equal; lia).
  rewrite firstn_skipn.
  replace (skipn 148 bs) with (skipn 4 (skipn 144 bs)) by (rewrite skipn_skipn; reflexivity).
  rewrite firstn_skipn.
  replace (skipn 144 bs) with (skipn 48 (skipn 96 bs)) by (rewrite skipn_skipn; reflexivity).
  rewrite firstn_skipn.
  replace (skipn 96 bs) with (skipn 48 (skipn 48 bs)) by (rewrite skipn_skipn; reflexivity).
  rewrite firstn_skipn. apply firstn_skipn.
Qed.

(* the payload in front of it: count bytes, bit vector bytes and the rest are a partition of the input *)
Lemma payload_partition_lemma : forall bs n bits rest, parse_payload bs = Some (n, bits, rest) ->
  exists hi lo bv, bs = hi :: lo :: bv ++ rest /\ n = N.to_nat (hi * 256 + lo) /\ length bv = bv_len n /\
                   bits = concat (map bits_of_byte (rev bv)).
Proof.
  intros bs n bits rest H. destruct bs as [|hi [|lo t]]; try discriminate. cbn [parse_payload] in H.
  destruct (length t <? bv_len (N.to_nat (hi * 256 + lo))) eqn:L; [discriminate|]. apply Nat.ltb_ge in L.
  injection H as <- <- <-. exists hi, lo, (firstn (bv_len (N.to_nat (hi * 256 + lo))) t).
  repeat split; auto.
  - rewrite firstn_skipn. reflexivity.
  - rewrite firstn_length. lia.
Qed.

(* ---------- a reveal LIST denotes a set ---------- *)
Lemma mask_of_set_lemma : forall m R1 R2, (forall i, In i R1 <-> In i R2) -> mask_of m R1 = mask_of m R2.
Proof.
  intros m R1 R2 H. unfold mask_of. apply map_ext. intros i. unfold mem_nat.
  destruct (existsb (Nat.eqb i) R1) eqn:E1; destruct (existsb (Nat.eqb i) R2) eqn:E2; auto.
  - apply existsb_exists in E1. destruct E1 as [x [Hx Hi]]. apply Nat.eqb_eq in Hi. subst x.
    apply H in Hx. assert (existsb (Nat.eqb i) R2 = true) by (apply existsb_exists; exists i; split; [auto|apply Nat.eqb_refl]). congruence.
  - apply existsb_exists in E2. destruct E2 as [x [Hx Hi]]. apply Nat.eqb_eq in Hi. subst x.
    apply H in Hx. assert (existsb (Nat.eqb i) R1 = true) by (apply existsb_exists; exists i; split; [auto|apply Nat.eqb_refl]). congruence.
Qed.
