(* C17 — lemmas, part 1: payload codec and index bookkeeping. *)
From Coq Require Import List NArith Bool Arith Lia Sorted.
Import ListNotations.
From VF Require Import C17.Model.

Definition sorted_below (n : nat) (R : list nat) : Prop :=
  StronglySorted lt R /\ Forall (fun r => r < n) R.

Lemma bits_byte_roundtrip : forall l, length l = 8 -> bits_of_byte (byte_of_bits l) = l.
Proof.
  intros l Hl.
  do 8 (destruct l as [|? l]; [discriminate Hl|]). destruct l; [|discriminate Hl].
  repeat match goal with b : bool |- _ => destruct b end; reflexivity.
Qed.

Lemma chunks_roundtrip : forall L (bits : list bool), length bits = 8 * L ->
  concat (map bits_of_byte (map byte_of_bits (chunks 8 L bits))) = bits.
Proof.
  induction L as [|L IH]; intros bits Hl.
  - destruct bits; [reflexivity|simpl in Hl; lia].
  - cbn [chunks map concat]. rewrite bits_byte_roundtrip.
    + rewrite IH. apply firstn_skipn. rewrite skipn_length. lia.
    + rewrite firstn_length. lia.
Qed.

Lemma chunks_length : forall {A} k L (l : list A), length (chunks k L l) = L.
Proof. intros A k L; induction L; intros; cbn; auto. Qed.

Lemma mem_nat_above : forall s R, Forall (fun r => s < r) R -> mem_nat s R = false.
Proof.
  intros s R H; induction H as [|r R Hr _ IH]; cbn; auto.
  unfold mem_nat in IH. rewrite IH. replace (s =? r) with false; auto. symmetry; apply Nat.eqb_neq; lia.
Qed.

Lemma idx_mask_roundtrip : forall m s R,
  StronglySorted lt R -> Forall (fun r => s <= r < s + m) R ->
  idx_from s (map (fun i => mem_nat i R) (seq s m)) = R.
Proof.
  induction m as [|m IH]; intros s R Hs Hb.
  - destruct R as [|r R]; [reflexivity|]. inversion Hb; lia.
  - cbn [seq map idx_from]. destruct R as [|r R'].
    + cbn. apply (IH (S s) []); constructor.
    + inversion Hs as [|? ? Hs' Hlt]; subst. inversion Hb as [|? ? Hr Hb']; subst.
      destruct (Nat.eq_dec r s) as [->|Hne].
      * replace (mem_nat s (s :: R')) with true by (cbn; rewrite Nat.eqb_refl; reflexivity).
        f_equal. transitivity (idx_from (S s) (map (fun i => mem_nat i R') (seq (S s) m))); [|apply IH; auto].
        -- f_equal. apply map_ext_in. intros i Hi. apply in_seq in Hi. cbn.
           replace (i =? s) with false; auto. symmetry; apply Nat.eqb_neq; lia.
        -- rewrite Forall_forall in *. intros y Hy. specialize (Hlt y Hy). specialize (Hb' y Hy). lia.
      * rewrite mem_nat_above.
        -- apply IH; auto. constructor; [lia|]. rewrite Forall_forall in *. intros y Hy.
           specialize (Hlt y Hy). specialize (Hb' y Hy). lia.
        -- constructor; [lia|]. rewrite Forall_forall in *. intros y Hy. specialize (Hlt y Hy). lia.
Qed.

Lemma bv_bound : forall n, n < 8 * bv_len n.
Proof. intros n. unfold bv_len. pose proof (Nat.div_mod n 8). pose proof (Nat.mod_upper_bound n 8). lia. Qed.

Lemma count_bytes : forall n, (N.of_nat n < 65536)%N ->
  N.to_nat ((N.of_nat (n / 256) mod 256) * 256 + N.of_nat (n mod 256))%N = n.
Proof.
  intros n Hn.
  rewrite Nat2N.inj_div, Nat2N.inj_mod. change (N.of_nat 256) with 256%N.
  assert (Hq : (N.of_nat n / 256 < 256)%N) by (apply N.div_lt_upper_bound; lia).
  rewrite N.mod_small by exact Hq.
  pose proof (N.div_mod (N.of_nat n) 256%N ltac:(lia)) as Hd.
  replace (N.of_nat n / 256 * 256 + N.of_nat n mod 256)%N with (N.of_nat n) by lia.
  apply Nat2N.id.
Qed.

Lemma payload_roundtrip_lemma : forall (n : nat) (R : list nat) (rest : list N),
  (N.of_nat n < 65536)%N -> sorted_below n R ->
  exists pb, payload_bytes n R = Some pb /\
             exists bits, parse_payload (pb ++ rest) = Some (n, bits, rest) /\ revealed_of bits = R.
Proof.
  intros n R rest Hn [Hs Hb].
  pose proof (bv_bound n) as Hbv.
  unfold payload_bytes.
  assert (Hex : existsb (fun r => 8 * bv_len n <=? r) R = false).
  { apply not_true_is_false. intros Hex. apply existsb_exists in Hex. destruct Hex as [r [Hin Hle]].
    rewrite Forall_forall in Hb. specialize (Hb r Hin). apply Nat.leb_le in Hle. lia. }
  rewrite Hex. eexists. split; [reflexivity|].
  remember (8 * bv_len n) as m eqn:Hm.
  remember (chunks 8 (bv_len n) (mask_of m R)) as ch eqn:Hch.
  exists (mask_of m R). split.
  - cbn [app parse_payload]. rewrite count_bytes by exact Hn.
    assert (Hlen : length (rev (map byte_of_bits ch)) = bv_len n).
    { rewrite rev_length, map_length, Hch. apply chunks_length. }
    replace (length (rev (map byte_of_bits ch) ++ rest) <? bv_len n) with false
      by (symmetry; apply Nat.ltb_ge; rewrite app_length; lia).
    assert (Hf : firstn (bv_len n) (rev (map byte_of_bits ch) ++ rest) = rev (map byte_of_bits ch)).
    { rewrite <- Hlen. rewrite firstn_app, Nat.sub_diag, firstn_all. cbn [firstn]. apply app_nil_r. }
    assert (Hk : skipn (bv_len n) (rev (map byte_of_bits ch) ++ rest) = rest).
    { rewrite <- Hlen. rewrite skipn_app, Nat.sub_diag, skipn_all. reflexivity. }
    rewrite Hf, Hk.
    rewrite rev_involutive, Hch, chunks_roundtrip; [reflexivity|].
    unfold mask_of. rewrite map_length, seq_length. exact Hm.
  - unfold revealed_of, mask_of. apply idx_mask_roundtrip; auto.
    rewrite Forall_forall in *. intros r Hr. specialize (Hb r Hr). lia.
Qed.

(* ---------- the Tink wrapper ---------- *)
Lemma bytes_eqb_eq : forall a b, bytes_eqb a b = true -> a = b.
Proof.
  unfold bytes_eqb. induction a as [|x a IH]; intros [|y b] H; cbn in H; try discriminate; auto.
  apply andb_true_iff in H. destruct H as [Hl H]. apply andb_true_iff in H. destruct H as [Hxy H].
  apply N.eqb_eq in Hxy. subst y. f_equal. apply IH. rewrite Hl, H. reflexivity.
Qed.

Lemma wrapped_accept_lemma : forall k kp bytes inner,
  wrapped_verify k kp bytes inner = VAccept ->
  5 <= length bytes /\
  ((k = PRaw /\ inner bytes = VAccept) \/
   (k <> PRaw /\ firstn 5 bytes = kp /\ inner (skipn 5 bytes) = VAccept)).
Proof.
  intros k kp bytes inner H. unfold wrapped_verify in H.
  destruct (Nat.ltb_spec (length bytes) 5) as [Hlt|Hge]; [discriminate|]. split; [exact Hge|].
  destruct k; [left; auto| | |];
    (destruct (bytes_eqb (firstn 5 bytes) kp) eqn:E; [|discriminate];
     apply bytes_eqb_eq in E; right; repeat split; auto; discriminate).
Qed.
