(* C17 — executable model of BBS+ selective disclosure as implemented in
   component/kmscrypto/crypto/primitive/bbs12381g2pub (DeriveProof / VerifyProof / proof_of_knowledge.go /
   signature_proof.go / utils.go).  NO proofs here.

   1. payload codec   : 2-byte message count + reversed bit vector of revealed indexes (utils.go)
   2. proof layout    : byte layout of PoKOfSignatureProof (ParseSignatureProof / ParseProofG1)
   3. exponent model  : group elements are represented by their discrete logs in a field F, the pairing by
                        multiplication, generators by an arbitrary function of (public key, message count, index),
                        the Fiat-Shamir challenge by an arbitrary function H of the transcript and the nonce.
   Variant AsIs is the code as found (two panics on crafted proof bytes), Fixed the repaired code (fix: commits). *)
From Coq Require Import List NArith Bool Arith.
Import ListNotations.

Inductive variant := AsIs | Fixed.
Inductive verdict := VAccept | VReject | VPanic.

Definition verdict_eqb (a b : verdict) : bool :=
  match a, b with VAccept, VAccept | VReject, VReject | VPanic, VPanic => true | _, _ => false end.

(* ------------------------------------------------------------------ 1. payload codec *)

Definition bits_of_byte (b : N) : list bool :=
  map (N.testbit b) [0%N; 1%N; 2%N; 3%N; 4%N; 5%N; 6%N; 7%N].

Fixpoint byte_of_bits (l : list bool) : N :=
  match l with [] => 0%N | b :: r => ((if b then 1 else 0) + 2 * byte_of_bits r)%N end.

Fixpoint chunks (k : nat) (fuel : nat) {A} (l : list A) : list (list A) :=
  match fuel with O => [] | S f => firstn k l :: chunks k f (skipn k l) end.

Definition mem_nat (i : nat) (R : list nat) : bool := existsb (Nat.eqb i) R.

(* bit i of the vector is set iff i is a revealed index (toBytes: bitvector[r/8] |= 1 << r%8) *)
Definition mask_of (m : nat) (R : list nat) : list bool := map (fun i => mem_nat i R) (seq 0 m).

Fixpoint idx_from (i : nat) (mask : list bool) : list nat :=
  match mask with [] => [] | b :: r => if b then i :: idx_from (S i) r else idx_from (S i) r end.

(* lenInBytes = 2 + count/8 + 1 *)
Definition bv_len (n : nat) : nat := n / 8 + 1.

(* pokPayload.toBytes; the count is truncated to 16 bits as uint16() does *)
Definition payload_bytes (n : nat) (R : list nat) : option (list N) :=
  if existsb (fun r => 8 * bv_len n <=? r) R then None
  else Some ([(N.of_nat (n / 256) mod 256)%N; N.of_nat (n mod 256)]
             ++ rev (map byte_of_bits (chunks 8 (bv_len n) (mask_of (8 * bv_len n) R)))).

(* parsePoKPayload: count, ALL set bits of the vector (also beyond count), rest of the input *)
Definition parse_payload (bs : list N) : option (nat * list bool * list N) :=
  match bs with
  | hi :: lo :: t =>
      let n := N.to_nat (hi * 256 + lo) in
      let L := bv_len n in
      if length t <? L then None
      else Some (n, concat (map bits_of_byte (rev (firstn L t))), skipn L t)
  | _ => None
  end.

(* parsePoKPayload reversed the bit vector in place, i.e. inside the caller's proof (AsIs); Fixed works on a copy *)
Definition proof_after_verify (v : variant) (bs : list N) : list N :=
  match v, bs with
  | AsIs, hi :: lo :: t =>
      let L := bv_len (N.to_nat (hi * 256 + lo)) in
      if length t <? L then bs else hi :: lo :: rev (firstn L t) ++ skipn L t
  | _, _ => bs
  end.

Definition revealed_of (mask : list bool) : list nat := idx_from 0 mask.

(* ------------------------------------------------------------------ 2. proof layout *)

Definition u32 (bs : list N) : N :=
  match bs with [a; b; c; d] => (((a * 256 + b) * 256 + c) * 256 + d)%N | _ => 0%N end.
Definition u32_bytes (v : N) : list N :=
  [(v / 16777216) mod 256; (v / 65536) mod 256; (v / 256) mod 256; v mod 256]%N.

(* g_nb: the 4 raw bytes of the response count *)
Record pg1 := { g_commit : list N; g_nb : list N; g_resp : list (list N); g_trail : list N }.
Definition g_n (p : pg1) : N := u32 (g_nb p).

(* ParseProofG1: 48-byte commitment, 4-byte response count, 32 bytes per response; trailing bytes ignored *)
Definition parse_pg1 (bs : list N) : option pg1 :=
  if length bs <? 52 then None
  else let k := u32 (firstn 4 (skipn 48 bs)) in
       if (N.of_nat (length bs) <? 52 + k * 32)%N then None
       else Some {| g_commit := firstn 48 bs; g_nb := firstn 4 (skipn 48 bs);
                    g_resp := chunks 32 (N.to_nat k) (skipn 52 bs);
                    g_trail := skipn (52 + 32 * N.to_nat k) bs |}.

(* l_len1b: the 4 raw bytes of the VC1 length field *)
Record layout := { l_aprime : list N; l_abar : list N; l_d : list N; l_len1b : list N; l_vc1 : pg1; l_vc2 : pg1 }.
Definition l_len1 (l : layout) : N := u32 (l_len1b l).

Inductive parsed (A : Type) := POk (a : A) | PErr | PPanic.
Arguments POk {A}. Arguments PErr {A}. Arguments PPanic {A}.

(* ParseSignatureProof.  AsIs: no check before reading the 4-byte length nor of the length against the input. *)
Definition parse_sigproof (v : variant) (bs : list N) : parsed layout :=
  if length bs <? 144 then PErr
  else if length bs <? 148 then (match v with AsIs => PPanic | Fixed => PErr end)
  else let l1 := u32 (firstn 4 (skipn 144 bs)) in
       if (N.of_nat (length bs - 148) <? l1)%N then (match v with AsIs => PPanic | Fixed => PErr end)
       else match parse_pg1 (firstn (N.to_nat l1) (skipn 148 bs)), parse_pg1 (skipn (148 + N.to_nat l1) bs) with
            | Some p1, Some p2 =>
                POk {| l_aprime := firstn 48 bs; l_abar := firstn 48 (skipn 48 bs); l_d := firstn 48 (skipn 96 bs);
                       l_len1b := firstn 4 (skipn 144 bs); l_vc1 := p1; l_vc2 := p2 |}
            | _, _ => PErr
            end.

Definition pg1_bytes (p : pg1) : list N := g_commit p ++ g_nb p ++ concat (g_resp p) ++ g_trail p.
Definition layout_bytes (l : layout) : list N :=
  l_aprime l ++ l_abar l ++ l_d l ++ l_len1b l ++ pg1_bytes (l_vc1 l) ++ pg1_bytes (l_vc2 l).

(* a single-position alteration: byte pos is XOR-ed with a non-zero mask *)
Fixpoint alter (pos : nat) (x : N) (bs : list N) : list N :=
  match bs, pos with
  | [], _ => []
  | b :: r, O => N.lxor b x :: r
  | b :: r, S p => b :: alter p x r
  end.

(* ------------------------------------------------------------------ 2a. scalar chunks (fr.go, ParseProofG1) *)
(* a response is 32 bytes, read big-endian by curve.NewZrFromBytes WITHOUT reduction or range check; arithmetic is modulo
   the group order.  Since fix 6fcc1d0 ParseProofG1 rejects a chunk whose value is not below the group order (AsIs: any
   32 bytes were taken, so chunk and chunk + order were two encodings of one scalar). *)
Definition be_value (bs : list N) : N := fold_left (fun a b => a * 256 + b)%N bs 0%N.
Fixpoint be_bytes (k : nat) (v : N) : list N :=
  match k with O => [] | S k' => be_bytes k' (v / 256)%N ++ [(v mod 256)%N] end.
Definition group_order : N := 52435875175126190479447740508185965837690552500527637822603658699938581184513.
Definition fr_canonical (chunk : list N) : bool := (be_value chunk <? group_order)%N.
Definition fr_value (chunk : list N) : N := (be_value chunk mod group_order)%N.
Definition responses_canonical (v : variant) (p : pg1) : bool :=
  match v with AsIs => true | Fixed => forallb fr_canonical (g_resp p) end.
Definition layout_canonical (v : variant) (l : layout) : bool :=
  responses_canonical v (l_vc1 l) && responses_canonical v (l_vc2 l).
(* the 32 bytes at pos replaced by the encoding of their value + the group order (when that fits into 32 bytes) *)
Definition addq_at (pos : nat) (bs : list N) : list N :=
  let v := (be_value (firstn 32 (skipn pos bs)) + group_order)%N in
  if (v <? 2 ^ 256)%N && (pos + 32 <=? length bs) then firstn pos bs ++ be_bytes 32 v ++ skipn (pos + 32) bs else bs.

(* compressed G1 points (curve.NewG1FromCompressed -> kilic/bls12-381 G1.FromCompressed): 48 bytes; byte 0 carries the
   compression flag (bit 7, must be set), the infinity flag (bit 6: then the encoding must be 0xc0 followed by zeros) and
   the sign of y (bit 5); the remaining 381 bits are x, which must be below the field modulus.  Whether x is the abscissa
   of a point of the subgroup is the curve library's business (not modelled: a parameter of the statements). *)
Inductive g1dec := GErr | GInf | GPoint (x : N) (sign : bool).
Definition field_modulus : N := 4002409555221667393417789825735904156556882819939007885332058136124031650490837864442687629129015664037894272559787.
Definition g1_flags_decode (bs : list N) : g1dec :=
  match bs with
  | b0 :: rest =>
      if negb (Nat.eqb (length bs) 48) then GErr
      else if negb (N.testbit b0 7) then GErr
      else if N.testbit b0 6 then (if N.eqb b0 192 && forallb (N.eqb 0) rest then GInf else GErr)
      else let x := be_value (N.land b0 31 :: rest) in
           if (x <? field_modulus)%N then GPoint x (N.testbit b0 5) else GErr
  | [] => GErr
  end.
Definition g1_ok (bs : list N) : bool := match g1_flags_decode bs with GErr => false | _ => true end.
Definition points_ok (l : layout) : bool :=
  g1_ok (l_aprime l) && g1_ok (l_abar l) && g1_ok (l_d l) && g1_ok (g_commit (l_vc1 l)) && g1_ok (g_commit (l_vc2 l)).

(* ------------------------------------------------------------------ 2b. the Tink wrapper (bbs_verifier_factory.go) *)
(* A keyset with ONE key of the given output prefix type.  wrappedVerifier.VerifyProof / Verify: the first 5 bytes
   select the non-raw keys with that prefix, which verify the rest; then the raw keys verify the whole input; if
   nobody accepted the result is an error.  With no key for the prefix and no raw key nothing is verified: reject. *)
Inductive prefix_kind := PRaw | PTink | PLegacy | PCrunchy.

Definition bytes_eqb (a b : list N) : bool :=
  Nat.eqb (length a) (length b) && forallb (fun '(x, y) => N.eqb x y) (combine a b).

Definition wrapped_verify (k : prefix_kind) (keypfx : list N) (bytes : list N) (inner : list N -> verdict) : verdict :=
  if length bytes <? 5 then VReject
  else match k with
       | PRaw => inner bytes
       | _ => if bytes_eqb (firstn 5 bytes) keypfx then inner (skipn 5 bytes) else VReject
       end.

(* A keyset of several keys (bbs_verifier_factory.go, general case).  Entry i has an output prefix type and its
   5-byte prefix (empty for RAW).  vf i / dv i: what the primitive of key i does on (prefix-less) bytes. *)
Record kentry := { k_kind : prefix_kind; k_pfx : list N }.

Fixpoint find_first {A} (f : nat -> kentry -> option A) (i : nat) (ks : list kentry) : option A :=
  match ks with
  | [] => None
  | e :: r => match f i e with Some a => Some a | None => find_first f (S i) r end
  end.

Definition nonraw_match (pfx : list N) (e : kentry) : bool :=
  match k_kind e with PRaw => false | _ => bytes_eqb (k_pfx e) pfx end.
Definition is_raw (e : kentry) : bool := match k_kind e with PRaw => true | _ => false end.
Definition accepted (v : verdict) : option unit := match v with VAccept => Some tt | _ => None end.

(* wrappedVerifier.VerifyProof / Verify *)
Definition wrapped_verify_ks (ks : list kentry) (bytes : list N) (vf : nat -> list N -> verdict) : verdict :=
  if length bytes <? 5 then VReject
  else match find_first (fun i e => if nonraw_match (firstn 5 bytes) e then accepted (vf i (skipn 5 bytes)) else None) 0 ks with
       | Some _ => VAccept
       | None => match find_first (fun i e => if is_raw e then accepted (vf i bytes) else None) 0 ks with
                 | Some _ => VAccept
                 | None => VReject
                 end
       end.

(* wrappedVerifier.DeriveProof: the proof gets the prefix of the key that matched the signature *)
Definition wrapped_derive_ks (ks : list kentry) (sig : list N) (dv : nat -> list N -> option (list N)) : option (list N) :=
  if length sig <? 5 then None
  else match find_first (fun i e => if nonraw_match (firstn 5 sig) e
                                    then option_map (app (k_pfx e)) (dv i (skipn 5 sig)) else None) 0 ks with
       | Some out => Some out
       | None => find_first (fun i e => if is_raw e then dv i sig else None) 0 ks
       end.

(* ------------------------------------------------------------------ 3. exponent model *)

Section Exponent.
  Variable F : Type.
  Variables (f0 f1 : F) (fadd fmul fsub : F -> F -> F) (fopp : F -> F) (fdiv : F -> F -> F) (finv : F -> F).
  Variable feqb : F -> F -> bool.
  Variable H : list F -> F -> F.          (* challenge = H(transcript, nonce) *)
  Variable gen : F -> nat -> nat -> F.    (* gen w count 0 = h0, gen w count (i+1) = h_i : derived from key AND count *)

  Local Notation "a + b" := (fadd a b). Local Notation "a * b" := (fmul a b). Local Notation "a - b" := (fsub a b).
  Local Notation "- a" := (fopp a). Local Notation "a / b" := (fdiv a b).
  Local Notation "0" := f0. Local Notation "1" := f1.

  Definition h0 (w : F) (n : nat) : F := gen w n O.
  Definition hs (w : F) (n : nat) : list F := map (fun i => gen w n (S i)) (seq O n).

  Fixpoint dot (l : list (F * F)) : F := match l with [] => 0 | (h, m) :: r => h * m + dot r end.

  (* the prover's partition (NewPoKOfSignature / newVC2Signature): revealed pairs, hidden pairs *)
  Fixpoint split_mask (mask : list bool) (l : list (F * F)) : list (F * F) * list (F * F) :=
    match mask, l with
    | b :: ms, x :: r => let '(rv, hd) := split_mask ms r in if b then (x :: rv, hd) else (rv, x :: hd)
    | _, _ => ([], l)
    end.

  (* the verifier's reconstruction (VerifyProof / verifyVC2Proof): walk the generators; a revealed index takes
     the NEXT supplied message (messages[revealedMessagesInd++]); everything else is a hidden base *)
  Fixpoint vsplit (mask : list bool) (gens : list F) (supplied : list F) : list (F * F) * list F :=
    match gens with
    | [] => ([], [])
    | g :: gs =>
        match mask with
        | true :: ms =>
            match supplied with
            | m :: sr => let '(rv, hd) := vsplit ms gs sr in ((g, m) :: rv, hd)
            | [] => let '(rv, hd) := vsplit ms gs [] in ((g, 0) :: rv, hd)   (* unreachable: count guard *)
            end
        | false :: ms => let '(rv, hd) := vsplit ms gs supplied in (rv, g :: hd)
        | [] => let '(rv, hd) := vsplit [] gs supplied in (rv, g :: hd)
        end
    end.

  Fixpoint lin (bases ws : list F) : F :=
    match bases, ws with bb :: bs, w :: wr => bb * w + lin bs wr | _, _ => 0 end.
  Fixpoint resp (c : F) (rhos ws : list F) : list F :=
    match rhos, ws with r :: rr, w :: wr => (r - c * w) :: resp c rr wr | _, _ => [] end.

  Definition count_true (m : list bool) : nat := length (filter (fun b => b) m).
  Definition select {A} (mask : list bool) (l : list A) : list A :=
    map snd (filter fst (combine mask l)).

  Record sigt := { s_a : F; s_e : F; s_s : F }.

  Definition bval (w : F) (msgs : list F) (s : F) : F :=
    let n := length msgs in 1 + h0 w n * s + dot (combine (hs w n) msgs).

  (* SignWithKey: A = B^(1/(x+e));  the public key's log is x itself *)
  Definition sign (x : F) (msgs : list F) (e s : F) : sigt :=
    {| s_a := bval x msgs s / (x + e); s_e := e; s_s := s |}.
  (* Signature.Verify: e(A, w * g2^e) = e(B, g2) *)
  Definition verify_sig (w : F) (msgs : list F) (sg : sigt) : bool :=
    feqb (s_a sg * (w + s_e sg)) (bval w msgs (s_s sg)).

  Record proof := { p_count : nat; p_mask : list bool; p_aprime : F; p_abar : F; p_d : F;
                    p_c1 : F; p_r1 : list F; p_c2 : F; p_r2 : list F }.

  Definition transcript (abar aprime hh0 c1 d : F) (hidden : list F) (c2 : F) : list F :=
    abar :: aprime :: hh0 :: c1 :: d :: hh0 :: hidden ++ [c2].

  (* DeriveProof.  r1 r2: the prover's randomness; bl: its blinding factors (bl 0, bl 1 for VC1, bl 2.. for VC2) *)
  Definition derive (w : F) (msgs : list F) (sg : sigt) (nonce : F) (mask : list bool)
             (r1 r2 : F) (bl : nat -> F) : option proof :=
    if Nat.eqb (count_true mask) O then None                       (* "no message to reveal" *)
    else if negb (verify_sig w msgs sg) then None                  (* "verify input signature" *)
    else
      let n := length msgs in
      let hh0 := h0 w n in
      let pairs := combine (hs w n) msgs in
      let b := bval w msgs (s_s sg) in
      let aprime := s_a sg * r1 in
      let abar := b * r1 - aprime * s_e sg in
      let d := b * r1 + hh0 * (- r2) in
      let r3 := 1 / r1 in
      let sprime := s_s sg - r2 * r3 in
      let '(rv, hd) := split_mask mask pairs in
      let bases1 := [aprime; hh0] in
      let secrets1 := [- s_e sg; r2] in
      let blind1 := [bl 0%nat; bl 1%nat] in
      let c1 := lin bases1 blind1 in
      let bases2 := d :: hh0 :: map fst hd in
      let secrets2 := (- r3) :: sprime :: map snd hd in
      let blind2 := map bl (seq 2 (2 + length hd)) in
      let c2 := lin bases2 blind2 in
      let c := H (transcript abar aprime hh0 c1 d (map fst hd) c2) nonce in
      Some {| p_count := n; p_mask := mask; p_aprime := aprime; p_abar := abar; p_d := d;
              p_c1 := c1; p_r1 := resp c blind1 secrets1; p_c2 := c2; p_r2 := resp c blind2 secrets2 |}.

  (* ProofG1.Verify.  AsIs: scalars = responses ++ [challenge] are paired with points = bases ++ [target] by
     position, indexing past the responses panics.  Fixed: the counts must agree. *)
  Definition pg1_verify (v : variant) (bases : list F) (target c commit : F) (rs : list F) : verdict :=
    match v with
    | Fixed => if Nat.eqb (length rs) (length bases)
               then (if feqb (lin bases rs + target * c) commit then VAccept else VReject) else VReject
    | AsIs => if length rs <? length bases then VPanic
              else if feqb (lin (bases ++ [target]) (rs ++ [c])) commit then VAccept else VReject
    end.

  (* a set bit of the payload's bit vector at an index >= the message count ("padding bit"): tolerated by the code
     as found, rejected by the repaired VerifyProof (fix 99687e9) *)
  Definition pads_bad (v : variant) (n : nat) (mask : list bool) : bool :=
    match v with
    | AsIs => false
    | Fixed => negb (forallb (fun i => i <? n) (idx_from 0 mask))
    end.

  (* strict = the repair that existing tests do not admit (exact message count) *)
  Definition verify_gen (strict : bool) (v : variant) (w : F) (pf : proof) (nonce : F) (supplied : list F) : verdict :=
    let n := p_count pf in
    let hh0 := h0 w n in
    let nrev := count_true (p_mask pf) in
    if pads_bad v n (p_mask pf) then VReject
    else if (length supplied <? nrev) || (strict && negb (Nat.eqb (length supplied) nrev)) then VReject
    else
      let '(rv, hidden) := vsplit (p_mask pf) (hs w n) supplied in
      let c := H (transcript (p_abar pf) (p_aprime pf) hh0 (p_c1 pf) (p_d pf) hidden (p_c2 pf)) nonce in
      if negb (feqb (p_aprime pf * w) (p_abar pf)) then VReject
      else match pg1_verify v [p_aprime pf; hh0] (p_abar pf - p_d pf) c (p_c1 pf) (p_r1 pf) with
           | VAccept => pg1_verify v (p_d pf :: hh0 :: hidden) (- (1 + dot rv)) c (p_c2 pf) (p_r2 pf)
           | o => o
           end.

  (* the code: only |revealed| > |messages| is rejected *)
  Definition verify := verify_gen false.
End Exponent.

Arguments p_count {F}. Arguments p_mask {F}. Arguments p_aprime {F}. Arguments p_abar {F}. Arguments p_d {F}.
Arguments p_c1 {F}. Arguments p_r1 {F}. Arguments p_c2 {F}. Arguments p_r2 {F}.
Arguments s_a {F}. Arguments s_e {F}. Arguments s_s {F}.
Arguments select {A}.
