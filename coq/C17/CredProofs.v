(* C17 — lemmas, part 3: the credential level (statement lists, blank-node rewriting, statement -> index mapping,
   exact statement count) and its composition with the exponent model. *)
From Coq Require Import List NArith Bool Arith Lia Field.
Import ListNotations.
From VF Require Import C17.Model C17.CredModel C17.ExpProofs.

(* ---------- token / statement equality ---------- *)
Lemma tok_eqb_eq : forall a b, tok_eqb a b = true -> a = b.
Proof. intros [x|x|x] [y|y|y] H; cbn in H; try discriminate; apply N.eqb_eq in H; subst; reflexivity. Qed.

Lemma stmt_eqb_eq : forall a b, stmt_eqb a b = true -> a = b.
Proof.
  induction a as [|x r IH]; intros [|y s] H; cbn in H; try discriminate; [reflexivity|].
  apply andb_true_iff in H. destruct H as [H1 H2]. apply tok_eqb_eq in H1. apply IH in H2. subst. reflexivity.
Qed.

(* ---------- blank-node rewriting: there and back ---------- *)
Lemma blank_roundtrip_lemma : forall s, has_bnid s = false -> from_bnid (to_bnid s) = s.
Proof.
  induction s as [|t r IH]; intros H; [reflexivity|]. cbn in H. apply orb_false_iff in H. destruct H as [Ht Hr].
  unfold from_bnid, to_bnid in *. cbn [map]. rewrite (IH Hr). destruct t; cbn in *; try reflexivity. discriminate.
Qed.

(* the guard is exact: a signed statement that itself names a <urn:bnid:_:c14nK> IRI does NOT come back *)
Lemma blank_roundtrip_guard_exact : forall s, has_bnid s = true -> from_bnid (to_bnid s) <> s.
Proof.
  induction s as [|t r IH]; intros H; [discriminate|]. cbn in H. unfold from_bnid, to_bnid in *. cbn [map].
  intros E. injection E as Et Er. destruct t; cbn in *; try discriminate; apply IH; auto.
Qed.

(* ---------- the reveal list built by buildVerificationData ---------- *)
Lemma map_all_true : forall (f : nat -> bool) l, (forall i, In i l -> f i = true) -> map f l = repeat true (length l).
Proof.
  induction l as [|a r IH]; intros H; [reflexivity|]. cbn. rewrite (H a (or_introl eq_refl)). f_equal.
  apply IH. intros i Hi. apply H. right. exact Hi.
Qed.

Lemma mem_shift : forall np a dri, mem_nat (np + a) (seq 0 np ++ map (Nat.add np) dri) = mem_nat a dri.
Proof.
  intros np a dri. unfold mem_nat. rewrite existsb_app.
  replace (existsb (Nat.eqb (np + a)) (seq 0 np)) with false.
  - cbn [orb]. induction dri as [|x r IH]; [reflexivity|]. cbn. rewrite IH. f_equal.
    destruct (Nat.eqb_spec (np + a) (np + x)), (Nat.eqb_spec a x); try reflexivity; lia.
  - symmetry. apply not_true_is_false. intros E. apply existsb_exists in E. destruct E as [x [Hx Hq]].
    apply in_seq in Hx. apply Nat.eqb_eq in Hq. lia.
Qed.

Lemma mask_shift : forall np dri nd a,
  map (fun i => mem_nat i (seq 0 np ++ map (Nat.add np) dri)) (seq (np + a) nd) = map (fun i => mem_nat i dri) (seq a nd).
Proof.
  intros np dri. induction nd as [|nd IH]; intros a; [reflexivity|]. cbn. rewrite mem_shift. f_equal.
  rewrite <- Nat.add_succ_r. apply IH.
Qed.

(* the mask of the derived proof: every proof statement, then the document's own mask *)
Lemma cred_mask_lemma : forall np nd dri,
  mask_of (np + nd) (cred_reveal np dri) = repeat true np ++ mask_of nd dri.
Proof.
  intros np nd dri. unfold mask_of, cred_reveal. rewrite seq_app, map_app. f_equal.
  - rewrite map_all_true; [rewrite seq_length; reflexivity|]. intros i Hi. apply in_seq in Hi.
    unfold mem_nat. rewrite existsb_app. apply orb_true_iff. left. apply existsb_exists. exists i. split.
    + apply in_seq. lia.
    + apply Nat.eqb_refl.
  - cbn [Nat.add]. pose proof (mask_shift np dri nd 0%nat) as M. rewrite Nat.add_0_r in M. exact M.
Qed.

Lemma select_all_then : forall {A} (P D : list A) m, select (repeat true (length P) ++ m) (P ++ D) = P ++ select m D.
Proof. intros A P D m. induction P as [|p r IH]; [reflexivity|]. unfold select in *. cbn. f_equal. exact IH. Qed.

Lemma count_true_all_then : forall np m, count_true (repeat true np ++ m) = (np + count_true m)%nat.
Proof. intros np m. induction np as [|n IH]; [reflexivity|]. unfold count_true in *. cbn. rewrite IH. reflexivity. Qed.

Lemma select_length : forall {A} (mask : list bool) (l : list A), length mask = length l ->
  length (select mask l) = count_true mask.
Proof.
  intros A. induction mask as [|b m IH]; intros [|x l] H; try discriminate; [reflexivity|].
  injection H as H. specialize (IH l H). unfold select, count_true in *. destruct b; cbn; rewrite ?IH; reflexivity.
Qed.

Lemma select_map : forall {A B} (f : A -> B) (m : list bool) (l : list A), select m (map f l) = map f (select m l).
Proof.
  intros A B f m l. unfold select. revert m. induction l as [|x l IH]; intros [|b m]; try reflexivity.
  cbn. destruct b; cbn; rewrite IH; reflexivity.
Qed.

(* the derived proof discloses the proof statements and exactly the selected document statements *)
Lemma cred_selection_lemma : forall (P D : list stmt) dri,
  select (mask_of (length P + length D) (cred_reveal (length P) dri)) (P ++ D) = P ++ select (mask_of (length D) dri) D.
Proof. intros. rewrite cred_mask_lemma. apply select_all_then. Qed.

(* ---------- the statement -> index mapping ---------- *)
Lemma last_index_spec : forall l s i j, last_index_from i s l = Some j ->
  exists k, j = (i + k)%nat /\ nth_error l k = Some s.
Proof.
  induction l as [|x r IH]; intros s i j H; [discriminate|]. cbn in H.
  destruct (last_index_from (S i) s r) as [j'|] eqn:E.
  - injection H as H. subst j'. apply IH in E. destruct E as [k [Hk Hn]]. exists (S k). split; [lia|exact Hn].
  - destruct (stmt_eqb x s) eqn:Q; [|discriminate]. injection H as H. subst j. apply stmt_eqb_eq in Q. subst x.
    exists 0%nat. split; [lia|reflexivity].
Qed.

(* every statement of the reveal document is the (rewritten) signed statement at the index revealed for it *)
Lemma reveal_indexes_lemma : forall D RV dri, doc_reveal_indexes D RV = Some dri ->
  Forall2 (fun c i => exists d, nth_error D i = Some d /\ c = to_bnid d) RV dri.
Proof.
  intros D. induction RV as [|c r IH]; intros dri H; cbn in H.
  - injection H as H. subst. constructor.
  - destruct (last_index_from 0 c (map to_bnid D)) as [i|] eqn:E; [|discriminate].
    fold (doc_reveal_indexes D r) in H. destruct (doc_reveal_indexes D r) as [ri|]; [|discriminate].
    injection H as H. subst dri. constructor; [|apply IH; reflexivity].
    apply last_index_spec in E. destruct E as [k [Hk Hn]]. cbn in Hk. subst k.
    rewrite nth_error_map in Hn. destruct (nth_error D i) as [d|]; [|discriminate]. injection Hn as Hn.
    exists d. split; [reflexivity|symmetry; exact Hn].
Qed.

(* ---------- composition with the exponent model ---------- *)
Section CredExp.
  Variable F : Type.
  Variables (f0 f1 : F) (fadd fmul fsub : F -> F -> F) (fopp : F -> F) (fdiv : F -> F -> F) (finv : F -> F).
  Hypothesis Ffield : field_theory f0 f1 fadd fmul fsub fopp fdiv finv (@eq F).
  Variable feqb : F -> F -> bool.
  Hypothesis feqb_spec : forall a b, feqb a b = true <-> a = b.
  Variable H : list F -> F -> F.
  Variable gen : F -> nat -> nat -> F.
  Variable enc : stmt -> F.     (* messagesToFr on the statement text *)

  Notation verify' := (verify_gen F f0 f1 fadd fmul fsub fopp feqb H gen).
  Notation derive' := (derive F f0 f1 fadd fmul fsub fopp fdiv feqb H gen).

  Lemma derive_mask : forall w msgs sg nonce mask r1 r2 bl pf,
    derive' w msgs sg nonce mask r1 r2 bl = Some pf -> p_mask pf = mask.
  Proof.
    intros until pf. unfold derive. destruct (Nat.eqb _ _); [discriminate|]. destruct (negb _); [discriminate|].
    destruct (split_mask _ _ _). intros E. injection E as E. subst pf. reflexivity.
  Qed.

  (* strict completeness: the derived proof is accepted by the strict (suite-level) verifier with exactly the selected
     messages *)
  Lemma strict_complete_lemma : forall w msgs sg nonce mask r1 r2 bl pf,
    derive' w msgs sg nonce mask r1 r2 bl = Some pf -> r1 <> f0 -> length mask = length msgs ->
    verify' true Fixed w pf nonce (select mask msgs) = VAccept.
  Proof.
    intros until pf. intros Hd Hr Hl.
    pose proof (complete_lemma F f0 f1 fadd fmul fsub fopp fdiv finv Ffield feqb feqb_spec H gen
                  w msgs sg nonce mask r1 r2 bl pf [] Hd Hr Hl) as A.
    rewrite app_nil_r in A.
    apply (verify_accept_iff F f0 f1 fadd fmul fsub fopp feqb feqb_spec H gen) in A.
    apply (verify_accept_iff F f0 f1 fadd fmul fsub fopp feqb feqb_spec H gen).
    unfold accepts_spec in *. cbv zeta in *. destruct A as [A1 [A2 [_ A4]]].
    split; [exact A1|]. split; [exact A2|]. split; [|exact A4].
    intros _. rewrite (derive_mask _ _ _ _ _ _ _ _ _ Hd). apply select_length. exact Hl.
  Qed.

  (* END TO END.  The issuer signed P ++ D; the holder found the reveal document's statements at the indexes dri and
     derived a proof for cred_reveal |P| dri; the suite hands its verifier vdoc.  If vdoc, after the verifier's blank-node
     rewriting, is P followed by the selected document statements (the order-restoration condition, evaluated on every
     recorded case by the correspondence), the suite-level verifier accepts. *)
  Lemma cred_complete_lemma : forall w (P D vdoc : list stmt) dri sg nonce r1 r2 bl pf,
    derive' w (map enc (holder_messages P D)) sg nonce
            (mask_of (length P + length D) (cred_reveal (length P) dri)) r1 r2 bl = Some pf ->
    r1 <> f0 ->
    verifier_messages vdoc = P ++ select (mask_of (length D) dri) D ->
    verify' true Fixed w pf nonce (map enc (verifier_messages vdoc)) = VAccept /\
    suite_count_ok (p_mask pf) vdoc = true.
  Proof.
    intros until pf. intros Hd Hr Hv.
    assert (Hl : length (mask_of (length P + length D) (cred_reveal (length P) dri))
                 = length (map enc (holder_messages P D))).
    { unfold mask_of, holder_messages. rewrite !map_length, seq_length, app_length. reflexivity. }
    pose proof (strict_complete_lemma _ _ _ _ _ _ _ _ _ Hd Hr Hl) as A.
    assert (Hs : select (mask_of (length P + length D) (cred_reveal (length P) dri)) (map enc (holder_messages P D))
                 = map enc (verifier_messages vdoc)).
    { rewrite Hv, <- cred_selection_lemma. apply select_map. }
    rewrite Hs in A. split; [exact A|].
    unfold suite_count_ok. rewrite (derive_mask _ _ _ _ _ _ _ _ _ Hd). apply Nat.eqb_eq.
    transitivity (length (verifier_messages vdoc)); [unfold verifier_messages; rewrite map_length; reflexivity|].
    rewrite Hv, <- cred_selection_lemma. apply select_length.
    unfold mask_of. rewrite map_length, seq_length, app_length. reflexivity.
  Qed.

  (* the suite as found (no count check): the same derived proof is accepted for a document with ANY statements added
     after the revealed ones *)
  Lemma cred_added_asis_lemma : forall w (P D vdoc extra : list stmt) dri sg nonce r1 r2 bl pf,
    derive' w (map enc (holder_messages P D)) sg nonce
            (mask_of (length P + length D) (cred_reveal (length P) dri)) r1 r2 bl = Some pf ->
    r1 <> f0 ->
    verifier_messages vdoc = P ++ select (mask_of (length D) dri) D ->
    verify' false Fixed w pf nonce (map enc (verifier_messages (vdoc ++ extra))) = VAccept.
  Proof.
    intros until pf. intros Hd Hr Hv.
    assert (Hl : length (mask_of (length P + length D) (cred_reveal (length P) dri))
                 = length (map enc (holder_messages P D))).
    { unfold mask_of, holder_messages. rewrite !map_length, seq_length, app_length. reflexivity. }
    unfold verifier_messages in *. rewrite !map_app, Hv, <- cred_selection_lemma, <- select_map.
    eapply (complete_lemma F f0 f1 fadd fmul fsub fopp fdiv finv Ffield feqb feqb_spec H gen); eauto.
  Qed.

  (* what the suite accepts has exactly as many statements as the proof reveals: nothing can be added *)
  Lemma cred_exact_lemma : forall w pf nonce (vdoc : list stmt),
    verify' true Fixed w pf nonce (map enc (verifier_messages vdoc)) = VAccept ->
    length vdoc = count_true (p_mask pf).
  Proof.
    intros w pf nonce vdoc A.
    apply (verify_accept_iff F f0 f1 fadd fmul fsub fopp feqb feqb_spec H gen) in A.
    destruct A as [_ [_ [E _]]]. specialize (E eq_refl). unfold verifier_messages in E. rewrite !map_length in E. exact E.
  Qed.
End CredExp.
