(* C17 — lemmas, part 2: the exponent model over an arbitrary field. *)
From Coq Require Import List Ring Field Bool Arith Lia.
Import ListNotations.
From VF Require Import C17.Model.

Section ExpProofs.
  Variable F : Type.
  Variables (f0 f1 : F) (fadd fmul fsub : F -> F -> F) (fopp : F -> F) (fdiv : F -> F -> F) (finv : F -> F).
  Hypothesis Ffield : field_theory f0 f1 fadd fmul fsub fopp fdiv finv (@eq F).
  Add Field Ffld : Ffield.
  Variable feqb : F -> F -> bool.
  Hypothesis feqb_spec : forall a b, feqb a b = true <-> a = b.
  Variable H : list F -> F -> F.
  Variable gen : F -> nat -> nat -> F.

  Notation "a + b" := (fadd a b). Notation "a * b" := (fmul a b). Notation "a - b" := (fsub a b).
  Notation "- a" := (fopp a). Notation "a / b" := (fdiv a b).
  Notation "0" := f0. Notation "1" := f1.

  Notation dot' := (dot F f0 fadd fmul).
  Notation lin' := (lin F f0 fadd fmul).
  Notation resp' := (resp F fmul fsub).
  Notation hs' := (hs F gen).
  Notation h0' := (h0 F gen).
  Notation vsplit' := (vsplit F f0).
  Notation split' := (split_mask F).
  Notation bval' := (bval F f0 f1 fadd fmul gen).
  Notation verify' := (verify_gen F f0 f1 fadd fmul fsub fopp feqb H gen).
  Notation derive' := (derive F f0 f1 fadd fmul fsub fopp fdiv feqb H gen).
  Notation vsig' := (verify_sig F f0 f1 fadd fmul feqb gen).
  Notation tr' := (transcript F).
  Notation pg1v := (pg1_verify F f0 fadd fmul feqb).

  Lemma feqb_refl a : feqb a a = true.
  Proof. apply feqb_spec; reflexivity. Qed.

  Lemma mul_zero_cases a b : a * b = 0 -> a = 0 \/ b = 0.
  Proof.
    intros Hab. destruct (feqb a 0) eqn:Ha.
    - left. apply feqb_spec; exact Ha.
    - right. assert (Hn : a <> 0) by (intros E; apply feqb_spec in E; congruence).
      transitivity ((1 / a) * (a * b)); [field; exact Hn|]. rewrite Hab. ring.
  Qed.

  (* ---------- bookkeeping ---------- *)
  Lemma dot_split mask l : let '(rv, hd) := split' mask l in dot' l = dot' rv + dot' hd.
  Proof.
    revert l; induction mask as [|b ms IH]; intros [|[h m] r]; cbn; try ring.
    specialize (IH r). destruct (split' ms r) as [rv hd]. destruct b; cbn; rewrite IH; ring.
  Qed.

  Lemma vsplit_nil_mask gens s : vsplit' [] gens s = ([], gens).
  Proof. induction gens as [|g gs IH]; cbn; auto. rewrite IH. reflexivity. Qed.

  Lemma map_fst_combine (a b : list F) : length a = length b -> map fst (combine a b) = a.
  Proof. revert b; induction a; intros [|y b] Hl; cbn in *; try discriminate; auto. f_equal. apply IHa. lia. Qed.

  (* the verifier, given the selected messages (followed by anything), rebuilds exactly the prover's partition *)
  Lemma bookkeeping mask : forall gens msgs extra,
    length gens = length msgs ->
    let '(rv, hd) := split' mask (combine gens msgs) in
    vsplit' mask gens (map snd rv ++ extra) = (rv, map fst hd).
  Proof.
    induction mask as [|b ms IH]; intros gens msgs extra Hl.
    - cbn. rewrite vsplit_nil_mask, map_fst_combine; auto.
    - destruct gens as [|g gs]; destruct msgs as [|m mr]; cbn in Hl; try discriminate.
      + cbn. reflexivity.
      + cbn [combine split_mask]. specialize (IH gs mr extra ltac:(lia)).
        destruct (split' ms (combine gs mr)) as [rv hd]. destruct b; cbn; rewrite IH; reflexivity.
  Qed.

  Lemma split_count mask : forall (l : list (F * F)), length mask = length l ->
    length (fst (split' mask l)) = count_true mask /\ length (snd (split' mask l)) = (length l - count_true mask)%nat
    /\ (count_true mask <= length l)%nat.
  Proof.
    unfold count_true. induction mask as [|b ms IH]; intros [|x r] Hl; try discriminate Hl.
    - cbn. auto.
    - cbn [split_mask]. specialize (IH r ltac:(cbn in Hl; lia)). destruct (split' ms r) as [rv hd].
      cbn [fst snd] in IH. destruct IH as [I1 [I2 I3]]. cbn [length] in Hl |- *.
      destruct b; cbn [filter fst snd length]; lia.
  Qed.

  (* the hidden bases do not depend on the supplied messages *)
  Lemma vsplit_hidden mask : forall gens s1 s2, snd (vsplit' mask gens s1) = snd (vsplit' mask gens s2).
  Proof.
    induction mask as [|b ms IH]; intros gens s1 s2.
    - rewrite !vsplit_nil_mask. reflexivity.
    - destruct gens as [|g gs]; cbn; auto.
      destruct b.
      + destruct s1 as [|a1 r1]; destruct s2 as [|a2 r2];
          match goal with |- snd (let '(_, _) := vsplit' ms gs ?x in _) = snd (let '(_, _) := vsplit' ms gs ?y in _) =>
            specialize (IH gs x y); destruct (vsplit' ms gs x), (vsplit' ms gs y); cbn in *; exact IH end.
      + specialize (IH gs s1 s2). destruct (vsplit' ms gs s1), (vsplit' ms gs s2); cbn in *. congruence.
  Qed.

  (* surplus messages are never looked at *)
  Lemma vsplit_surplus mask : forall gens s,
    (count_true mask <= length s)%nat -> vsplit' mask gens s = vsplit' mask gens (firstn (count_true mask) s).
  Proof.
    unfold count_true. induction mask as [|b ms IH]; intros gens s Hc.
    - rewrite !vsplit_nil_mask. reflexivity.
    - destruct gens as [|g gs]; cbn; auto. destruct b; cbn in Hc |- *.
      + destruct s as [|m sr]; cbn in Hc; [lia|]. cbn. rewrite (IH gs sr) by lia. reflexivity.
      + rewrite (IH gs s) by lia. reflexivity.
  Qed.

  (* ---------- Schnorr ---------- *)
  Lemma schnorr_complete c : forall bases rhos ws,
    length rhos = length ws -> length bases = length ws ->
    lin' bases (resp' c rhos ws) + c * lin' bases ws = lin' bases rhos.
  Proof.
    induction bases as [|bb bs IH]; intros [|r rr] [|w wr] H1 H2; cbn in *; try discriminate; try ring.
    injection H1 as H1. injection H2 as H2. specialize (IH rr wr H1 H2).
    transitivity (bb * r + (lin' bs (resp' c rr wr) + c * lin' bs wr)); [ring|]. rewrite IH. ring.
  Qed.

  Lemma resp_length c : forall rhos ws, length rhos = length ws -> length (resp' c rhos ws) = length ws.
  Proof. induction rhos; intros [|w wr] Hl; cbn in *; try discriminate; auto. Qed.

  Lemma lin_pairs (l : list (F * F)) : lin' (map fst l) (map snd l) = dot' l.
  Proof. induction l as [|[h m] r IH]; cbn; auto. rewrite IH. reflexivity. Qed.

  (* ---------- what acceptance means ---------- *)
  Definition accepts_spec (strict : bool) (w : F) (pf : proof F) (nonce : F) (sup : list F) : Prop :=
    let n := p_count pf in
    let hh0 := h0' w n in
    let rv := fst (vsplit' (p_mask pf) (hs' w n) sup) in
    let hidden := snd (vsplit' (p_mask pf) (hs' w n) sup) in
    let c := H (tr' (p_abar pf) (p_aprime pf) hh0 (p_c1 pf) (p_d pf) hidden (p_c2 pf)) nonce in
    pads_bad Fixed (p_count pf) (p_mask pf) = false /\
    (count_true (p_mask pf) <= length sup)%nat /\
    (strict = true -> length sup = count_true (p_mask pf)) /\
    p_aprime pf * w = p_abar pf /\
    length (p_r1 pf) = 2%nat /\
    lin' [p_aprime pf; hh0] (p_r1 pf) + (p_abar pf - p_d pf) * c = p_c1 pf /\
    length (p_r2 pf) = (2 + length hidden)%nat /\
    lin' (p_d pf :: hh0 :: hidden) (p_r2 pf) + (- (1 + dot' rv)) * c = p_c2 pf.

  Lemma pg1v_fixed bases target c commit rs :
    pg1v Fixed bases target c commit rs = VAccept <->
    length rs = length bases /\ lin' bases rs + target * c = commit.
  Proof.
    cbn. destruct (Nat.eqb_spec (length rs) (length bases)) as [E|E].
    - destruct (feqb (lin' bases rs + target * c) commit) eqn:Hq.
      + apply feqb_spec in Hq. tauto.
      + split; [discriminate|]. intros [_ Hc]. apply feqb_spec in Hc. congruence.
    - split; [discriminate|]. intros [Hc _]. contradiction.
  Qed.

  Lemma pg1v_fixed_not_panic bases target c commit rs : pg1v Fixed bases target c commit rs <> VPanic.
  Proof. cbn. destruct (Nat.eqb _ _); [destruct (feqb _ _)|]; discriminate. Qed.

  Lemma verify_accept_iff strict w pf nonce sup :
    verify' strict Fixed w pf nonce sup = VAccept <-> accepts_spec strict w pf nonce sup.
  Proof.
    unfold verify_gen, accepts_spec.
    destruct (vsplit' (p_mask pf) (hs' w (p_count pf)) sup) as [rv hidden] eqn:Hv. cbn [fst snd].
    destruct (pads_bad Fixed (p_count pf) (p_mask pf)) eqn:Hpb.
    { split; [discriminate|]. intros [Hc _]. discriminate. }
    match goal with |- ?L <-> (_ /\ ?R) => cut (L <-> R); [intros Hiff; rewrite Hiff; tauto|] end.
    destruct (Nat.ltb_spec (length sup) (count_true (p_mask pf))) as [Hlt|Hge]; cbn [orb].
    { split; [discriminate|]. intros [Hc _]. lia. }
    destruct strict; cbn [andb].
    - destruct (Nat.eqb_spec (length sup) (count_true (p_mask pf))) as [E|E]; cbn [negb].
      2:{ split; [discriminate|]. intros [_ [Hc _]]. specialize (Hc eq_refl). contradiction. }
      destruct (feqb (p_aprime pf * w) (p_abar pf)) eqn:Hp; cbn [negb].
      2:{ split; [discriminate|]. intros [_ [_ [Hc _]]]. apply feqb_spec in Hc. congruence. }
      apply feqb_spec in Hp.
      destruct (pg1v Fixed [p_aprime pf; h0' w (p_count pf)] (p_abar pf - p_d pf) _ (p_c1 pf) (p_r1 pf)) eqn:H1.
      + apply pg1v_fixed in H1. destruct H1 as [L1 E1]. rewrite pg1v_fixed. cbn [length] in *. intuition.
      + split; [discriminate|]. intros [_ [_ [_ [L1 [E1 _]]]]].
        assert (Hx : pg1v Fixed [p_aprime pf; h0' w (p_count pf)] (p_abar pf - p_d pf)
                 (H (tr' (p_abar pf) (p_aprime pf) (h0' w (p_count pf)) (p_c1 pf) (p_d pf) hidden (p_c2 pf)) nonce)
                 (p_c1 pf) (p_r1 pf) = VAccept) by (apply pg1v_fixed; cbn [length]; auto).
        congruence.
      + exfalso. eapply pg1v_fixed_not_panic; eauto.
    - destruct (feqb (p_aprime pf * w) (p_abar pf)) eqn:Hp; cbn [negb].
      2:{ split; [discriminate|]. intros [_ [_ [Hc _]]]. apply feqb_spec in Hc. congruence. }
      apply feqb_spec in Hp.
      destruct (pg1v Fixed [p_aprime pf; h0' w (p_count pf)] (p_abar pf - p_d pf) _ (p_c1 pf) (p_r1 pf)) eqn:H1.
      + apply pg1v_fixed in H1. destruct H1 as [L1 E1]. rewrite pg1v_fixed. cbn [length] in *.
        intuition; discriminate.
      + split; [discriminate|]. intros [_ [_ [_ [L1 [E1 _]]]]].
        assert (Hx : pg1v Fixed [p_aprime pf; h0' w (p_count pf)] (p_abar pf - p_d pf)
                 (H (tr' (p_abar pf) (p_aprime pf) (h0' w (p_count pf)) (p_c1 pf) (p_d pf) hidden (p_c2 pf)) nonce)
                 (p_c1 pf) (p_r1 pf) = VAccept) by (apply pg1v_fixed; cbn [length]; auto).
        congruence.
      + exfalso. eapply pg1v_fixed_not_panic; eauto.
  Qed.
  (* ---------- completeness (for every reveal mask), with or without surplus messages ---------- *)
  Lemma select_split mask : forall gens msgs, length gens = length msgs ->
    map snd (fst (split' mask (combine gens msgs))) = select mask msgs.
  Proof.
    unfold select. induction mask as [|b ms IH]; intros gens msgs Hl; [reflexivity|].
    destruct gens as [|g gs]; destruct msgs as [|m mr]; cbn in Hl; try discriminate; [reflexivity|].
    cbn [combine split_mask]. specialize (IH gs mr ltac:(lia)).
    destruct (split' ms (combine gs mr)) as [rv hd]. cbn [fst] in IH.
    destruct b; cbn; rewrite <- IH; reflexivity.
  Qed.

  Lemma idx_from_below : forall mask s n, (s + length mask <= n)%nat ->
    forallb (fun i => i <? n) (idx_from s mask) = true.
  Proof.
    induction mask as [|b ms IH]; intros s n Hl; [reflexivity|]. cbn [length] in Hl. cbn [idx_from].
    destruct b; cbn [forallb].
    - rewrite (IH (S s) n) by lia. replace (s <? n) with true; [reflexivity|].
      symmetry; apply Nat.ltb_lt; lia.
    - apply IH; lia.
  Qed.

  Lemma hs_length w n : length (hs' w n) = n.
  Proof. unfold hs. rewrite map_length, seq_length. reflexivity. Qed.

  Lemma complete_lemma w msgs sg nonce mask r1 r2 bl pf extra :
    derive' w msgs sg nonce mask r1 r2 bl = Some pf ->
    r1 <> 0 -> length mask = length msgs ->
    verify' false Fixed w pf nonce (select mask msgs ++ extra) = VAccept.
  Proof.
    intros Hd Hr1 Hlen. unfold derive in Hd.
    destruct (Nat.eqb (count_true mask) 0); [discriminate|].
    destruct (vsig' w msgs sg) eqn:Hsig; [|discriminate]. cbn [negb] in Hd.
    unfold verify_sig in Hsig. apply feqb_spec in Hsig.
    set (n := length msgs) in *.
    assert (Hgl : length (hs' w n) = length msgs) by apply hs_length.
    pose proof (bookkeeping mask (hs' w n) msgs extra Hgl) as Hbk.
    pose proof (dot_split mask (combine (hs' w n) msgs)) as Hds.
    pose proof (select_split mask (hs' w n) msgs Hgl) as Hsel.
    pose proof (split_count mask (combine (hs' w n) msgs)) as Hcnt.
    rewrite combine_length, Hgl, Nat.min_id in Hcnt. specialize (Hcnt Hlen).
    destruct (split' mask (combine (hs' w n) msgs)) as [rv hd] eqn:Hsp.
    cbn [fst snd] in *. destruct Hcnt as [Hc1 [Hc2 Hc3]].
    injection Hd as Hpf. apply verify_accept_iff. unfold accepts_spec. subst pf. cbn [p_count p_mask p_aprime p_abar p_d p_c1 p_r1 p_c2 p_r2].
    fold n. rewrite <- Hsel, Hbk. cbn [fst snd].
    set (hh0 := h0' w n) in *.
    set (b := bval' w msgs (s_s sg)) in *.
    set (c := H _ nonce).
    assert (Hb : b = 1 + hh0 * s_s sg + (dot' rv + dot' hd)).
    { unfold b, bval. fold n. fold hh0. rewrite Hds. reflexivity. }
    repeat split.
    - unfold pads_bad. rewrite (idx_from_below mask 0 n); [reflexivity|lia].
    - rewrite app_length, map_length. lia.
    - discriminate.
    - transitivity ((s_a sg * (w + s_e sg)) * r1 - s_a sg * r1 * s_e sg); [ring|]. rewrite Hsig. reflexivity.
    - pose proof (schnorr_complete c [s_a sg * r1; hh0] [bl 0%nat; bl 1%nat] [- s_e sg; r2] eq_refl eq_refl) as Hs.
      clear Hs. cbn [lin]. ring.
    - cbn [length]. rewrite resp_length; rewrite !map_length, ?seq_length; reflexivity.
    - assert (Hl2 : length (map bl (seq 4 (length hd))) = length (map snd hd)).
      { rewrite !map_length, seq_length. reflexivity. }
      assert (Hl3 : length (map fst hd) = length (map snd hd)).
      { rewrite !map_length. reflexivity. }
      pose proof (schnorr_complete c _ _ _ Hl2 Hl3) as Hs. rewrite lin_pairs in Hs.
      cbn [lin]. rewrite <- Hs. rewrite Hb. field. exact Hr1.
  Qed.

  (* surplus messages do not matter: the verdict is that of the first |revealed| messages *)
  Lemma surplus_lemma w pf nonce sup :
    (count_true (p_mask pf) <= length sup)%nat ->
    verify' false Fixed w pf nonce sup = verify' false Fixed w pf nonce (firstn (count_true (p_mask pf)) sup).
  Proof.
    intros Hc. unfold verify_gen.
    rewrite (vsplit_surplus (p_mask pf) (hs' w (p_count pf)) sup Hc).
    rewrite firstn_length, Nat.min_l by exact Hc.
    replace (length sup <? count_true (p_mask pf)) with false by (symmetry; apply Nat.ltb_ge; exact Hc).
    rewrite Nat.ltb_irrefl. reflexivity.
  Qed.

  (* ---------- binding: two accepted verifications force an algebraic coincidence ---------- *)
  Definition challenge_of (w : F) (pf : proof F) (nonce : F) : F :=
    let n := p_count pf in
    H (tr' (p_abar pf) (p_aprime pf) (h0' w n) (p_c1 pf) (p_d pf)
           (snd (vsplit' (p_mask pf) (hs' w n) [])) (p_c2 pf)) nonce.

  Lemma binding_messages_lemma strict w pf nonce s1 s2 :
    verify' strict Fixed w pf nonce s1 = VAccept -> verify' strict Fixed w pf nonce s2 = VAccept ->
    challenge_of w pf nonce = 0 \/
    dot' (fst (vsplit' (p_mask pf) (hs' w (p_count pf)) s1)) = dot' (fst (vsplit' (p_mask pf) (hs' w (p_count pf)) s2)).
  Proof.
    intros A1 A2. apply verify_accept_iff in A1. apply verify_accept_iff in A2.
    unfold accepts_spec in A1, A2. destruct A1 as [_ A1]. destruct A2 as [_ A2]. unfold challenge_of.
    rewrite (vsplit_hidden (p_mask pf) (hs' w (p_count pf)) s1 []) in A1.
    rewrite (vsplit_hidden (p_mask pf) (hs' w (p_count pf)) s2 []) in A2.
    set (c := H _ nonce) in *.
    destruct A1 as [_ [_ [_ [_ [_ [_ E1]]]]]]. destruct A2 as [_ [_ [_ [_ [_ [_ E2]]]]]].
    set (d1 := dot' (fst (vsplit' (p_mask pf) (hs' w (p_count pf)) s1))) in *.
    set (d2 := dot' (fst (vsplit' (p_mask pf) (hs' w (p_count pf)) s2))) in *.
    assert (Hz : c * (d1 - d2) = 0).
    { transitivity ((lin' (p_d pf :: h0' w (p_count pf) :: snd (vsplit' (p_mask pf) (hs' w (p_count pf)) [])) (p_r2 pf) + - (1 + d2) * c)
                    - (lin' (p_d pf :: h0' w (p_count pf) :: snd (vsplit' (p_mask pf) (hs' w (p_count pf)) [])) (p_r2 pf) + - (1 + d1) * c)); [ring|].
      rewrite E1, E2. ring. }
    apply mul_zero_cases in Hz. destruct Hz as [Hz|Hz]; [left; exact Hz|right].
    transitivity (d1 - d2 + d2); [ring|]. rewrite Hz. ring.
  Qed.

  Lemma binding_nonce_lemma strict w pf n1 n2 sup :
    verify' strict Fixed w pf n1 sup = VAccept -> verify' strict Fixed w pf n2 sup = VAccept ->
    challenge_of w pf n1 = challenge_of w pf n2 \/ p_abar pf = p_d pf.
  Proof.
    intros A1 A2. apply verify_accept_iff in A1. apply verify_accept_iff in A2.
    unfold accepts_spec in A1, A2. destruct A1 as [_ A1]. destruct A2 as [_ A2]. unfold challenge_of.
    rewrite (vsplit_hidden (p_mask pf) (hs' w (p_count pf)) sup []) in A1, A2.
    set (c1 := H _ n1) in *. set (c2 := H _ n2) in *.
    destruct A1 as [_ [_ [_ [_ [E1 _]]]]]. destruct A2 as [_ [_ [_ [_ [E2 _]]]]].
    assert (Hz : (p_abar pf - p_d pf) * (c1 - c2) = 0).
    { transitivity ((lin' [p_aprime pf; h0' w (p_count pf)] (p_r1 pf) + (p_abar pf - p_d pf) * c1)
                    - (lin' [p_aprime pf; h0' w (p_count pf)] (p_r1 pf) + (p_abar pf - p_d pf) * c2)); [ring|].
      rewrite E1, E2. ring. }
    apply mul_zero_cases in Hz. destruct Hz as [Hz|Hz].
    - right. transitivity (p_abar pf - p_d pf + p_d pf); [ring|]. rewrite Hz. ring.
    - left. transitivity (c1 - c2 + c2); [ring|]. rewrite Hz. ring.
  Qed.

  Lemma binding_key_lemma strict w1 w2 pf n1 n2 s1 s2 :
    verify' strict Fixed w1 pf n1 s1 = VAccept -> verify' strict Fixed w2 pf n2 s2 = VAccept ->
    w1 = w2 \/ p_aprime pf = 0.
  Proof.
    intros A1 A2. apply verify_accept_iff in A1. apply verify_accept_iff in A2.
    destruct A1 as [_ [_ [_ [E1 _]]]]. destruct A2 as [_ [_ [_ [E2 _]]]].
    assert (Hz : p_aprime pf * (w1 - w2) = 0).
    { transitivity (p_aprime pf * w1 - p_aprime pf * w2); [ring|]. rewrite E1, E2. ring. }
    apply mul_zero_cases in Hz. destruct Hz as [Hz|Hz]; [right; exact Hz|left].
    transitivity (w1 - w2 + w2); [ring|]. rewrite Hz. ring.
  Qed.

  (* altered responses (everything else equal): the altered vector must hit the same linear combination *)
  Lemma binding_responses_lemma strict w pf r1' r2' nonce sup :
    verify' strict Fixed w pf nonce sup = VAccept ->
    verify' strict Fixed w {| p_count := p_count pf; p_mask := p_mask pf; p_aprime := p_aprime pf; p_abar := p_abar pf;
                              p_d := p_d pf; p_c1 := p_c1 pf; p_r1 := r1'; p_c2 := p_c2 pf; p_r2 := r2' |} nonce sup = VAccept ->
    lin' [p_aprime pf; h0' w (p_count pf)] r1' = lin' [p_aprime pf; h0' w (p_count pf)] (p_r1 pf) /\
    lin' (p_d pf :: h0' w (p_count pf) :: snd (vsplit' (p_mask pf) (hs' w (p_count pf)) sup)) r2'
    = lin' (p_d pf :: h0' w (p_count pf) :: snd (vsplit' (p_mask pf) (hs' w (p_count pf)) sup)) (p_r2 pf).
  Proof.
    intros A1 A2. apply verify_accept_iff in A1. apply verify_accept_iff in A2.
    unfold accepts_spec in A1, A2. cbn [p_count p_mask p_aprime p_abar p_d p_c1 p_r1 p_c2 p_r2] in A2.
    destruct A1 as [_ A1]. destruct A2 as [_ A2].
    set (c := H _ nonce) in *.
    destruct A1 as [_ [_ [_ [_ [E1 [_ G1]]]]]]. destruct A2 as [_ [_ [_ [_ [E2 [_ G2]]]]]].
    split.
    - match goal with |- ?a = ?b => transitivity ((a + (p_abar pf - p_d pf) * c) - (p_abar pf - p_d pf) * c); [ring|] end.
      rewrite E2, <- E1. ring.
    - match type of G1 with _ + ?t = _ =>
        match goal with |- ?a = ?b => transitivity ((a + t) - t); [ring|] end end.
      rewrite G2, <- G1. ring.
  Qed.

  (* a single altered response over a non-zero base is rejected *)
  Fixpoint upd (j : nat) (x : F) (l : list F) : list F :=
    match l, j with [], _ => [] | _ :: r, O => x :: r | y :: r, S k => y :: upd k x r end.

  Lemma lin_upd : forall bases rs j x, (j < length rs)%nat -> (j < length bases)%nat ->
    lin' bases (upd j x rs) = lin' bases rs + nth j bases 0 * (x - nth j rs 0).
  Proof.
    induction bases as [|bb bs IH]; intros [|r rr] j x H1 H2; cbn in *; try lia.
    destruct j as [|k]; cbn.
    - ring.
    - rewrite IH by lia. ring.
  Qed.
  (* ---------- response counts, challenge coverage, simulated sub-proofs ---------- *)
  Lemma response_counts_lemma strict w pf nonce sup :
    verify' strict Fixed w pf nonce sup = VAccept ->
    length (p_r1 pf) = 2%nat /\
    length (p_r2 pf) = (2 + length (snd (vsplit' (p_mask pf) (hs' w (p_count pf)) sup)))%nat.
  Proof.
    intros A. apply verify_accept_iff in A. destruct A as [_ [_ [_ [_ [L1 [_ [L2 _]]]]]]]. split; assumption.
  Qed.

  Lemma wrong_count_rejected strict w pf nonce sup :
    length (p_r1 pf) <> 2%nat \/
    length (p_r2 pf) <> (2 + length (snd (vsplit' (p_mask pf) (hs' w (p_count pf)) sup)))%nat ->
    verify' strict Fixed w pf nonce sup <> VAccept.
  Proof. intros Hne A. apply response_counts_lemma in A. destruct A. destruct Hne; contradiction. Qed.

  (* the challenge input determines every commitment and every hidden base *)
  Lemma transcript_inj a b h c d hid e a' b' h' c' d' hid' e' :
    tr' a b h c d hid e = tr' a' b' h' c' d' hid' e' ->
    a = a' /\ b = b' /\ h = h' /\ c = c' /\ d = d' /\ hid = hid' /\ e = e'.
  Proof.
    unfold transcript. intros E. injection E as Ea Eb Eh Ec Ed _ Et.
    apply app_inj_tail in Et. destruct Et. repeat split; assumption.
  Qed.

  Lemma transcript_length a b h c d hid e : length (tr' a b h c d hid e) = (7 + length hid)%nat.
  Proof. unfold transcript. cbn [length]. rewrite app_length. cbn. lia. Qed.

  (* a sub-proof simulated for a challenge cstar chosen first (commitment := sum bases*z + target*cstar, any z) is
     accepted only if the verifier's challenge - computed from a transcript that contains that very commitment -
     equals cstar, or the statement point is the identity *)
  Lemma simulated_vc2_lemma strict w pf nonce sup cstar :
    let hidden := snd (vsplit' (p_mask pf) (hs' w (p_count pf)) sup) in
    let rv := fst (vsplit' (p_mask pf) (hs' w (p_count pf)) sup) in
    let target := - (1 + dot' rv) in
    p_c2 pf = lin' (p_d pf :: h0' w (p_count pf) :: hidden) (p_r2 pf) + target * cstar ->
    verify' strict Fixed w pf nonce sup = VAccept ->
    target = 0 \/
    H (tr' (p_abar pf) (p_aprime pf) (h0' w (p_count pf)) (p_c1 pf) (p_d pf) hidden (p_c2 pf)) nonce = cstar.
  Proof.
    intros hidden rv target Hsim A. apply verify_accept_iff in A. unfold accepts_spec in A. destruct A as [_ A].
    fold hidden in A. fold rv in A. fold target in A.
    set (c := H _ nonce) in *.
    destruct A as [_ [_ [_ [_ [_ [_ E2]]]]]].
    assert (Hz : target * (c - cstar) = 0).
    { transitivity ((lin' (p_d pf :: h0' w (p_count pf) :: hidden) (p_r2 pf) + target * c)
                    - (lin' (p_d pf :: h0' w (p_count pf) :: hidden) (p_r2 pf) + target * cstar)); [ring|].
      rewrite E2, <- Hsim. ring. }
    apply mul_zero_cases in Hz. destruct Hz as [Hz|Hz]; [left; exact Hz|right].
    transitivity (c - cstar + cstar); [ring|]. rewrite Hz. ring.
  Qed.

  Lemma simulated_vc1_lemma strict w pf nonce sup cstar :
    let hidden := snd (vsplit' (p_mask pf) (hs' w (p_count pf)) sup) in
    p_c1 pf = lin' [p_aprime pf; h0' w (p_count pf)] (p_r1 pf) + (p_abar pf - p_d pf) * cstar ->
    verify' strict Fixed w pf nonce sup = VAccept ->
    p_abar pf = p_d pf \/
    H (tr' (p_abar pf) (p_aprime pf) (h0' w (p_count pf)) (p_c1 pf) (p_d pf) hidden (p_c2 pf)) nonce = cstar.
  Proof.
    intros hidden Hsim A. apply verify_accept_iff in A. unfold accepts_spec in A. destruct A as [_ A]. fold hidden in A.
    set (c := H _ nonce) in *.
    destruct A as [_ [_ [_ [_ [E1 _]]]]].
    assert (Hz : (p_abar pf - p_d pf) * (c - cstar) = 0).
    { transitivity ((lin' [p_aprime pf; h0' w (p_count pf)] (p_r1 pf) + (p_abar pf - p_d pf) * c)
                    - (lin' [p_aprime pf; h0' w (p_count pf)] (p_r1 pf) + (p_abar pf - p_d pf) * cstar)); [ring|].
      rewrite E1, <- Hsim. ring. }
    apply mul_zero_cases in Hz. destruct Hz as [Hz|Hz].
    - left. transitivity (p_abar pf - p_d pf + p_d pf); [ring|]. rewrite Hz. ring.
    - right. transitivity (c - cstar + cstar); [ring|]. rewrite Hz. ring.
  Qed.
  (* ---------- positions: exchanging two revealed messages needs equal generators ---------- *)
  Lemma dot_combine_app : forall (A C B D : list F), length A = length C ->
    dot' (combine (A ++ B) (C ++ D)) = dot' (combine A C) + dot' (combine B D).
  Proof.
    induction A as [|a A IH]; intros [|c C] B D Hl; cbn in Hl; try discriminate.
    - cbn. ring.
    - cbn [app combine dot]. rewrite (IH C B D) by lia. ring.
  Qed.

  Lemma swap_dot_lemma G1 gi G2 gj G3 M1 mi M2 mj M3 :
    length G1 = length M1 -> length G2 = length M2 ->
    dot' (combine (G1 ++ gi :: G2 ++ gj :: G3) (M1 ++ mi :: M2 ++ mj :: M3))
    = dot' (combine (G1 ++ gi :: G2 ++ gj :: G3) (M1 ++ mj :: M2 ++ mi :: M3)) ->
    gi = gj \/ mi = mj.
  Proof.
    intros L1 L2 E.
    rewrite !(dot_combine_app G1 _ _ _ L1) in E. cbn [combine dot] in E.
    rewrite !(dot_combine_app G2 _ _ _ L2) in E. cbn [combine dot] in E.
    assert (Hz : (gi - gj) * (mi - mj) = 0).
    { set (X := dot' (combine G1 M1)) in *. set (Y := dot' (combine G2 M2)) in *. set (Z := dot' (combine G3 M3)) in *.
      transitivity ((X + (gi * mi + (Y + (gj * mj + Z)))) - (X + (gi * mj + (Y + (gj * mi + Z))))); [ring|].
      rewrite E. ring. }
    apply mul_zero_cases in Hz. destruct Hz as [Hz|Hz]; [left|right].
    - transitivity (gi - gj + gj); [ring|]. rewrite Hz. ring.
    - transitivity (mi - mj + mj); [ring|]. rewrite Hz. ring.
  Qed.
  (* a single altered response scalar is rejected unless its base is the identity *)
  Lemma single_response_lemma strict w pf j x nonce sup :
    verify' strict Fixed w pf nonce sup = VAccept ->
    verify' strict Fixed w {| p_count := p_count pf; p_mask := p_mask pf; p_aprime := p_aprime pf; p_abar := p_abar pf;
                              p_d := p_d pf; p_c1 := p_c1 pf; p_r1 := p_r1 pf; p_c2 := p_c2 pf;
                              p_r2 := upd j x (p_r2 pf) |} nonce sup = VAccept ->
    (j < length (p_r2 pf))%nat ->
    nth j (p_d pf :: h0' w (p_count pf) :: snd (vsplit' (p_mask pf) (hs' w (p_count pf)) sup)) 0 = 0 \/
    x = nth j (p_r2 pf) 0.
  Proof.
    intros A1 A2 Hj.
    pose proof (response_counts_lemma _ _ _ _ _ A1) as [_ L2].
    pose proof (binding_responses_lemma _ _ _ _ _ _ _ A1 A2) as [_ E].
    rewrite lin_upd in E by (cbn [length]; lia).
    set (b := nth j _ 0) in *. set (old := nth j (p_r2 pf) 0) in *.
    assert (Hz : b * (x - old) = 0).
    { match type of E with ?l + ?t = ?l' => transitivity ((l + t) - l'); [ring|rewrite E; ring] end. }
    apply mul_zero_cases in Hz. destruct Hz as [Hz|Hz]; [left; exact Hz|right].
    transitivity (x - old + old); [ring|]. rewrite Hz. ring.
  Qed.
End ExpProofs.
