(* JSON trees with a nested induction principle (stdlib only). *)
From Coq Require Import List String ZArith Bool Lia.
Import ListNotations.
Open Scope string_scope.

Inductive json :=
| JNull | JBool (b : bool) | JNum (z : Z) | JStr (s : string)
| JArr (l : list json) | JObj (m : list (string * json)).

(* nested induction principle *)
Section JsonInd.
  Variable P : json -> Prop.
  Hypothesis Hnull : P JNull.
  Hypothesis Hbool : forall b, P (JBool b).
  Hypothesis Hnum : forall z, P (JNum z).
  Hypothesis Hstr : forall s, P (JStr s).
  Hypothesis Harr : forall l, Forall P l -> P (JArr l).
  Hypothesis Hobj : forall m, Forall (fun kv => P (snd kv)) m -> P (JObj m).
  Fixpoint json_ind' (j : json) : P j :=
    match j with
    | JNull => Hnull | JBool b => Hbool b | JNum z => Hnum z | JStr s => Hstr s
    | JArr l => Harr l ((fix go (l : list json) : Forall P l :=
                           match l with [] => Forall_nil _ | x :: r => Forall_cons _ (json_ind' x) (go r) end) l)
    | JObj m => Hobj m ((fix go (m : list (string * json)) : Forall (fun kv => P (snd kv)) m :=
                           match m with [] => Forall_nil _ | kv :: r => Forall_cons _ (json_ind' (snd kv)) (go r) end) m)
    end.
End JsonInd.

Fixpoint lookup (m : list (string * json)) (k : string) : option json :=
  match m with [] => None | (k', v) :: r => if String.eqb k k' then Some v else lookup r k end.

