(* Results of modelled Go functions.  Panic is produced exactly where the Go code has an unchecked
   type assertion, nil dereference, data-dependent slice bound or a library call documented to panic;
   Diverge is fuel exhaustion and is never a normal-looking value. *)
From Coq Require Import NArith.

Inductive ecode := ENotFound | EInvalid | ERejected | EOther.
Inductive res (A : Type) := Ok (a : A) | Err (e : ecode) | Panic (site : N) | Diverge.
Arguments Ok {A}. Arguments Err {A}. Arguments Panic {A}. Arguments Diverge {A}.

Definition bind {A B} (r : res A) (f : A -> res B) : res B :=
  match r with Ok a => f a | Err e => Err e | Panic s => Panic s | Diverge => Diverge end.
Definition is_ok {A} (r : res A) : bool := match r with Ok _ => true | _ => false end.
Definition is_err {A} (r : res A) : bool := match r with Err _ => true | _ => false end.
Definition is_panic {A} (r : res A) : bool := match r with Panic _ => true | _ => false end.
Definition ecode_eqb (a b : ecode) : bool :=
  match a, b with
  | ENotFound, ENotFound | EInvalid, EInvalid | ERejected, ERejected | EOther, EOther => true
  | _, _ => false
  end.
