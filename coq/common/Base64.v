From Coq Require Import List NArith ZArith Bool Lia ZifyN ZifyBool.
Import ListNotations.
Open Scope N_scope.
Ltac Zify.zify_post_hook ::= Z.div_mod_to_equations.

(* Base64 at the level of 6-bit symbols (the alphabet map char<->sextet is a separate bijection table).
   Bytes and sextets are N; well-formedness is stated where needed. *)
Definition byte_ok (b : N) := b < 256.
Definition sext_ok (s : N) := s < 64.

(* encode 3 bytes -> 4 sextets; tail of 1 byte -> 2 sextets; tail of 2 bytes -> 3 sextets (raw, no padding) *)
Fixpoint encode (bs : list N) : list N :=
  match bs with
  | a :: b :: c :: r =>
      (a / 4) :: ((a mod 4) * 16 + b / 16) :: ((b mod 16) * 4 + c / 64) :: (c mod 64) :: encode r
  | [a; b] => [a / 4; (a mod 4) * 16 + b / 16; (b mod 16) * 4]
  | [a] => [a / 4; (a mod 4) * 16]
  | [] => []
  end.

(* Go's decoder.  strict=false ignores the unused low bits of the last sextet of a 2- or 3-symbol tail;
   strict=true requires them to be zero.  A tail of one symbol is an error in both. *)
Fixpoint decode (strict : bool) (ss : list N) : option (list N) :=
  match ss with
  | w :: x :: y :: z :: r =>
      match r with
      | [] => Some [w * 4 + x / 16; (x mod 16) * 16 + y / 4; (y mod 4) * 64 + z]
      | _ => match decode strict r with
             | Some t => Some ((w * 4 + x / 16) :: ((x mod 16) * 16 + y / 4) :: ((y mod 4) * 64 + z) :: t)
             | None => None
             end
      end
  | [w; x; y] => if strict && negb (y mod 4 =? 0) then None
                 else Some [w * 4 + x / 16; (x mod 16) * 16 + y / 4]
  | [w; x] => if strict && negb (x mod 16 =? 0) then None else Some [w * 4 + x / 16]
  | [_] => None
  | [] => Some []
  end.

Lemma encode_sext bs : Forall byte_ok bs -> Forall sext_ok (encode bs).
Proof.
  revert bs. fix IH 1. intros [|a [|b [|c r]]] H; cbn [encode].
  - constructor.
  - inversion H; subst. unfold byte_ok, sext_ok in *. repeat constructor; lia.
  - inversion H as [|? ? Ha H']; subst. inversion H'; subst. unfold byte_ok, sext_ok in *. repeat constructor; lia.
  - inversion H as [|? ? Ha H1]; subst. inversion H1 as [|? ? Hb H2]; subst. inversion H2 as [|? ? Hc H3]; subst.
    unfold byte_ok, sext_ok in *. repeat (constructor; [lia|]). apply IH; assumption.
Qed.

(* round trip for every byte string, in both decoder modes *)
Theorem decode_encode strict bs : Forall byte_ok bs -> decode strict (encode bs) = Some bs.
Proof.
  revert bs. fix IH 1. intros [|a [|b [|c r]]] H.
  - reflexivity.
  - inversion H; subst. unfold byte_ok in *. cbn [encode decode].
    replace ((a mod 4 * 16) mod 16 =? 0) with true by (symmetry; apply N.eqb_eq; lia).
    rewrite andb_false_r. do 2 f_equal. lia.
  - inversion H as [|? ? Ha H']; subst. inversion H' as [|? ? Hb _]; subst. unfold byte_ok in *. cbn [encode decode].
    replace ((b mod 16 * 4) mod 4 =? 0) with true by (symmetry; apply N.eqb_eq; lia).
    rewrite andb_false_r. f_equal. f_equal; [lia|]. f_equal. lia.
  - inversion H as [|? ? Ha H1]; subst. inversion H1 as [|? ? Hb H2]; subst. inversion H2 as [|? ? Hc H3]; subst.
    unfold byte_ok in *. cbn [encode]. specialize (IH r H3).
    cbn [decode]. destruct (encode r) eqn:He.
    + destruct r as [|? [|? [|? ?]]]; cbn in He; try discriminate. f_equal. f_equal; [lia|]. f_equal; [lia|]. f_equal. lia.
    + rewrite IH. f_equal. f_equal; [lia|]. f_equal; [lia|]. f_equal. lia.
Qed.

(* the lenient decoder has extra preimages: 15 (two-symbol tail) resp. 3 (three-symbol tail) alternatives
   for the last symbol decode to the same bytes; the strict decoder has none *)
Theorem lenient_tail2 w x x' : x / 16 = x' / 16 -> decode false [w; x] = decode false [w; x'].
Proof. intros H. cbn. rewrite H. reflexivity. Qed.
Theorem lenient_tail3 w x y y' : y / 4 = y' / 4 -> decode false [w; x; y] = decode false [w; x; y'].
Proof. intros H. cbn. rewrite H. reflexivity. Qed.
Theorem strict_tail2_unique w x x' bs : sext_ok x -> sext_ok x' ->
  decode true [w; x] = Some bs -> decode true [w; x'] = Some bs -> x = x'.
Proof.
  unfold sext_ok. intros Hx Hx'. cbn.
  destruct (x mod 16 =? 0) eqn:E1; cbn; [|discriminate]. destruct (x' mod 16 =? 0) eqn:E2; cbn; [|discriminate].
  apply N.eqb_eq in E1, E2. intros H1 H2. inversion H1; subst. inversion H2. lia.
Qed.
(* the witness behind observation #6: "QQ" and "QR" style tails *)
Example lenient_witness : decode false [16; 16] = decode false [16; 17] /\ decode true [16; 17] = None.
Proof. split; reflexivity. Qed.


