From Coq Require Import List Arith Bool Lia.
Import ListNotations.

Section Lin.
  Variables (op out S : Type).
  Variable sstep : S -> op -> S * out.      (* sequential specification *)
  Variable out_eqb : out -> out -> bool.

  Inductive ev := Inv (i : nat) (o : op) | Lin (i : nat) | Ret (i : nat) (r : out).
  Definition trace := list ev.

  (* x occurs strictly before y *)
  Definition before {A} (x y : A) (l : list A) : Prop := exists l1 l2 l3, l = l1 ++ x :: l2 ++ y :: l3.

  Lemma before_trans_mid {A} (x y z : A) l : NoDup l -> before x y l -> before y z l -> before x z l.
  Proof.
    intros Hnd (a1 & a2 & a3 & E1) (b1 & b2 & b3 & E2).
    (* y occurs once, so the two decompositions agree on the position of y *)
    assert (Ea : l = (a1 ++ x :: a2) ++ y :: a3) by (rewrite E1, <- app_assoc; reflexivity).
    assert (Hn : ~ In y (a1 ++ x :: a2)).
    { pose proof Hnd as H. rewrite Ea in H. apply NoDup_remove_2 in H. intro Hi. apply H. apply in_or_app; left; exact Hi. }
    assert (Hn' : ~ In y b1).
    { pose proof Hnd as H. rewrite E2 in H. apply NoDup_remove_2 in H. intro Hi. apply H. apply in_or_app; left; exact Hi. }
    assert (Hy : a1 ++ x :: a2 = b1).
    { assert (E : (a1 ++ x :: a2) ++ y :: a3 = b1 ++ y :: b2 ++ z :: b3) by (rewrite <- Ea, <- E2; reflexivity).
      clear - E Hn Hn'. revert b1 E Hn'. induction (a1 ++ x :: a2) as [|h t IH]; intros [|h' t'] E Hn'; cbn in *.
      - reflexivity.
      - inversion E; subst. exfalso; apply Hn'; left; reflexivity.
      - inversion E; subst. exfalso; apply Hn; left; reflexivity.
      - inversion E; subst. f_equal. apply IH; [intro; apply Hn; right; assumption|assumption|intro; apply Hn'; right; assumption]. }
    exists a1, (a2 ++ y :: b2), b3. rewrite E2, <- Hy. repeat (rewrite <- app_assoc; cbn). reflexivity.
  Qed.

  (* order of linearization points *)
  Fixpoint lins (t : trace) : list nat :=
    match t with [] => [] | Lin i :: r => i :: lins r | _ :: r => lins r end.

  Lemma lins_app a b : lins (a ++ b) = lins a ++ lins b.
  Proof. induction a as [|[| |] a IH]; cbn; rewrite ?IH; reflexivity. Qed.

  Lemma before_lins i j t : before (Lin i) (Lin j) t -> before i j (lins t).
  Proof. intros (l1 & l2 & l3 & ->). exists (lins l1), (lins l2), (lins l3).
    rewrite lins_app; cbn. rewrite lins_app; cbn. reflexivity. Qed.

  (* every operation's linearization point lies between its invocation and its return *)
  Definition points_inside (t : trace) : Prop :=
    (forall i o, In (Inv i o) t -> before (Inv i o) (Lin i) t) /\
    (forall i r, In (Ret i r) t -> before (Lin i) (Ret i r) t).

  (* real-time order of the history is respected by the order of linearization points *)
  Theorem realtime_respected t i j r o :
    NoDup t -> points_inside t ->
    before (Ret i r) (Inv j o) t -> before i j (lins t).
  Proof.
    intros Hnd [Hinv Hret] Hb.
    assert (Hi : In (Ret i r) t) by (destruct Hb as (l1 & l2 & l3 & ->); apply in_or_app; right; left; reflexivity).
    assert (Hj : In (Inv j o) t).
    { destruct Hb as (l1 & l2 & l3 & ->). apply in_or_app; right; right. apply in_or_app; right; left; reflexivity. }
    apply before_lins.
    apply (before_trans_mid _ (Ret i r)); [assumption|apply Hret; assumption|].
    apply (before_trans_mid _ (Inv j o)); [assumption|assumption|apply Hinv; assumption].
  Qed.

  (* legality: replaying the operations in the order of their linearization points gives the returned values *)
  Variable op_of : nat -> option op.
  Variable ret_of : nat -> option out.
  Fixpoint legal (s : S) (order : list nat) : bool :=
    match order with
    | [] => true
    | i :: r => match op_of i, ret_of i with
                | Some o, Some x => let '(s', y) := sstep s o in out_eqb x y && legal s' r
                | Some o, None => let '(s', _) := sstep s o in legal s' r     (* pending op that took effect *)
                | None, _ => false
                end
    end.

  Definition linearizable (s0 : S) (t : trace) : Prop :=
    exists order, legal s0 order = true /\
      forall i j r o, before (Ret i r) (Inv j o) t -> before i j order.

  Theorem lin_by_points s0 t :
    NoDup t -> points_inside t -> legal s0 (lins t) = true -> linearizable s0 t.
  Proof. intros Hnd Hp Hl. exists (lins t). split; [exact Hl|]. intros. eapply realtime_respected; eassumption. Qed.
End Lin.

