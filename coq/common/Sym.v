From Coq Require Import List NArith Bool Lia.
Import ListNotations.

(* symbolic terms *)
Inductive term :=
| Bytes (n : N)                         (* public data *)
| Junk (n : N)                          (* attacker garbage *)
| Pub (k : N)
| AEnc (key : term) (aad : term) (m : term)   (* ciphertext+tag *)
| Wrap (kek : term) (cek : term)
| Kdf (l : list term)
| DH (a b : N)                          (* normalised: a <= b *)
| Tup (l : list term).

Definition dh (a b : N) : term := if N.leb a b then DH a b else DH b a.
Lemma dh_comm a b : dh a b = dh b a.
Proof. unfold dh. destruct (N.leb_spec a b), (N.leb_spec b a); try reflexivity; try lia.
  assert (a = b) by lia. subst; reflexivity. Qed.

Fixpoint term_eqb (x y : term) {struct x} : bool :=
  let fix list_eqb (l1 l2 : list term) {struct l1} : bool :=
      match l1, l2 with
      | [], [] => true
      | a :: r1, b :: r2 => term_eqb a b && list_eqb r1 r2
      | _, _ => false
      end in
  match x, y with
  | Bytes a, Bytes b => N.eqb a b
  | Junk a, Junk b => N.eqb a b
  | Pub a, Pub b => N.eqb a b
  | AEnc k a m, AEnc k' a' m' => term_eqb k k' && term_eqb a a' && term_eqb m m'
  | Wrap k c, Wrap k' c' => term_eqb k k' && term_eqb c c'
  | Kdf l, Kdf l' => list_eqb l l'
  | DH a b, DH a' b' => N.eqb a a' && N.eqb b b'
  | Tup l, Tup l' => list_eqb l l'
  | _, _ => false
  end.

(* we only need reflexivity + soundness; prove by a size-indexed induction *)
Fixpoint tsize (t : term) : nat :=
  match t with
  | AEnc k a m => S (tsize k + tsize a + tsize m)
  | Wrap k c => S (tsize k + tsize c)
  | Kdf l | Tup l => S (fold_right (fun x n => tsize x + n) 0 l)
  | _ => 1
  end.

Lemma term_eqb_spec_n : forall n x y, tsize x <= n -> term_eqb x y = true <-> x = y.
Proof.
  induction n as [|n IH]; intros x y Hs.
  - destruct x; simpl in Hs; lia.
  - assert (Hl : forall l l', fold_right (fun x n => tsize x + n) 0 l <= n ->
      ((fix list_eqb (l1 l2 : list term) {struct l1} : bool :=
          match l1, l2 with
          | [], [] => true
          | a :: r1, b :: r2 => term_eqb a b && list_eqb r1 r2
          | _, _ => false
          end) l l') = true <-> l = l').
    { induction l as [|a l IHl]; intros [|b l'] Hl; simpl; split; intro H; try reflexivity; try discriminate.
      - apply andb_true_iff in H as [H1 H2]. simpl in Hl.
        apply IH in H1; [|lia]. apply IHl in H2; [|lia]. subst; reflexivity.
      - inversion H; subst. apply andb_true_iff; split.
        + apply IH; [simpl in Hl; lia|reflexivity].
        + apply IHl; [simpl in Hl; lia|reflexivity]. }
    destruct x, y; simpl in *; split; intro H; try discriminate; try reflexivity;
      repeat match goal with
      | H : _ && _ = true |- _ => apply andb_true_iff in H as [? ?]
      | H : N.eqb _ _ = true |- _ => apply N.eqb_eq in H; subst
      end; try reflexivity.
    all: try (inversion H; subst; rewrite ?N.eqb_refl; reflexivity).
    + f_equal; (apply (IH _ _); [lia|assumption]).
    + inversion H; subst. rewrite !andb_true_iff; repeat split; apply IH; try lia; reflexivity.
    + f_equal; (apply (IH _ _); [lia|assumption]).
    + inversion H; subst. rewrite !andb_true_iff; repeat split; apply IH; try lia; reflexivity.
    + f_equal. apply Hl; [lia|assumption].
    + inversion H; subst. apply Hl; [lia|reflexivity].
    + f_equal. apply Hl; [lia|assumption].
    + inversion H; subst. apply Hl; [lia|reflexivity].
Qed.

Lemma term_eqb_eq x y : term_eqb x y = true <-> x = y.
Proof. apply (term_eqb_spec_n (tsize x)); lia. Qed.
Lemma term_eqb_refl x : term_eqb x x = true.
Proof. apply term_eqb_eq; reflexivity. Qed.

Definition adec (key aad c : term) : option term :=
  match c with
  | AEnc k a m => if term_eqb k key && term_eqb a aad then Some m else None
  | _ => None
  end.
Definition unwrap (kek w : term) : option term :=
  match w with
  | Wrap k c => if term_eqb k kek then Some c else None
  | _ => None
  end.
