(* C19 — property theorems only.  Every proof is `exact <lemma>` (or a closed computation for a refutation
   witness); Print Assumptions follows each.

   Reading guide.  "Fixed" is the code after the fix: commit (Wallet.checkAuth), "AsIs" the code as found.
   An operation `WOp i t k` is a token-taking Wallet method called on wallet instance i with token t;
   `admitted r` says the call got past the gate (it reached the store / the key manager: it returned data,
   "not found", "already exists" or success); the three rejections are RLocked, RBadToken, RErr.
   `live_own st t u` = the session table holds a session of token t, not expired at the current time, whose
   user is u.  `grants_run` lists the (token, profile) pairs returned by the Opens of a history. *)
From Coq Require Import List NArith Bool String.
Import ListNotations.
From VF Require Import C19.Model C19.Proofs C19.GateTypes gen.Gen_C19 C19.Gates.
Local Open Scope N_scope.

(* FULL STATEMENT, part 1 (repaired code): after ANY history (any number of profiles, instances, opens, closes,
   ticks, operations), an operation presented to an instance of profile u with token t is admitted ONLY IF
   t was returned by opening an instance of that same profile u in this history, and its session is still in
   the table and unexpired now. *)
Theorem admitted_only_with_live_token_of_that_profile : forall ops i t k u h,
  nth_error (insts (fst (run Fixed init ops))) i = Some (u, h) ->
  admitted (snd (step Fixed (fst (run Fixed init ops)) (WOp i t k))) = true ->
  In (t, u) (grants_run Fixed init ops) /\ live_own (fst (run Fixed init ops)) t u = true.
Proof. exact admitted_granted. Qed.
Print Assumptions admitted_only_with_live_token_of_that_profile.

(* the same gate in every state whatsoever (reachable or not) *)
Theorem admitted_only_with_live_own_session : forall st i t k u h,
  nth_error (insts st) i = Some (u, h) ->
  admitted (snd (step Fixed st (WOp i t k))) = true -> live_own st t u = true.
Proof. exact admitted_own. Qed.
Print Assumptions admitted_only_with_live_own_session.

(* part 2: a rejected operation changes NOTHING: profiles, stores, keys, handles, the session table and the
   expiry of every session are what they were (so a rejected presentation does not keep a session alive) *)
Theorem rejected_changes_nothing : forall v st i t k,
  admitted (snd (step v st (WOp i t k))) = false -> fst (step v st (WOp i t k)) = st.
Proof. exact rejected_same. Qed.
Print Assumptions rejected_changes_nothing.

(* part 3: any other string / closed / expired: a token with no unexpired session is rejected, whatever the method
   (content of every type, listing by type or by collection, key creation and import, Query, Issue, Prove, Verify,
   Derive, ResolveCredentialManifest, SignJWT) *)
Theorem token_without_live_session_rejected : forall st i t k,
  (forall s, In s (sessions st) -> s_tok s = t -> live (now st) s = false) ->
  admitted (snd (step Fixed st (WOp i t k))) = false.
Proof. exact dead_token_rejected. Qed.
Print Assumptions token_without_live_session_rejected.

(* a token of a different profile, even live, even with both wallets open: rejected, state untouched *)
Theorem live_token_of_other_profile_rejected : forall st i t k u h s,
  nth_error (insts st) i = Some (u, h) ->
  In s (sessions st) -> s_tok s = t -> live (now st) s = true -> s_user s <> u ->
  step Fixed st (WOp i t k) = (st, RBadToken).
Proof. exact foreign_token_rejected. Qed.
Print Assumptions live_token_of_other_profile_rejected.

(* after close (through any instance of the profile) no token of that profile is live *)
Theorem close_revokes_every_token_of_the_profile : forall v st i u h t,
  nth_error (insts st) i = Some (u, h) -> live_own (fst (step v st (WClose i))) t u = false.
Proof. exact close_revokes. Qed.
Print Assumptions close_revokes_every_token_of_the_profile.

(* after expiry: once time has passed the expiry of the token's session(s), the token is rejected *)
Theorem expired_token_rejected : forall st t dt i k,
  (forall s, In s (sessions st) -> s_tok s = t -> s_exp s < now st + dt) ->
  admitted (snd (step Fixed (fst (step Fixed st (WTick dt))) (WOp i t k))) = false.
Proof. exact tick_expires. Qed.
Print Assumptions expired_token_rejected.

(* a token value is granted at most once in a history (a closed or expired token never becomes valid again) *)
Theorem tokens_granted_once : forall v ops, NoDup (map fst (grants_run v init ops)).
Proof. exact grants_once. Qed.
Print Assumptions tokens_granted_once.

(* one session per user: after any history a profile has at most one live token (so Close, which removes one
   session of the user, removes every way in) *)
Theorem at_most_one_live_token_per_profile : forall v ops u t1 t2,
  live_own (fst (run v init ops)) t1 u = true -> live_own (fst (run v init ops)) t2 u = true -> t1 = t2.
Proof. exact one_live_token. Qed.
Print Assumptions at_most_one_live_token_per_profile.

(* a profile update (new passphrase / KMS options) revokes no token and grants none: sessions, handles, contents, keys
   and the store manager are what they were; creating a profile over an existing one is refused and changes nothing.
   (The correspondence checks on the real wallet that the update also leaves every token decision, every stored row
   and every key's owner as the model says, for instances made before and after the update.) *)
Theorem profile_update_changes_no_session_or_content : forall v st u, fst (step v st (WUpdate u)) = st.
Proof. exact update_same. Qed.
Print Assumptions profile_update_changes_no_session_or_content.

Theorem profile_recreation_refused : forall v st u,
  existsb (N.eqb u) (profiles st) = true -> step v st (WCreate u) = (st, RErr).
Proof. exact recreate_same. Qed.
Print Assumptions profile_recreation_refused.

(* ISOLATION.  Whatever a token operation hands back (Get: a value; GetAll by type or by collection: rows) is a row
   of the store of the profile of the instance it was called on ... *)
Theorem reads_return_own_rows_only : forall v st i t k u h st' r,
  nth_error (insts st) i = Some (u, h) ->
  step v st (WOp i t k) = (st', r) ->
  (forall x, r = RVal x -> exists c, k = KGet c /\ In (u, (c, x)) (contents st)) /\
  (forall l, r = RAll l -> forall c x, In (c, x) l -> In (u, (c, x)) (contents st)).
Proof. exact wop_reads_own. Qed.
Print Assumptions reads_return_own_rows_only.

(* ... no operation changes the rows of a profile other than the one of the instance it was called on ... *)
Theorem other_profiles_rows_untouched : forall v st o u',
  (forall i t k, o = WOp i t k -> inst_user st i <> Some u') ->
  rows_of (contents (fst (step v st o))) u' = rows_of (contents st) u'.
Proof. exact others_rows_untouched. Qed.
Print Assumptions other_profiles_rows_untouched.

(* ... and every row found in profile u's store after any history was put there by an admitted Add called on an
   instance of u (which, by part 1, presented a live token of u) *)
Theorem every_row_was_added_through_its_own_profile : forall v ops row,
  In row (contents (fst (run v init ops))) -> In row (adds_run v init ops).
Proof. exact rows_provenance. Qed.
Print Assumptions every_row_was_added_through_its_own_profile.

(* keys (repaired code): every key is wrapped by the master key of the profile through whose instance
   CreateKeyPair was called *)
Theorem every_key_belongs_to_the_profile_that_created_it : forall ops row,
  In row (keys (fst (run Fixed init ops))) -> In row (keyops_run Fixed init ops).
Proof. exact keys_provenance. Qed.
Print Assumptions every_key_belongs_to_the_profile_that_created_it.

(* HISTORICAL REFUTATIONS: the code as found (before fix: 58baf02) violates parts 1 and keys.
   Witnesses are kept in corpus/C19 and replayed on the implementation on every run. *)
Definition witness_setup : list wop :=
  [WCreate 1; WCreate 2; WNew 1; WNew 2; WOpen 0%nat true 0; WOpen 1%nat true 0].

Theorem admitted_only_own_asis_refuted :
  all_admitted_own AsIs init (witness_setup ++ [WOp 1%nat 0 (KGet 1)]) = false /\
  all_admitted_own Fixed init (witness_setup ++ [WOp 1%nat 0 (KGet 1)]) = true.
Proof. split; vm_compute; reflexivity. Qed.
Print Assumptions admitted_only_own_asis_refuted.

Theorem key_ownership_asis_refuted :
  keys_own AsIs (witness_setup ++ [WOp 1%nat 0 KCreateKey]) = false /\
  keys_own Fixed (witness_setup ++ [WOp 1%nat 0 KCreateKey; WOp 1%nat 1 KCreateKey]) = true.
Proof. split; vm_compute; reflexivity. Qed.
Print Assumptions key_ownership_asis_refuted.

(* the code before fix: 27c6940 let Verify / Derive / ResolveCredentialManifest with raw input succeed with a token that
   was never issued, as long as the wallet instance was unlocked *)
Theorem raw_input_methods_asis_refuted :
  all_admitted_own AsIs init (witness_setup ++ [WOp 0%nat 900 (KUse MVerifyRaw 0 0); WOp 0%nat 900 (KUse MDeriveRaw 0 0);
                                                WOp 0%nat 900 (KUse MResolveRaw 0 0)]) = false /\
  snd (run Fixed init (witness_setup ++ [WOp 0%nat 900 (KUse MVerifyRaw 0 0); WOp 0%nat 900 (KUse MDeriveRaw 0 0);
                                         WOp 0%nat 900 (KUse MResolveRaw 0 0)]))
  = [RDone; RDone; RDone; RDone; RTok 0; RTok 1; RBadToken; RBadToken; RBadToken].
Proof. split; vm_compute; reflexivity. Qed.
Print Assumptions raw_input_methods_asis_refuted.

(* the code before fix: bf22940 reported success for Add(Key, ...) with a key content that carries no private key
   material — no importer ran, so no session was ever looked up — for ANY token: never issued and on a wallet never
   opened, closed, expired.  Repaired: the session is looked up (ErrWalletLocked without one), a foreign live token is
   refused by checkAuth, the own live token passes *)
Theorem add_key_without_material_asis_refuted :
  all_admitted_own AsIs init ([WCreate 1; WNew 1; WOp 0%nat 900 KAddKeyEmpty]) = false /\
  snd (run Fixed init (witness_setup ++ [WOp 0%nat 900 KAddKeyEmpty; WOp 0%nat 1 KAddKeyEmpty; WOp 0%nat 0 KAddKeyEmpty;
                                         WClose 0%nat; WOp 0%nat 0 KAddKeyEmpty]))
  = [RDone; RDone; RDone; RDone; RTok 0; RTok 1; RLocked; RBadToken; RDone; RBool true; RLocked].
Proof. split; vm_compute; reflexivity. Qed.
Print Assumptions add_key_without_material_asis_refuted.

(* KNOWN FINDING (design level: one key store for all profiles).  FULL isolation of keys would say: the answer to
   a key import through profile u is the answer u would get if the key rows of all other profiles did not exist.
   Refuted on the faithful model: profile 2 is told "already exists" for an id that only profile 1 holds. *)
Theorem import_answer_independent_of_other_profiles_refuted :
  let st := fst (run Fixed init (witness_setup ++ [WOp 0%nat 0 (KImportKey 1001)])) in
  nth_error (insts st) 1%nat = Some (2, true) /\
  snd (step Fixed st (WOp 1%nat 1 (KImportKey 1001))) = RExists /\
  snd (step Fixed (upd_keys st (keys_of (keys st) 2) (next_key st)) (WOp 1%nat 1 (KImportKey 1001))) = RDone.
Proof. vm_compute. repeat split. Qed.
Print Assumptions import_answer_independent_of_other_profiles_refuted.

(* ... and it holds whenever no other profile holds a key under the requested id (the refuted class exactly) *)
Theorem import_answer_independent_of_other_profiles_partial : forall st i t kn u h,
  nth_error (insts st) i = Some (u, h) ->
  (forall p, In p (keys st) -> fst p = kn -> snd p = u) ->
  snd (step Fixed st (WOp i t (KImportKey kn))) =
  snd (step Fixed (upd_keys st (keys_of (keys st) u) (next_key st)) (WOp i t (KImportKey kn))).
Proof. exact import_alone. Qed.
Print Assumptions import_answer_independent_of_other_profiles_partial.

(* THE SOURCE'S GATE STRUCTURE (generated table, coq/gen/Gen_C19.v: rewritten from /repo on every run).
   Every exported method of wallet.Wallet and wallet.DidComm that takes a token starts with checkAuth / checkSession
   of its own token parameter (or does nothing at all: Export / Import), that check is seen to compare this very
   token with the session table, the token reaches nothing that could not be followed, a method with only the weak
   check (foreign tokens) presents the token to the store handle or to getSession; the token-free methods are
   exactly Open, Close, VerifyJWT.  A new method that forgets the check, or checks another string, breaks this. *)
Theorem every_wallet_method_checks_its_own_token_first : forallb wrow_ok wallet_rows = true.
Proof. exact wallet_rows_ok_true. Qed.
Print Assumptions every_wallet_method_checks_its_own_token_first.

Theorem every_token_taking_method_is_gated : forall r, In r wallet_rows -> w_tok r = true -> w_inert r = false ->
  w_gate r <> GNone /\ w_gate_own r = true /\ w_leaks r = 0%nat.
Proof. exact every_token_method_gated. Qed.
Print Assumptions every_token_taking_method_is_gated.

(* the two checks compare with the user the wallet object was made for, by look-ups that do not re-arm the expiry *)
Theorem the_checks_compare_with_the_wallets_own_user : checks_ok = true.
Proof. exact checks_ok_true. Qed.
Print Assumptions the_checks_compare_with_the_wallets_own_user.

(* vcwallet.Client: every method takes the token from c.auth() first (set by Open to the token wallet.Open returned,
   reset by Close) and forwards it, as first argument, to the checked wallet / didcomm method of its own name *)
Theorem client_forwards_its_own_token_to_the_method_of_its_name : client_rows_ok = true.
Proof. exact client_rows_ok_true. Qed.
Print Assumptions client_forwards_its_own_token_to_the_method_of_its_name.

(* command controller: every handler makes the wallet for the user OF THE REQUEST and calls the method of its own
   name with the token OF THE SAME REQUEST *)
Theorem command_routes_user_and_token_of_one_request : command_rows_ok = true.
Proof. exact command_rows_ok_true. Qed.
Print Assumptions command_routes_user_and_token_of_one_request.

(* the per-method gate tables of the model (pre_session, store_use, uses_km; the content and key operations) are
   what the source methods do, in both directions *)
Theorem model_gates_are_the_source_gates : model_consistent = true.
Proof. exact model_consistent_true. Qed.
Print Assumptions model_gates_are_the_source_gates.

Example gate_table_nonvacuous :
  Nat.leb 22 (List.length wallet_rows) = true /\ Nat.leb 20 (List.length client_rows) = true /\
  Nat.leb 18 (List.length command_rows) = true /\
  option_map w_gate (wrow_named RDidComm "PresentProof"%string) = Some GSession /\
  option_map w_sinks (wrow_named RWallet "Prove"%string) = Some [SkGet; SkOpen; SkOther; SkSoft].
Proof. vm_compute. repeat split. Qed.

(* NON-VACUITY: a concrete two-profile history in which own tokens are admitted and return data, a foreign live
   token, a closed token, an expired token and a never-issued token are rejected, and a use re-arms the expiry *)
Example gate_nonvacuous :
  snd (run Fixed init (witness_setup ++
    [WOp 0%nat 0 (KAdd 1 7); WOp 0%nat 0 (KGet 1);          (* own: RDone, RVal 7 *)
     WOp 1%nat 0 (KGet 1); WOp 1%nat 0 KCreateKey;          (* foreign live: rejected *)
     WOp 1%nat 1 (KGet 1);                                  (* profile 2's own token: admitted, sees nothing *)
     WOp 0%nat 900 (KGet 1);                                (* never issued *)
     WClose 0%nat; WOp 0%nat 0 (KGet 1);                    (* closed *)
     WOpen 0%nat true 10; WTick 6; WOp 0%nat 2 (KGet 1);    (* new token 2, used at 6: re-armed to 16 *)
     WTick 6; WOp 0%nat 2 (KGet 1);                         (* at 12: still live thanks to the use *)
     WTick 12; WOp 0%nat 2 (KGet 1)]))                      (* at 24 > 22: expired *)
  = [RDone; RDone; RDone; RDone; RTok 0; RTok 1;
     RDone; RVal 7; RBadToken; RBadToken; RNotFound; RBadToken;
     RBool true; RLocked; RTok 2; RDone; RVal 7; RDone; RVal 7; RDone; RBadToken].
Proof. vm_compute. reflexivity. Qed.

Example update_nonvacuous :
  snd (run Fixed init (witness_setup ++
    [WOp 0%nat 0 (KAdd 1 7); WUpdate 1; WOp 0%nat 0 (KGet 1); WNew 1; WOp 2%nat 0 (KGet 1); WOp 2%nat 1 (KGet 1);
     WCreate 1; WOpen 2%nat false 10; WOpen 2%nat true 10; WClose 2%nat; WOp 0%nat 0 (KGet 1); WOpen 2%nat true 10]))
  = [RDone; RDone; RDone; RDone; RTok 0; RTok 1;
     RDone; RDone; RVal 7; RDone; RVal 7; RBadToken; RErr; RErr; RAlready; RBool true; RBadToken; RTok 2].
Proof. vm_compute. reflexivity. Qed.

Example grants_nonvacuous :
  grants_run Fixed init (witness_setup ++ [WClose 0%nat; WOpen 0%nat true 10]) = [(0, 1); (1, 2); (2, 1)].
Proof. vm_compute. reflexivity. Qed.

(* every method class gets past the gate with the own live token once its data is there *)
Example methods_nonvacuous :
  snd (run Fixed init (witness_setup ++
    [WOp 0%nat 0 (KImportKey 1001); WOp 0%nat 0 (KAdd 101 5); WOp 0%nat 0 (KAddIn 201 6 101);
     WOp 0%nat 0 (KGetAllIn 2 101); WOp 0%nat 0 (KGetAll 2); WOp 0%nat 0 KCreateKey;
     WOp 0%nat 0 (KUse MQuery 0 0); WOp 0%nat 0 (KUse MIssue 0 1001); WOp 0%nat 0 (KUse MProveStored 201 1001);
     WOp 0%nat 0 (KUse MVerifyStored 201 0); WOp 0%nat 0 (KUse MDeriveStored 201 0);
     WOp 0%nat 0 (KUse MResolveStored 201 0); WOp 0%nat 0 (KUse MSignJWT 0 0);
     WOp 1%nat 0 (KUse MIssue 0 1001); WOp 1%nat 1 (KUse MIssue 0 1001); WOp 1%nat 1 (KImportKey 1001)]))
  = [RDone; RDone; RDone; RDone; RTok 0; RTok 1;
     RDone; RDone; RDone; RAll [(201, 6)]; RAll [(201, 6)]; RKey 0;
     RDone; RDone; RDone; RDone; RDone; RDone; RDone;
     RBadToken; RNotFound; RExists].
Proof. vm_compute. reflexivity. Qed.
