(* C19 — property theorems only. *)
From Coq Require Import List NArith Bool.
Import ListNotations.
From VF Require Import C19.Model C19.Proofs.
Local Open Scope N_scope.

(* the code as found admits a live token of profile 1 on an instance of profile 2 *)
Theorem admitted_only_own_asis_refuted :
  exists ops, all_admitted_own AsIs init ops = false /\ all_admitted_own Fixed init ops = true.
Proof.
  exists [WCreate 1; WCreate 2; WNew 1; WNew 2; WOpen 0%nat true 0; WOpen 1%nat true 0; WOp 1%nat 0 (KGet 1)].
  split; vm_compute; reflexivity.
Qed.
Print Assumptions admitted_only_own_asis_refuted.
