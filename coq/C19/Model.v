(* C19 — wallet sessions (pkg/wallet/session.go, contents.go, wallet.go, kmsclient.go, jwt.go): executable model.
   No proofs here: this file must keep running when a proof breaks.

   State = what the process and the shared storage provider hold:
     - the process-global session table  token -> (user, ttl, absolute expiry), expiry re-armed on every
       successful lookup (walletSessionManager.gstore, getSession),
     - the process-global store manager  profile -> expiry (NOT re-armed; walletStoreManager.gstore),
     - the wallet instances created by wallet.New, each with its store handle (storeLocked / open closure),
     - the content rows of every profile (content id = 100 * content type + number: the code's key is
       "<type>_<id>"), the collection mappings, and the KMS rows (ONE shared "kmsdb" for all profiles, each row
       wrapped by the master key of the profile whose key manager wrote it; created keys are numbered, imported
       keys carry the explicit id they were imported under).
   One operation = one exported call; the token check is modelled AS THE CODE PERFORMS IT, per method:
     [Fixed: Wallet.checkAuth — a live session of the token that belongs to another user => ErrInvalidAuthToken]
     [Fixed: Wallet.checkSession for Verify / Derive / ResolveCredentialManifest — no live session => ErrInvalidAuthToken]
     store gate (cs.open):   handle locked => ErrWalletLocked ; no live session => ErrInvalidAuthToken
     soft store gate (walletVDR.Resolve of a DID): handle locked => ErrWalletLocked ; no live session => falls back
                             to the VDR and goes on
     key manager gate:       no live session => ErrInvalidAuthToken (CreateKeyPair) / ErrWalletLocked (signers)
   Time is in abstract units (the harness uses 1 unit = 60 ms); an entry with expiry e is dead when e < now
   (gcache: expiration.Before(now)). *)
From Coq Require Import List NArith Bool.
Import ListNotations.
Local Open Scope N_scope.

Definition user := N.
Definition tok := N.
Definition cid := N.
Definition time := N.

(* the code as found (AsIs) and after the fix: commits (Fixed) *)
Inductive variant := AsIs | Fixed.

Record session := { s_tok : tok; s_user : user; s_ttl : N; s_exp : time }.

Record wstate := {
  now : time;
  profiles : list user;
  sessions : list session;
  stores : list (user * time);
  insts : list (user * bool);          (* (user, store handle open?) in creation order *)
  contents : list (user * (cid * N));  (* (profile, (content id, value)) *)
  maps : list (user * (cid * cid));    (* (profile, (content id, collection id)): collection mapping rows *)
  keys : list (N * user);              (* (key id, profile whose master key wraps it) *)
  next_tok : tok;
  next_key : N }.

Definition init : wstate :=
  {| now := 0; profiles := []; sessions := []; stores := []; insts := []; contents := []; maps := []; keys := [];
     next_tok := 0; next_key := 0 |}.

(* the token-taking methods that neither add nor list contents nor create keys *)
Inductive meth :=
| MQuery | MIssue | MProveStored | MProveRaw | MVerifyStored | MVerifyRaw
| MDeriveStored | MDeriveRaw | MResolveStored | MResolveRaw | MSignJWT.

Inductive okind :=
| KAdd (c : cid) (v : N)             (* Add, any content type but Key *)
| KGet (c : cid)
| KGetAll (ct : N)                   (* GetAll of one content type *)
| KRemove (c : cid)
| KCreateKey
| KImportKey (kn : N)                (* Add(Key, ...): import under the explicit key id kn *)
| KAddIn (c : cid) (v : N) (col : cid)   (* Add with AddByCollection *)
| KGetAllIn (ct : N) (col : cid)     (* GetAll with FilterByCollection *)
| KUse (m : meth) (c : cid) (kn : N)  (* method m on stored credential c / with signing key kn *)
| KAddKeyEmpty.                      (* Add(Key, ...) with a key content that carries NO private key material: nothing
                                        is imported *)

Inductive wop :=
| WCreate (u : user)                         (* wallet.CreateProfile *)
| WNew (u : user)                            (* wallet.New: a new instance, numbered in creation order *)
| WOpen (i : nat) (pass : bool) (ttl : N)    (* instance i .Open(passphrase right?, WithUnlockExpiry ttl; 0 = default) *)
| WClose (i : nat)                           (* instance i .Close() *)
| WTick (dt : N)                             (* time passes *)
| WOp (i : nat) (t : tok) (k : okind)        (* instance i .<k>(token t, ...) *)
| WUpdate (u : user).                        (* wallet.UpdateProfile with a new passphrase *)

Inductive wout :=
| RDone | RTok (t : tok) | RBool (b : bool)
| RLocked            (* ErrWalletLocked *)
| RBadToken          (* ErrInvalidAuthToken *)
| RAlready           (* ErrAlreadyUnlocked *)
| RNotFound | RExists | RErr
| RVal (v : N) | RAll (l : list (cid * N)) | RKey (k : N).

Definition default_ttl : N := 10000.   (* 10 minutes in units of 60 ms *)

Definition live (t : time) (s : session) : bool := negb (s_exp s <? t).

Definition find_session (ss : list session) (t : time) (k : tok) : option session :=
  find (fun s => (s_tok s =? k) && live t s) ss.

(* getSession: SetWithExpire(token, session, session.sessionExpiry) *)
Definition refresh (ss : list session) (t : time) (k : tok) : list session :=
  map (fun s => if (s_tok s =? k) && live t s
                then {| s_tok := s_tok s; s_user := s_user s; s_ttl := s_ttl s; s_exp := t + s_ttl s |}
                else s) ss.

(* createSession / closeSession: GetALL(true) and compare users *)
Definition user_live (ss : list session) (t : time) (u : user) : bool :=
  existsb (fun s => (s_user s =? u) && live t s) ss.
Definition drop_user (ss : list session) (t : time) (u : user) : list session :=
  filter (fun s => negb ((s_user s =? u) && live t s)) ss.

(* Fixed only — walletSessionManager.ownedByOther: a live session of that token exists and is another user's *)
Definition foreign (ss : list session) (t : time) (k : tok) (u : user) : bool :=
  existsb (fun s => (s_tok s =? k) && live t s && negb (s_user s =? u)) ss.

Fixpoint store_get (l : list (user * time)) (u : user) : option time :=
  match l with
  | [] => None
  | (u', e) :: r => if u =? u' then Some e else store_get r u
  end.
Definition store_del (l : list (user * time)) (u : user) : list (user * time) :=
  filter (fun p => negb (fst p =? u)) l.

Fixpoint set_handle (l : list (user * bool)) (i : nat) (b : bool) : list (user * bool) :=
  match l, i with
  | [], _ => []
  | (u, _) :: r, O => (u, b) :: r
  | x :: r, S j => x :: set_handle r j b
  end.

Definition rows_of (cs : list (user * (cid * N))) (u : user) : list (cid * N) :=
  map snd (filter (fun r => fst r =? u) cs).
Fixpoint row_get (l : list (cid * N)) (c : cid) : option N :=
  match l with
  | [] => None
  | (c', v) :: r => if c =? c' then Some v else row_get r c
  end.
Fixpoint insert_row (x : cid * N) (l : list (cid * N)) : list (cid * N) :=
  match l with
  | [] => [x]
  | y :: r => if fst x <=? fst y then x :: l else y :: insert_row x r
  end.
Definition sort_rows (l : list (cid * N)) : list (cid * N) := fold_right insert_row [] l.

Definition ctype (c : cid) : N := c / 100.
Definition of_type (ct : N) (l : list (cid * N)) : list (cid * N) := filter (fun r => ctype (fst r) =? ct) l.

(* content ids of profile u mapped to collection col *)
Definition mapped (ms : list (user * (cid * cid))) (u : user) (col : cid) : list cid :=
  map (fun m => fst (snd m)) (filter (fun m => (fst m =? u) && (snd (snd m) =? col)) ms).
Definition in_cids (l : list cid) (c : cid) : bool := existsb (N.eqb c) l.
Definition unmap (ms : list (user * (cid * cid))) (u : user) (c : cid) : list (user * (cid * cid)) :=
  filter (fun m => negb ((fst m =? u) && (fst (snd m) =? c))) ms.

Definition has_key (ks : list (N * user)) (kn : N) (u : user) : bool :=
  existsb (fun p => (fst p =? kn) && (snd p =? u)) ks.
Definition key_id_taken (ks : list (N * user)) (kn : N) : bool := existsb (fun p => fst p =? kn) ks.

(* ---- record updates ---- *)
Definition upd_sessions (st : wstate) (ss : list session) : wstate :=
  {| now := now st; profiles := profiles st; sessions := ss; stores := stores st; insts := insts st;
     contents := contents st; maps := maps st; keys := keys st; next_tok := next_tok st; next_key := next_key st |}.
Definition upd_contents (st : wstate) (cs : list (user * (cid * N))) : wstate :=
  {| now := now st; profiles := profiles st; sessions := sessions st; stores := stores st; insts := insts st;
     contents := cs; maps := maps st; keys := keys st; next_tok := next_tok st; next_key := next_key st |}.
Definition upd_maps (st : wstate) (ms : list (user * (cid * cid))) : wstate :=
  {| now := now st; profiles := profiles st; sessions := sessions st; stores := stores st; insts := insts st;
     contents := contents st; maps := ms; keys := keys st; next_tok := next_tok st; next_key := next_key st |}.
Definition upd_keys (st : wstate) (ks : list (N * user)) (nk : N) : wstate :=
  {| now := now st; profiles := profiles st; sessions := sessions st; stores := stores st; insts := insts st;
     contents := contents st; maps := maps st; keys := ks; next_tok := next_tok st; next_key := nk |}.
Definition upd_open (st : wstate) (ss : list session) (sts : list (user * time)) (is : list (user * bool)) (nt : tok) : wstate :=
  {| now := now st; profiles := profiles st; sessions := ss; stores := sts; insts := is;
     contents := contents st; maps := maps st; keys := keys st; next_tok := nt; next_key := next_key st |}.
Definition upd_profiles (st : wstate) (ps : list user) : wstate :=
  {| now := now st; profiles := ps; sessions := sessions st; stores := stores st; insts := insts st;
     contents := contents st; maps := maps st; keys := keys st; next_tok := next_tok st; next_key := next_key st |}.
Definition upd_now (st : wstate) (t : time) : wstate :=
  {| now := t; profiles := profiles st; sessions := sessions st; stores := stores st; insts := insts st;
     contents := contents st; maps := maps st; keys := keys st; next_tok := next_tok st; next_key := next_key st |}.

(* ---- how each method passes the gates ---- *)
Inductive storeuse := SNone | SSoft | SHard.

(* Wallet.checkSession up front (repaired code only) *)
Definition pre_session (m : meth) : bool :=
  match m with
  | MVerifyStored | MVerifyRaw | MDeriveStored | MDeriveRaw | MResolveStored | MResolveRaw => true
  | _ => false
  end.
(* SHard: reads contents through cs.open; SSoft: only resolves a DID through the content-based VDR *)
Definition store_use (m : meth) : storeuse :=
  match m with
  | MQuery | MProveStored | MVerifyStored | MDeriveStored | MResolveStored => SHard
  | MIssue | MProveRaw | MVerifyRaw | MDeriveRaw => SSoft
  | MResolveRaw | MSignJWT => SNone
  end.
(* signs with the key manager of the token's session; a missing session is reported as ErrWalletLocked *)
Definition uses_km (m : meth) : bool :=
  match m with MIssue | MProveStored | MProveRaw | MSignJWT => true | _ => false end.
Definition needs_cred (m : meth) : bool :=
  match m with MProveStored | MVerifyStored | MDeriveStored | MResolveStored => true | _ => false end.

(* the data-level part of an admitted content operation on the store of profile u *)
Definition content_op (st : wstate) (u : user) (k : okind) : wstate * wout :=
  match k with
  | KAdd c v =>
      match row_get (rows_of (contents st) u) c with
      | Some _ => (st, RExists)
      | None => (upd_contents st ((u, (c, v)) :: contents st), RDone)
      end
  | KGet c =>
      match row_get (rows_of (contents st) u) c with
      | Some v => (st, RVal v)
      | None => (st, RNotFound)
      end
  | KGetAll ct => (st, RAll (sort_rows (of_type ct (rows_of (contents st) u))))
  | KRemove c =>
      (upd_maps (upd_contents st (filter (fun r => negb ((fst r =? u) && (fst (snd r) =? c))) (contents st)))
                (unmap (maps st) u c), RDone)
  | KAddIn c v col =>
      (* mapCollection: the collection must exist; the mapping row is written BEFORE the content is saved *)
      match row_get (rows_of (contents st) u) col with
      | None => (st, RNotFound)
      | Some _ =>
          let st1 := upd_maps st ((u, (c, col)) :: unmap (maps st) u c) in
          match row_get (rows_of (contents st) u) c with
          | Some _ => (st1, RExists)
          | None => (upd_contents st1 ((u, (c, v)) :: contents st), RDone)
          end
      end
  | KGetAllIn ct col =>
      let ids := mapped (maps st) u col in
      let rows := filter (fun r => in_cids ids (fst r)) (of_type ct (rows_of (contents st) u)) in
      (* a mapping whose content is gone makes the listing fail *)
      if forallb (fun c => negb (ctype c =? ct) || match row_get (rows_of (contents st) u) c with Some _ => true | None => false end) ids
      then (st, RAll (sort_rows rows)) else (st, RNotFound)
  | _ => (st, RErr)
  end.

(* the data-level part of an admitted KUse: s = session found (None possible only on soft / no-gate paths) *)
Definition use_op (st : wstate) (u : user) (m : meth) (c : cid) (kn : N) (su : option user) : wout :=
  if needs_cred m && match row_get (rows_of (contents st) u) c with Some _ => false | None => true end then RNotFound
  else if uses_km m && negb (match su with Some x => has_key (keys st) kn x | None => false end) then RNotFound
  else match m with
       | MQuery => match of_type 2 (rows_of (contents st) u) with [] => RNotFound | _ => RDone end
       | _ => RDone
       end.

Definition step (v : variant) (st : wstate) (o : wop) : wstate * wout :=
  match o with
  | WCreate u =>
      if existsb (N.eqb u) (profiles st) then (st, RErr)
      else (upd_profiles st (u :: profiles st), RDone)
  | WNew u =>
      if negb (existsb (N.eqb u) (profiles st)) then (st, RErr) else
      (* newContentStore: storeManager().get(profile.ID); gcache.Get drops an expired entry *)
      match store_get (stores st) u with
      | None => (upd_open st (sessions st) (stores st) (insts st ++ [(u, false)]) (next_tok st), RDone)
      | Some e =>
          if e <? now st
          then (upd_open st (sessions st) (store_del (stores st) u) (insts st ++ [(u, false)]) (next_tok st), RDone)
          else (upd_open st (sessions st) (stores st) (insts st ++ [(u, true)]) (next_tok st), RDone)
      end
  | WOpen i pass ttl0 =>
      match nth_error (insts st) i with
      | None => (st, RErr)
      | Some (u, _) =>
          if negb pass then (st, RErr)                                    (* createKeyManager fails first *)
          else if user_live (sessions st) (now st) u then (st, RAlready)  (* createSession *)
          else
            let ttl := if ttl0 =? 0 then default_ttl else ttl0 in
            let s := {| s_tok := next_tok st; s_user := u; s_ttl := ttl; s_exp := now st + ttl |} in
            (upd_open st (s :: sessions st)
                      ((u, now st + ttl) :: store_del (stores st) u)    (* storeManager().persist *)
                      (set_handle (insts st) i true)                    (* updateStoreHandles *)
                      (next_tok st + 1), RTok (next_tok st))
      end
  | WClose i =>
      match nth_error (insts st) i with
      | None => (st, RErr)
      | Some (u, _) =>
          (* closeSession(user) && contents.Close(): the right operand runs only when a session was removed *)
          if user_live (sessions st) (now st) u then
            (upd_open st (drop_user (sessions st) (now st) u) (store_del (stores st) u)
                      (set_handle (insts st) i false) (next_tok st),
             RBool (match store_get (stores st) u with Some _ => true | None => false end))
          else (st, RBool false)
      end
  | WTick dt => (upd_now st (now st + dt), RDone)
  | WUpdate u =>
      (* UpdateProfile: the stored profile gets new KMS options (a new master lock under the new passphrase); its ID
         (the content store), the sessions, the store manager entry and every instance made before are what they
         were: no token is revoked, none is granted.  (Which passphrase opens which instance is the harness's
         reading of WOpen's `pass`: an instance keeps the profile it was made with.) *)
      if existsb (N.eqb u) (profiles st) then (st, RDone) else (st, RErr)
  | WOp i t k =>
      match nth_error (insts st) i with
      | None => (st, RErr)
      | Some (u, hopen) =>
          if match v with Fixed => foreign (sessions st) (now st) t u | AsIs => false end
          then (st, RBadToken) else
          let fs := find_session (sessions st) (now st) t in
          let st1 := upd_sessions st (refresh (sessions st) (now st) t) in   (* state after a successful lookup *)
          match k with
          | KCreateKey =>
              (* CreateKeyPair: sessionManager().getSession(token).KeyManager — no store handle involved *)
              match fs with
              | None => (st, RBadToken)
              | Some s => (upd_keys st1 ((next_key st, s_user s) :: keys st) (next_key st + 1), RKey (next_key st))
              end
          | KImportKey kn =>
              (* Add(Key): importKeyBase58/JWK -> getSession -> ImportPrivateKey(WithKeyID); a missing session is
                 reported as ErrWalletLocked; the shared key store refuses an id that is already there *)
              match fs with
              | None => (st, RLocked)
              | Some s => if key_id_taken (keys st) kn then (st1, RExists)
                          else (upd_keys st1 ((kn, s_user s) :: keys st) (next_key st), RDone)
              end
          | KUse m c kn =>
              if match v with Fixed => pre_session m | AsIs => false end && match fs with None => true | Some _ => false end
              then (st, RBadToken) else
              match store_use m, hopen, fs with
              | SHard, false, _ | SSoft, false, _ => (st, RLocked)
              | SHard, true, None => (st, RBadToken)
              | _, _, _ =>
                  if uses_km m && match fs with None => true | Some _ => false end then (st, RLocked) else
                  (* the session is re-armed where the method really looks it up: cs.open or the signer *)
                  (match fs with
                   | Some _ => if match store_use m with SNone => false | _ => true end || uses_km m then st1 else st
                   | None => st
                   end,
                   use_op st u m c kn (match fs with Some s => Some (s_user s) | None => None end))
              end
          | KAddKeyEmpty =>
              (* Add(Key) -> saveKey with neither privateKeyJwk nor privateKeyBase58: no importer runs.  As found, no
                 session was looked up at all (any string "succeeded", on a locked instance too); repaired (fix:
                 saveKey looks the session up first): a missing session is reported as ErrWalletLocked *)
              match v with
              | AsIs => (st, RDone)
              | Fixed => match fs with None => (st, RLocked) | Some _ => (st1, RDone) end
              end
          | _ =>
              if negb hopen then (st, RLocked) else                  (* storeLocked handle *)
              match fs with                                          (* cs.open(auth) *)
              | None => (st, RBadToken)
              | Some _ => content_op st1 u k
              end
          end
      end
  end.

Fixpoint run (v : variant) (st : wstate) (ops : list wop) : wstate * list wout :=
  match ops with
  | [] => (st, [])
  | o :: r => let '(s1, x) := step v st o in let '(s2, xs) := run v s1 r in (s2, x :: xs)
  end.

(* ---- what the property talks about ---- *)

(* the call was let in: it reached the store / the key manager / the method body *)
Definition admitted (r : wout) : bool :=
  match r with RLocked | RBadToken | RErr => false | _ => true end.

Definition inst_user (st : wstate) (i : nat) : option user :=
  match nth_error (insts st) i with Some (u, _) => Some u | None => None end.

(* "a token returned by opening that same profile and not yet closed or expired", read off the session table *)
Definition live_own (st : wstate) (t : tok) (u : user) : bool :=
  existsb (fun s => (s_tok s =? t) && live (now st) s && (s_user s =? u)) (sessions st).

(* boolean statement used by the refutations of the as-is code: every admitted token operation of the history
   presented a live token of the instance's own profile *)
Fixpoint all_admitted_own (v : variant) (st : wstate) (ops : list wop) : bool :=
  match ops with
  | [] => true
  | o :: r =>
      let '(s1, x) := step v st o in
      match o with
      | WOp i t _ =>
          (if admitted x then match inst_user st i with Some u => live_own st t u | None => false end else true)
      | _ => true
      end && all_admitted_own v s1 r
  end.

(* ---- history-level bookkeeping used to STATE the property (never read by step) ---- *)

(* tokens granted along a run: (token, profile of the instance whose Open returned it) *)
Fixpoint grants_run (v : variant) (st : wstate) (ops : list wop) : list (tok * user) :=
  match ops with
  | [] => []
  | o :: r =>
      let '(s1, x) := step v st o in
      match o, x with
      | WOpen i _ _, RTok t =>
          match inst_user st i with Some u => [(t, u)] | None => [] end
      | _, _ => []
      end ++ grants_run v s1 r
  end.

(* content rows written along a run: (profile of the instance used, (id, value)) for every successful Add *)
Fixpoint adds_run (v : variant) (st : wstate) (ops : list wop) : list (user * (cid * N)) :=
  match ops with
  | [] => []
  | o :: r =>
      let '(s1, x) := step v st o in
      match o, x with
      | WOp i _ (KAdd c n), RDone | WOp i _ (KAddIn c n _), RDone =>
          match inst_user st i with Some u => [(u, (c, n))] | None => [] end
      | _, _ => []
      end ++ adds_run v s1 r
  end.

(* keys created or imported along a run: (key id, profile of the instance through which it was done) *)
Fixpoint keyops_run (v : variant) (st : wstate) (ops : list wop) : list (N * user) :=
  match ops with
  | [] => []
  | o :: r =>
      let '(s1, x) := step v st o in
      match o, x with
      | WOp i _ KCreateKey, RKey k | WOp i _ (KImportKey k), RDone =>
          match inst_user st i with Some u => [(k, u)] | None => [] end
      | _, _ => []
      end ++ keyops_run v s1 r
  end.

Definition pair_in (l : list (N * N)) (a b : N) : bool := existsb (fun p => (fst p =? a) && (snd p =? b)) l.

(* every key of the final state is wrapped for the profile through whose instance it was created *)
Definition keys_own (v : variant) (ops : list wop) : bool :=
  let st := fst (run v init ops) in
  forallb (fun p => pair_in (keyops_run v init ops) (fst p) (snd p)) (keys st).

(* the outcome of an import through profile u, with the key rows of all other profiles taken away *)
Definition keys_of (ks : list (N * user)) (u : user) : list (N * user) := filter (fun p => snd p =? u) ks.
