(* C19 — wallet sessions (pkg/wallet/session.go, contents.go, wallet.go, kmsclient.go): executable model.
   No proofs here: this file must keep running when a proof breaks.

   State = what the process and the shared storage provider hold:
     - the process-global session table  token -> (user, ttl, absolute expiry), expiry re-armed on every
       successful lookup (walletSessionManager.gstore, getSession),
     - the process-global store manager  profile -> expiry (NOT re-armed; walletStoreManager.gstore),
     - the wallet instances created by wallet.New, each with its store handle (storeLocked / open closure),
     - the content rows of every profile and the KMS rows (one shared "kmsdb", each row wrapped by the master
       key of the profile whose key manager wrote it).
   One operation = one exported call; the token check is modelled AS THE CODE PERFORMS IT:
     content operations:  [Fixed: Wallet.checkAuth]  ->  store handle locked?  ->  getSession(token) exists?
     key creation:        [Fixed: Wallet.checkAuth]  ->  getSession(token)  ->  the key manager OF THE TOKEN'S SESSION.
   Time is in abstract units (the harness uses 1 unit = 60 ms); an entry with expiry e is dead when e < now
   (gcache: expiration.Before(now)). *)
From Coq Require Import List NArith Bool.
Import ListNotations.
Local Open Scope N_scope.

Definition user := N.
Definition tok := N.
Definition cid := N.
Definition time := N.

(* the code as found (AsIs) and after the fix: commit (Fixed) *)
Inductive variant := AsIs | Fixed.

Record session := { s_tok : tok; s_user : user; s_ttl : N; s_exp : time }.

Record wstate := {
  now : time;
  profiles : list user;
  sessions : list session;
  stores : list (user * time);
  insts : list (user * bool);          (* (user, store handle open?) in creation order *)
  contents : list (user * (cid * N));  (* (profile, (content id, value)) *)
  keys : list (N * user);              (* (key number, profile whose master key wraps it) *)
  next_tok : tok;
  next_key : N }.

Definition init : wstate :=
  {| now := 0; profiles := []; sessions := []; stores := []; insts := []; contents := []; keys := [];
     next_tok := 0; next_key := 0 |}.

Inductive okind := KAdd (c : cid) (v : N) | KGet (c : cid) | KGetAll | KRemove (c : cid) | KCreateKey.

Inductive wop :=
| WCreate (u : user)                         (* wallet.CreateProfile *)
| WNew (u : user)                            (* wallet.New: a new instance, numbered in creation order *)
| WOpen (i : nat) (pass : bool) (ttl : N)    (* instance i .Open(passphrase right?, WithUnlockExpiry ttl; 0 = default) *)
| WClose (i : nat)                           (* instance i .Close() *)
| WTick (dt : N)                             (* time passes *)
| WOp (i : nat) (t : tok) (k : okind).       (* instance i .<k>(token t, ...) *)

Inductive wout :=
| RDone | RTok (t : tok) | RBool (b : bool)
| RLocked            (* ErrWalletLocked *)
| RBadToken          (* ErrInvalidAuthToken *)
| RAlready           (* ErrAlreadyUnlocked *)
| RNotFound | RExists | RErr
| RVal (v : N) | RAll (l : list (cid * N)) | RKey (k : N).

Definition default_ttl : N := 10000.   (* 10 minutes in units of 60 ms *)

Definition live (t : time) (s : session) : bool := negb (s_exp s <? t).

Definition find_session (ss : list session) (t : time) (k : tok) : option session :=
  find (fun s => (s_tok s =? k) && live t s) ss.

(* getSession: SetWithExpire(token, session, session.sessionExpiry) *)
Definition refresh (ss : list session) (t : time) (k : tok) : list session :=
  map (fun s => if (s_tok s =? k) && live t s
                then {| s_tok := s_tok s; s_user := s_user s; s_ttl := s_ttl s; s_exp := t + s_ttl s |}
                else s) ss.

(* createSession / closeSession: GetALL(true) and compare users *)
Definition user_live (ss : list session) (t : time) (u : user) : bool :=
  existsb (fun s => (s_user s =? u) && live t s) ss.
Definition drop_user (ss : list session) (t : time) (u : user) : list session :=
  filter (fun s => negb ((s_user s =? u) && live t s)) ss.

(* Fixed only — walletSessionManager.ownedByOther: a live session of that token exists and is another user's *)
Definition foreign (ss : list session) (t : time) (k : tok) (u : user) : bool :=
  existsb (fun s => (s_tok s =? k) && live t s && negb (s_user s =? u)) ss.

Fixpoint store_get (l : list (user * time)) (u : user) : option time :=
  match l with
  | [] => None
  | (u', e) :: r => if u =? u' then Some e else store_get r u
  end.
Definition store_del (l : list (user * time)) (u : user) : list (user * time) :=
  filter (fun p => negb (fst p =? u)) l.

Fixpoint set_handle (l : list (user * bool)) (i : nat) (b : bool) : list (user * bool) :=
  match l, i with
  | [], _ => []
  | (u, _) :: r, O => (u, b) :: r
  | x :: r, S j => x :: set_handle r j b
  end.

Definition rows_of (cs : list (user * (cid * N))) (u : user) : list (cid * N) :=
  map snd (filter (fun r => fst r =? u) cs).
Fixpoint row_get (l : list (cid * N)) (c : cid) : option N :=
  match l with
  | [] => None
  | (c', v) :: r => if c =? c' then Some v else row_get r c
  end.
Fixpoint insert_row (x : cid * N) (l : list (cid * N)) : list (cid * N) :=
  match l with
  | [] => [x]
  | y :: r => if fst x <=? fst y then x :: l else y :: insert_row x r
  end.
Definition sort_rows (l : list (cid * N)) : list (cid * N) := fold_right insert_row [] l.

Definition upd_sessions (st : wstate) (ss : list session) : wstate :=
  {| now := now st; profiles := profiles st; sessions := ss; stores := stores st; insts := insts st;
     contents := contents st; keys := keys st; next_tok := next_tok st; next_key := next_key st |}.
Definition upd_contents (st : wstate) (cs : list (user * (cid * N))) : wstate :=
  {| now := now st; profiles := profiles st; sessions := sessions st; stores := stores st; insts := insts st;
     contents := cs; keys := keys st; next_tok := next_tok st; next_key := next_key st |}.

(* a content operation on the store captured by the handle of an instance of profile u *)
Definition content_op (st : wstate) (u : user) (k : okind) : wstate * wout :=
  match k with
  | KAdd c v =>
      match row_get (rows_of (contents st) u) c with
      | Some _ => (st, RExists)
      | None => (upd_contents st ((u, (c, v)) :: contents st), RDone)
      end
  | KGet c =>
      match row_get (rows_of (contents st) u) c with
      | Some v => (st, RVal v)
      | None => (st, RNotFound)
      end
  | KGetAll => (st, RAll (sort_rows (rows_of (contents st) u)))
  | KRemove c =>
      (upd_contents st (filter (fun r => negb ((fst r =? u) && (fst (snd r) =? c))) (contents st)), RDone)
  | KCreateKey => (st, RErr)
  end.

Definition step (v : variant) (st : wstate) (o : wop) : wstate * wout :=
  match o with
  | WCreate u =>
      if existsb (N.eqb u) (profiles st) then (st, RErr)
      else ({| now := now st; profiles := u :: profiles st; sessions := sessions st; stores := stores st;
               insts := insts st; contents := contents st; keys := keys st;
               next_tok := next_tok st; next_key := next_key st |}, RDone)
  | WNew u =>
      if negb (existsb (N.eqb u) (profiles st)) then (st, RErr) else
      (* newContentStore: storeManager().get(profile.ID); gcache.Get drops an expired entry *)
      match store_get (stores st) u with
      | None =>
          ({| now := now st; profiles := profiles st; sessions := sessions st; stores := stores st;
              insts := insts st ++ [(u, false)]; contents := contents st; keys := keys st;
              next_tok := next_tok st; next_key := next_key st |}, RDone)
      | Some e =>
          if e <? now st then
            ({| now := now st; profiles := profiles st; sessions := sessions st; stores := store_del (stores st) u;
                insts := insts st ++ [(u, false)]; contents := contents st; keys := keys st;
                next_tok := next_tok st; next_key := next_key st |}, RDone)
          else
            ({| now := now st; profiles := profiles st; sessions := sessions st; stores := stores st;
                insts := insts st ++ [(u, true)]; contents := contents st; keys := keys st;
                next_tok := next_tok st; next_key := next_key st |}, RDone)
      end
  | WOpen i pass ttl0 =>
      match nth_error (insts st) i with
      | None => (st, RErr)
      | Some (u, _) =>
          if negb pass then (st, RErr)                                    (* createKeyManager fails first *)
          else if user_live (sessions st) (now st) u then (st, RAlready)  (* createSession *)
          else
            let ttl := if ttl0 =? 0 then default_ttl else ttl0 in
            let s := {| s_tok := next_tok st; s_user := u; s_ttl := ttl; s_exp := now st + ttl |} in
            ({| now := now st; profiles := profiles st; sessions := s :: sessions st;
                stores := (u, now st + ttl) :: store_del (stores st) u;   (* storeManager().persist *)
                insts := set_handle (insts st) i true;                    (* updateStoreHandles *)
                contents := contents st; keys := keys st;
                next_tok := next_tok st + 1; next_key := next_key st |}, RTok (next_tok st))
      end
  | WClose i =>
      match nth_error (insts st) i with
      | None => (st, RErr)
      | Some (u, _) =>
          (* closeSession(user) && contents.Close(): the right operand runs only when a session was removed *)
          if user_live (sessions st) (now st) u then
            ({| now := now st; profiles := profiles st; sessions := drop_user (sessions st) (now st) u;
                stores := store_del (stores st) u; insts := set_handle (insts st) i false;
                contents := contents st; keys := keys st;
                next_tok := next_tok st; next_key := next_key st |},
             RBool (match store_get (stores st) u with Some _ => true | None => false end))
          else (st, RBool false)
      end
  | WTick dt =>
      ({| now := now st + dt; profiles := profiles st; sessions := sessions st; stores := stores st;
          insts := insts st; contents := contents st; keys := keys st;
          next_tok := next_tok st; next_key := next_key st |}, RDone)
  | WOp i t k =>
      match nth_error (insts st) i with
      | None => (st, RErr)
      | Some (u, hopen) =>
          if match v with Fixed => foreign (sessions st) (now st) t u | AsIs => false end
          then (st, RBadToken) else
          match k with
          | KCreateKey =>
              (* CreateKeyPair: sessionManager().getSession(token).KeyManager — no store handle involved *)
              match find_session (sessions st) (now st) t with
              | None => (st, RBadToken)
              | Some s =>
                  ({| now := now st; profiles := profiles st; sessions := refresh (sessions st) (now st) t;
                      stores := stores st; insts := insts st; contents := contents st;
                      keys := (next_key st, s_user s) :: keys st;
                      next_tok := next_tok st; next_key := next_key st + 1 |}, RKey (next_key st))
              end
          | _ =>
              if negb hopen then (st, RLocked) else                  (* storeLocked handle *)
              match find_session (sessions st) (now st) t with       (* cs.open(auth) *)
              | None => (st, RBadToken)
              | Some _ => content_op (upd_sessions st (refresh (sessions st) (now st) t)) u k
              end
          end
      end
  end.

Fixpoint run (v : variant) (st : wstate) (ops : list wop) : wstate * list wout :=
  match ops with
  | [] => (st, [])
  | o :: r => let '(s1, x) := step v st o in let '(s2, xs) := run v s1 r in (s2, x :: xs)
  end.

(* ---- what the property talks about ---- *)

(* the call was let in: it reached the store / the key manager *)
Definition admitted (r : wout) : bool :=
  match r with RLocked | RBadToken | RErr => false | _ => true end.

Definition inst_user (st : wstate) (i : nat) : option user :=
  match nth_error (insts st) i with Some (u, _) => Some u | None => None end.

(* "a token returned by opening that same profile and not yet closed or expired", read off the session table *)
Definition live_own (st : wstate) (t : tok) (u : user) : bool :=
  existsb (fun s => (s_tok s =? t) && live (now st) s && (s_user s =? u)) (sessions st).

(* boolean statement used by the refutation of the as-is code: every admitted token operation of the history
   presented a live token of the instance's own profile *)
Fixpoint all_admitted_own (v : variant) (st : wstate) (ops : list wop) : bool :=
  match ops with
  | [] => true
  | o :: r =>
      let '(s1, x) := step v st o in
      match o with
      | WOp i t _ =>
          (if admitted x then match inst_user st i with Some u => live_own st t u | None => false end else true)
      | _ => true
      end && all_admitted_own v s1 r
  end.

(* ---- history-level bookkeeping used to STATE the property (never read by step) ---- *)

(* tokens granted along a run: (token, profile of the instance whose Open returned it) *)
Fixpoint grants_run (v : variant) (st : wstate) (ops : list wop) : list (tok * user) :=
  match ops with
  | [] => []
  | o :: r =>
      let '(s1, x) := step v st o in
      match o, x with
      | WOpen i _ _, RTok t =>
          match inst_user st i with Some u => [(t, u)] | None => [] end
      | _, _ => []
      end ++ grants_run v s1 r
  end.

(* content rows written along a run: (profile of the instance used, (id, value)) for every admitted Add *)
Fixpoint adds_run (v : variant) (st : wstate) (ops : list wop) : list (user * (cid * N)) :=
  match ops with
  | [] => []
  | o :: r =>
      let '(s1, x) := step v st o in
      match o, x with
      | WOp i _ (KAdd c n), RDone =>
          match inst_user st i with Some u => [(u, (c, n))] | None => [] end
      | _, _ => []
      end ++ adds_run v s1 r
  end.

(* keys created along a run: (key number, profile of the instance through which CreateKeyPair was called) *)
Fixpoint keyops_run (v : variant) (st : wstate) (ops : list wop) : list (N * user) :=
  match ops with
  | [] => []
  | o :: r =>
      let '(s1, x) := step v st o in
      match o, x with
      | WOp i _ KCreateKey, RKey k =>
          match inst_user st i with Some u => [(k, u)] | None => [] end
      | _, _ => []
      end ++ keyops_run v s1 r
  end.

Definition pair_in (l : list (N * N)) (a b : N) : bool := existsb (fun p => (fst p =? a) && (snd p =? b)) l.

(* every key of the final state is wrapped for the profile through whose instance it was created *)
Definition keys_own (v : variant) (ops : list wop) : bool :=
  let st := fst (run v init ops) in
  forallb (fun p => pair_in (keyops_run v init ops) (fst p) (snd p)) (keys st).
