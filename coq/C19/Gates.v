(* C19 — obligations over the GENERATED gate table (coq/gen/Gen_C19.v is rewritten from /repo's source by
   harness/c19gen on every run: an edit of the code that drops a check, checks another string, adds a token-taking
   method without a check, or routes a user and a token of different requests breaks a computation here).
   Every statement is a closed boolean computation over the finite table: vm_compute is a proof. *)
From Coq Require Import List String Bool Arith.
Import ListNotations.
From VF Require Import C19.GateTypes C19.Model gen.Gen_C19.
Local Open Scope string_scope.

Definition name_in (n : string) (l : list string) : bool := existsb (String.eqb n) l.

Fixpoint sinks_eqb (a b : list sink) : bool :=
  match a, b with
  | [], [] => true
  | x :: r, y :: t => sink_eqb x y && sinks_eqb r t
  | _, _ => false
  end.

Fixpoint strs_eqb (a b : list string) : bool :=
  match a, b with
  | [], [] => true
  | x :: r, y :: t => String.eqb x y && strs_eqb r t
  | _, _ => false
  end.

(* ---- wallet.Wallet and wallet.DidComm ---- *)

(* A method that takes a token either does nothing at all (Export / Import: unimplemented) or
   - its FIRST statement is checkAuth / checkSession of ITS OWN token parameter, returning on error,
   - that check is seen to compare this very token with the session table (ownedByOther / ownedBy among the sinks),
   - every call that receives the token could be followed to such a comparison (no leak),
   - and the weak check (checkAuth refuses only a live token of another user) is used only by a method that presents
     the token to the content store handle or to getSession (which refuse unknown / closed / expired tokens).
   A method without a token is one of the three that have none by design, and only Open / Close touch the managers. *)
Definition wrow_ok (r : wrow) : bool :=
  if w_tok r then
    w_inert r ||
    (w_gate_own r && Nat.eqb (w_leaks r) 0 &&
     match w_gate r with
     | GNone => false
     | GAuth => has_sink SkOther (w_sinks r) && (has_sink SkOpen (w_sinks r) || has_sink SkGet (w_sinks r))
     | GSession => has_sink SkOwned (w_sinks r)
     end)
  else
    match w_recv r with
    | RWallet => name_in (w_name r) ["Open"; "Close"; "VerifyJWT"] && (negb (w_state r) || name_in (w_name r) ["Open"; "Close"])
    | RDidComm => false
    end.

Definition wallet_rows_ok : bool := forallb wrow_ok wallet_rows.

(* the two checks compare with the user the wallet object was made for, through the look-ups that do not re-arm;
   the content based VDR presents its token to the store handle *)
Definition checks_ok : bool :=
  String.eqb checkAuth_user "c.userID" && String.eqb checkSession_user "c.userID" &&
  sinks_eqb checkAuth_sinks [SkOther] && sinks_eqb checkSession_sinks [SkOwned] && sinks_eqb vdr_resolve_sinks [SkOpen].

(* ---- vcwallet.Client: the token never comes from the caller; every method takes it from c.auth() first and
   forwards to the wallet / didcomm method of its own name with that token as first argument ---- *)
Definition crow_ok (r : crow) : bool :=
  if String.eqb (c_name r) "Open" then
    strs_eqb (c_targets r) ["wallet.Open"] && String.eqb (c_sets_auth r) "closure returning authToken"
  else if String.eqb (c_name r) "Close" then
    strs_eqb (c_targets r) ["wallet.Close"] && String.eqb (c_sets_auth r) "noAuth"
  else if name_in (c_name r) ["Export"; "Import"] then
    strs_eqb (c_targets r) [] && String.eqb (c_sets_auth r) ""
  else
    c_auth_first r && c_tok_is_auth r && String.eqb (c_sets_auth r) "" &&
    (strs_eqb (c_targets r) ["wallet." ++ c_name r] || strs_eqb (c_targets r) ["didComm." ++ c_name r]).

(* ... and the method it forwards to exists in the wallet table, takes a token and is checked *)
Definition wrow_named (rc : recv) (n : string) : option wrow :=
  find (fun r => match w_recv r, rc with RWallet, RWallet | RDidComm, RDidComm => String.eqb (w_name r) n | _, _ => false end)
       wallet_rows.

Definition crow_target_ok (r : crow) : bool :=
  if name_in (c_name r) ["Open"; "Close"; "Export"; "Import"] then true else
  match c_targets r with
  | [t] => match wrow_named (if String.prefix "wallet." t then RWallet else RDidComm) (c_name r) with
           | Some w => w_tok w && wrow_ok w && negb (w_inert w)
           | None => false
           end
  | _ => false
  end.

Definition client_rows_ok : bool := forallb crow_ok client_rows && forallb crow_target_ok client_rows.

(* ---- command controller: the wallet is made for the user of the request, the method of the handler's own name is
   called, and its token is the token of THE SAME request ---- *)
Definition hrow_ok (r : hrow) : bool :=
  if name_in (h_name r) ["CreateProfile"; "UpdateProfile"; "ProfileExists"] then
    strs_eqb (h_toks r) [] && forallb (String.prefix "wallet.") (h_calls r)
  else
    strs_eqb (h_users r) ["request.UserID"] && strs_eqb (h_calls r) [h_name r] &&
    match wrow_named RWallet (h_name r) with
    | None => false
    | Some w =>
        if w_tok w then strs_eqb (h_toks r) ["request.Auth"]
        else negb (strs_eqb (h_toks r) ["request.Auth"])      (* Open: unlock options; Close: none; VerifyJWT: the JWT *)
    end.

Definition command_rows_ok : bool := forallb hrow_ok command_rows.

(* ---- the model's per-method gate tables are the source's ---- *)
Definition meth_name (m : meth) : string :=
  match m with
  | MQuery => "Query" | MIssue => "Issue" | MProveStored | MProveRaw => "Prove"
  | MVerifyStored | MVerifyRaw => "Verify" | MDeriveStored | MDeriveRaw => "Derive"
  | MResolveStored | MResolveRaw => "ResolveCredentialManifest" | MSignJWT => "SignJWT"
  end.

Definition all_meths : list meth :=
  [MQuery; MIssue; MProveStored; MProveRaw; MVerifyStored; MVerifyRaw; MDeriveStored; MDeriveRaw;
   MResolveStored; MResolveRaw; MSignJWT].

(* what the model does for method class m is what the source method can do: same kind of first check; a hard / soft
   store gate or a key-manager look-up in the model only where the source method reaches one *)
Definition meth_consistent (m : meth) : bool :=
  match wrow_named RWallet (meth_name m) with
  | None => false
  | Some r =>
      Bool.eqb (pre_session m) (match w_gate r with GSession => true | _ => false end) &&
      match w_gate r with GNone => false | _ => true end &&
      match store_use m with
      | SHard => has_sink SkOpen (w_sinks r)
      | SSoft => has_sink SkSoft (w_sinks r)
      | SNone => true
      end &&
      (negb (uses_km m) || has_sink SkGet (w_sinks r))
  end.

(* ... and conversely every comparison the source method reaches is performed by some model variant of it *)
Definition row_covered (r : wrow) : bool :=
  match w_recv r with
  | RDidComm => true
  | RWallet =>
      match filter (fun m => String.eqb (meth_name m) (w_name r)) all_meths with
      | [] => true
      | ms =>
          (negb (has_sink SkOpen (w_sinks r)) || existsb (fun m => match store_use m with SHard => true | _ => false end) ms) &&
          (negb (has_sink SkSoft (w_sinks r)) || existsb (fun m => match store_use m with SNone => false | _ => true end) ms) &&
          (negb (has_sink SkGet (w_sinks r)) || existsb uses_km ms)
      end
  end.

(* the content and key operations of the model: Add / Get / GetAll / Remove go through checkAuth and the store handle
   (Add also to getSession: key import), CreateKeyPair through checkAuth and getSession and NOT through the handle *)
Definition sinks_named (n : string) : list sink :=
  match wrow_named RWallet n with Some r => w_sinks r | None => [] end.
Definition gate_named (n : string) : gate :=
  match wrow_named RWallet n with Some r => w_gate r | None => GNone end.
Definition is_auth (g : gate) : bool := match g with GAuth => true | _ => false end.

Definition content_rows_consistent : bool :=
  sinks_eqb (sinks_named "Get") [SkOpen; SkOther] && is_auth (gate_named "Get") &&
  sinks_eqb (sinks_named "GetAll") [SkOpen; SkOther] && is_auth (gate_named "GetAll") &&
  sinks_eqb (sinks_named "Remove") [SkOpen; SkOther] && is_auth (gate_named "Remove") &&
  sinks_eqb (sinks_named "Add") [SkGet; SkOpen; SkOther] && is_auth (gate_named "Add") &&
  sinks_eqb (sinks_named "CreateKeyPair") [SkGet; SkOther] && is_auth (gate_named "CreateKeyPair").

Definition model_consistent : bool :=
  forallb meth_consistent all_meths && forallb row_covered wallet_rows && content_rows_consistent.

Lemma wallet_rows_ok_true : wallet_rows_ok = true.
Proof. vm_compute. reflexivity. Qed.
Lemma checks_ok_true : checks_ok = true.
Proof. vm_compute. reflexivity. Qed.
Lemma client_rows_ok_true : client_rows_ok = true.
Proof. vm_compute. reflexivity. Qed.
Lemma command_rows_ok_true : command_rows_ok = true.
Proof. vm_compute. reflexivity. Qed.
Lemma model_consistent_true : model_consistent = true.
Proof. vm_compute. reflexivity. Qed.

(* what wrow_ok gives for one method, spelled out (used as the reading of the table) *)
Lemma wrow_ok_gated : forall r, wrow_ok r = true -> w_tok r = true -> w_inert r = false ->
  w_gate r <> GNone /\ w_gate_own r = true /\ w_leaks r = 0%nat.
Proof.
  intros r H Ht Hi. unfold wrow_ok in H. rewrite Ht, Hi in H. cbn [orb] in H.
  apply andb_true_iff in H. destruct H as [H Hg]. apply andb_true_iff in H. destruct H as [Ho Hl].
  apply Nat.eqb_eq in Hl. repeat split; auto. intro E. rewrite E in Hg. discriminate.
Qed.

Lemma every_token_method_gated : forall r, In r wallet_rows -> w_tok r = true -> w_inert r = false ->
  w_gate r <> GNone /\ w_gate_own r = true /\ w_leaks r = 0%nat.
Proof.
  intros r Hin. apply wrow_ok_gated.
  pose proof wallet_rows_ok_true as H. unfold wallet_rows_ok in H. rewrite forallb_forall in H. auto.
Qed.
