(* C19 — correspondence: the harness records, for the same op list, what the real wallet did and what the
   shared storage held after every op. *)
From Coq Require Import List NArith Bool.
Import ListNotations.
From VF Require Export C19.Model.
Local Open Scope N_scope.

Fixpoint rows_eqb (a b : list (cid * N)) : bool :=
  match a, b with
  | [], [] => true
  | (c, v) :: r, (c', v') :: t => (c =? c') && (v =? v') && rows_eqb r t
  | _, _ => false
  end.

Definition wout_eqb (a b : wout) : bool :=
  match a, b with
  | RDone, RDone | RLocked, RLocked | RBadToken, RBadToken | RAlready, RAlready
  | RNotFound, RNotFound | RExists, RExists | RErr, RErr => true
  | RTok x, RTok y | RVal x, RVal y | RKey x, RKey y => x =? y
  | RBool x, RBool y => Bool.eqb x y
  | RAll l, RAll l' => rows_eqb l l'
  | _, _ => false
  end.

(* the storage dump the harness takes: rows of users 1..3 (each sorted by content id), key owners by key number *)
Definition dump_users : list user := [1; 2; 3].
Definition dump_rows (st : wstate) : list (user * (cid * N)) :=
  flat_map (fun u => map (pair u) (sort_rows (rows_of (contents st) u))) dump_users.
Definition dump_keys (st : wstate) : list user := map snd (rev (keys st)).

Fixpoint urows_eqb (a b : list (user * (cid * N))) : bool :=
  match a, b with
  | [], [] => true
  | (u, (c, v)) :: r, (u', (c', v')) :: t => (u =? u') && (c =? c') && (v =? v') && urows_eqb r t
  | _, _ => false
  end.
Fixpoint ns_eqb (a b : list N) : bool :=
  match a, b with
  | [], [] => true
  | x :: r, y :: t => (x =? y) && ns_eqb r t
  | _, _ => false
  end.

(* one observation: the call's answer and the storage dump taken afterwards (None = the dump is what it was
   before the call: the harness prints a dump only when it changed) *)
Definition obs := (wout * option (list (user * (cid * N)) * list user))%type.
Record case := { c_ops : list wop; c_obs : list obs }.

Definition dump_ok (st s1 : wstate) (d : option (list (user * (cid * N)) * list user)) : bool :=
  match d with
  | Some (rows, ks) => urows_eqb rows (dump_rows s1) && ns_eqb ks (dump_keys s1)
  | None => urows_eqb (dump_rows st) (dump_rows s1) && ns_eqb (dump_keys st) (dump_keys s1)
  end.

Fixpoint check_from (st : wstate) (ops : list wop) (os : list obs) : bool :=
  match ops, os with
  | [], [] => true
  | o :: r, (x, d) :: t =>
      let '(s1, y) := step Fixed st o in
      wout_eqb x y && dump_ok st s1 d && check_from s1 r t
  | _, _ => false
  end.

Definition check_case (c : case) : bool := check_from init (c_ops c) (c_obs c).

(* ---- concurrent phase: the observed outcome must equal SOME sequential order of the model ---- *)

Fixpoint inserts {A : Type} (x : A) (l : list A) : list (list A) :=
  match l with
  | [] => [[x]]
  | y :: r => (x :: l) :: map (cons y) (inserts x r)
  end.
Fixpoint perms {A : Type} (l : list A) : list (list A) :=
  match l with
  | [] => [[]]
  | x :: r => flat_map (inserts x) (perms r)
  end.

(* run the overlapping calls in one order; every call must return what it was seen to return *)
Fixpoint lin_from (st : wstate) (l : list (wop * wout)) : option wstate :=
  match l with
  | [] => Some st
  | (o, x) :: r => let '(s1, y) := step Fixed st o in if wout_eqb x y then lin_from s1 r else None
  end.

(* pre: sequential prefix with observations; conc: calls released together, each with its return value;
   post: sequential suffix (every token ever issued is presented again) with observations *)
Record conc := { k_pre : list wop; k_pre_obs : list obs; k_conc : list (wop * wout);
                 k_post : list wop; k_post_obs : list obs }.

Definition check_conc (k : conc) : bool :=
  check_from init (k_pre k) (k_pre_obs k) &&
  let s := fst (run Fixed init (k_pre k)) in
  existsb (fun p => match lin_from s p with
                    | Some s1 => check_from s1 (k_post k) (k_post_obs k)
                    | None => false
                    end) (perms (k_conc k)).

Inductive xcase := Seq (c : case) | Conc (k : conc).
Definition check_xcase (x : xcase) : bool :=
  match x with Seq c => check_case c | Conc k => check_conc k end.

Fixpoint mismatches_from (i : nat) (cs : list xcase) : list nat :=
  match cs with
  | [] => []
  | c :: r => if check_xcase c then mismatches_from (S i) r else i :: mismatches_from (S i) r
  end.
Definition mismatches := mismatches_from 0.
