(* C19 — types of the generated gate table (coq/gen/Gen_C19.v, written by harness/c19gen from /repo's source). *)
From Coq Require Import List String Bool.
Import ListNotations.

Inductive recv := RWallet | RDidComm.

(* the first statement of a method: no check / Wallet.checkAuth (refuses a live token of another user) /
   Wallet.checkSession (refuses everything but a live token of this wallet's user) *)
Inductive gate := GNone | GAuth | GSession.

(* where a token meets the session table:
   SkOpen  cs.open(tok): the content store handle (locked, or getSession inside)
   SkSoft  newContentBasedVDR(tok, ...): the content store consulted for a DID, falling back to the VDR
   SkGet   sessionManager().getSession(tok): the key manager of the token's session (re-arms the expiry)
   SkOther / SkOwned  ownedByOther / ownedBy: the two checks (look up without re-arming) *)
Inductive sink := SkOpen | SkSoft | SkGet | SkOther | SkOwned.

Definition sink_eqb (a b : sink) : bool :=
  match a, b with
  | SkOpen, SkOpen | SkSoft, SkSoft | SkGet, SkGet | SkOther, SkOther | SkOwned, SkOwned => true
  | _, _ => false
  end.
Definition has_sink (s : sink) (l : list sink) : bool := existsb (sink_eqb s) l.

(* one exported method of wallet.Wallet / wallet.DidComm *)
Record wrow := {
  w_recv : recv;
  w_name : string;
  w_tok : bool;          (* takes an auth token *)
  w_gate : gate;         (* its first statement *)
  w_gate_own : bool;     (* ... checks the method's own token parameter *)
  w_sinks : list sink;   (* every comparison with the session table reachable THROUGH the token parameter *)
  w_leaks : nat;         (* calls that receive the token and could not be followed *)
  w_inert : bool;        (* the body calls nothing (unimplemented) *)
  w_state : bool }.      (* the body touches the session / store / key managers or the content store *)

(* one exported method of vcwallet.Client *)
Record crow := {
  c_name : string;
  c_auth_first : bool;        (* first statements: auth, err := c.auth(); if err != nil { return ..., err } *)
  c_targets : list string;    (* calls on c.wallet / c.didComm *)
  c_tok_is_auth : bool;       (* every such call has `auth` as first argument *)
  c_sets_auth : string }.     (* what the method assigns to c.auth *)

(* one handler of the vcwallet command controller *)
Record hrow := {
  h_name : string;
  h_users : list string;      (* first argument of wallet.New / CreateProfile / ... *)
  h_calls : list string;      (* methods called on the wallet it made (or wallet.<profile function>) *)
  h_toks : list string }.     (* first argument of each of those method calls *)
