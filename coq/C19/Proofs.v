From Coq Require Import List NArith Bool Lia.
Import ListNotations.
From VF Require Import C19.Model.
Local Open Scope N_scope.
