(* C19 — lemmas. *)
From Coq Require Import List NArith Bool Lia.
Import ListNotations.
From VF Require Import C19.Model.
Local Open Scope N_scope.

(* case analysis on every match of the goal *)
Ltac dm := repeat match goal with
  | |- context [match ?x with _ => _ end] => destruct x eqn:?
  end.

(* ---------- the gate ---------- *)

Lemma find_session_some : forall ss t k s,
  find_session ss t k = Some s -> In s ss /\ s_tok s = k /\ live t s = true.
Proof.
  intros ss t k s H. unfold find_session in H. apply find_some in H. destruct H as [Hin H].
  apply andb_true_iff in H. destruct H as [H1 H2]. apply N.eqb_eq in H1. auto.
Qed.

Lemma find_session_none : forall ss t k,
  find_session ss t k = None -> forall s, In s ss -> s_tok s = k -> live t s = false.
Proof.
  intros ss t k H s Hin Hk. unfold find_session in H.
  pose proof (find_none _ _ H s Hin) as Hn. cbn beta in Hn.
  rewrite Hk, N.eqb_refl in Hn. exact Hn.
Qed.

Lemma not_foreign_own : forall ss t k u s,
  foreign ss t k u = false -> In s ss -> s_tok s = k -> live t s = true -> s_user s = u.
Proof.
  intros ss t k u s Hf Hin Hk Hl. unfold foreign in Hf.
  destruct (s_user s =? u) eqn:E; [apply N.eqb_eq; exact E|].
  assert (X : existsb (fun s0 => (s_tok s0 =? k) && live t s0 && negb (s_user s0 =? u)) ss = true).
  { apply existsb_exists. exists s. split; [exact Hin|]. rewrite Hk, N.eqb_refl, Hl, E. reflexivity. }
  congruence.
Qed.

Lemma live_own_intro : forall st t u s,
  In s (sessions st) -> s_tok s = t -> live (now st) s = true -> s_user s = u -> live_own st t u = true.
Proof.
  intros st t u s Hin Ht Hl Hu. unfold live_own. apply existsb_exists. exists s. split; [exact Hin|].
  rewrite Ht, Hu, !N.eqb_refl, Hl. reflexivity.
Qed.

Lemma live_own_elim : forall st t u, live_own st t u = true ->
  exists s, In s (sessions st) /\ s_tok s = t /\ s_user s = u /\ live (now st) s = true.
Proof.
  intros st t u H. unfold live_own in H. apply existsb_exists in H. destruct H as [s [Hin H]].
  apply andb_true_iff in H. destruct H as [H Hu]. apply andb_true_iff in H. destruct H as [Ht Hl].
  apply N.eqb_eq in Ht. apply N.eqb_eq in Hu. exists s. auto.
Qed.

(* without a live session of the token nothing is admitted by the repaired code, whatever the method *)
Lemma no_session_rejected : forall st i t k,
  find_session (sessions st) (now st) t = None ->
  admitted (snd (step Fixed st (WOp i t k))) = false.
Proof.
  intros st i t k Hn. cbn [step]. rewrite Hn.
  destruct (nth_error (insts st) i) as [[u h]|]; [|reflexivity].
  destruct (foreign (sessions st) (now st) t u); [reflexivity|].
  destruct k; try (destruct h; reflexivity).
  destruct m; destruct h; reflexivity.
Qed.

(* T1: on the repaired code an admitted token operation presented a live token of the instance's own profile *)
Lemma admitted_own : forall st i t k u h,
  nth_error (insts st) i = Some (u, h) ->
  admitted (snd (step Fixed st (WOp i t k))) = true ->
  live_own st t u = true.
Proof.
  intros st i t k u h Hi Ha.
  destruct (find_session (sessions st) (now st) t) as [s|] eqn:Hs.
  - apply find_session_some in Hs. destruct Hs as [Hin [Ht Hl]].
    cbn [step] in Ha. rewrite Hi in Ha.
    destruct (foreign (sessions st) (now st) t u) eqn:Hf; [cbn in Ha; discriminate|].
    eapply live_own_intro; eauto. eapply not_foreign_own; eauto.
  - rewrite (no_session_rejected st i t k Hs) in Ha. discriminate.
Qed.

Lemma content_op_admitted : forall st u k,
  match k with KCreateKey | KImportKey _ | KUse _ _ _ | KAddKeyEmpty => False | _ => True end ->
  admitted (snd (content_op st u k)) = true.
Proof. intros st u k Hk. destruct k; cbn in *; try contradiction; dm; reflexivity. Qed.

Lemma use_op_admitted : forall st u m c kn su, admitted (use_op st u m c kn su) = true.
Proof. intros. unfold use_op. dm; reflexivity. Qed.

Lemma use_op_cases : forall st u m c kn su,
  use_op st u m c kn su = RDone \/ use_op st u m c kn su = RNotFound.
Proof. intros. unfold use_op. dm; auto. Qed.

(* T2: a rejected token operation leaves the whole state (stores, keys, sessions AND their expiries) as it was *)
Lemma rejected_same : forall v st i t k,
  admitted (snd (step v st (WOp i t k))) = false -> fst (step v st (WOp i t k)) = st.
Proof.
  intros v st i t k Ha. cbn [step] in *.
  destruct (nth_error (insts st) i) as [[u h]|]; [|reflexivity].
  destruct (match v with Fixed => foreign (sessions st) (now st) t u | AsIs => false end); [reflexivity|].
  destruct k.
  - destruct h; cbn [negb] in *; [|reflexivity].
    destruct (find_session (sessions st) (now st) t); [|reflexivity].
    rewrite content_op_admitted in Ha; [discriminate|exact I].
  - destruct h; cbn [negb] in *; [|reflexivity].
    destruct (find_session (sessions st) (now st) t); [|reflexivity].
    rewrite content_op_admitted in Ha; [discriminate|exact I].
  - destruct h; cbn [negb] in *; [|reflexivity].
    destruct (find_session (sessions st) (now st) t); [|reflexivity].
    rewrite content_op_admitted in Ha; [discriminate|exact I].
  - destruct h; cbn [negb] in *; [|reflexivity].
    destruct (find_session (sessions st) (now st) t); [|reflexivity].
    rewrite content_op_admitted in Ha; [discriminate|exact I].
  - destruct (find_session (sessions st) (now st) t); [cbn in Ha; discriminate|reflexivity].
  - destruct (find_session (sessions st) (now st) t); [|reflexivity].
    destruct (key_id_taken (keys st) kn); cbn in Ha; discriminate.
  - destruct h; cbn [negb] in *; [|reflexivity].
    destruct (find_session (sessions st) (now st) t); [|reflexivity].
    rewrite content_op_admitted in Ha; [discriminate|exact I].
  - destruct h; cbn [negb] in *; [|reflexivity].
    destruct (find_session (sessions st) (now st) t); [|reflexivity].
    rewrite content_op_admitted in Ha; [discriminate|exact I].
  - destruct (match v with Fixed => pre_session m | AsIs => false end &&
              match find_session (sessions st) (now st) t with None => true | Some _ => false end); [reflexivity|].
    destruct (store_use m), h, (find_session (sessions st) (now st) t); try reflexivity;
      destruct (uses_km m); cbn [andb fst snd] in *; try reflexivity;
      rewrite use_op_admitted in Ha; discriminate.
  - destruct v; [cbn in Ha; discriminate|].
    destruct (find_session (sessions st) (now st) t); [cbn in Ha; discriminate|reflexivity].
Qed.

(* T3: a token without a live session (never issued, closed, expired) is rejected by the repaired code *)
Lemma dead_token_rejected : forall st i t k,
  (forall s, In s (sessions st) -> s_tok s = t -> live (now st) s = false) ->
  admitted (snd (step Fixed st (WOp i t k))) = false.
Proof.
  intros st i t k Hd. apply no_session_rejected.
  destruct (find_session (sessions st) (now st) t) as [s|] eqn:Hs; [|reflexivity].
  apply find_session_some in Hs. destruct Hs as [Hin [Ht Hl]]. rewrite (Hd s Hin Ht) in Hl. discriminate.
Qed.

(* T3': a token of another profile is rejected on the repaired code even while it is live *)
Lemma foreign_token_rejected : forall st i t k u h s,
  nth_error (insts st) i = Some (u, h) ->
  In s (sessions st) -> s_tok s = t -> live (now st) s = true -> s_user s <> u ->
  step Fixed st (WOp i t k) = (st, RBadToken).
Proof.
  intros st i t k u h s Hi Hin Ht Hl Hu. cbn [step]. rewrite Hi.
  assert (X : foreign (sessions st) (now st) t u = true).
  { apply existsb_exists. exists s. split; [exact Hin|]. rewrite Ht, N.eqb_refl, Hl.
    destruct (s_user s =? u) eqn:E; [apply N.eqb_eq in E; contradiction|reflexivity]. }
  rewrite X. reflexivity.
Qed.

(* close: afterwards no token of that profile is live, whatever instance was used *)
Lemma close_revokes : forall v st i u h t,
  nth_error (insts st) i = Some (u, h) ->
  live_own (fst (step v st (WClose i))) t u = false.
Proof.
  intros v st i u h t Hi. cbn [step]. rewrite Hi.
  destruct (user_live (sessions st) (now st) u) eqn:Hu; cbn [fst]; unfold live_own; cbn [sessions now upd_open].
  - apply not_true_iff_false. intro H. apply existsb_exists in H. destruct H as [s [Hin H]].
    unfold drop_user in Hin. apply filter_In in Hin. destruct Hin as [_ Hf].
    apply andb_true_iff in H. destruct H as [H Hus]. apply andb_true_iff in H. destruct H as [_ Hl].
    rewrite Hus, Hl in Hf. discriminate.
  - apply not_true_iff_false. intro H. apply existsb_exists in H. destruct H as [s [Hin H]].
    apply andb_true_iff in H. destruct H as [H Hus]. apply andb_true_iff in H. destruct H as [_ Hl].
    assert (X : user_live (sessions st) (now st) u = true).
    { apply existsb_exists. exists s. split; [exact Hin|]. rewrite Hus, Hl. reflexivity. }
    congruence.
Qed.

Lemma tick_expires : forall st t dt i k,
  (forall s, In s (sessions st) -> s_tok s = t -> s_exp s < now st + dt) ->
  admitted (snd (step Fixed (fst (step Fixed st (WTick dt))) (WOp i t k))) = false.
Proof.
  intros st t dt i k H. apply dead_token_rejected. cbn [step fst sessions now upd_now].
  intros s Hin Ht. unfold live. specialize (H s Hin Ht).
  apply negb_false_iff. apply N.ltb_lt. exact H.
Qed.

(* ---------- what a token operation can touch at all ---------- *)

Lemma wop_frame : forall v st i t k,
  let st' := fst (step v st (WOp i t k)) in
  now st' = now st /\ next_tok st' = next_tok st /\ insts st' = insts st /\ stores st' = stores st /\
  profiles st' = profiles st /\
  (sessions st' = sessions st \/ sessions st' = refresh (sessions st) (now st) t).
Proof.
  intros v st i t k. cbn [step].
  destruct (nth_error (insts st) i) as [[u h]|]; [|cbn; auto 10].
  destruct (match v with Fixed => foreign (sessions st) (now st) t u | AsIs => false end); [cbn; auto 10|].
  destruct k; cbn [content_op]; dm; cbn; auto 10.
Qed.

Lemma refresh_src : forall ss t k s', In s' (refresh ss t k) ->
  exists s, In s ss /\ s_tok s = s_tok s' /\ s_user s = s_user s' /\ (live t s' = true -> live t s = true).
Proof.
  intros ss t k s' H. unfold refresh in H. apply in_map_iff in H. destruct H as [s [Hs Hin]].
  exists s. split; [exact Hin|].
  destruct ((s_tok s =? k) && live t s) eqn:E; subst s'; cbn; auto.
  apply andb_true_iff in E. destruct E as [_ E]. auto.
Qed.

Lemma refresh_exp : forall ss t k s',
  In s' (refresh ss t k) -> s_tok s' = k -> live t s' = true -> s_exp s' = t + s_ttl s'.
Proof.
  intros ss t k s' Hin Hk Hl. unfold refresh in Hin. apply in_map_iff in Hin. destruct Hin as [s [Hs Hin]].
  destruct ((s_tok s =? k) && live t s) eqn:E.
  - subst s'. reflexivity.
  - subst s'. rewrite Hk, N.eqb_refl, Hl in E. discriminate.
Qed.

(* ---------- isolation of contents ---------- *)

Lemma row_get_in : forall l c x, row_get l c = Some x -> In (c, x) l.
Proof.
  induction l as [|[c' v] r IH]; cbn; intros c x H; [discriminate|].
  destruct (c =? c') eqn:E.
  - apply N.eqb_eq in E. inversion H. subst. auto.
  - right. auto.
Qed.

Lemma rows_of_in : forall cs u p, In p (rows_of cs u) -> In (u, p) cs.
Proof.
  intros cs u p H. unfold rows_of in H. apply in_map_iff in H. destruct H as [[u' q] [Hq Hin]].
  apply filter_In in Hin. destruct Hin as [Hin Hf]. cbn in *. apply N.eqb_eq in Hf. subst. exact Hin.
Qed.

Lemma insert_row_in : forall x l p, In p (insert_row x l) -> p = x \/ In p l.
Proof.
  induction l as [|y r IH]; cbn; intros p H.
  - destruct H as [H|[]]; auto.
  - destruct (fst x <=? fst y); cbn in H.
    + destruct H as [H|H]; auto.
    + destruct H as [H|H]; auto. apply IH in H. destruct H; auto.
Qed.

Lemma sort_rows_in : forall l p, In p (sort_rows l) -> In p l.
Proof.
  induction l as [|y r IH]; cbn; intros p H; [exact H|].
  apply insert_row_in in H. destruct H as [H|H]; auto.
Qed.

(* what a data-level content operation on the store of u can return comes from u's rows *)
Lemma content_op_reads_own : forall st u k st' r,
  content_op st u k = (st', r) ->
  (forall x, r = RVal x -> exists c, k = KGet c /\ In (u, (c, x)) (contents st)) /\
  (forall l, r = RAll l -> forall c x, In (c, x) l -> In (u, (c, x)) (contents st)).
Proof.
  intros st u k st' r H. destruct k; cbn [content_op] in H.
  - destruct (row_get _ _); inversion H; subst; split; intros; discriminate.
  - destruct (row_get (rows_of (contents st) u) c) eqn:E; inversion H; subst; split; intros; try discriminate.
    inversion H0; subst. exists c. split; [reflexivity|]. apply rows_of_in. apply row_get_in. exact E.
  - inversion H; subst. split; intros; try discriminate. inversion H0; subst.
    apply rows_of_in. apply sort_rows_in in H1. unfold of_type in H1. apply filter_In in H1. tauto.
  - inversion H; subst; split; intros; discriminate.
  - inversion H; subst; split; intros; discriminate.
  - inversion H; subst; split; intros; discriminate.
  - destruct (row_get (rows_of (contents st) u) col); [|inversion H; subst; split; intros; discriminate].
    destruct (row_get (rows_of (contents st) u) c); inversion H; subst; split; intros; discriminate.
  - destruct (forallb _ _); inversion H; subst; split; intros; try discriminate. inversion H0; subst.
    apply rows_of_in. apply sort_rows_in in H1. apply filter_In in H1. destruct H1 as [H1 _].
    unfold of_type in H1. apply filter_In in H1. tauto.
  - inversion H; subst; split; intros; discriminate.
  - inversion H; subst; split; intros; discriminate.
Qed.

(* a token operation returns data only through content_op on the rows of the instance's own profile *)
Lemma wop_reads_own : forall v st i t k u h st' r,
  nth_error (insts st) i = Some (u, h) ->
  step v st (WOp i t k) = (st', r) ->
  (forall x, r = RVal x -> exists c, k = KGet c /\ In (u, (c, x)) (contents st)) /\
  (forall l, r = RAll l -> forall c x, In (c, x) l -> In (u, (c, x)) (contents st)).
Proof.
  intros v st i t k u h st' r Hi H. cbn [step] in H. rewrite Hi in H.
  assert (Triv : forall r0, (r0 = RBadToken \/ r0 = RLocked \/ r0 = RExists \/ r0 = RDone \/ r0 = RNotFound \/
                             (exists n, r0 = RKey n)) ->
     (forall x, r0 = RVal x -> exists c, k = KGet c /\ In (u, (c, x)) (contents st)) /\
     (forall l, r0 = RAll l -> forall c x, In (c, x) l -> In (u, (c, x)) (contents st))).
  { intros r0 Hr. split; intros; subst; repeat (destruct Hr as [Hr|Hr]; try discriminate); destruct Hr; discriminate. }
  destruct (match v with Fixed => foreign (sessions st) (now st) t u | AsIs => false end);
    [inversion H; subst; apply Triv; auto|].
  destruct k.
  all: try (destruct h; cbn [negb] in H; [|inversion H; subst; apply Triv; auto];
            destruct (find_session (sessions st) (now st) t); [|inversion H; subst; apply Triv; auto];
            apply content_op_reads_own in H; cbn [contents upd_sessions] in H; exact H).
  - destruct (find_session (sessions st) (now st) t); inversion H; subst; apply Triv; eauto 10.
  - destruct (find_session (sessions st) (now st) t); [|inversion H; subst; apply Triv; auto].
    destruct (key_id_taken (keys st) kn); inversion H; subst; apply Triv; auto.
  - revert H. dm; intro H; inversion H; subst; try solve [apply Triv; auto 10];
      match goal with
      | |- context [use_op ?a ?b ?c ?d ?e ?f] =>
          destruct (use_op_cases a b c d e f) as [X|X]; rewrite X; apply Triv; auto 10
      end.
  - revert H. dm; intro H; inversion H; subst; apply Triv; auto 10.
Qed.

Lemma filter_filter_weaker : forall (A : Type) (f g : A -> bool) l,
  (forall x, g x = true -> f x = true) -> filter g (filter f l) = filter g l.
Proof.
  intros A f g l H. induction l as [|a r IH]; cbn; [reflexivity|].
  destruct (f a) eqn:Ef; cbn.
  - rewrite IH. reflexivity.
  - destruct (g a) eqn:Eg; [rewrite (H a Eg) in Ef; discriminate|exact IH].
Qed.

Lemma rows_of_cons_other : forall cs u u' p, (u =? u') = false -> rows_of ((u, p) :: cs) u' = rows_of cs u'.
Proof. intros cs u u' p H. unfold rows_of. cbn [filter fst]. rewrite H. reflexivity. Qed.

Lemma rows_of_remove_other : forall cs u u' c, (u =? u') = false ->
  rows_of (filter (fun r => negb ((fst r =? u) && (fst (snd r) =? c))) cs) u' = rows_of cs u'.
Proof.
  intros cs u u' c Hu. unfold rows_of. f_equal. apply filter_filter_weaker. intros [a [b d]] Hx. cbn [fst snd] in *.
  apply N.eqb_eq in Hx. subst a. rewrite N.eqb_sym, Hu. reflexivity.
Qed.

Lemma content_op_others : forall st u k u', (u =? u') = false ->
  rows_of (contents (fst (content_op st u k))) u' = rows_of (contents st) u'.
Proof.
  intros st u k u' Hu. destruct k; cbn [content_op]; dm; cbn [fst contents upd_contents upd_maps];
    try reflexivity; try (apply rows_of_cons_other; exact Hu); apply rows_of_remove_other; exact Hu.
Qed.

(* no operation through an instance of profile u (and no other operation at all) touches the rows of u' <> u *)
Lemma others_rows_untouched : forall v st o u',
  (forall i t k, o = WOp i t k -> inst_user st i <> Some u') ->
  rows_of (contents (fst (step v st o))) u' = rows_of (contents st) u'.
Proof.
  intros v st o u' Hno. destruct o as [u|u|i p ttl|i|dt|i t k|u]; cbn [step].
  - dm; reflexivity.
  - dm; reflexivity.
  - dm; reflexivity.
  - dm; reflexivity.
  - reflexivity.
  - specialize (Hno i t k eq_refl). unfold inst_user in Hno.
    destruct (nth_error (insts st) i) as [[u h]|]; [|reflexivity].
    assert (Hu : (u =? u') = false).
    { destruct (u =? u') eqn:E; [apply N.eqb_eq in E; subst; exfalso; apply Hno; reflexivity|reflexivity]. }
    destruct (match v with Fixed => foreign (sessions st) (now st) t u | AsIs => false end); [reflexivity|].
    destruct k.
    all: try (destruct h; cbn [negb]; [|reflexivity]; destruct (find_session _ _ _); [|reflexivity];
              rewrite (content_op_others _ u _ u' Hu); reflexivity).
    + dm; reflexivity.
    + dm; reflexivity.
    + dm; reflexivity.
    + dm; reflexivity.
  - dm; reflexivity.
Qed.

(* ---------- history invariants ---------- *)

Definition add_rec (st : wstate) (o : wop) (x : wout) : list (user * (cid * N)) :=
  match o, x with
  | WOp i _ (KAdd c n), RDone | WOp i _ (KAddIn c n _), RDone =>
      match inst_user st i with Some u => [(u, (c, n))] | None => [] end
  | _, _ => []
  end.

Lemma content_op_adds : forall st u k row,
  In row (contents (fst (content_op st u k))) ->
  In row (contents st) \/
  (snd (content_op st u k) = RDone /\ exists c n, row = (u, (c, n)) /\ (k = KAdd c n \/ exists col, k = KAddIn c n col)).
Proof.
  intros st u k row H. destruct k; cbn [content_op] in *; try (left; exact H).
  - destruct (row_get _ _); cbn in *; auto. destruct H as [H|H]; auto. right. split; [reflexivity|]. eauto 6.
  - destruct (row_get _ _); auto.
  - cbn in H. apply filter_In in H. tauto.
  - destruct (row_get (rows_of (contents st) u) col); cbn in *; auto.
    destruct (row_get (rows_of (contents st) u) c); cbn in *; auto.
    destruct H as [H|H]; auto. right. split; [reflexivity|]. eauto 8.
  - destruct (forallb _ _); auto.
Qed.

Lemma step_contents : forall v st o row,
  In row (contents (fst (step v st o))) ->
  In row (contents st) \/ In row (add_rec st o (snd (step v st o))).
Proof.
  intros v st o row H. destruct o as [u|u|i p ttl|i|dt|i t k|u]; cbn [step] in *.
  - revert H. dm; cbn; auto.
  - revert H. dm; cbn; auto.
  - revert H. dm; cbn; auto.
  - revert H. dm; cbn; auto.
  - auto.
  - unfold add_rec, inst_user.
    destruct (nth_error (insts st) i) as [[u h]|]; auto.
    destruct (match v with Fixed => foreign (sessions st) (now st) t u | AsIs => false end); auto.
    destruct k.
    all: try (destruct h; cbn [negb] in *; auto; destruct (find_session _ _ _); auto;
              apply content_op_adds in H; cbn [contents upd_sessions] in H;
              destruct H as [H|[Hr [c0 [n0 [Hrow Hk]]]]]; auto;
              destruct Hk as [Hk|[col0 Hk]]; inversion Hk; subst; right; rewrite Hr; left; reflexivity).
    all: revert H; dm; cbn; auto.
  - revert H. dm; cbn; auto.
Qed.

Lemma rows_provenance_gen : forall v ops st row,
  In row (contents (fst (run v st ops))) -> In row (contents st) \/ In row (adds_run v st ops).
Proof.
  intros v ops. induction ops as [|o r IH]; intros st row H; cbn in *; auto.
  pose proof (step_contents v st o row) as Hs.
  destruct (step v st o) as [s1 x] eqn:E. cbn [fst snd] in *.
  destruct (run v s1 r) as [s2 xs] eqn:E2. cbn [fst] in H.
  specialize (IH s1 row). rewrite E2 in IH. cbn [fst] in IH. apply IH in H.
  destruct H as [H|H].
  - apply Hs in H. destruct H as [H|H]; auto. right. apply in_or_app. left.
    unfold add_rec in H. exact H.
  - right. apply in_or_app. auto.
Qed.

(* sessions: every session of a reachable state was granted by an Open of an instance of its user *)
Definition grant_rec (st : wstate) (o : wop) (x : wout) : list (tok * user) :=
  match o, x with
  | WOpen i _ _, RTok t => match inst_user st i with Some u => [(t, u)] | None => [] end
  | _, _ => []
  end.

Lemma step_sessions : forall v st o s',
  In s' (sessions (fst (step v st o))) ->
  (exists s, In s (sessions st) /\ s_tok s = s_tok s' /\ s_user s = s_user s') \/
  In (s_tok s', s_user s') (grant_rec st o (snd (step v st o))).
Proof.
  intros v st o s' H.
  assert (Hsame : In s' (sessions st) -> (exists s, In s (sessions st) /\ s_tok s = s_tok s' /\ s_user s = s_user s') \/
                                       In (s_tok s', s_user s') (grant_rec st o (snd (step v st o)))).
  { intro. left. exists s'. auto. }
  destruct o as [u|u|i p ttl|i|dt|i t k|u].
  - cbn [step] in *. revert H Hsame. dm; cbn; auto.
  - cbn [step] in *. revert H Hsame. dm; cbn; auto.
  - cbn [step] in *. unfold grant_rec, inst_user in *. destruct (nth_error (insts st) i) as [[u h]|]; auto.
    destruct (negb p); auto. destruct (user_live _ _ _); auto.
    cbn in H. destruct H as [H|H].
    + right. subst s'. cbn. auto.
    + left. exists s'. auto.
  - cbn [step] in *. destruct (nth_error (insts st) i) as [[u h]|]; auto. destruct (user_live _ _ _); auto.
    cbn in H. unfold drop_user in H. apply filter_In in H. destruct H. left. exists s'. auto.
  - auto.
  - destruct (wop_frame v st i t k) as [_ [_ [_ [_ [_ [Hs|Hs]]]]]]; rewrite Hs in H; auto.
    left. apply refresh_src in H. destruct H as [s [Hin [Ht [Hu _]]]]. exists s. auto.
  - cbn [step] in *. revert H Hsame. dm; cbn; auto.
Qed.

Lemma sessions_granted_gen : forall v ops st s',
  In s' (sessions (fst (run v st ops))) ->
  (exists s, In s (sessions st) /\ s_tok s = s_tok s' /\ s_user s = s_user s') \/
  In (s_tok s', s_user s') (grants_run v st ops).
Proof.
  intros v ops. induction ops as [|o r IH]; intros st s' H; cbn in *.
  - left. exists s'. auto.
  - pose proof (step_sessions v st o) as Hs.
    destruct (step v st o) as [s1 x] eqn:E. cbn [fst snd] in *.
    destruct (run v s1 r) as [s2 xs] eqn:E2. cbn [fst] in H.
    specialize (IH s1 s'). rewrite E2 in IH. cbn [fst] in IH. apply IH in H.
    destruct H as [[s [Hin [Ht Hu]]]|H].
    + apply Hs in Hin. destruct Hin as [[s0 [Hin0 [Ht0 Hu0]]]|Hin].
      * left. exists s0. split; [exact Hin0|]. split; congruence.
      * right. apply in_or_app. left. unfold grant_rec in Hin. rewrite Ht, Hu in Hin. exact Hin.
    + right. apply in_or_app. auto.
Qed.

(* keys (repaired code): every key row is wrapped for the profile through whose instance it was created / imported *)
Definition key_rec (st : wstate) (o : wop) (x : wout) : list (N * user) :=
  match o, x with
  | WOp i _ KCreateKey, RKey k | WOp i _ (KImportKey k), RDone =>
      match inst_user st i with Some u => [(k, u)] | None => [] end
  | _, _ => []
  end.

Lemma content_op_keys : forall st u k, keys (fst (content_op st u k)) = keys st.
Proof. intros. destruct k; cbn [content_op]; dm; reflexivity. Qed.

Lemma step_keys : forall st o row,
  In row (keys (fst (step Fixed st o))) ->
  In row (keys st) \/ In row (key_rec st o (snd (step Fixed st o))).
Proof.
  intros st o row H. destruct o as [u|u|i p ttl|i|dt|i t k|u]; cbn [step] in *.
  - revert H. dm; cbn; auto.
  - revert H. dm; cbn; auto.
  - revert H. dm; cbn; auto.
  - revert H. dm; cbn; auto.
  - auto.
  - unfold key_rec, inst_user.
    destruct (nth_error (insts st) i) as [[u h]|]; auto.
    destruct (foreign (sessions st) (now st) t u) eqn:Hf; auto.
    destruct k.
    all: try (destruct h; cbn [negb] in *; auto; destruct (find_session _ _ _); auto;
              rewrite content_op_keys in H; cbn in H; auto).
    + destruct (find_session (sessions st) (now st) t) as [s|] eqn:Hs; auto. cbn in *.
      destruct H as [H|H]; auto. right. left. subst row.
      apply find_session_some in Hs. destruct Hs as [Hin [Ht Hl]].
      rewrite (not_foreign_own _ _ _ _ _ Hf Hin Ht Hl). reflexivity.
    + destruct (find_session (sessions st) (now st) t) as [s|] eqn:Hs; auto.
      destruct (key_id_taken (keys st) kn); cbn in *; auto.
      destruct H as [H|H]; auto. right. left. subst row.
      apply find_session_some in Hs. destruct Hs as [Hin [Ht Hl]].
      rewrite (not_foreign_own _ _ _ _ _ Hf Hin Ht Hl). reflexivity.
    + revert H. dm; cbn; auto.
  - revert H. dm; cbn; auto.
Qed.

Lemma keys_provenance_gen : forall ops st row,
  In row (keys (fst (run Fixed st ops))) -> In row (keys st) \/ In row (keyops_run Fixed st ops).
Proof.
  induction ops as [|o r IH]; intros st row H; cbn in *; auto.
  pose proof (step_keys st o row) as Hs.
  destruct (step Fixed st o) as [s1 x] eqn:E. cbn [fst snd] in *.
  destruct (run Fixed s1 r) as [s2 xs] eqn:E2. cbn [fst] in H.
  specialize (IH s1 row). rewrite E2 in IH. cbn [fst] in IH. apply IH in H.
  destruct H as [H|H].
  - apply Hs in H. destruct H as [H|H]; auto. right. apply in_or_app. left. exact H.
  - right. apply in_or_app. auto.
Qed.

(* tokens are granted once: the tokens of the grants of a run are pairwise distinct *)
Lemma step_grant : forall v st o,
  (grant_rec st o (snd (step v st o)) = [] /\ next_tok (fst (step v st o)) = next_tok st) \/
  (exists u, grant_rec st o (snd (step v st o)) = [(next_tok st, u)] /\
             next_tok (fst (step v st o)) = next_tok st + 1).
Proof.
  intros v st o. destruct o as [u|u|i p ttl|i|dt|i t k|u].
  - left. cbn [step]. dm; auto.
  - left. cbn [step]. dm; auto.
  - cbn [step]. unfold grant_rec, inst_user. destruct (nth_error (insts st) i) as [[u h]|]; auto.
    destruct (negb p); auto. destruct (user_live _ _ _); auto.
    right. exists u. cbn. auto.
  - left. cbn [step]. dm; auto.
  - left. auto.
  - left. split; [reflexivity|]. apply (wop_frame v st i t k).
  - left. cbn [step]. dm; auto.
Qed.

Lemma grants_fresh_gen : forall v ops st,
  (forall p, In p (grants_run v st ops) -> next_tok st <= fst p) /\
  NoDup (map fst (grants_run v st ops)).
Proof.
  intros v ops. induction ops as [|o r IH]; intros st; cbn.
  - split; [intros p []|constructor].
  - pose proof (step_grant v st o) as Hs.
    destruct (step v st o) as [s1 x] eqn:E. cbn [fst snd] in Hs.
    destruct (IH s1) as [IH1 IH2].
    fold (grant_rec st o x).
    destruct Hs as [[Hg Hn]|[u [Hg Hn]]]; rewrite Hg; cbn [app].
    + split; [|exact IH2]. intros p Hp. specialize (IH1 p Hp). lia.
    + split.
      * intros p [Hp|Hp]; [subst p; cbn; lia|]. specialize (IH1 p Hp). lia.
      * cbn [map fst]. constructor; [|exact IH2].
        intro Hin. apply in_map_iff in Hin. destruct Hin as [p [Hp Hin]].
        specialize (IH1 p Hin). lia.
Qed.

(* ---------- assembled statements ---------- *)

Lemma admitted_granted : forall ops i t k u h,
  nth_error (insts (fst (run Fixed init ops))) i = Some (u, h) ->
  admitted (snd (step Fixed (fst (run Fixed init ops)) (WOp i t k))) = true ->
  In (t, u) (grants_run Fixed init ops) /\ live_own (fst (run Fixed init ops)) t u = true.
Proof.
  intros ops i t k u h Hi Ha. pose proof (admitted_own _ _ _ _ _ _ Hi Ha) as Hl. split; [|exact Hl].
  apply live_own_elim in Hl. destruct Hl as [s [Hin [Ht [Hu _]]]].
  apply sessions_granted_gen in Hin. destruct Hin as [[s0 [Hin0 _]]|Hin].
  - cbn in Hin0. contradiction.
  - rewrite Ht, Hu in Hin. exact Hin.
Qed.

Lemma rows_provenance : forall v ops row,
  In row (contents (fst (run v init ops))) -> In row (adds_run v init ops).
Proof.
  intros v ops row H. apply rows_provenance_gen in H. destruct H as [H|H]; [cbn in H; contradiction|exact H].
Qed.

Lemma keys_provenance : forall ops row,
  In row (keys (fst (run Fixed init ops))) -> In row (keyops_run Fixed init ops).
Proof.
  intros ops row H. apply keys_provenance_gen in H. destruct H as [H|H]; [cbn in H; contradiction|exact H].
Qed.

Lemma grants_once : forall v ops, NoDup (map fst (grants_run v init ops)).
Proof. intros v ops. apply (grants_fresh_gen v ops init). Qed.

(* ---------- at most one live token per profile ---------- *)
Definition uniq_live (st : wstate) : Prop :=
  forall s1 s2, In s1 (sessions st) -> In s2 (sessions st) ->
    live (now st) s1 = true -> live (now st) s2 = true -> s_user s1 = s_user s2 -> s_tok s1 = s_tok s2.

Lemma live_mono : forall t dt s, live (t + dt) s = true -> live t s = true.
Proof.
  intros t dt s H. unfold live in *. apply negb_true_iff in H. apply negb_true_iff.
  apply N.ltb_ge in H. apply N.ltb_ge. lia.
Qed.

Lemma step_uniq : forall v st o, uniq_live st -> uniq_live (fst (step v st o)).
Proof.
  intros v st o H. destruct o as [u|u|i p ttl|i|dt|i t k|u].
  - cbn [step]. dm; exact H.
  - cbn [step]. dm; exact H.
  - cbn [step]. destruct (nth_error (insts st) i) as [[u h]|]; [|exact H].
    destruct (negb p); [exact H|]. destruct (user_live (sessions st) (now st) u) eqn:Hu; [exact H|].
    intros s1 s2 H1 H2 L1 L2 Huu. cbn [fst sessions now upd_open] in *.
    assert (Hno : forall s, In s (sessions st) -> live (now st) s = true -> s_user s = u -> False).
    { intros s Hin Hl Hus.
      assert (X : user_live (sessions st) (now st) u = true).
      { apply existsb_exists. exists s. split; [exact Hin|]. rewrite Hus, N.eqb_refl, Hl. reflexivity. }
      congruence. }
    destruct H1 as [H1|H1]; destruct H2 as [H2|H2].
    + subst. reflexivity.
    + subst s1. cbn in Huu. exfalso. eapply Hno; eauto.
    + subst s2. cbn in Huu. exfalso. eapply Hno; eauto.
    + apply H; auto.
  - cbn [step]. destruct (nth_error (insts st) i) as [[u h]|]; [|exact H].
    destruct (user_live _ _ _); [|exact H].
    intros s1 s2 H1 H2 L1 L2 Huu. cbn [fst sessions now upd_open] in *.
    unfold drop_user in H1, H2. apply filter_In in H1. apply filter_In in H2.
    destruct H1, H2. apply H; auto.
  - intros s1 s2 H1 H2 L1 L2 Huu. cbn [step fst sessions now upd_now] in *.
    apply live_mono in L1. apply live_mono in L2. apply H; auto.
  - destruct (wop_frame v st i t k) as [Hn [_ [_ [_ [_ Hs]]]]].
    intros s1 s2 H1 H2 L1 L2 Huu. rewrite Hn in L1, L2.
    destruct Hs as [Hs|Hs]; rewrite Hs in H1, H2.
    + apply H; auto.
    + apply refresh_src in H1. apply refresh_src in H2.
      destruct H1 as [a [Ha [Ta [Ua La]]]]. destruct H2 as [b [Hb [Tb [Ub Lb]]]].
      rewrite <- Ta, <- Tb. apply H; auto. congruence.
  - cbn [step]. dm; exact H.
Qed.

Lemma run_uniq : forall v ops st, uniq_live st -> uniq_live (fst (run v st ops)).
Proof.
  intros v ops. induction ops as [|o r IH]; intros st H; cbn; [exact H|].
  pose proof (step_uniq v st o H) as Hs.
  destruct (step v st o) as [s1 x]. cbn [fst] in Hs.
  specialize (IH s1 Hs). destruct (run v s1 r) as [s2 xs]. exact IH.
Qed.

Lemma one_live_token : forall v ops u t1 t2,
  live_own (fst (run v init ops)) t1 u = true -> live_own (fst (run v init ops)) t2 u = true -> t1 = t2.
Proof.
  intros v ops u t1 t2 H1 H2.
  assert (HU : uniq_live (fst (run v init ops))).
  { apply run_uniq. intros s1 s2 []. }
  apply live_own_elim in H1. apply live_own_elim in H2.
  destruct H1 as [a [Ha [Ta [Ua La]]]]. destruct H2 as [b [Hb [Tb [Ub Lb]]]].
  rewrite <- Ta, <- Tb. apply HU; auto. congruence.
Qed.

(* ---------- the shared key store: what an import can tell about other profiles ---------- *)

Lemma key_id_taken_own : forall ks kn u,
  (forall p, In p ks -> fst p = kn -> snd p = u) -> key_id_taken ks kn = key_id_taken (keys_of ks u) kn.
Proof.
  intros ks kn u H. unfold key_id_taken, keys_of.
  destruct (existsb (fun p => fst p =? kn) ks) eqn:E.
  - apply existsb_exists in E. destruct E as [p [Hin Hp]]. symmetry. apply existsb_exists. exists p.
    split; [|exact Hp]. apply filter_In. split; [exact Hin|]. apply N.eqb_eq in Hp. apply N.eqb_eq. exact (H p Hin Hp).
  - symmetry. apply not_true_iff_false. intro X. apply existsb_exists in X. destruct X as [p [Hin Hp]].
    apply filter_In in Hin. destruct Hin as [Hin _].
    assert (Y : existsb (fun p => fst p =? kn) ks = true) by (apply existsb_exists; exists p; auto). congruence.
Qed.

(* if no OTHER profile holds a key under that id, the answer to an import is the one the profile would get alone *)
Lemma import_alone : forall st i t kn u h,
  nth_error (insts st) i = Some (u, h) ->
  (forall p, In p (keys st) -> fst p = kn -> snd p = u) ->
  snd (step Fixed st (WOp i t (KImportKey kn))) =
  snd (step Fixed (upd_keys st (keys_of (keys st) u) (next_key st)) (WOp i t (KImportKey kn))).
Proof.
  intros st i t kn u h Hi H. cbn [step]. cbn [insts sessions now keys upd_keys next_key]. rewrite Hi.
  destruct (foreign (sessions st) (now st) t u); [reflexivity|].
  destruct (find_session (sessions st) (now st) t); [|reflexivity].
  rewrite <- (key_id_taken_own _ _ _ H). destruct (key_id_taken (keys st) kn); reflexivity.
Qed.

(* UpdateProfile (and CreateProfile over an existing profile) leaves the whole state as it was *)
Lemma update_same : forall v st u, fst (step v st (WUpdate u)) = st.
Proof. intros. cbn [step]. destruct (existsb (N.eqb u) (profiles st)); reflexivity. Qed.

Lemma recreate_same : forall v st u, existsb (N.eqb u) (profiles st) = true -> step v st (WCreate u) = (st, RErr).
Proof. intros v st u H. cbn [step]. rewrite H. reflexivity. Qed.
