(* C20 — createNewCredential at the JSON level: every scalar the limited credential shows comes from the template,
   from a value read at a reported (requested, existing) path, or is a predicate's true / a padding null. *)
From Coq Require Import List String Ascii ZArith Bool NArith Arith Lia.
Import ListNotations.
From VF Require Import common.Json C20.JsonPath.
Open Scope list_scope.

(* the scalars of a JSON value *)
Fixpoint leaves (j : json) : list json :=
  match j with
  | JArr l => flat_map leaves l
  | JObj m => flat_map (fun kv => leaves (snd kv)) m
  | _ => [j]
  end.

Definition path_split (fx : fixlevel) : string -> list string := if esc_on fx then split_esc else split_dots.

Lemma create_leaves : forall comps v x, In x (leaves (sj_create comps v)) -> In x (leaves v) \/ x = JNull.
Proof.
  induction comps as [|c r IH]; intros v x H; cbn [sj_create] in H; [left; exact H|].
  destruct (all_digits c).
  - cbn [leaves] in H. rewrite flat_map_app in H. apply in_app_or in H. destruct H as [H|H].
    + apply in_flat_map in H. destruct H as [y [Hy Hx]]. apply repeat_spec in Hy. subst. cbn in Hx.
      destruct Hx as [Hx|[]]. right. auto.
    + cbn in H. rewrite app_nil_r in H. apply IH. exact H.
  - cbn in H. rewrite app_nil_r in H. apply IH. exact H.
Qed.

Section SetLeaves.
  Variable v : json.
  Definition fresh (x : json) : Prop := In x (leaves v) \/ x = JNull.
  Definition from (old : option json) (x : json) : Prop := match old with Some o => In x (leaves o) | None => False end.
  Variable f : option json -> option json.
  Hypothesis Hf : forall old new, f old = Some new -> forall x, In x (leaves new) -> from old x \/ fresh x.

  Lemma set_member_leaves : forall c m m', set_member c f m = Some m' ->
    forall x, In x (flat_map (fun kv => leaves (snd kv)) m') -> In x (flat_map (fun kv => leaves (snd kv)) m) \/ fresh x.
  Proof.
    induction m as [|kv m IH]; intros m' H x Hx; cbn [set_member] in H.
    - destruct (f None) eqn:E; [|discriminate]. inversion H. subst. cbn in Hx. rewrite app_nil_r in Hx.
      destruct (Hf _ _ E _ Hx) as [[]|Hq]. right. exact Hq.
    - destruct (String.eqb (fst kv) c).
      + destruct (f (Some (snd kv))) eqn:E; [|discriminate]. inversion H. subst. cbn [flat_map snd] in Hx.
        apply in_app_or in Hx. destruct Hx as [Hx|Hx].
        * destruct (Hf _ _ E _ Hx) as [Ho|Hq]; [left; cbn [flat_map]; apply in_or_app; left; exact Ho|right; exact Hq].
        * left. cbn [flat_map]. apply in_or_app. right. exact Hx.
      + destruct (set_member c f m) eqn:E; [|discriminate]. inversion H. subst. cbn [flat_map] in Hx.
        apply in_app_or in Hx. destruct Hx as [Hx|Hx].
        * left. cbn [flat_map]. apply in_or_app. left. exact Hx.
        * destruct (IH _ eq_refl _ Hx) as [Ho|Hq]; [left; cbn [flat_map]; apply in_or_app; right; exact Ho|right; exact Hq].
  Qed.

  Lemma set_index_leaves : forall i a a', set_index i f a = Some a' ->
    forall x, In x (flat_map leaves a') -> In x (flat_map leaves a) \/ fresh x.
  Proof.
    induction i as [|i IH]; intros a a' H x Hx; destruct a as [|y r]; cbn [set_index] in H.
    - destruct (f None) eqn:E; [|discriminate]. inversion H. subst. cbn in Hx. rewrite app_nil_r in Hx.
      destruct (Hf _ _ E _ Hx) as [[]|Hq]. right. exact Hq.
    - destruct (f (Some y)) eqn:E; [|discriminate]. inversion H. subst. cbn [flat_map] in Hx.
      apply in_app_or in Hx. destruct Hx as [Hx|Hx].
      + destruct (Hf _ _ E _ Hx) as [Ho|Hq]; [left; cbn [flat_map]; apply in_or_app; left; exact Ho|right; exact Hq].
      + left. cbn [flat_map]. apply in_or_app. right. exact Hx.
    - destruct (set_index i f []) eqn:E; [|discriminate]. inversion H. subst. cbn [flat_map] in Hx.
      apply in_app_or in Hx. destruct Hx as [Hx|Hx].
      + cbn in Hx. destruct Hx as [Hx|[]]. right. right. auto.
      + destruct (IH _ _ E _ Hx) as [Ho|Hq]; [cbn in Ho; contradiction|right; exact Hq].
    - destruct (set_index i f r) eqn:E; [|discriminate]. inversion H. subst. cbn [flat_map] in Hx.
      apply in_app_or in Hx. destruct Hx as [Hx|Hx].
      + left. cbn [flat_map]. apply in_or_app. left. exact Hx.
      + destruct (IH _ _ E _ Hx) as [Ho|Hq]; [left; cbn [flat_map]; apply in_or_app; right; exact Ho|right; exact Hq].
  Qed.
End SetLeaves.

(* sjson.Set: the scalars of the result are scalars of the document, of the value written, or padding nulls *)
Lemma sj_set_leaves : forall comps v doc doc', sj_set comps v doc = Some doc' ->
  forall x, In x (leaves doc') -> from doc x \/ fresh v x.
Proof.
  induction comps as [|c r IH]; intros v doc doc' H x Hx.
  - cbn in H. inversion H. subst. right. left. exact Hx.
  - cbn [sj_set] in H.
    destruct doc as [[| | | |a|m]|];
      try (inversion H; subst; right; apply (create_leaves (c :: r)); exact Hx).
    + destruct (all_digits c); [|discriminate].
      destruct (set_index (nat_of_digits 0 c) (sj_set r v) a) eqn:E; [|discriminate]. inversion H. subst.
      cbn [leaves] in Hx. eapply set_index_leaves in E; [|intros old new Hn y Hy; eapply IH; eauto|exact Hx].
      exact E.
    + destruct (set_member c (sj_set r v) m) eqn:E; [|discriminate]. inversion H. subst.
      cbn [leaves] in Hx. eapply set_member_leaves in E; [|intros old new Hn y Hy; eapply IH; eauto|exact Hx].
      exact E.
Qed.

(* what one write may add: a predicate's true, a padding null, or a scalar of the value read at the old path *)
Definition written (fx : fixlevel) (src : json) (o : string) (x : json) : Prop :=
  x = JNull \/ x = JBool true \/ exists v, gj_get (path_split fx o) src = Some v /\ In x (leaves v).

Lemma write_one_leaves : forall fx limit pred src t no t', write_one fx limit pred src (Some t) no = Some t' ->
  forall x, In x (leaves t') -> In x (leaves t) \/ written fx src (snd no) x.
Proof.
  intros fx limit pred src t [n o] t' H x Hx. cbn [write_one] in H.
  destruct (has_substring "credentialSchema" n); [inversion H; subst; left; exact Hx|].
  apply sj_set_leaves with (x := x) in H; [|exact Hx]. cbn [from] in H. destruct H as [H|[H|H]]; [left; exact H| |right; left; exact H].
  right. cbn [snd]. unfold written. destruct pred.
  - cbn in H. destruct H as [H|[]]. right. left. auto.
  - fold (path_split fx) in H. destruct (gj_get (path_split fx o) src) as [v|] eqn:E.
    + right. right. exists v. split; [reflexivity|exact H].
    + cbn in H. destruct H as [H|[]]. left. auto.
Qed.

Lemma write_fold_none : forall fx limit pred src l, fold_left (write_one fx limit pred src) l None = None.
Proof. induction l as [|a l IH]; cbn; auto. Qed.

Lemma write_fold_leaves : forall fx limit pred src l t t', fold_left (write_one fx limit pred src) l (Some t) = Some t' ->
  forall x, In x (leaves t') -> In x (leaves t) \/ exists no, In no l /\ written fx src (snd no) x.
Proof.
  induction l as [|a l IH]; intros t t' H x Hx; cbn [fold_left] in H.
  - inversion H. subst. left. exact Hx.
  - destruct (write_one fx limit pred src (Some t) a) as [t1|] eqn:E; [|rewrite write_fold_none in H; discriminate].
    destruct (IH _ _ H _ Hx) as [H1|[no [Hin Hw]]].
    + destruct (write_one_leaves _ _ _ _ _ _ _ E _ H1) as [H2|H2]; [left; exact H2|].
      right. exists a. split; [left; reflexivity|exact H2].
    + right. exists no. split; [right; exact Hin|exact Hw].
Qed.

(* createNewCredential's loop, every repair level, limit or not: every scalar of the credential it builds is a scalar of
   the template, or was written for a path text reported (at some state s of the numbering) for one of the fields *)
Lemma limit_fields_leaves : forall fx limit src fs s t out, limit_fields fx limit src fs s t = Some out ->
  forall x, In x (leaves out) ->
    In x (leaves t) \/
    exists paths pred s0 l s1 no, In (paths, pred) fs /\ k_compact fx paths src s0 = Some (l, s1) /\ In no l /\
                                  written fx src (snd no) x.
Proof.
  induction fs as [|[paths pred] fs IH]; intros s t out H x Hx; cbn [limit_fields] in H.
  - inversion H. subst. left. exact Hx.
  - destruct (k_compact fx paths src s) as [[l s1]|] eqn:E; [|discriminate].
    destruct (fold_left (write_one fx limit pred src) l (Some t)) as [t1|] eqn:E2; [|discriminate].
    destruct (IH _ _ _ H _ Hx) as [H1|[p [pr [s0 [l0 [s2 [no [Hin Hr]]]]]]]].
    + destruct (write_fold_leaves _ _ _ _ _ _ _ E2 _ H1) as [H2|[no [Hin Hw]]]; [left; exact H2|].
      right. exists paths, pred, s, l, s1, no. split; [left; reflexivity|]. split; [exact E|]. split; auto.
    + right. exists p, pr, s0, l0, s2, no. split; [right; exact Hin|exact Hr].
Qed.

Lemma limit_json_leaves : forall fx limit src tmpl fs out, limit_json fx limit src tmpl fs = Some out ->
  forall x, In x (leaves out) ->
    In x (leaves tmpl) \/
    exists paths pred s0 l s1 no, In (paths, pred) fs /\ k_compact fx paths src s0 = Some (l, s1) /\ In no l /\
                                  written fx src (snd no) x.
Proof. intros fx limit src tmpl fs out H. eapply limit_fields_leaves. exact H. Qed.

(* the path texts compactArrayPaths returns are the texts getPath makes of locations the streaming engine reported *)
Definition text_of (fx : fixlevel) (l : loc) (s : pset) : string * string :=
  let '(_, n, o) := get_path fx l [] [] s in (n, o).

Lemma compact_fold : forall fx locs acc s res s',
  fold_left (fun (acc : list (string * string) * pset) (l : loc) =>
               let '(s', n, o) := get_path fx l [] [] (snd acc) in (fst acc ++ [(n, o)], s')) locs (acc, s) = (res, s') ->
  forall no, In no res -> In no acc \/ exists l s0, In l locs /\ no = text_of fx l s0.
Proof.
  induction locs as [|l locs IH]; intros acc s res s' H no Hin; cbn [fold_left] in H.
  - inversion H. subst. left. exact Hin.
  - cbn [fst snd] in H. destruct (get_path fx l [] [] s) as [[s1 n] o] eqn:E.
    destruct (IH _ _ _ _ H _ Hin) as [H1|[l0 [s0 [Hl Hn]]]].
    + apply in_app_or in H1. destruct H1 as [H1|[H1|[]]]; [left; exact H1|].
      right. exists l, s. split; [left; reflexivity|]. unfold text_of. rewrite E. auto.
    + right. exists l0, s0. split; [right; exact Hl|exact Hn].
Qed.

Lemma k_compact_reports : forall fx paths doc s l s', k_compact fx paths doc s = Some (l, s') ->
  forall no, In no l -> exists ps loc s0, parse_all (nodup_str paths) = Some ps /\ In loc (k_stream ps doc) /\ no = text_of fx loc s0.
Proof.
  intros fx paths doc s l s' H no Hin. unfold k_compact in H.
  destruct (parse_all paths); [|discriminate]. destruct (parse_all (nodup_str paths)) as [ps|] eqn:E; [|discriminate].
  inversion H as [H1]. clear H.
  destruct (fold_left _ (k_stream ps doc) ([], s)) as [res s2] eqn:E2. inversion H1. subst.
  destruct (compact_fold _ _ _ _ _ _ E2 _ Hin) as [[]|[loc [s0 [Hl Hn]]]].
  exists ps, loc, s0. auto.
Qed.

From VF Require Import C20.ProofsJ.

Lemma limit_json_only_requested : forall fx limit src tmpl fs out,
  limit_json fx limit src tmpl fs = Some out ->
  forall x, In x (leaves out) ->
    In x (leaves tmpl) \/
    exists paths pred ps loc v0 p s0,
      In (paths, pred) fs /\ parse_all (nodup_str paths) = Some ps /\
      node_at src loc v0 /\ In p ps /\ loc_match p loc = true /\
      written fx src (snd (text_of fx loc s0)) x.
Proof.
  intros fx limit src tmpl fs out H x Hx.
  destruct (limit_json_leaves _ _ _ _ _ _ H _ Hx) as [H1|[paths [pred [s0 [l [s1 [no [Hf [Hk [Hin Hw]]]]]]]]]]; [left; exact H1|].
  right. destruct (k_compact_reports _ _ _ _ _ _ Hk _ Hin) as [ps [loc [s2 [Hp [Hs Hn]]]]].
  destruct (stream_sound _ _ _ Hs) as [v0 [p [Hat [Hpin Hm]]]].
  exists paths, pred, ps, loc, v0, p, s2. subst no. repeat split; auto.
Qed.
