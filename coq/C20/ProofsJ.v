(* C20 — lemmas about the JSONPath / JSON-schema models of JsonPath.v *)
From Coq Require Import List String Ascii ZArith Bool NArith Arith Lia.
Import ListNotations.
From VF Require Import common.Json C20.JsonPath.
Open Scope list_scope.

Lemma node_at_app : forall l doc v l2 x, node_at doc l v -> node_at v l2 x -> node_at doc (l ++ l2) x.
Proof.
  induction l as [|e l IH]; intros doc v l2 x H1 H2; cbn [app].
  - cbn in H1. subst. exact H2.
  - destruct e as [k|i]; cbn [node_at] in *; destruct doc; try contradiction;
      destruct H1 as [y [Hy Hr]]; exists y; split; auto; eapply IH; eauto.
Qed.

Lemma lookup_In : forall m k x, lookup m k = Some x -> In (k, x) m.
Proof.
  induction m as [|[k' v] m IH]; intros k x H; cbn in H; [discriminate|].
  destruct (String.eqb k k') eqn:E.
  - apply String.eqb_eq in E. inversion H. subst. left. reflexivity.
  - right. auto.
Qed.

Lemma kids_arr_sound : forall a i l x, In (l, x) (kids_arr i a) -> exists n, l = [LI (i + n)] /\ nth_error a n = Some x.
Proof.
  induction a as [|y a IH]; intros i l x H; cbn in H; [contradiction|].
  destruct H as [H|H].
  - inversion H. subst. exists O. split; [f_equal; f_equal; lia | reflexivity].
  - apply IH in H. destruct H as [n [Hl Hn]]. exists (S n). split; [subst; f_equal; f_equal; lia | exact Hn].
Qed.

Lemma kids_obj_sound : forall m l x, In (l, x) (kids_obj m) -> exists k, l = [LK k] /\ In (k, x) m.
Proof.
  unfold kids_obj. intros m l x H. apply in_map_iff in H. destruct H as [[k v] [E Hin]]. cbn in E.
  inversion E. subst. exists k. split; auto.
Qed.

(* every node the traversal lists is a node of the document at that location *)
Lemma postnodes_sound : forall j l x, In (l, x) (postnodes j) -> node_at j l x.
Proof.
  induction j using json_ind'; intros l0 x0 Hin; cbn [postnodes] in Hin;
    try (cbn in Hin; destruct Hin as [Hin|[]]; inversion Hin; subst; reflexivity).
  - (* array *)
    apply in_app_or in Hin. destruct Hin as [Hin|Hin].
    2:{ cbn in Hin. destruct Hin as [Hin|[]]. inversion Hin. subst. reflexivity. }
    assert (G : forall (l : list json) (i : nat), Forall (fun j => forall l x, In (l, x) (postnodes j) -> node_at j l x) l ->
              In (l0, x0) ((fix go (i : nat) (l : list json) : list (loc * json) :=
                              match l with [] => [] | x :: r => map (pre (LI i)) (postnodes x) ++ go (S i) r end) i l) ->
              exists n y r, l0 = LI (i + n) :: r /\ nth_error l n = Some y /\ node_at y r x0).
    { clear. induction l as [|y l IH]; intros i HF Hin; [contradiction|].
      inversion HF as [|? ? Hy HF']; subst. apply in_app_or in Hin. destruct Hin as [Hin|Hin].
      - apply in_map_iff in Hin. destruct Hin as [[r v] [E Hin]]. unfold pre in E. cbn in E. inversion E. subst.
        exists O, y, r. split; [f_equal; f_equal; lia|]. split; [reflexivity|]. apply Hy. exact Hin.
      - apply IH in Hin; auto. destruct Hin as [n [z [r [E [Hn Hr]]]]]. exists (S n), z, r.
        split; [subst; f_equal; f_equal; lia|]. split; auto. }
    apply G in Hin; auto. destruct Hin as [n [y [r [E [Hn Hr]]]]]. subst. cbn [node_at]. exists y. split; auto.
  - (* object *)
    apply in_app_or in Hin. destruct Hin as [Hin|Hin].
    2:{ cbn in Hin. destruct Hin as [Hin|[]]. inversion Hin. subst. reflexivity. }
    assert (G : forall (m : list (string * json)), Forall (fun kv => forall l x, In (l, x) (postnodes (snd kv)) -> node_at (snd kv) l x) m ->
              In (l0, x0) ((fix go (m : list (string * json)) : list (loc * json) :=
                              match m with [] => [] | kv :: r => map (pre (LK (fst kv))) (postnodes (snd kv)) ++ go r end) m) ->
              exists k y r, l0 = LK k :: r /\ In (k, y) m /\ node_at y r x0).
    { clear. induction m as [|kv m IH]; intros HF Hin; [contradiction|].
      inversion HF as [|? ? Hy HF']; subst. apply in_app_or in Hin. destruct Hin as [Hin|Hin].
      - apply in_map_iff in Hin. destruct Hin as [[r v] [E Hin]]. unfold pre in E. cbn in E. inversion E. subst.
        exists (fst kv), (snd kv), r. split; [reflexivity|]. split; [left; destruct kv; reflexivity|]. apply Hy. exact Hin.
      - apply IH in Hin; auto. destruct Hin as [k [z [r [E [Hn Hr]]]]]. exists k, z, r. split; auto. split; auto. right. exact Hn. }
    apply G in Hin; auto. destruct Hin as [k [y [r [E [Hn Hr]]]]]. subst. cbn [node_at]. exists y. split; auto.
Qed.

Lemma step_sel_sound : forall any s doc l v l' v',
  node_at doc l v -> In (l', v') (step_sel any s (l, v)) -> node_at doc l' v'.
Proof.
  intros any s doc l v l' v' Hat Hin. unfold step_sel in Hin.
  assert (KA : forall a, In (l', v') (map (under l) (kids_arr 0 a)) -> v = JArr a -> node_at doc l' v').
  { intros a H Hv. apply in_map_iff in H. destruct H as [[r x] [E H]]. unfold under in E. cbn in E. inversion E. subst.
    apply kids_arr_sound in H. destruct H as [n [Hr Hn]]. subst. eapply node_at_app; eauto. cbn. exists v'. split; auto. }
  assert (KO : forall m, In (l', v') (map (under l) (kids_obj m)) -> v = JObj m -> node_at doc l' v').
  { intros m H Hv. apply in_map_iff in H. destruct H as [[r x] [E H]]. unfold under in E. cbn in E. inversion E. subst.
    apply kids_obj_sound in H. destruct H as [k [Hr Hk]]. subst. eapply node_at_app; eauto. cbn. exists v'. split; auto. }
  destruct s as [q k|n| | |k].
  - destruct v; try contradiction. destruct (lookup m k) eqn:E; [|contradiction].
    destruct Hin as [Hin|[]]. inversion Hin. subst. eapply node_at_app; eauto. cbn. exists v'. split; auto. apply lookup_In. exact E.
  - destruct v; try contradiction. destruct (nth_error l0 n) eqn:E; [|contradiction].
    destruct Hin as [Hin|[]]. inversion Hin. subst. eapply node_at_app; eauto. cbn. exists v'. split; auto.
  - destruct v; try contradiction.
    + destruct any; [|contradiction]. eapply KA; eauto.
    + eapply KO; eauto.
  - destruct v; try contradiction.
    + eapply KA; eauto.
    + destruct any; [|contradiction]. eapply KO; eauto.
  - apply in_flat_map in Hin. destruct Hin as [[r x] [Hn Hin]]. cbn [fst snd] in Hin.
    destruct x; try contradiction. destruct (lookup m k) eqn:E; [|contradiction].
    destruct Hin as [Hin|[]]. inversion Hin. subst. apply postnodes_sound in Hn.
    eapply node_at_app; eauto. eapply node_at_app; eauto. cbn. exists v'. split; auto. apply lookup_In. exact E.
Qed.

Lemma select_sound_gen : forall any st doc cur,
  (forall l v, In (l, v) cur -> node_at doc l v) ->
  forall l v, In (l, v) (select any st cur) -> node_at doc l v.
Proof.
  induction st as [|s st IH]; intros doc cur Hc l v Hin; cbn [select] in Hin; [auto|].
  eapply IH; [|exact Hin]. intros l1 v1 H1. apply in_flat_map in H1. destruct H1 as [[l0 v0] [H0 H1]].
  eapply step_sel_sound; eauto.
Qed.

(* a path selects only existing nodes *)
Lemma select_sound : forall any st doc l v, In (l, v) (select any st [([], doc)]) -> node_at doc l v.
Proof.
  intros any st doc l v H. eapply select_sound_gen; [|exact H].
  intros l0 v0 [E|[]]. inversion E. subst. reflexivity.
Qed.

(* a definite path (names and indices only) selects at most one node *)
Lemma step_sel_definite : forall any s lv, (match s with SName _ _ | SIdx _ => true | _ => false end) = true ->
  (List.length (step_sel any s lv) <= 1)%nat.
Proof.
  intros any s [l v] H. destruct s; try discriminate; cbn.
  - destruct v; cbn; try lia. destruct (lookup m s); cbn; lia.
  - destruct v; cbn; try lia. destruct (nth_error l0 n); cbn; lia.
Qed.
Lemma select_definite : forall any st cur, definite st = true -> (List.length cur <= 1)%nat ->
  (List.length (select any st cur) <= 1)%nat.
Proof.
  induction st as [|s st IH]; intros cur Hd Hc; cbn [select]; [exact Hc|].
  unfold definite in Hd. cbn [forallb] in Hd. apply andb_true_iff in Hd. destruct Hd as [Hs Hd].
  apply IH; [exact Hd|]. destruct cur as [|x [|y cur]]; cbn [flat_map]; [cbn; lia| |cbn in Hc; lia].
  rewrite app_nil_r. apply step_sel_definite. exact Hs.
Qed.

(* what jsonpath.Get hands to the schema: an existing node, or an array made of existing nodes *)
Lemma p_get_sound : forall path doc v, p_get path doc = Some v ->
  (exists l, node_at doc l v) \/ (exists vs, v = JArr vs /\ forall x, In x vs -> exists l, node_at doc l x).
Proof.
  intros path doc v H. unfold p_get, p_eval in H. destruct (p_parse path) as [st|]; [|discriminate].
  destruct (definite st).
  - destruct (map snd (select true st [([], doc)])) as [|x [|y r]] eqn:E; try discriminate. inversion H. subst.
    left. destruct (select true st [([], doc)]) as [|[l0 x0] r0] eqn:E2; [discriminate|].
    cbn in E. inversion E. subst. exists l0. apply select_sound with (any := true) (st := st). rewrite E2. left. reflexivity.
  - inversion H. subst. right. eexists. split; [reflexivity|]. intros x Hx. apply in_map_iff in Hx.
    destruct Hx as [[l0 x0] [E Hin]]. cbn in E. subst. exists l0. eapply select_sound; eauto.
Qed.

(* the streaming evaluator reports only existing nodes, each an instance of one of the paths *)
Lemma stream_sound : forall paths doc l, In l (k_stream paths doc) ->
  exists v p, node_at doc l v /\ In p paths /\ loc_match p l = true.
Proof.
  intros paths doc l H. unfold k_stream in H. apply in_flat_map in H. destruct H as [[l0 v] [Hn H]].
  apply in_flat_map in H. destruct H as [p [Hp H]]. cbn [fst] in H. destruct (loc_match p l0) eqn:E; [|contradiction].
  destruct H as [H|[]]. subst. exists v, p. split; [apply postnodes_sound; exact Hn|]. split; auto.
Qed.

(* every reported location has the length of its path and names exactly the members / elements the path names *)
Lemma loc_match_length : forall p l, loc_match p l = true -> List.length p = List.length l.
Proof.
  induction p as [|s p IH]; destruct l as [|e l]; cbn; intros H; try discriminate; auto.
  apply andb_true_iff in H. destruct H as [_ H]. f_equal. auto.
Qed.

(* a satisfied non-optional field has a path selecting a value the (compiling) schema accepts *)
Lemma field_paths_json_sound : forall doc s paths,
  field_paths_json doc (Some s) false paths false = true ->
  exists p v, In p paths /\ p_get p doc = Some v /\ schema_wf s = true /\ schema_valid s v = true.
Proof.
  induction paths as [|p r IH]; cbn [field_paths_json]; intros H; [discriminate|].
  destruct (p_get p doc) as [v|] eqn:E.
  - destruct (schema_accepts s v) eqn:A.
    + unfold schema_accepts in A. apply andb_true_iff in A. destruct A as [A1 A2].
      exists p, v. split; [left; reflexivity|]. auto.
    + apply IH in H. destruct H as [p' [v' [Hin Hr]]]. exists p', v'. split; [right; exact Hin|exact Hr].
  - apply IH in H. destruct H as [p' [v' [Hin Hr]]]. exists p', v'. split; [right; exact Hin|exact Hr].
Qed.
Lemma field_json_ok_sound : forall doc s paths, paths <> [] ->
  field_json_ok doc (Some s) false paths = true ->
  exists p v, In p paths /\ p_get p doc = Some v /\ schema_wf s = true /\ schema_valid s v = true.
Proof.
  intros doc s paths Hne H. unfold field_json_ok in H. destruct paths as [|p r]; [contradiction|].
  cbn [field_paths_json] in H. destruct (p_get p doc) as [v|] eqn:E.
  - destruct (schema_accepts s v) eqn:A.
    + unfold schema_accepts in A. apply andb_true_iff in A. destruct A as [A1 A2].
      exists p, v. split; [left; reflexivity|]. auto.
    + apply field_paths_json_sound in H. destruct H as [p' [v' [Hin Hr]]]. exists p', v'. split; [right; exact Hin|exact Hr].
  - apply field_paths_json_sound in H. destruct H as [p' [v' [Hin Hr]]]. exists p', v'. split; [right; exact Hin|exact Hr].
Qed.

(* `not` negates, on every value, when the sub-schema compiles *)
Lemma schema_not_negates : forall s v,
  schema_valid (Schema "" None [] None None None None 0 0 (Some s) None) v = negb (schema_valid s v).
Proof.
  intros s v. cbn. destruct v; cbn; rewrite ?andb_true_r; reflexivity.
Qed.

(* ================= the path TEXT handed to gjson / sjson (fix cd5ac52) ================= *)
Open Scope string_scope.

Lemma split_esc_nonempty : forall s, split_esc s <> [].
Proof.
  fix IH 1. intros s. destruct s as [|c r]; cbn [split_esc]; [discriminate|].
  destruct (ch c "\").
  - destruct r as [|d r2]; [discriminate|]. destruct (split_esc r2); discriminate.
  - destruct (ch c "."); [discriminate|]. destruct (split_esc r); discriminate.
Qed.

Lemma append_nil_r : forall s : string, (s ++ "")%string = s.
Proof. induction s as [|c s IH]; cbn; [reflexivity|]. rewrite IH. reflexivity. Qed.

(* an escaped member name in front of any text: the name comes back in front of the text's first component *)
Lemma split_esc_key : forall k t,
  split_esc (esc_key k ++ t)%string =
  match split_esc t with x :: r => (k ++ x)%string :: r | [] => [k] end.
Proof.
  induction k as [|c k IH]; intros t.
  - cbn [esc_key append]. destruct (split_esc t) eqn:E; [exfalso; eapply split_esc_nonempty; eauto|reflexivity].
  - cbn [esc_key]. destruct (ch c "\" || ch c ".") eqn:E.
    + cbn [append split_esc]. assert (H : ch "\"%char "\" = true) by reflexivity. rewrite H.
      rewrite IH. destruct (split_esc t) eqn:E2; [exfalso; eapply split_esc_nonempty; eauto|]. reflexivity.
    + apply orb_false_iff in E. destruct E as [E1 E2]. cbn [append split_esc]. rewrite E1, E2.
      rewrite IH. destruct (split_esc t) eqn:E3; [exfalso; eapply split_esc_nonempty; eauto|]. reflexivity.
Qed.

Lemma split_esc_dot : forall t, split_esc ("." ++ t)%string = EmptyString :: split_esc t.
Proof. intros t. reflexivity. Qed.

(* the dot-joined text of escaped names splits back into exactly the names, whatever characters they contain *)
Lemma path_text_roundtrip_lemma : forall comps, comps <> [] -> split_esc (join (map esc_key comps)) = comps.
Proof.
  induction comps as [|k r IH]; intros Hne; [contradiction|].
  destruct r as [|k2 r2].
  - cbn [map join String.concat]. rewrite <- (append_nil_r (esc_key k)). rewrite split_esc_key. cbn. rewrite append_nil_r. reflexivity.
  - change (join (map esc_key (k :: k2 :: r2))) with (esc_key k ++ "." ++ join (map esc_key (k2 :: r2)))%string.
    rewrite split_esc_key. rewrite split_esc_dot. rewrite IH by discriminate. cbn [append]. rewrite append_nil_r. reflexivity.
Qed.

(* ================= sjson / gjson: what was written is what is read ================= *)
Lemma nth_error_repeat_app : forall (n : nat) (x : json), nth_error (repeat JNull n ++ [x]) n = Some x.
Proof. induction n as [|n IH]; intros x; cbn; auto. Qed.

Lemma gj_get_create : forall comps v, gj_get comps (sj_create comps v) = Some v.
Proof.
  induction comps as [|c r IH]; intros v; cbn [sj_create gj_get]; [reflexivity|].
  destruct (all_digits c) eqn:E.
  - cbn [gj_get]. try rewrite E. rewrite nth_error_repeat_app. apply IH.
  - cbn [gj_get lookup]. rewrite String.eqb_refl. apply IH.
Qed.

Lemma set_member_lookup : forall c f m m', set_member c f m = Some m' ->
  exists x, lookup m' c = Some x /\ f (lookup m c) = Some x.
Proof.
  induction m as [|[k v] m IH]; intros m' H; cbn [set_member] in H.
  - destruct (f None) eqn:E; [|discriminate]. inversion H. subst. exists j. cbn. rewrite String.eqb_refl. auto.
  - cbn [fst snd] in H. destruct (String.eqb k c) eqn:E.
    + destruct (f (Some v)) eqn:E2; [|discriminate]. inversion H. subst. exists j. cbn.
      rewrite String.eqb_refl. rewrite String.eqb_sym, E. auto.
    + destruct (set_member c f m) eqn:E2; [|discriminate]. inversion H. subst.
      destruct (IH _ eq_refl) as [x [H1 H2]]. exists x. cbn. rewrite String.eqb_sym, E. auto.
Qed.

Lemma set_index_nth : forall i f a a', set_index i f a = Some a' ->
  exists x, nth_error a' i = Some x /\ f (nth_error a i) = Some x.
Proof.
  induction i as [|i IH]; intros f a a' H; destruct a as [|y r]; cbn [set_index] in H.
  - destruct (f None) eqn:E; [|discriminate]. inversion H. subst. exists j. auto.
  - destruct (f (Some y)) eqn:E; [|discriminate]. inversion H. subst. exists j. auto.
  - destruct (set_index i f []) eqn:E; [|discriminate]. inversion H. subst.
    destruct (IH _ _ _ E) as [x [H1 H2]]. exists x. cbn. split; auto. destruct i; exact H2.
  - destruct (set_index i f r) eqn:E; [|discriminate]. inversion H. subst.
    destruct (IH _ _ _ E) as [x [H1 H2]]. exists x. cbn. auto.
Qed.

(* whatever the document: after a successful sjson.Set of v at a path, gjson.Get of that path reads v *)
Lemma sj_set_get : forall comps v doc doc', sj_set comps v doc = Some doc' -> gj_get comps doc' = Some v.
Proof.
  induction comps as [|c r IH]; intros v doc doc' H.
  - cbn in H. inversion H. reflexivity.
  - cbn [sj_set] in H. destruct doc as [[| | | |a|m]|];
      try (inversion H; subst; apply (gj_get_create (c :: r))).
    + destruct (all_digits c) eqn:E; [|discriminate].
      destruct (set_index (nat_of_digits 0 c) (sj_set r v) a) eqn:E2; [|discriminate]. inversion H. subst.
      apply set_index_nth in E2. destruct E2 as [x [H1 H2]]. cbn [gj_get]. rewrite E, H1. eapply IH. exact H2.
    + destruct (set_member c (sj_set r v) m) eqn:E2; [|discriminate]. inversion H. subst.
      apply set_member_lookup in E2. destruct E2 as [x [H1 H2]]. cbn [gj_get]. rewrite H1. eapply IH. exact H2.
Qed.

(* ================= getPath's numbering (fix 215a538) ================= *)
Fixpoint last_is_dot (s : string) : bool :=
  match s with
  | EmptyString => false
  | String c EmptyString => ch c "."
  | String _ r => last_is_dot r
  end.

Lemma last_is_dot_app : forall a, last_is_dot (a ++ ".")%string = true.
Proof.
  induction a as [|c a IH]; [reflexivity|]. cbn [append]. cbn [last_is_dot].
  destruct (a ++ ".")%string eqn:E; [destruct a; discriminate|]. exact IH.
Qed.

Lemma set_find_put_other : forall k k' n s, k <> k' -> set_find k (set_put k' n s) = set_find k s.
Proof.
  intros k k' n s Hne. unfold set_find, set_put. cbn [find fst].
  destruct (String.eqb k' k) eqn:E; [apply String.eqb_eq in E; congruence|].
  induction s as [|[a b] s IH]; [reflexivity|]. cbn [filter fst find].
  destruct (String.eqb a k') eqn:E1; cbn [negb].
  - destruct (String.eqb a k) eqn:E2.
    + apply String.eqb_eq in E1. apply String.eqb_eq in E2. congruence.
    + exact IH.
  - cbn [find fst]. destruct (String.eqb a k); [reflexivity|exact IH].
Qed.

(* repaired code: the position recorded for an element (any key that is not a count: counts end with the separator)
   is never changed by later calls *)
Lemma get_path_stable : forall keys orig new s s' n o k p,
  get_path F2 keys orig new s = (s', n, o) -> last_is_dot k = false -> set_find k s = Some p -> set_find k s' = Some p.
Proof.
  induction keys as [|e keys IH]; intros orig new s s' n o k p H Hk Hf; cbn [get_path] in H.
  - inversion H. subst. exact Hf.
  - destruct e as [key|v].
    + eapply IH; eauto.
    + cbn [sep_on] in H. eapply IH; [exact H|exact Hk|].
      destruct (set_find (join (orig ++ [dec v])) s) eqn:E; [exact Hf|].
      rewrite set_find_put_other.
      * rewrite set_find_put_other; [exact Hf|]. intros Heq. subst. rewrite E in Hf. discriminate.
      * intros Heq. subst. rewrite last_is_dot_app in Hk. discriminate.
Qed.
