(* C20 — lemmas (iterator: exclusion). *)
From Coq Require Import List NArith ZArith Bool Lia.
Import ListNotations.
From VF Require Import C20.Model C20.Proofs.

Definition kept (ex : list N) (d : N) : bool := negb (memN d ex).

Lemma positions_ge : forall descs j ex q, In q (positions_from j ex descs) -> j <= q.
Proof.
  induction descs as [|d t IH]; intros j ex q H; simpl in H; [contradiction|].
  destruct (memN d ex); [destruct H as [H|H]; [lia|]|]; apply IH in H; lia.
Qed.

Lemma remove_skip : forall t j p q, q < j -> remove_pos_from j (q :: p) t = remove_pos_from j p t.
Proof.
  induction t as [|a t IH]; intros j p q H; simpl; [reflexivity|].
  assert (E : Nat.eqb j q = false) by (apply Nat.eqb_neq; lia). rewrite E. simpl.
  destruct (existsb (Nat.eqb j) p); rewrite IH by lia; reflexivity.
Qed.

Lemma remove_positions : forall descs i ex,
  remove_pos_from i (positions_from i ex descs) descs = filter (kept ex) descs.
Proof.
  induction descs as [|d t IH]; intros i ex; simpl; [reflexivity|]. unfold kept at 1.
  destruct (memN d ex) eqn:M; simpl.
  - rewrite Nat.eqb_refl. simpl. rewrite remove_skip by lia. apply IH.
  - assert (E : existsb (Nat.eqb i) (positions_from (S i) ex t) = false).
    { apply not_true_is_false. intros H. apply existsb_exists in H as [q [Q1 Q2]].
      apply Nat.eqb_eq in Q2. subst q. apply positions_ge in Q1. lia. }
    rewrite E. f_equal. apply IH.
Qed.

Lemma positions_nil : forall descs i ex, positions_from i ex descs = [] -> filter (kept ex) descs = descs.
Proof.
  induction descs as [|d t IH]; intros i ex H; simpl in *; [reflexivity|]. unfold kept at 1.
  destruct (memN d ex); [discriminate|]. simpl. f_equal. eapply IH; eauto.
Qed.

(* one call of Next: the descriptors named in `exclude` leave the iterator for good, the returned set consists of
   descriptors the iterator still holds; a finished iterator stays as it is and returns nothing *)
Lemma next_step : forall r it ex it' sol,
  next r it ex = Some (it', sol) ->
  (forall y, In y sol -> In y (it_descs it')) /\
  ((it_done it = false /\ it_descs it' = filter (kept ex) (it_descs it)) \/
   (it_done it = true /\ it' = it /\ sol = [])).
Proof.
  intros r it ex it' sol H. unfold next in H.
  destruct (it_done it) eqn:Dn; [inversion H; subst; split; [intros y []|right; auto]|].
  destruct (positions_from 0 ex (it_descs it)) as [|p ps] eqn:Hp.
  - destruct (search (fuel_for (it_descs it)) r (N.succ (it_state it)) (it_descs it)) as [[st2 cur]|] eqn:Hs; [|discriminate].
    inversion H; subst. simpl. split.
    + intros y Hy. destruct sol as [|c0 ct]; [contradiction|].
      destruct (search_sound _ _ _ _ _ _ Hs) as [_ E]; [discriminate|]. rewrite E in Hy. eapply current_from_sub; exact Hy.
    + left. split; [reflexivity|]. symmetry. eapply positions_nil; exact Hp.
  - unfold exclude_step in H.
    match type of H with context [search ?f r ?s ?d] => destruct (search f r s d) as [[st2 cur]|] eqn:Hs; [|discriminate] end.
    inversion H; subst. simpl. split.
    + intros y Hy. destruct sol as [|c0 ct]; [contradiction|].
      destruct (search_sound _ _ _ _ _ _ Hs) as [_ E]; [discriminate|]. rewrite E in Hy. eapply current_from_sub; exact Hy.
    + left. split; [reflexivity|]. rewrite <- Hp. apply remove_positions.
Qed.

(* a sequence of Next calls with the given exclude lists *)
Fixpoint iter_run (r : req) (it : iter) (exs : list (list N)) : option (list (list N)) :=
  match exs with
  | [] => Some []
  | ex :: t => match next r it ex with
               | None => None
               | Some (it', sol) => match iter_run r it' t with None => None | Some outs => Some (sol :: outs) end
               end
  end.

Lemma iter_run_sub : forall r exs it outs,
  iter_run r it exs = Some outs -> forall sol y, In sol outs -> In y sol -> In y (it_descs it).
Proof.
  intros r exs. induction exs as [|ex t IH]; intros it outs H sol y Hs Hy; simpl in H.
  - inversion H; subst. contradiction.
  - destruct (next r it ex) as [[it' s0]|] eqn:Hn; [|discriminate].
    destruct (iter_run r it' t) as [o|] eqn:Hr; [|discriminate]. inversion H; subst.
    destruct (next_step _ _ _ _ _ Hn) as [A B].
    assert (Sub : forall z, In z (it_descs it') -> In z (it_descs it)).
    { destruct B as [[_ E]|[_ [E _]]]; [rewrite E; intros z Hz; apply filter_In in Hz; tauto | subst; auto]. }
    destruct Hs as [Hs|Hs]; [subst s0; apply Sub; apply A; exact Hy | apply Sub; eapply IH; eauto].
Qed.

Lemma excluded_gone : forall r it ex exs outs x,
  iter_run r it (ex :: exs) = Some outs -> In x ex -> forall sol, In sol outs -> ~ In x sol.
Proof.
  intros r it ex exs outs x H Hx sol Hs Hin. simpl in H.
  destruct (next r it ex) as [[it' s0]|] eqn:Hn; [|discriminate].
  destruct (iter_run r it' exs) as [o|] eqn:Hr; [|discriminate]. inversion H; subst.
  destruct (next_step _ _ _ _ _ Hn) as [A B].
  destruct B as [[_ E]|[Dn [E1 E2]]].
  - assert (G : ~ In x (it_descs it')).
    { rewrite E. intros F. apply filter_In in F as [_ F]. unfold kept in F. apply negb_true_iff in F.
      apply memN_In in Hx. congruence. }
    destruct Hs as [Hs|Hs]; [subst s0; apply G; apply A; exact Hin | apply G; eapply iter_run_sub; eauto].
  - subst it' s0. destruct Hs as [Hs|Hs]; [subst sol; contradiction|].
    (* a finished iterator only returns the empty list *)
    assert (Done : forall exs' it0 o', it_done it0 = true -> iter_run r it0 exs' = Some o' -> forall s, In s o' -> s = []).
    { induction exs' as [|e t IHd]; intros it0 o' D R s Si; simpl in R; [inversion R; subst; contradiction|].
      unfold next in R. rewrite D in R.
      destruct (iter_run r it0 t) as [o2|] eqn:R2; [|discriminate]. inversion R; subst.
      destruct Si as [Si|Si]; [auto | eapply IHd; eauto]. }
    rewrite (Done _ _ _ Dn Hr sol Hs) in Hin. contradiction.
Qed.
