(* C20 — lemmas (verifier side and the end-to-end statements). *)
From Coq Require Import List NArith ZArith Bool Lia.
Import ListNotations.
From VF Require Import C20.Model C20.Proofs C20.ProofsB.

(* ---------- what a descriptor's credential list consists of ---------- *)
Lemma index_creds_nth : forall creds k i c, In (i, c) (index_creds k creds) -> k <= i /\ nth_error creds (i - k) = Some c.
Proof.
  induction creds as [|x t IH]; intros k i c H; simpl in H; [contradiction|].
  destruct H as [H|H].
  - inversion H; subst. split; [lia|]. rewrite Nat.sub_diag. reflexivity.
  - apply IH in H as [H1 H2]. split; [lia|]. replace (i - k) with (S (i - S k)) by lia. exact H2.
Qed.

Lemma filter_format_sub : forall f cs ic, In ic (snd (filter_format f cs)) -> In ic cs.
Proof.
  intros f cs ic. unfold filter_format. cbv zeta.
  assert (F : forall g x, In x (filter (fun ic => g (snd ic)) cs) -> In x cs) by (intros g x Hx; apply filter_In in Hx; tauto).
  destruct (filter (fun ic0 => by_proof (fm_ldp f) (snd ic0)) cs) eqn:E1; [|cbn [snd]; rewrite <- E1; apply F].
  destruct (filter (fun ic0 => by_proof (fm_ldpvc f) (snd ic0)) cs) eqn:E2; [|cbn [snd]; rewrite <- E2; apply F].
  destruct (filter (fun ic0 => by_proof (fm_ldpvp f) (snd ic0)) cs) eqn:E3; [|cbn [snd]; rewrite <- E3; apply F].
  destruct (filter (fun ic0 => by_alg (fm_jwt f) (snd ic0)) cs) eqn:E4; [|cbn [snd]; rewrite <- E4; apply F].
  destruct (filter (fun ic0 => by_alg (fm_jwtvc f) (snd ic0)) cs) eqn:E5; [|cbn [snd]; rewrite <- E5; apply F].
  destruct (filter (fun ic0 => by_alg (fm_jwtvp f) (snd ic0)) cs) eqn:E6; [|cbn [snd]; rewrite <- E6; apply F].
  simpl. tauto.
Qed.

Definition sat_desc (d : desc) (c : cred) : Prop :=
  (d_schema d <> [] -> schema_ok (d_schema d) c = true) /\
  (forall k, d_constraints d = Some k -> constraints_ok k c = true).

Lemma match_descriptor_sub : forall p d cs ic,
  In ic (snd (match_descriptor p d cs)) -> In ic cs /\ sat_desc d (snd ic).
Proof.
  intros p d cs ic. unfold match_descriptor.
  set (fmt := if format_not_nil (d_format d) then d_format d else p_format p).
  destruct (match fmt with Some f => if format_not_nil fmt then filter_format f cs else (0%N, cs) | None => (0%N, cs) end)
    as [code l1] eqn:E1.
  assert (S1 : forall x, In x l1 -> In x cs).
  { intros x Hx. destruct fmt as [f|]; [|inversion E1; subst; exact Hx].
    destruct (format_not_nil (Some f)); [|inversion E1; subst; exact Hx].
    apply (filter_format_sub f cs x). rewrite E1. exact Hx. }
  simpl. intros H.
  assert (H2 : In ic (match d_schema d with [] => l1 | s => filter (fun ic => schema_ok s (snd ic)) l1 end) /\
               (forall k, d_constraints d = Some k -> constraints_ok k (snd ic) = true)).
  { destruct (d_constraints d) as [k|]; [|split; [exact H | discriminate]].
    apply filter_In in H as [H1 H2]. split; [exact H1|]. intros k' Hk. inversion Hk; subst. exact H2. }
  destruct H2 as [H2 H3]. split; [|split; [|exact H3]].
  - destruct (d_schema d); [apply S1; exact H2|]. apply filter_In in H2 as [H2 _]. apply S1. exact H2.
  - intros Hne. destruct (d_schema d) as [|s0 st]; [congruence|]. apply filter_In in H2 as [_ H2]. exact H2.
Qed.

(* how a wrapped credential relates to the holder's credential c it was made from, for descriptor d *)
Definition disclosed_form (v : variant) (d : desc) (i : nat) (c : cred) (w : wcred) : Prop :=
  (w_key w = KTmp (d_id d) i /\ exists k, d_constraints d = Some k /\
     ((c_sd c = false /\ w_cred w = limited_cred v k c) \/ (c_sd c = true /\ k_limit k = true /\ w_cred w = sd_limited k c))) \/
  (w_key w = id_key v i c /\ w_cred w = c /\
     (forall k, d_constraints d = Some k -> k_limit k = false)).

Lemma limit_one_cases : forall v d i c w, In w (limit_one v d (i, c)) -> w_src w = i /\ disclosed_form v d i c w.
Proof.
  intros v d i c w H. unfold limit_one in H. unfold disclosed_form. destruct (d_constraints d) as [k|].
  - destruct (c_sd c) eqn:Sd.
    + destruct (k_limit k) eqn:L; destruct H as [H|[]]; subst w; simpl; (split; [reflexivity|]).
      * left. split; [reflexivity|]. exists k. split; [reflexivity|]. right. auto.
      * right. repeat split; auto. intros k' Hk. inversion Hk; subst. exact L.
    + destruct (k_limit k && negb (existsb f_pred (k_fields k) || subject_is_issuer c || memN 3 (c_proofs c))); [contradiction|].
      destruct (k_limit k || existsb f_pred (k_fields k)) eqn:E.
      * destruct H as [H|[]]. subst w. simpl. split; [reflexivity|]. left. split; [reflexivity|]. exists k. auto.
      * destruct H as [H|[]]. subst w. simpl. split; [reflexivity|]. right. repeat split; auto.
        intros k' Hk. inversion Hk; subst. apply orb_false_iff in E. tauto.
  - destruct H as [H|[]]. subst w. simpl. split; [reflexivity|]. right. repeat split; auto. discriminate.
Qed.

(* a wrapped credential of descriptor d derives from a credential of the holder that satisfies d *)
Definition derives (v : variant) (p : defn) (creds : list cred) (d : desc) (w : wcred) : Prop :=
  exists c, nth_error creds (w_src w) = Some c /\ sat_desc d c /\ disclosed_form v d (w_src w) c w.

Lemma limit_disclosure_derives : forall v p creds d w,
  In w (limit_disclosure v d (snd (match_descriptor p d (index_creds 0 creds)))) -> derives v p creds d w.
Proof.
  intros v p creds d w H. unfold limit_disclosure in H. apply in_flat_map in H as [[i c] [H1 H2]].
  apply match_descriptor_sub in H1 as [H1 H3]. apply index_creds_nth in H1 as [_ H1].
  rewrite Nat.sub_0_r in H1. apply limit_one_cases in H2 as [E H2]. exists c. rewrite E. simpl in H3. auto.
Qed.

Definition unique_ids (creds : list cred) : Prop :=
  forall i j ci cj, nth_error creds i = Some ci -> nth_error creds j = Some cj ->
                    c_id ci = c_id cj -> c_id ci <> 0%N -> i = j.

Lemma good_KD : forall p creds sel,
  unique_ids creds -> Forall (good Fixed p (index_creds 0 creds)) sel ->
  forall m1 m2 w1 w2, In m1 sel -> In m2 sel -> In w1 (m_creds m1) -> In w2 (m_creds m2) ->
    w_key w1 = w_key w2 -> w_cred w1 = w_cred w2.
Proof.
  intros p creds sel U G m1 m2 w1 w2 M1 M2 W1 W2 K. rewrite Forall_forall in G.
  destruct (G _ M1) as [d1 [F1 [I1 [_ [C1 _]]]]]. destruct (G _ M2) as [d2 [F2 [I2 [_ [C2 _]]]]].
  rewrite C1 in W1. rewrite C2 in W2.
  apply limit_disclosure_derives in W1 as [c1 [N1 [_ D1]]]. apply limit_disclosure_derives in W2 as [c2 [N2 [_ D2]]].
  destruct D1 as [[K1 [k1 [E1 R1]]]|[K1 [R1 _]]]; destruct D2 as [[K2 [k2 [E2 R2]]]|[K2 [R2 _]]];
    rewrite K1, K2 in K.
  - inversion K as [[Hd Hi]]. assert (m_desc m1 = m_desc m2) by congruence.
    assert (d1 = d2) by congruence. subst d2. rewrite Hi in N1.
    assert (c1 = c2) by congruence. subst c2. assert (k1 = k2) by congruence. subst k2.
    destruct R1 as [[S1 R1]|[S1 [_ R1]]]; destruct R2 as [[S2 R2]|[S2 [_ R2]]]; congruence.
  - unfold id_key in K. destruct (N.eqb (c_id c2) 0); discriminate.
  - unfold id_key in K. destruct (N.eqb (c_id c1) 0); discriminate.
  - unfold id_key in K. destruct (N.eqb (c_id c1) 0) eqn:Z1; destruct (N.eqb (c_id c2) 0) eqn:Z2; try discriminate.
    + inversion K as [Hi]. rewrite Hi in N1. congruence.
    + inversion K as [Hi]. apply N.eqb_neq in Z1.
      assert (w_src w1 = w_src w2) by (eapply U; eauto). congruence.
Qed.

(* ---------- sort_dm keeps the elements ---------- *)
Lemma insert_dm_in : forall m l x, In x (insert_dm m l) <-> x = m \/ In x l.
Proof.
  intros m l x. induction l as [|y t IH]; simpl; [intuition|].
  destruct (N.leb (m_desc m) (m_desc y)); simpl; [intuition|]. rewrite IH. intuition.
Qed.
Lemma sort_dm_in : forall l x, In x (sort_dm l) <-> In x l.
Proof.
  induction l as [|y t IH]; intros x; simpl; [tauto|]. unfold sort_dm in *. simpl. rewrite insert_dm_in, IH. intuition.
Qed.

(* ---------- CreateVP: what is handed over ---------- *)
Record vp_spec (p : defn) (creds : list cred) (x : vp) (r : req) (sel : list dmatch) : Prop := {
  vs_req : make_req p = Some r;
  vs_sat : satisfied r (map m_desc sel) = true;
  vs_ne : sel <> [];
  vs_good : Forall (good Fixed p (index_creds 0 creds)) sel;
  vs_maps : forall mp, In mp (vp_map x) -> exists c, nth_error (vp_creds x) (mp_idx mp) = Some c /\ from_sel sel (mp_id mp) c;
  vs_refd : forall n, n < length (vp_creds x) -> exists mp, In mp (vp_map x) /\ mp_idx mp = n;
  vs_cov : forall m, In m sel -> exists mp, In mp (vp_map x) /\ mp_id mp = m_desc m }.

Lemma create_vp_spec : forall p creds x,
  unique_ids creds -> create_vp Fixed p creds = COk x -> exists r sel, vp_spec p creds x r sel.
Proof.
  intros p creds x U H. unfold create_vp in H.
  destruct (holder_select Fixed p creds) as [fmt sel| | |] eqn:Hs; try discriminate.
  destruct (holder_select_spec _ _ _ _ _ Hs) as [r [sol [R [Ne [S [Ms G]]]]]].
  destruct (merge_all (sort_dm sel) [] [] []) as [out maps] eqn:Hm. inversion H; subst x. simpl.
  assert (I0 : inv sel [] [] []).
  { constructor; simpl; intros; try reflexivity; try (destruct n; discriminate); try contradiction; try lia. }
  destruct (merge_all_inv sel (good_KD p creds sel U G) (sort_dm sel) [] [] [] out maps
              (fun m Hm' => proj1 (sort_dm_in sel m) Hm') I0 Hm) as [[k' I] [_ Cv]].
  exists r, sel. constructor; simpl.
  - exact R.
  - rewrite Ms. exact S.
  - intros E. subst sel. simpl in Ms. congruence.
  - exact G.
  - apply (inv_maps _ _ _ _ I).
  - apply (inv_refd _ _ _ _ I).
  - intros m Hm'. rewrite Forall_forall in G. destruct (G m Hm') as [d [_ [_ [_ [_ Hne]]]]].
    destruct (m_creds m) as [|w ws] eqn:Hc; [congruence|].
    destruct (Cv m w) as [mp [A [B _]]]; [apply sort_dm_in; exact Hm' | rewrite Hc; left; reflexivity|].
    exists mp. auto.
Qed.

(* ---------- Match ---------- *)
Lemma put_match_in : forall id c l i x, In (i, x) (put_match id c l) -> (i = id /\ x = c) \/ In (i, x) l.
Proof.
  intros id c l. induction l as [|[j y] t IH]; intros i x H; simpl in H.
  - destruct H as [H|[]]. inversion H; auto.
  - destruct (N.eqb j id) eqn:E.
    + destruct H as [H|H]; [inversion H; subst; apply N.eqb_eq in E; auto | right; right; exact H].
    + destruct H as [H|H]; [right; left; exact H|]. apply IH in H as [H|H]; auto. right. right. exact H.
Qed.
Lemma put_match_ids : forall id c l i, In i (map fst (put_match id c l)) <-> i = id \/ In i (map fst l).
Proof.
  intros id c l. induction l as [|[j y] t IH]; intros i; simpl; [intuition|].
  destruct (N.eqb j id) eqn:E; simpl.
  - apply N.eqb_eq in E. subst. intuition.
  - rewrite IH. intuition.
Qed.

Lemma matched_creds_ok : forall p disable creds maps acc,
  (forall mp, In mp maps -> exists d c, find_desc p (mp_id mp) = Some d /\ nth_error creds (mp_idx mp) = Some c /\
                                      (schema_ok (d_schema d) c || disable) = true) ->
  exists l, matched_creds p disable creds maps acc = MOk l /\
    (forall id, In id (map fst l) <-> In id (map fst acc) \/ exists mp, In mp maps /\ mp_id mp = id) /\
    (forall id c, In (id, c) l -> In (id, c) acc \/
                  exists mp, In mp maps /\ mp_id mp = id /\ nth_error creds (mp_idx mp) = Some c).
Proof.
  intros p disable creds maps. induction maps as [|mp t IH]; intros acc H; simpl.
  - exists acc. split; [reflexivity|]. split; [|auto]. intros id. split; [auto|]. intros [A|[mp [[] _]]]. exact A.
  - destruct (H mp (or_introl eq_refl)) as [d [c [F [N S]]]]. rewrite F, N, S.
    destruct (IH (put_match (mp_id mp) c acc) (fun x Hx => H x (or_intror Hx))) as [l [E [A B]]].
    exists l. split; [exact E|]. split.
    + intros id. rewrite A, put_match_ids. split.
      * intros [[X|X]|[x [X1 X2]]]; [right; exists mp; split; [left; reflexivity | auto] | left; exact X |
                                     right; exists x; split; [right; exact X1 | exact X2]].
      * intros [X|[x [[X1|X1] X2]]]; [left; right; exact X | subst x; left; left; auto | right; exists x; auto].
    + intros id c' Hin. apply B in Hin as [Hin|[x [X1 [X2 X3]]]].
      * apply put_match_in in Hin as [[E1 E2]|Hin]; [|left; exact Hin].
        subst. right. exists mp. split; [left; reflexivity|]. auto.
      * right. exists x. split; [right; exact X1|]. auto.
Qed.

(* ---------- IsSatisfiedBy depends on the set only ---------- *)
Lemma satisfied_ext : forall r s1 s2, (forall x, memN x s1 = memN x s2) -> satisfied r s1 = satisfied r s2.
Proof.
  fix IH 1. intros [ids nested cnt mn mx] s1 s2 E. simpl.
  destruct nested as [|n0 nt].
  - f_equal. f_equal. f_equal. apply filter_ext. intros a. apply E.
  - f_equal. f_equal.
    assert (G : forall l, (fix count (l : list req) : nat :=
                             match l with [] => 0 | c :: t => (if satisfied c s1 then 1 else 0) + count t end) l =
                          (fix count (l : list req) : nat :=
                             match l with [] => 0 | c :: t => (if satisfied c s2 then 1 else 0) + count t end) l).
    { induction l as [|c t IHl]; [reflexivity|]. rewrite (IH c s1 s2 E), IHl. reflexivity. }
    apply (G (n0 :: nt)).
Qed.

Lemma nodupN_id : forall l, NoDup l -> nodupN l = l.
Proof.
  induction l as [|x t IH]; intros H; simpl; [reflexivity|]. inversion H; subst.
  destruct (memN x t) eqn:E; [apply memN_In in E; contradiction|]. rewrite IH; auto.
Qed.

Lemma filter_len_le : forall (A : Type) (f : A -> bool) l, length (filter f l) <= length l.
Proof. intros A f. induction l as [|y t IH]; simpl; [lia|]. destruct (f y); simpl; lia. Qed.

Lemma filter_full : forall (A : Type) (f : A -> bool) l, length (filter f l) = length l -> forall x, In x l -> f x = true.
Proof.
  intros A f. induction l as [|y t IH]; intros H x Hx; simpl in *; [contradiction|].
  pose proof (filter_len_le A f t) as L.
  destruct (f y) eqn:E; simpl in H.
  - destruct Hx as [Hx|Hx]; [subst; exact E | apply IH; [lia | exact Hx]].
  - lia.
Qed.

Lemma eval_requirements_ok : forall p r sol matched,
  NoDup (map d_id (p_descs p)) -> make_req p = Some r -> satisfied r sol = true ->
  (forall id, In id matched <-> In id sol) -> eval_requirements Fixed p matched = None.
Proof.
  intros p r sol matched ND R S M. unfold eval_requirements.
  assert (Ext : forall x, memN x sol = memN x matched).
  { intros x. destruct (memN x sol) eqn:A; destruct (memN x matched) eqn:B; auto.
    - apply memN_In in A. apply M in A. apply memN_In in A. congruence.
    - apply memN_In in B. apply M in B. apply memN_In in B. congruence. }
  destruct (p_reqs p) as [|s0 st] eqn:Hr.
  - unfold make_req in R. rewrite Hr in R. inversion R; subst r. clear R.
    assert (All : forall d, In d (p_descs p) -> memN (d_id d) matched = true).
    { intros d Hd. unfold mk_logic in S. simpl in S. rewrite (nodupN_id _ ND) in S.
      rewrite <- Ext. unfold len_ok in S.
      set (n := Z.of_nat (length (p_descs p))) in *.
      set (k := Z.of_nat (length (filter (fun i => memN i sol) (map d_id (p_descs p))))) in *.
      assert (Hn : (0 < n)%Z). { unfold n. destruct (p_descs p); [contradiction|]. simpl. lia. }
      assert (Z.ltb 0 n = true) as L by (apply Z.ltb_lt; exact Hn). rewrite L in S. simpl in S.
      apply andb_true_iff in S as [S _]. apply andb_true_iff in S as [S _].
      apply negb_true_iff in S. apply negb_false_iff in S. apply Z.eqb_eq in S.
      apply (filter_full _ (fun i => memN i sol) (map d_id (p_descs p))).
      - unfold k, n in S. rewrite map_length. lia.
      - apply in_map. exact Hd. }
    replace (forallb (fun d => memN (d_id d) matched) (p_descs p)) with true; [reflexivity|].
    symmetry. apply forallb_forall. exact All.
  - rewrite R. rewrite <- (satisfied_ext r sol matched Ext). rewrite S. reflexivity.
Qed.

(* ---------- end to end ---------- *)
Lemma schema_loop_types : forall l c c' a, type_iris c = type_iris c' -> schema_loop l c a = schema_loop l c' a.
Proof.
  induction l as [|[u rq] t IH]; intros c c' a E; simpl; [reflexivity|].
  rewrite E. destruct (memN u (type_iris c')); [apply IH; exact E|]. destruct rq; [reflexivity | apply IH; exact E].
Qed.

Lemma derives_schema : forall v p creds d w,
  derives v p creds d w -> d_schema d <> [] -> schema_ok (d_schema d) (w_cred w) = true.
Proof.
  intros v p creds d w [c [_ [[S _] D]]] Hne. specialize (S Hne). unfold schema_ok in *.
  destruct D as [[_ [k [_ [[_ E]|[_ [_ E]]]]]]|[_ [E _]]]; rewrite E; try exact S.
  - rewrite (schema_loop_types (d_schema d) (limited_cred v k c) c false); [exact S | reflexivity].
  - rewrite (schema_loop_types (d_schema d) (sd_limited k c) c false); [exact S | reflexivity].
Qed.

Lemma sel_derives : forall p creds sel id c,
  Forall (good Fixed p (index_creds 0 creds)) sel -> from_sel sel id c ->
  exists d w, find_desc p id = Some d /\ In d (p_descs p) /\ derives Fixed p creds d w /\ c = w_cred w.
Proof.
  intros p creds sel id c G [m [w [M [W [E1 E2]]]]]. rewrite Forall_forall in G.
  destruct (G m M) as [d [F [_ [I [C _]]]]]. exists d, w. subst id. repeat split; auto.
  apply limit_disclosure_derives. rewrite <- C. exact W.
Qed.

Definition verify_with (p : defn) (disable : bool) (x : vp) (maps : list mapping) : mres :=
  match matched_creds p disable (vp_creds x) maps [] with
  | MOk l => match eval_requirements Fixed p (map fst l) with None => MOk l | Some e => e end
  | e => e
  end.

(* acceptance does not depend on the order in which the descriptor-map entries are walked *)
Lemma verifier_accepts_gen : forall p creds x disable maps',
  NoDup (map d_id (p_descs p)) -> unique_ids creds ->
  (disable = false -> forall d, In d (p_descs p) -> d_schema d <> []) ->
  create_vp Fixed p creds = COk x ->
  (forall mp, In mp maps' <-> In mp (vp_map x)) ->
  exists l, verify_with p disable x maps' = MOk l /\ l <> [] /\
    forall id c, In (id, c) l ->
      exists d w, find_desc p id = Some d /\ derives Fixed p creds d w /\ c = w_cred w.
Proof.
  intros p creds x disable maps' ND U Hs H Pm.
  destruct (create_vp_spec p creds x U H) as [r [sel V]].
  pose proof (vs_good _ _ _ _ _ V) as G.
  destruct (matched_creds_ok p disable (vp_creds x) maps' []) as [l [E [A B]]].
  { intros mp Hmp. apply Pm in Hmp. destruct (vs_maps _ _ _ _ _ V mp Hmp) as [c [N Fs]].
    destruct (sel_derives p creds sel _ _ G Fs) as [d [w [F [I [D Ec]]]]].
    exists d, c. split; [exact F|]. split; [exact N|].
    destruct disable; [apply orb_true_r|]. rewrite orb_false_r. subst c.
    eapply derives_schema; [exact D | apply Hs; auto]. }
  assert (Ids : forall id, In id (map fst l) <-> In id (map m_desc sel)).
  { intros id. rewrite A. split.
    - intros [[]|[mp [M1 M2]]]. apply Pm in M1. destruct (vs_maps _ _ _ _ _ V mp M1) as [c [_ [m [w [M [_ [E1 _]]]]]]].
      subst id. rewrite E1. apply in_map. exact M.
    - intros Hin. apply in_map_iff in Hin as [m [E1 M]]. right.
      destruct (vs_cov _ _ _ _ _ V m M) as [mp [M1 M2]]. exists mp. split; [apply Pm; exact M1 | congruence]. }
  exists l. unfold verify_with. rewrite E.
  rewrite (eval_requirements_ok p r (map m_desc sel) (map fst l) ND (vs_req _ _ _ _ _ V) (vs_sat _ _ _ _ _ V) Ids).
  split; [reflexivity|]. split.
  - intros El. subst l. destruct sel as [|m t] eqn:Es; [exact (vs_ne _ _ _ _ _ V eq_refl)|].
    assert (In (m_desc m) (map fst (@nil (N * cred)))) by (apply Ids; left; reflexivity). contradiction.
  - intros id c Hin. apply B in Hin as [[]|[mp [M1 [M2 M3]]]]. apply Pm in M1.
    destruct (vs_maps _ _ _ _ _ V mp M1) as [c' [N Fs]]. assert (c' = c) by congruence. subst c'. subst id.
    destruct (sel_derives p creds sel _ _ G Fs) as [d [w [F [_ [D Ec]]]]]. exists d, w. auto.
Qed.

Lemma verifier_accepts_lemma : forall p creds x disable,
  NoDup (map d_id (p_descs p)) -> unique_ids creds ->
  (disable = false -> forall d, In d (p_descs p) -> d_schema d <> []) ->
  create_vp Fixed p creds = COk x ->
  exists l, verifier_match Fixed p disable x = MOk l /\ l <> [] /\
    forall id c, In (id, c) l ->
      exists d w, find_desc p id = Some d /\ derives Fixed p creds d w /\ c = w_cred w.
Proof.
  intros p creds x disable ND U Hs H.
  apply (verifier_accepts_gen p creds x disable (vp_map x) ND U Hs H). intros mp. tauto.
Qed.

Lemma by_presentation_in : forall n maps mp,
  (forall m, In m maps -> mp_idx m < n) -> (In mp (by_presentation n maps) <-> In mp maps).
Proof.
  intros n maps mp Hb. unfold by_presentation. rewrite in_flat_map. split.
  - intros [i [_ Hi]]. apply filter_In in Hi. tauto.
  - intros Hin. exists (mp_idx mp). split; [apply in_seq; specialize (Hb mp Hin); lia|].
    apply filter_In. split; [exact Hin | apply Nat.eqb_refl].
Qed.

(* CreateVPArray + Match with the merged submission *)
Lemma verifier_accepts_merged_lemma : forall p creds x disable,
  NoDup (map d_id (p_descs p)) -> unique_ids creds ->
  (disable = false -> forall d, In d (p_descs p) -> d_schema d <> []) ->
  create_vp Fixed p creds = COk x ->
  exists l, verifier_match_merged Fixed p disable x = MOk l /\ l <> [] /\
    forall id c, In (id, c) l ->
      exists d w, find_desc p id = Some d /\ derives Fixed p creds d w /\ c = w_cred w.
Proof.
  intros p creds x disable ND U Hs H.
  apply (verifier_accepts_gen p creds x disable (by_presentation (length (vp_creds x)) (vp_map x)) ND U Hs H).
  intros mp. apply by_presentation_in. intros m Hm.
  destruct (create_vp_spec p creds x U H) as [r [sel V]].
  destruct (vs_maps _ _ _ _ _ V m Hm) as [c [N _]]. apply nth_error_Some. congruence.
Qed.

(* MatchSubmissionRequirement: every credential it reports under a descriptor is (the disclosed form of) a holder
   credential satisfying that descriptor *)
Lemma msr_sound_lemma : forall v p creds apply out id cs c,
  msr v p creds apply = Some out -> In (id, cs) out -> In c cs ->
  exists d, d_id d = id /\ In d (p_descs p) /\
    if apply then exists w, derives v p creds d w /\ c = w_cred w
    else exists i, nth_error creds i = Some c /\ sat_desc d c.
Proof.
  intros v p creds apply out id cs c H Hin Hc. unfold msr in H.
  assert (S1 : forall descs s l, sreq_descs descs s = Some l -> forall d, In d l -> In d descs).
  { intros descs. fix IH 1. intros [a c0 mn mx g|a c0 mn mx ss] l Hs d Hd; simpl in Hs.
    - destruct (filter (fun d0 => memN g (d_groups d0)) descs) eqn:E; [discriminate|]. inversion Hs; subst.
      rewrite <- E in Hd. apply filter_In in Hd. tauto.
    - revert l Hs d Hd. induction ss as [|s0 st IHs]; intros l Hs d Hd; [inversion Hs; subst; contradiction|].
      destruct (sreq_descs descs s0) as [a1|] eqn:E1; [|discriminate].
      match type of Hs with match ?g with _ => _ end = _ => destruct g as [b1|] eqn:E2; [|discriminate] end.
      inversion Hs; subst. apply in_app_or in Hd as [Hd|Hd]; [eapply IH; eauto | eapply IHs; eauto]. }
  assert (S2 : forall descs l ds, sreqs_descs descs l = Some ds -> forall d, In d ds -> In d descs).
  { intros descs l. induction l as [|s0 st IHs]; intros ds Hs d Hd; simpl in Hs; [inversion Hs; subst; contradiction|].
    destruct (sreq_descs descs s0) as [a1|] eqn:E1; [|discriminate].
    destruct (sreqs_descs descs st) as [b1|] eqn:E2; [|discriminate].
    inversion Hs; subst. apply in_app_or in Hd as [Hd|Hd]; [eapply S1; eauto | eapply IHs; eauto]. }
  assert (Tail : forall ds, (forall d, In d ds -> In d (p_descs p)) ->
                 out = map (msr_one v p (index_creds 0 creds) apply) ds ->
                 exists d, d_id d = id /\ In d (p_descs p) /\
                   if apply then exists w, derives v p creds d w /\ c = w_cred w
                   else exists i, nth_error creds i = Some c /\ sat_desc d c).
  { intros ds Hds Hout. subst out. apply in_map_iff in Hin as [d [E Hd]]. unfold msr_one in E. inversion E; subst id cs.
    exists d. split; [reflexivity|]. split; [apply Hds; exact Hd|].
    destruct apply.
    - apply in_map_iff in Hc as [w [Ew Hw]]. exists w. split; [apply limit_disclosure_derives; exact Hw | auto].
    - apply in_map_iff in Hc as [[i c'] [Ec Hic]]. simpl in Ec. subst c'.
      apply match_descriptor_sub in Hic as [H1 H2]. apply index_creds_nth in H1 as [_ H1]. rewrite Nat.sub_0_r in H1.
      exists i. split; [exact H1 | exact H2]. }
  destruct (p_reqs p) as [|s0 st] eqn:Er.
  - inversion H. apply (Tail (p_descs p)); auto.
  - destruct (sreqs_descs (p_descs p) (s0 :: st)) as [ds|] eqn:Ed; [|discriminate].
    inversion H. apply (Tail ds); auto. intros d Hd. eapply S2; eauto.
Qed.

(* every credential of the presentation stands under a descriptor and derives from a credential satisfying it *)
Lemma holder_output_lemma : forall p creds x,
  unique_ids creds -> create_vp Fixed p creds = COk x ->
  (forall mp, In mp (vp_map x) ->
     exists c d w, nth_error (vp_creds x) (mp_idx mp) = Some c /\ find_desc p (mp_id mp) = Some d /\
                   derives Fixed p creds d w /\ c = w_cred w) /\
  (forall n, n < length (vp_creds x) -> exists mp, In mp (vp_map x) /\ mp_idx mp = n).
Proof.
  intros p creds x U H. destruct (create_vp_spec p creds x U H) as [r [sel V]]. split.
  - intros mp Hmp. destruct (vs_maps _ _ _ _ _ V mp Hmp) as [c [N Fs]].
    destruct (sel_derives p creds sel _ _ (vs_good _ _ _ _ _ V) Fs) as [d [w [F [_ [D E]]]]]. exists c, d, w. auto.
  - apply (vs_refd _ _ _ _ _ V).
Qed.

(* ---------- limited disclosure reveals requested members only ---------- *)
Lemma set_attr_keys : forall k v l x, In x (map fst (set_attr k v l)) -> x = k \/ In x (map fst l).
Proof.
  intros k v l x H. unfold set_attr in H. destruct (existsb (fun kv => N.eqb (fst kv) k) l).
  - rewrite map_map in H. apply in_map_iff in H as [[a b] [E I]]. simpl in E.
    destruct (N.eqb a k) eqn:Ek; simpl in E; [left; congruence|].
    right. subst x. apply in_map_iff. exists (a, b). auto.
  - rewrite map_app in H. apply in_app_or in H as [H|[H|[]]]; auto.
Qed.

Lemma set_elem_keys : forall k n v l x, In x (map fst (set_elem k n v l)) -> x = k \/ In x (map fst l).
Proof.
  intros k n v l x H. unfold set_elem in H.
  destruct (find_attr k l) as [[z|z|z|a]|]; apply set_attr_keys in H; exact H.
Qed.

(* a written key is the base of one of the paths (the path itself for a leaf path) *)
Lemma write_paths_keys : forall src pred compact paths pm acc x,
  In x (map fst (snd (write_paths src pred compact paths pm acc))) ->
  (exists p, In p paths /\ path_base p = x) \/ In x (map fst acc).
Proof.
  intros src pred compact paths. induction paths as [|p t IH]; intros pm acc x H; simpl in H; [auto|].
  assert (Step : forall pm' acc', In x (map fst (snd (write_paths src pred compact t pm' acc'))) ->
                 (In x (map fst acc') -> path_base p = x \/ In x (map fst acc)) ->
                 (exists q, In q (p :: t) /\ path_base q = x) \/ In x (map fst acc)).
  { intros pm' acc' H1 H2. apply IH in H1 as [[q [Q1 Q2]]|H1]; [left; exists q; split; [right; exact Q1 | exact Q2]|].
    destruct (H2 H1) as [E|E]; [left; exists p; split; [left; reflexivity | exact E] | right; exact E]. }
  destruct (lookup p src) as [v|]; [|eapply Step; [exact H | auto]].
  destruct (is_idx p) eqn:Ip.
  - destruct compact.
    + destruct (pos_of p pm); (eapply Step; [exact H|]); intros Hx; apply set_elem_keys in Hx; (destruct Hx as [Hx|Hx]; [left; symmetry; exact Hx | right; exact Hx]).
    + eapply Step; [exact H|]. intros Hx. apply set_elem_keys in Hx. destruct Hx as [Hx|Hx]; [left; symmetry; exact Hx | right; exact Hx].
  - eapply Step; [exact H|]. intros Hx. apply set_attr_keys in Hx as [Hx|Hx]; [|auto].
    left. unfold path_base. rewrite Ip. auto.
Qed.

Lemma write_fields_keys : forall v src limit fs pm acc x,
  In x (map fst (write_fields v src limit fs pm acc)) ->
  (exists f p, In f fs /\ In p (f_paths f) /\ path_base p = x) \/ In x (map fst acc).
Proof.
  intros v src limit fs. induction fs as [|f t IH]; intros pm acc x H; simpl in H; [auto|].
  destruct (write_paths src (f_pred f) match v with AsIs => true | Fixed => limit end (doc_order (f_paths f))
              match v with AsIs => [] | Fixed => pm end acc) as [pm' acc'] eqn:E.
  apply IH in H as [[g [p [G1 [G2 G3]]]]|H]; [left; exists g, p; split; [right; exact G1 | auto]|].
  assert (H' : In x (map fst (snd (write_paths src (f_pred f) match v with AsIs => true | Fixed => limit end
                 (doc_order (f_paths f)) match v with AsIs => [] | Fixed => pm end acc)))) by (rewrite E; exact H).
  apply write_paths_keys in H' as [[p [P1 P2]]|H']; [|auto].
  left. exists f, p. split; [left; reflexivity|]. split; [|exact P2].
  unfold doc_order in P1. apply in_app_or in P1 as [P1|P1].
  - apply filter_In in P1. tauto.
  - assert (Ins : forall l y, In y (fold_right insert_N [] l) -> In y l).
    { induction l as [|z l IHl]; intros y Hy; simpl in Hy; [contradiction|].
      assert (Hi : forall a b w, In w (insert_N a b) -> w = a \/ In w b).
      { intros a b. induction b as [|c b IHb]; intros w Hw; simpl in Hw; [destruct Hw as [Hw|[]]; auto|].
        destruct (N.leb a c); [destruct Hw as [Hw|Hw]; auto|].
        destruct Hw as [Hw|Hw]; [right; left; exact Hw|]. apply IHb in Hw as [Hw|Hw]; auto. right. right. exact Hw. }
      apply Hi in Hy as [Hy|Hy]; [left; auto | right; apply IHl; exact Hy]. }
    apply Ins in P1. apply filter_In in P1. tauto.
Qed.

Lemma limited_lemma : forall v p creds d w k,
  derives v p creds d w -> d_constraints d = Some k -> k_limit k = true ->
  (forall c, nth_error creds (w_src w) = Some c -> c_rawsubj c = false) ->
  forall a, In a (map fst (c_attrs (w_cred w))) ->
  exists f q, In f (k_fields k) /\ In q (f_paths f) /\ (q = a \/ path_base q = a).
Proof.
  intros v p creds d w k [c [N [_ D]]] Hk Hl Raw a Ha. specialize (Raw c N).
  destruct D as [[_ [k' [E1 E2]]]|[_ [_ E]]].
  - assert (k' = k) by congruence. subst k'. destruct E2 as [[_ E2]|[_ [_ E2]]]; rewrite E2 in Ha; simpl in Ha.
    + rewrite Hl, Raw in Ha. apply write_fields_keys in Ha as [[f [q [F1 [F2 F3]]]]|[]]. exists f, q. auto.
    + apply in_map_iff in Ha as [[a' b] [Ea Hin]]. simpl in Ea. subst a'. apply filter_In in Hin as [Hin Hr].
      simpl in Hr. unfold requested in Hr. apply existsb_exists in Hr as [f [F1 F2]]. exists f, a. split; [exact F1|].
      split; [apply memN_In; exact F2 | left; reflexivity].
  - rewrite (E k Hk) in Hl. discriminate.
Qed.

(* SD-JWT: the disclosures kept are exactly the requested leaves of the holder's credential, values untouched *)
Lemma sd_limited_exact : forall k c kv,
  In kv (c_attrs (sd_limited k c)) <-> In kv (c_attrs c) /\ requested k (fst kv) = true.
Proof. intros k c kv. unfold sd_limited. simpl. apply filter_In. Qed.
