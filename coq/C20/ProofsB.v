(* C20 — lemmas (merge: the verifiableCredential list and the descriptor map). *)
From Coq Require Import List NArith ZArith Bool Lia.
Import ListNotations.
From VF Require Import C20.Model C20.Proofs.

Lemma key_index_some : forall k keys n, key_index k keys = Some n -> nth_error keys n = Some k.
Proof.
  intros k keys. induction keys as [|x t IH]; intros n H; simpl in H; [discriminate|].
  destruct (ckey_eqb k x) eqn:E.
  - inversion H; subst. apply ckey_eqb_eq in E. subst. reflexivity.
  - destruct (key_index k t) as [m|]; [|discriminate]. inversion H; subst. simpl. apply IH. reflexivity.
Qed.

Section Merge.
Variable sel : list dmatch.
(* equal keys denote the same credential *)
Hypothesis KD : forall m1 m2 w1 w2, In m1 sel -> In m2 sel -> In w1 (m_creds m1) -> In w2 (m_creds m2) ->
  w_key w1 = w_key w2 -> w_cred w1 = w_cred w2.

Definition from_sel (d : N) (c : cred) : Prop :=
  exists m w, In m sel /\ In w (m_creds m) /\ d = m_desc m /\ c = w_cred w.

Record inv (keys : list ckey) (out : list cred) (maps : list mapping) : Prop := {
  inv_len : length keys = length out;
  inv_keys : forall n k, nth_error keys n = Some k ->
             exists m w, In m sel /\ In w (m_creds m) /\ w_key w = k /\ nth_error out n = Some (w_cred w);
  inv_maps : forall mp, In mp maps -> exists c, nth_error out (mp_idx mp) = Some c /\ from_sel (mp_id mp) c;
  inv_refd : forall n, n < length out -> exists mp, In mp maps /\ mp_idx mp = n }.

Definition covered (out : list cred) (maps : list mapping) (d : N) (w : wcred) : Prop :=
  exists mp, In mp maps /\ mp_id mp = d /\ nth_error out (mp_idx mp) = Some (w_cred w).

Definition grows (out out' : list cred) (maps maps' : list mapping) : Prop :=
  (forall n c, nth_error out n = Some c -> nth_error out' n = Some c) /\ (forall mp, In mp maps -> In mp maps').

Lemma covered_grows : forall out out' maps maps' d w,
  grows out out' maps maps' -> covered out maps d w -> covered out' maps' d w.
Proof.
  intros out out' maps maps' d w [G1 G2] [mp [A [B C]]]. exists mp. auto.
Qed.

Lemma nth_app_old : forall (A : Type) (l : list A) x n c, nth_error l n = Some c -> nth_error (l ++ [x]) n = Some c.
Proof.
  intros A l x n c H. rewrite nth_error_app1; [exact H|]. apply nth_error_Some. congruence.
Qed.
Lemma nth_app_new : forall (A : Type) (l : list A) x, nth_error (l ++ [x]) (length l) = Some x.
Proof.
  intros A l x. rewrite nth_error_app2; [|lia]. rewrite Nat.sub_diag. reflexivity.
Qed.

Lemma merge_creds_inv : forall m ws keys out maps k' o' mp',
  In m sel -> (forall w, In w ws -> In w (m_creds m)) -> inv keys out maps ->
  merge_creds (m_desc m) ws keys out maps = (k', o', mp') ->
  inv k' o' mp' /\ grows out o' maps mp' /\ (forall w, In w ws -> covered o' mp' (m_desc m) w).
Proof.
  intros m ws. induction ws as [|w t IH]; intros keys out maps k' o' mp' Hm Hws I H; simpl in H.
  - inversion H; subst. split; [exact I|]. split; [split; auto|]. intros w [].
  - assert (Hw : In w (m_creds m)) by (apply Hws; left; reflexivity).
    assert (Ht : forall x, In x t -> In x (m_creds m)) by (intros x Hx; apply Hws; right; exact Hx).
    set (vcfmt := if N.eqb (c_jwt (w_cred w)) 0 then 2%N else 5%N) in *.
    destruct (key_index (w_key w) keys) as [n|] eqn:Hk.
    + apply key_index_some in Hk.
      destruct (inv_keys _ _ _ I _ _ Hk) as [m2 [w2 [A [B [C D]]]]].
      assert (E : w_cred w2 = w_cred w) by (apply (KD m2 m w2 w A Hm B Hw C)).
      set (mp := {| mp_id := m_desc m; mp_idx := n; mp_vcfmt := vcfmt |}) in *.
      assert (I2 : inv keys out (maps ++ [mp])).
      { constructor.
        - apply (inv_len _ _ _ I).
        - apply (inv_keys _ _ _ I).
        - intros x Hx. apply in_app_or in Hx as [Hx|[Hx|[]]]; [apply (inv_maps _ _ _ I); exact Hx|].
          subst x. simpl. exists (w_cred w). split; [rewrite <- E; exact D|]. exists m, w. auto.
        - intros j Hj. destruct (inv_refd _ _ _ I _ Hj) as [x [X1 X2]]. exists x. split; [apply in_or_app; left; exact X1 | exact X2]. }
      destruct (IH _ _ _ _ _ _ Hm Ht I2 H) as [J [[G1 G2] Cv]].
      split; [exact J|]. split.
      * split; [exact G1|]. intros x Hx. apply G2. apply in_or_app. left. exact Hx.
      * intros x [Hx|Hx]; [|apply Cv; exact Hx]. subst x.
        exists mp. split; [apply G2; apply in_or_app; right; left; reflexivity|]. split; [reflexivity|].
        simpl. apply G1. rewrite <- E. exact D.
    + set (mp := {| mp_id := m_desc m; mp_idx := length out; mp_vcfmt := vcfmt |}) in *.
      assert (I2 : inv (keys ++ [w_key w]) (out ++ [w_cred w]) (maps ++ [mp])).
      { constructor.
        - rewrite !app_length. simpl. rewrite (inv_len _ _ _ I). reflexivity.
        - intros j k Hj. destruct (Nat.lt_ge_cases j (length keys)) as [L|L].
          + rewrite nth_error_app1 in Hj by exact L.
            destruct (inv_keys _ _ _ I _ _ Hj) as [m2 [w2 [A [B [C D]]]]].
            exists m2, w2. repeat split; auto. apply nth_app_old. exact D.
          + assert (j = length keys).
            { assert (j < length (keys ++ [w_key w])) by (apply nth_error_Some; congruence).
              rewrite app_length in H0. simpl in H0. lia. }
            subst j. rewrite nth_app_new in Hj. inversion Hj; subst k.
            exists m, w. repeat split; auto. rewrite (inv_len _ _ _ I). apply nth_app_new.
        - intros x Hx. apply in_app_or in Hx as [Hx|[Hx|[]]].
          + destruct (inv_maps _ _ _ I _ Hx) as [c [C1 C2]]. exists c. split; [apply nth_app_old; exact C1 | exact C2].
          + subst x. simpl. exists (w_cred w). split; [apply nth_app_new|]. exists m, w. auto.
        - intros j Hj. rewrite app_length in Hj. simpl in Hj.
          destruct (Nat.lt_ge_cases j (length out)) as [L|L].
          + destruct (inv_refd _ _ _ I _ L) as [x [X1 X2]]. exists x. split; [apply in_or_app; left; exact X1 | exact X2].
          + exists mp. split; [apply in_or_app; right; left; reflexivity|]. simpl. lia. }
      destruct (IH _ _ _ _ _ _ Hm Ht I2 H) as [J [[G1 G2] Cv]].
      split; [exact J|]. split.
      * split; [intros j c Hj; apply G1; apply nth_app_old; exact Hj|].
        intros x Hx. apply G2. apply in_or_app. left. exact Hx.
      * intros x [Hx|Hx]; [|apply Cv; exact Hx]. subst x.
        exists mp. split; [apply G2; apply in_or_app; right; left; reflexivity|]. split; [reflexivity|].
        simpl. apply G1. apply nth_app_new.
Qed.

Lemma merge_all_inv : forall l keys out maps o' mp',
  (forall m, In m l -> In m sel) -> inv keys out maps ->
  merge_all l keys out maps = (o', mp') ->
  (exists k', inv k' o' mp') /\ grows out o' maps mp' /\
  (forall m w, In m l -> In w (m_creds m) -> covered o' mp' (m_desc m) w).
Proof.
  induction l as [|m t IH]; intros keys out maps o' mp' Hl I H; simpl in H.
  - inversion H; subst. split; [exists keys; exact I|]. split; [split; auto|]. intros m w [].
  - destruct (merge_creds (m_desc m) (m_creds m) keys out maps) as [[k1 o1] mp1] eqn:Hm.
    assert (Hin : In m sel) by (apply Hl; left; reflexivity).
    destruct (merge_creds_inv m (m_creds m) _ _ _ _ _ _ Hin (fun w Hw => Hw) I Hm) as [I1 [G1 C1]].
    destruct (IH _ _ _ _ _ (fun x Hx => Hl x (or_intror Hx)) I1 H) as [[k2 I2] [G2 C2]].
    split; [exists k2; exact I2|]. split.
    + destruct G1 as [A1 B1]. destruct G2 as [A2 B2]. split; auto.
    + intros x w [Hx|Hx] Hw; [subst x; eapply covered_grows; [exact G2 | apply C1; exact Hw] | apply C2; auto].
Qed.
End Merge.
