(* C20 — correspondence: the harness records what the real CreateVP / Match / requirementlogic iterator did
   on the same definition and credentials; check_case runs the model's functions (the ones the theorems of
   Props.v are about) and compares. *)
From Coq Require Import List NArith ZArith Bool.
Import ListNotations.
From VF Require Export C20.Model.
From VF Require Export common.Json C20.JsonPath.

Fixpoint listN_eqb (a b : list N) : bool :=
  match a, b with
  | [], [] => true
  | x :: r, y :: t => N.eqb x y && listN_eqb r t
  | _, _ => false
  end.

Definition attrs_eqb (a b : list (N * jv)) : bool :=
  Nat.eqb (length a) (length b) &&
  forallb (fun kv => match find (fun kv' => N.eqb (fst kv') (fst kv)) b with
                     | Some kv' => jv_eqb (snd kv) (snd kv')
                     | None => false
                     end) a.

(* projection compared: id, issuer, subject id, types, JWT or not, SD-JWT or not, and the credentialSubject leaves
   a verifier can read (for an SD-JWT: the claims the presented disclosures open) *)
Definition cred_eqb (a b : cred) : bool :=
  N.eqb (c_id a) (c_id b) && N.eqb (c_issuer a) (c_issuer b) && N.eqb (c_subject a) (c_subject b) &&
  N.eqb (c_ctx a) (c_ctx b) && listN_eqb (c_types a) (c_types b) && Bool.eqb (N.eqb (c_jwt a) 0) (N.eqb (c_jwt b) 0) &&
  Bool.eqb (c_sd a) (c_sd b) && attrs_eqb (c_attrs a) (c_attrs b).

(* Match re-parses the credential: whether it arrived as a JWT is not part of what it returns *)
Definition cred_eqb_parsed (a b : cred) : bool :=
  N.eqb (c_id a) (c_id b) && N.eqb (c_issuer a) (c_issuer b) && N.eqb (c_subject a) (c_subject b) &&
  N.eqb (c_ctx a) (c_ctx b) && listN_eqb (c_types a) (c_types b) && Bool.eqb (c_sd a) (c_sd b) && attrs_eqb (c_attrs a) (c_attrs b).

Fixpoint creds_eqb (a b : list cred) : bool :=
  match a, b with
  | [], [] => true
  | x :: r, y :: t => cred_eqb x y && creds_eqb r t
  | _, _ => false
  end.

Definition mapping_eqb (a b : mapping) : bool :=
  N.eqb (mp_id a) (mp_id b) && Nat.eqb (mp_idx a) (mp_idx b) && N.eqb (mp_vcfmt a) (mp_vcfmt b).
(* the descriptor map is sorted by id with a non-stable sort: compared as a set of equal size *)
Definition maps_eqb (a b : list mapping) : bool :=
  Nat.eqb (length a) (length b) &&
  forallb (fun x => existsb (mapping_eqb x) b) a && forallb (fun x => existsb (mapping_eqb x) a) b.

Inductive ocreate := OVp (fmt : N) (creds : list cred) (maps : list mapping) | ONoFrom | ONoCreds | OOther.
Inductive omatch := OM (l : list (N * cred)) | OMErr (code : N) | OMNone.

Record pcase := { k_def : defn; k_creds : list cred; k_create : ocreate; k_disable : bool; k_match : omatch }.

Definition mres_code (m : mres) : N :=
  match m with MOk _ => 0 | MUnknownId => 1 | MBadPath => 2 | MSchema => 3 | MReq => 4 | MNoFrom => 5 end%N.

Definition match_eqb (m : mres) (o : omatch) : bool :=
  match m, o with
  | MOk l, OM l' =>
      Nat.eqb (length l) (length l') &&
      forallb (fun ic => existsb (fun ic' => N.eqb (fst ic) (fst ic') && cred_eqb_parsed (snd ic) (snd ic')) l') l
  | MOk _, _ => false
  | e, OMErr c => N.eqb (mres_code e) c
  | _, _ => false
  end.

Definition check_pcase (k : pcase) : bool :=
  match create_vp Fixed (k_def k) (k_creds k), k_create k with
  | COk x, OVp fmt creds maps =>
      N.eqb (vp_fmt x) fmt && creds_eqb (vp_creds x) creds && maps_eqb (vp_map x) maps &&
      (* the verifier model on what the holder really handed over *)
      match_eqb (verifier_match Fixed (k_def k) (k_disable k) {| vp_fmt := fmt; vp_creds := creds; vp_map := maps |})
                (k_match k)
  | CNoFrom, ONoFrom => true
  | CNoCreds, ONoCreds => true
  | _, _ => false
  end.

(* CreateVPArray + Match with the merged submission: same holder data, the merged walk on the verifier side *)
Definition check_acase (k : pcase) : bool :=
  match create_vp Fixed (k_def k) (k_creds k), k_create k with
  | COk x, OVp fmt creds maps =>
      N.eqb (vp_fmt x) fmt && creds_eqb (vp_creds x) creds && maps_eqb (vp_map x) maps &&
      match_eqb (verifier_match_merged Fixed (k_def k) (k_disable k) {| vp_fmt := fmt; vp_creds := creds; vp_map := maps |})
                (k_match k)
  | CNoFrom, ONoFrom => true
  | CNoCreds, ONoCreds => true
  | _, _ => false
  end.

(* MatchSubmissionRequirement *)
Record mcase := { m_def : defn; m_creds : list cred; m_apply : bool; m_out : option (list (N * list cred)) }.
Fixpoint msr_eqb (a b : list (N * list cred)) : bool :=
  match a, b with
  | [], [] => true
  | (i, x) :: r, (j, y) :: t => N.eqb i j && creds_eqb x y && msr_eqb r t
  | _, _ => false
  end.
Definition check_mcase (k : mcase) : bool :=
  match msr Fixed (m_def k) (m_creds k) (m_apply k), m_out k with
  | Some a, Some b => msr_eqb a b
  | None, None => true
  | _, _ => false
  end.

(* the iterator driven directly: requirement, descriptor ids, then (exclude list, returned ids) per Next call *)
Record icase := { i_req : req; i_descs : list N; i_steps : list (list N * list N) }.

Fixpoint run_iter (r : req) (it : iter) (steps : list (list N * list N)) : bool :=
  match steps with
  | [] => true
  | (ex, out) :: t =>
      match next r it ex with
      | None => false
      | Some (it', sol) => listN_eqb sol out && run_iter r it' t
      end
  end.
Definition check_icase (k : icase) : bool := run_iter (i_req k) (new_iter (i_req k) (i_descs k)) (i_steps k).

(* makeRequirement + toLogic and IsSatisfiedBy driven directly *)
Fixpoint req_eqb (a b : req) : bool :=
  match a, b with
  | Req i n c mn mx, Req i' n' c' mn' mx' =>
      listN_eqb i i' && Z.eqb c c' && Z.eqb mn mn' && Z.eqb mx mx' &&
      (fix go (l l' : list req) : bool :=
         match l, l' with
         | [], [] => true
         | x :: t, y :: t' => req_eqb x y && go t t'
         | _, _ => false
         end) n n'
  end.
Record rcase := { r_def : defn; r_out : option req; r_set : list N; r_sat : bool }.
Definition check_rcase (k : rcase) : bool :=
  match make_req (r_def k), r_out k with
  | Some r, Some r' => req_eqb r r' && Bool.eqb (satisfied r (r_set k)) (r_sat k)
  | None, None => true
  | _, _ => false
  end.

From Coq Require Import String.
(* the two JSONPath engines driven directly on a JSON document: per path text what jsonpath.Get returned (None = error),
   and what compactArrayPaths reported over all the texts (newPath, oldPath) IN ORDER (None = error) *)
Record jcase := { j_doc : json; j_paths : list string; j_get : list (option json);
                  j_stream : option (list (string * string)) }.
Fixpoint count_json (x : json) (l : list json) : nat :=
  match l with [] => O | y :: r => ((if json_eqb x y then 1 else 0) + count_json x r)%nat end.
Definition perm_json (a b : list json) : bool :=
  Nat.eqb (List.length a) (List.length b) && forallb (fun x => Nat.eqb (count_json x a) (count_json x b)) a.
Definition get_eqb (doc : json) (path : string) (o : option json) : bool :=
  match p_eval path doc, o with
  | Some (true, [x]), Some y => json_eqb x y
  | Some (true, [x]), None => false
  | Some (true, _), None => true
  | Some (false, l), Some (JArr l') => perm_json l l'
  | None, None => true
  | _, _ => false
  end.
Fixpoint gets_eqb (doc : json) (ps : list string) (os : list (option json)) : bool :=
  match ps, os with
  | [], [] => true
  | p :: r, o :: t => get_eqb doc p o && gets_eqb doc r t
  | _, _ => false
  end.
Fixpoint pairs_eqb (a b : list (string * string)) : bool :=
  match a, b with
  | [], [] => true
  | (x, y) :: r, (x', y') :: t => String.eqb x x' && String.eqb y y' && pairs_eqb r t
  | _, _ => false
  end.
Definition check_jcase (k : jcase) : bool :=
  gets_eqb (j_doc k) (j_paths k) (j_get k) &&
  match k_compact F2 (j_paths k) (j_doc k) [], j_stream k with
  | Some (l, _), Some l' => pairs_eqb l l'
  | None, None => true
  | _, _ => false
  end.

(* filterField driven directly: paths + JSON-schema filter + optional on a JSON document *)
Record fcase := { x_doc : json; x_paths : list string; x_schema : option schema; x_opt : bool; x_ok : bool }.
Definition check_fcase (k : fcase) : bool :=
  Bool.eqb (field_json_ok (x_doc k) (x_schema k) (x_opt k) (x_paths k)) (x_ok k).

(* createNewCredential driven directly: source document, template, fields (paths, predicate) and the credential it
   returned, re-marshalled.  Compared on the members a verifier reads: credentialSubject, type, issuer, id, @context
   (ParseCredential + MarshalJSON write a one-element type list as a string and an issuer with nothing but an id as
   that id). *)
Record lcase := { l_limit : bool; l_src : json; l_tmpl : json; l_fields : list jfield; l_out : json }.
Definition norm_type (j : json) : json := match j with JStr s => JArr [JStr s] | _ => j end.
Definition norm_issuer (j : json) : json := match j with JObj [(k, x)] => if String.eqb k "id" then x else j | _ => j end.
Definition member_eqb (norm : json -> json) (k : string) (a b : json) : bool :=
  match a, b with
  | JObj m, JObj m' =>
      match lookup m k, lookup m' k with
      | Some x, Some y => json_eqb (norm x) (norm y)
      | None, None => true
      | _, _ => false
      end
  | _, _ => false
  end.
Definition vc_eqb (a b : json) : bool :=
  member_eqb (fun x => x) "credentialSubject" a b && member_eqb norm_type "type" a b &&
  member_eqb norm_issuer "issuer" a b && member_eqb (fun x => x) "id" a b && member_eqb (fun x => x) "@context" a b.
Definition check_lcase (k : lcase) : bool :=
  match limit_json F2 (l_limit k) (l_src k) (l_tmpl k) (l_fields k) with
  | Some o => vc_eqb o (l_out k)
  | None => false
  end.

Inductive case := Px (k : pcase) | Ax (k : pcase) | Mx (k : mcase) | Ix (k : icase) | Rx (k : rcase)
                | Jx (k : jcase) | Fx (k : fcase) | Lx (k : lcase).
Definition check_case (c : case) : bool :=
  match c with
  | Px k => check_pcase k | Ax k => check_acase k | Mx k => check_mcase k | Ix k => check_icase k | Rx k => check_rcase k
  | Jx k => check_jcase k | Fx k => check_fcase k | Lx k => check_lcase k
  end.

Fixpoint mismatches_from (i : nat) (cs : list case) : list nat :=
  match cs with
  | [] => []
  | c :: r => if check_case c then mismatches_from (S i) r else i :: mismatches_from (S i) r
  end.
Definition mismatches := mismatches_from 0.
