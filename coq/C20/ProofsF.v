(* C20 — lemmas (iterator completeness). *)
From Coq Require Import List NArith ZArith Bool Lia ZifyN ZifyNat ZifyBool.
Import ListNotations.
From VF Require Import C20.Model C20.Proofs C20.ProofsD C20.ProofsE.
Local Open Scope N_scope.

(* ---------- current, bit by bit ---------- *)
Lemma current_from_shift : forall t i st, current_from (N.succ i) st t = current_from i (N.div2 st) t.
Proof.
  induction t as [|d t IH]; intros i st; simpl; [reflexivity|].
  rewrite N.div2_spec, N.shiftr_spec' , N.add_1_r. rewrite IH. reflexivity.
Qed.

Lemma current_cons : forall d t st,
  current st (d :: t) = (if N.odd st then [d] else []) ++ current (N.div2 st) t.
Proof.
  intros d t st. unfold current. simpl. rewrite N.bit0_odd.
  change 1 with (N.succ 0). rewrite current_from_shift. destruct (N.odd st); reflexivity.
Qed.

Lemma current_nil_l : forall st, current st [] = [].
Proof. reflexivity. Qed.

Lemma current_0 : forall ds, current 0 ds = [].
Proof. induction ds as [|d t IH]; [reflexivity|]. rewrite current_cons. simpl. exact IH. Qed.

Lemma odd_div2 : forall x, x = 2 * N.div2 x + (if N.odd x then 1 else 0).
Proof. intros x. rewrite (N.div2_odd x) at 1. destruct (N.odd x); simpl; lia. Qed.

(* x + 2^|A| * y over A ++ B *)
Lemma current_app : forall A B x y, x < 2 ^ L A -> current (x + 2 ^ L A * y) (A ++ B) = current x A ++ current y B.
Proof.
  induction A as [|d t IH]; intros B x y Hx.
  - assert (x = 0) by (unfold L in Hx; cbn [length N.of_nat] in Hx; rewrite N.pow_0_r in Hx; lia). subst.
    replace (0 + 2 ^ L [] * y) with y by (unfold L; cbn [length N.of_nat]; rewrite N.pow_0_r; lia). reflexivity.
  - simpl app. rewrite !current_cons.
    assert (EL : 2 ^ L (d :: t) = 2 * 2 ^ L t).
    { unfold L. simpl length. rewrite Nat2N.inj_succ, N.pow_succ_r'. reflexivity. }
    rewrite EL in *.
    pose proof (odd_div2 x) as Ex.
    assert (O1 : N.odd (x + 2 * 2 ^ L t * y) = N.odd x).
    { replace (x + 2 * 2 ^ L t * y) with (x + 2 * (2 ^ L t * y)) by lia. rewrite N.odd_add_mul_2. reflexivity. }
    assert (D1 : N.div2 (x + 2 * 2 ^ L t * y) = N.div2 x + 2 ^ L t * y).
    { rewrite !N.div2_div. replace (x + 2 * 2 ^ L t * y) with (x + (2 ^ L t * y) * 2) by lia.
      rewrite N.div_add by discriminate. reflexivity. }
    rewrite O1, D1. rewrite IH; [rewrite app_assoc; reflexivity|].
    rewrite N.div2_div. apply N.div_lt_upper_bound; [discriminate | lia].
Qed.

(* a state below 2^|ds| selecting nothing is 0 *)
Lemma current_nil_zero : forall ds u, u < 2 ^ L ds -> current u ds = [] -> u = 0.
Proof.
  induction ds as [|d t IH]; intros u Hu Hc.
  - unfold L in Hu. simpl in Hu. lia.
  - rewrite current_cons in Hc.
    assert (EL : 2 ^ L (d :: t) = 2 * 2 ^ L t).
    { unfold L. simpl length. rewrite Nat2N.inj_succ, N.pow_succ_r'. reflexivity. }
    destruct (N.odd u) eqn:Od; [discriminate|]. simpl in Hc.
    pose proof (odd_div2 u) as Eu. rewrite Od in Eu.
    assert (N.div2 u = 0).
    { apply IH; [|exact Hc]. rewrite N.div2_div. apply N.div_lt_upper_bound; [discriminate | lia]. }
    lia.
Qed.

(* ---------- what the search steps over ---------- *)
Lemma search_skipped : forall fuel r a ds b cur,
  search fuel r a ds = Some (b, cur) ->
  forall u, a <= u -> u < b -> current u ds <> [] /\ satisfied r (current u ds) = false.
Proof.
  induction fuel as [|f IH]; intros r a ds b cur H u H1 H2; simpl in H; [discriminate|].
  destruct (current a ds) as [|x xs] eqn:Hc; [inversion H; subst; lia|].
  destruct (satisfied r (x :: xs)) eqn:Hs; [inversion H; subst; lia|].
  destruct (N.eq_dec u a) as [E|E]; [subst; rewrite Hc; split; [discriminate | exact Hs]|].
  eapply IH; eauto. lia.
Qed.

Lemma search_result : forall fuel r a ds b cur,
  search fuel r a ds = Some (b, cur) -> cur = current b ds /\ (cur <> [] -> satisfied r cur = true).
Proof.
  induction fuel as [|f IH]; intros r a ds b cur H; simpl in H; [discriminate|].
  destruct (current a ds) as [|x xs] eqn:Hc; [inversion H; subst; split; [symmetry; exact Hc | congruence]|].
  destruct (satisfied r (x :: xs)) eqn:Hs; [inversion H; subst; split; [symmetry; exact Hc | intros _; exact Hs]|].
  eapply IH; eauto.
Qed.

(* ---------- a mask over the kept descriptors, read over all descriptors (zero bits at the excluded ones) ---------- *)
Fixpoint expand (ds ex : list N) (u : N) : N :=
  match ds with
  | [] => 0
  | d :: t => if memN d ex then 2 * expand t ex u
              else (if N.odd u then 1 else 0) + 2 * expand t ex (N.div2 u)
  end.

Lemma odd_bit : forall (b : bool) e, N.odd ((if b then 1 else 0) + 2 * e) = b.
Proof. intros b e. rewrite N.odd_add_mul_2. destruct b; reflexivity. Qed.
Lemma div2_bit : forall (b : bool) e, N.div2 ((if b then 1 else 0) + 2 * e) = e.
Proof.
  intros b e. rewrite N.div2_div. replace ((if b then 1 else 0) + 2 * e) with ((if b then 1 else 0) + e * 2) by lia.
  rewrite N.div_add by discriminate. destruct b; simpl; lia.
Qed.

Lemma current_expand : forall ds ex u, current (expand ds ex u) ds = current u (filter (kept ex) ds).
Proof.
  induction ds as [|d t IH]; intros ex u; [reflexivity|]. cbn [expand filter]. unfold kept at 1.
  rewrite current_cons. destruct (memN d ex); cbn [negb].
  - rewrite (odd_bit false (expand t ex u) : N.odd (0 + 2 * expand t ex u) = false) || idtac.
    replace (2 * expand t ex u) with (0 + 2 * expand t ex u) by lia.
    rewrite (odd_bit false (expand t ex u) : N.odd (0 + 2 * expand t ex u) = false).
    rewrite (div2_bit false (expand t ex u) : N.div2 (0 + 2 * expand t ex u) = expand t ex u).
    simpl. apply IH.
  - rewrite odd_bit, div2_bit. rewrite current_cons. f_equal. apply IH.
Qed.

Lemma L_cons : forall d t, 2 ^ L (d :: t) = 2 * 2 ^ L t.
Proof. intros d t. unfold L. simpl length. rewrite Nat2N.inj_succ, N.pow_succ_r'. reflexivity. Qed.

Lemma expand_lt : forall ds ex u, expand ds ex u < 2 ^ L ds.
Proof.
  induction ds as [|d t IH]; intros ex u; [unfold L; cbn [length N.of_nat expand]; rewrite N.pow_0_r; lia|].
  rewrite L_cons. cbn [expand]. specialize (IH ex). destruct (memN d ex); [specialize (IH u); lia|].
  specialize (IH (N.div2 u)). destruct (N.odd u); lia.
Qed.

Lemma expand_last_excluded : forall A0 dk ex u, memN dk ex = true -> expand (A0 ++ [dk]) ex u < 2 ^ L A0.
Proof.
  induction A0 as [|a t IH]; intros dk ex u H.
  - cbn [app expand]. rewrite H. unfold L. cbn [length N.of_nat]. rewrite N.pow_0_r. lia.
  - cbn [app]. rewrite L_cons. cbn [expand]. specialize (IH dk ex).
    destruct (memN a ex); [specialize (IH u H); lia|].
    specialize (IH (N.div2 u) H). destruct (N.odd u); lia.
Qed.

(* ---------- positions ---------- *)
Lemma positions_spec : forall ds j ex q,
  In q (positions_from j ex ds) <-> exists i d, q = (j + i)%nat /\ nth_error ds i = Some d /\ memN d ex = true.
Proof.
  induction ds as [|x t IH]; intros j ex q; simpl.
  - split; [contradiction|]. intros [i [d [_ [H _]]]]. destruct i; discriminate.
  - destruct (memN x ex) eqn:M.
    + simpl. rewrite IH. split.
      * intros [H|[i [d [E [Hn Hm]]]]]; [exists 0%nat, x; repeat split; auto; lia | exists (S i), d; repeat split; auto; lia].
      * intros [i [d [E [Hn Hm]]]]. destruct i as [|i]; [left; lia | right; exists i, d; repeat split; auto; lia].
    + rewrite IH. split.
      * intros [i [d [E [Hn Hm]]]]. exists (S i), d. repeat split; auto; lia.
      * intros [i [d [E [Hn Hm]]]]. destruct i as [|i]; [simpl in Hn; inversion Hn; subst; congruence|].
        exists i, d. repeat split; auto; lia.
Qed.

Lemma max_ge : forall (l : list nat) q, In q l -> (q <= fold_right Nat.max 0%nat l)%nat.
Proof. induction l as [|x t IH]; intros q H; [contradiction|]. simpl. destruct H as [H|H]; [lia | apply IH in H; lia]. Qed.
Lemma max_mem : forall (l : list nat), l <> [] -> In (fold_right Nat.max 0%nat l) l.
Proof.
  induction l as [|x t IH]; intros H; [congruence|]. simpl.
  destruct t as [|y t']; [left; simpl; lia|].
  destruct (Nat.max_spec x (fold_right Nat.max 0%nat (y :: t'))) as [[_ E]|[_ E]]; rewrite E; [right; apply IH; discriminate | left; reflexivity].
Qed.

Lemma positions_app : forall A B j ex,
  positions_from j ex (A ++ B) = positions_from j ex A ++ positions_from (j + length A) ex B.
Proof.
  induction A as [|a t IH]; intros B j ex; simpl; [rewrite Nat.add_0_r; reflexivity|].
  rewrite IH. replace (S j + length t)%nat with (j + S (length t))%nat by lia.
  destruct (memN a ex); reflexivity.
Qed.

Lemma positions_none : forall B j ex, (forall d, In d B -> memN d ex = false) -> positions_from j ex B = [].
Proof.
  induction B as [|b t IH]; intros j ex H; simpl; [reflexivity|].
  rewrite (H b (or_introl eq_refl)). apply IH. intros d Hd. apply H. right. exact Hd.
Qed.

Lemma filter_kept_none : forall B ex, (forall d, In d B -> memN d ex = false) -> filter (kept ex) B = B.
Proof.
  induction B as [|b t IH]; intros ex H; simpl; [reflexivity|]. unfold kept at 1.
  rewrite (H b (or_introl eq_refl)). simpl. f_equal. apply IH. intros d Hd. apply H. right. exact Hd.
Qed.

(* the descriptors split at the largest excluded position k: A0 ++ [dk] ++ B, dk excluded, nothing excluded in B *)
Lemma split_at_max : forall ds ex,
  positions_from 0 ex ds <> [] ->
  exists A0 dk B, ds = A0 ++ dk :: B /\ length A0 = fold_right Nat.max 0%nat (positions_from 0 ex ds) /\
                  memN dk ex = true /\ (forall d, In d B -> memN d ex = false).
Proof.
  intros ds ex Hne. set (k := fold_right Nat.max 0%nat (positions_from 0 ex ds)).
  pose proof (max_mem _ Hne) as Hk. fold k in Hk. apply positions_spec in Hk as [i [dk [Ei [Hn Hm]]]]. simpl in Ei. subst i.
  destruct (nth_error_split ds k Hn) as [A0 [B [E1 E2]]].
  exists A0, dk, B. repeat split; auto.
  intros d Hd. destruct (memN d ex) eqn:M; [|reflexivity]. exfalso.
  apply In_nth_error in Hd as [j Hj].
  assert (In (S k + j)%nat (positions_from 0 ex ds)).
  { apply positions_spec. exists (S k + j)%nat, d. repeat split; auto.
    rewrite E1. rewrite nth_error_app2 by lia. replace (S k + j - length A0)%nat with (S j) by lia. exact Hj. }
  apply max_ge in H. fold k in H. lia.
Qed.

(* every selection over the kept descriptors that lies before the state after an exclusion is a selection (over
   all descriptors) at or before the state the exclusion started from *)
Lemma jump_covers : forall ds ex st,
  positions_from 0 ex ds <> [] ->
  N.testbit st (N.of_nat (fold_right Nat.max 0%nat (positions_from 0 ex ds))) = true ->
  0 < fst (exclude_step st ds (positions_from 0 ex ds)) /\
  forall u', u' < fst (exclude_step st ds (positions_from 0 ex ds)) ->
  exists u, u <= st /\ current u ds = current u' (filter (kept ex) ds).
Proof.
  intros ds ex st Hne Hbit.
  destruct (split_at_max ds ex Hne) as [A0 [dk [B [Eds [Ek [Hdk HB]]]]]].
  set (pos := positions_from 0 ex ds) in *. set (k := fold_right Nat.max 0%nat pos) in *.
  set (A := A0 ++ [dk]).
  assert (EA : ds = A ++ B) by (unfold A; rewrite <- app_assoc; exact Eds).
  assert (LA : length A = S k) by (unfold A; rewrite app_length; simpl; lia).
  assert (Epos : pos = positions_from 0 ex A).
  { unfold pos. rewrite EA, positions_app, (positions_none B _ ex HB), app_nil_r. reflexivity. }
  pose proof (filter_positions_len A 0 ex) as FL. rewrite <- Epos, LA in FL.
  assert (Eds' : filter (kept ex) ds = filter (kept ex) A ++ B).
  { rewrite EA, filter_app, (filter_kept_none B ex HB). reflexivity. }
  set (K := N.of_nat k) in *. set (M := N.of_nat (length pos)) in *. set (a' := L (filter (kept ex) A)).
  assert (Ea : a' + M = K + 1) by (unfold a', L, M, K; lia).
  assert (PK : 2 ^ K <> 0) by (apply N.pow_nonzero; discriminate).
  assert (PM : 2 ^ M <> 0) by (apply N.pow_nonzero; discriminate).
  assert (PA : 2 ^ a' <> 0) by (apply N.pow_nonzero; discriminate).
  set (q := st / 2 ^ K) in *.
  assert (Hq : q mod 2 = 1).
  { pose proof (N.testbit_spec' st K) as T. fold K in Hbit. rewrite Hbit in T. simpl in T. unfold q. symmetry. exact T. }
  set (h := q / 2).
  assert (Eq : q = 2 * h + 1) by (pose proof (N.div_mod q 2 ltac:(discriminate)); unfold h; lia).
  assert (P1 : 2 ^ (K + 1) = 2 * 2 ^ K) by (rewrite N.add_1_r, N.pow_succ_r'; reflexivity).
  assert (P2 : 2 ^ (K + 1) = 2 ^ a' * 2 ^ M) by (rewrite <- N.pow_add_r; f_equal; lia).
  (* the arithmetic of the jump *)
  assert (Est : fst (exclude_step st ds pos) = (h + 1) * 2 ^ a').
  { unfold exclude_step. cbn [fst]. fold k. fold K. fold M.
    change (N.pred (N.shiftl 1 K)) with (N.ones K).
    rewrite N.ldiff_ones_r, N.shiftl_1_l, N.shiftr_div_pow2, N.shiftl_mul_pow2, N.shiftr_div_pow2. fold q.
    replace (q * 2 ^ K + 2 ^ K) with ((h + 1) * 2 ^ a' * 2 ^ M) by nia. apply N.div_mul. exact PM. }
  rewrite Est. split; [nia|]. intros u' Hu.
  set (hi := u' / 2 ^ a'). set (lo := u' mod 2 ^ a').
  assert (Eu : u' = 2 ^ a' * hi + lo) by (apply N.div_mod; exact PA).
  assert (Hlo : lo < 2 ^ a') by (apply N.mod_lt; exact PA).
  assert (Hhi : hi < h + 1) by (apply N.div_lt_upper_bound; [exact PA | lia]).
  assert (Hst : q * 2 ^ K <= st) by (unfold q; rewrite N.mul_comm; apply N.mul_div_le; exact PK).
  assert (ELA : 2 ^ L A = 2 ^ (K + 1)) by (unfold L; rewrite LA; f_equal; unfold K; lia).
  assert (ELA0 : 2 ^ L A0 = 2 ^ K) by (unfold L, K; rewrite Ek; reflexivity).
  pose proof (expand_last_excluded A0 dk ex lo Hdk) as Hex. fold A in Hex. rewrite ELA0 in Hex.
  exists (expand A ex lo + 2 ^ L A * hi). split.
  - rewrite ELA. nia.
  - rewrite EA at 1. rewrite current_app by apply expand_lt. rewrite current_expand.
    rewrite Eds'. replace u' with (lo + 2 ^ L (filter (kept ex) A) * hi) by (fold a'; lia).
    rewrite current_app by (fold a'; exact Hlo). reflexivity.
Qed.

(* a descriptor returned at a position has that position's bit set (distinct descriptors) *)
Lemma current_bit : forall ds st j x,
  NoDup ds -> nth_error ds j = Some x -> In x (current st ds) -> N.testbit st (N.of_nat j) = true.
Proof.
  induction ds as [|d t IH]; intros st j x ND Hn Hin; [destruct j; discriminate|].
  rewrite current_cons in Hin. inversion ND as [|? ? Hnot ND']; subst.
  assert (Sub : forall y, In y (current (N.div2 st) t) -> In y t) by (intros y Hy; eapply current_from_sub; exact Hy).
  destruct j as [|j]; simpl in Hn.
  - inversion Hn; subst x. apply in_app_or in Hin as [Hin|Hin]; [|apply Sub in Hin; contradiction].
    simpl. rewrite N.bit0_odd. destruct (N.odd st); [reflexivity | contradiction].
  - assert (Hx : In x t) by (eapply nth_error_In; exact Hn).
    apply in_app_or in Hin as [Hin|Hin].
    + destruct (N.odd st); [destruct Hin as [E|[]]; subst; contradiction | contradiction].
    + rewrite Nat2N.inj_succ. rewrite <- N.div2_bits. eapply IH; eauto. rewrite <- N.div2_div. exact Hin.
Qed.

(* everything selected at or before the state, satisfying and non-empty, has been returned *)
Definition visited (r : req) (it : iter) (O : list (list N)) : Prop :=
  forall u, u <= it_state it -> current u (it_descs it) <> [] ->
            satisfied r (current u (it_descs it)) = true -> In (current u (it_descs it)) O.

Lemma next_inv : forall r it ex it' sol O,
  wf_iter it -> it_done it = false -> NoDup (it_descs it) ->
  (forall x, In x ex -> In x (current (it_state it) (it_descs it))) ->
  next r it ex = Some (it', sol) -> visited r it O ->
  visited r it' (O ++ [sol]) /\ it_descs it' = filter (kept ex) (it_descs it) /\
  sol = current (it_state it') (it_descs it') /\ wf_iter it' /\ it_done it' = (match sol with [] => true | _ => false end) /\
  0 < it_state it' /\ it_state it' <= 2 ^ L (it_descs it').
Proof.
  intros r it ex it' sol O W Dn ND Hex H V.
  destruct (next_progress _ _ _ _ _ W Dn H) as [W' _].
  pose proof (W Dn) as Hs. unfold next in H. rewrite Dn in H.
  (* the common shape: a start state st1 over descs ds1 such that every selection before st1 was visited *)
  assert (Common : forall st1 ds1 st2 cur,
            ds1 = filter (kept ex) (it_descs it) -> 0 < st1 -> st1 <= 2 ^ L ds1 ->
            (forall u', u' < st1 -> exists u, u <= it_state it /\ current u (it_descs it) = current u' ds1) ->
            search (fuel_for ds1) r st1 ds1 = Some (st2, cur) ->
            let it2 := {| it_state := st2; it_descs := ds1; it_done := match cur with [] => true | _ => false end |} in
            visited r it2 (O ++ [cur]) /\ cur = current st2 ds1 /\ 0 < st2 /\ st2 <= 2 ^ L ds1).
  { intros st1 ds1 st2 cur E1 P1 B1 Cov Hs1 it2.
    pose proof (search_mono _ _ _ _ _ _ Hs1) as Mo. destruct (search_result _ _ _ _ _ _ Hs1) as [Ec Sat].
    destruct (search_fuel_for r st1 ds1 B1) as [st2' [cur' [A B]]]. rewrite Hs1 in A. inversion A; subst st2' cur'.
    assert (B2 : st2 <= 2 ^ L ds1).
    { destruct (search_total (fuel_for ds1) r st1 ds1 B1) as [x [y [A1 [A2 _]]]].
      - unfold fuel_for. assert (N.of_nat (Nat.pow 2 (length ds1)) = 2 ^ L ds1) by apply pow2_nat. lia.
      - rewrite Hs1 in A1. inversion A1; subst. exact A2. }
    repeat split; auto; [|lia].
    intros u Hu Hne Hsat. unfold it2 in *. cbn [it_state it_descs] in Hu, Hne, Hsat |- *. apply in_or_app.
    destruct (N.lt_ge_cases u st1) as [Lt|Ge].
    - destruct (Cov u Lt) as [u0 [U1 U2]]. left. rewrite <- U2. apply V; [exact U1 | rewrite U2; exact Hne | rewrite U2; exact Hsat].
    - destruct (N.eq_dec u st2) as [E|E]; [subst u; right; left; exact Ec|].
      destruct (search_skipped _ _ _ _ _ _ Hs1 u Ge) as [_ F]; [lia|]. congruence. }
  destruct (positions_from 0 ex (it_descs it)) as [|p ps] eqn:Hp.
  - destruct (search (fuel_for (it_descs it)) r (N.succ (it_state it)) (it_descs it)) as [[st2 cur]|] eqn:Hs1; [|discriminate].
    inversion H; subst it' sol.
    assert (E1 : it_descs it = filter (kept ex) (it_descs it)) by (symmetry; eapply positions_nil; exact Hp).
    destruct (Common (N.succ (it_state it)) (it_descs it) st2 cur E1) as [C1 [C2 [C3 C4]]]; try lia; [|exact Hs1|].
    + intros u' Hu'. exists u'. split; [lia | reflexivity].
    + simpl. repeat split; auto.
  - unfold exclude_step in H. rewrite <- Hp in H.
    set (pos := positions_from 0 ex (it_descs it)) in *.
    assert (Hd : remove_pos_from 0 pos (it_descs it) = filter (kept ex) (it_descs it)) by apply remove_positions.
    rewrite Hd in H.
    assert (Hne : pos <> []) by (rewrite Hp; discriminate).
    (* the largest excluded position has its bit set: the excluded descriptors were in the last result *)
    assert (Hbit : N.testbit (it_state it) (N.of_nat (fold_right Nat.max 0%nat pos)) = true).
    { pose proof (max_mem _ Hne) as Hk. apply positions_spec in Hk as [i [d [Ei [Hn Hm]]]]. simpl in Ei. rewrite Ei.
      eapply current_bit; [exact ND | exact Hn|]. apply Hex. apply memN_In. exact Hm. }
    destruct (jump_covers (it_descs it) ex (it_state it) Hne Hbit) as [J0 J1].
    fold pos in J0, J1. unfold exclude_step in J0, J1. cbn [fst] in J0, J1.
    match type of H with context [search ?f r ?s ?d] => destruct (search f r s d) as [[st2 cur]|] eqn:Hs1; [|discriminate] end.
    inversion H; subst it' sol.
    match type of Hs1 with search _ r ?s _ = _ => set (st1 := s) in * end.
    assert (B1 : st1 <= 2 ^ L (filter (kept ex) (it_descs it))).
    { pose proof (filter_positions_len (it_descs it) 0 ex) as Len. fold pos in Len.
      assert (Hk : (fold_right Nat.max 0%nat pos < length (it_descs it))%nat).
      { apply max_in; [intros q Hq; apply positions_lt in Hq; lia | exact Hne]. }
      replace (L (filter (kept ex) (it_descs it))) with (L (it_descs it) - N.of_nat (length pos)) by (unfold L; lia).
      unfold st1. apply exclude_bound; unfold L in *; lia. }
    destruct (Common st1 (filter (kept ex) (it_descs it)) st2 cur eq_refl J0 B1 J1 Hs1) as [C1 [C2 [C3 C4]]].
    simpl. repeat split; auto.
Qed.

(* the holder's protocol: nothing is excluded at the first call, later only descriptors of the last result *)
Fixpoint protocol (prev : list N) (exs : list (list N)) (outs : list (list N)) : Prop :=
  match exs, outs with
  | ex :: t, o :: t' => (forall x, In x ex -> In x prev) /\ protocol o t t'
  | _, _ => True
  end.

Lemma kept_app : forall a b d, kept (a ++ b) d = kept a d && kept b d.
Proof.
  intros a b d. unfold kept, memN. rewrite existsb_app. destruct (existsb (N.eqb d) a); destruct (existsb (N.eqb d) b); reflexivity.
Qed.
Lemma filter_kept_app : forall a b ds, filter (kept (a ++ b)) ds = filter (kept b) (filter (kept a) ds).
Proof.
  intros a b ds. induction ds as [|d t IH]; [reflexivity|]. simpl. rewrite kept_app.
  destruct (kept a d); simpl; [destruct (kept b d); rewrite IH; reflexivity | exact IH].
Qed.

Lemma NoDup_filter_N : forall (f : N -> bool) l, NoDup l -> NoDup (filter f l).
Proof.
  intros f l H. induction H as [|x t Hx H IH]; simpl; [constructor|].
  destruct (f x); [constructor; [intros Hin; apply filter_In in Hin; tauto | exact IH] | exact IH].
Qed.

Lemma complete_gen : forall r exs it outs O,
  wf_iter it -> it_done it = false -> NoDup (it_descs it) -> visited r it O ->
  iter_run r it exs = Some outs -> protocol (current (it_state it) (it_descs it)) exs outs -> In [] outs ->
  forall u, let T := current u (filter (kept (concat exs)) (it_descs it)) in
            T <> [] -> satisfied r T = true -> In T O \/ In T outs.
Proof.
  intros r exs. induction exs as [|ex t IH]; intros it outs O W Dn ND V H P Hfin u T Hne Hsat; simpl in H.
  - inversion H; subst. contradiction.
  - destruct (next r it ex) as [[it' sol]|] eqn:Hn; [|discriminate].
    destruct (iter_run r it' t) as [outs'|] eqn:Hr; [|discriminate]. inversion H; subst outs. clear H.
    simpl in P. destruct P as [Pex Pt].
    destruct (next_inv r it ex it' sol O W Dn ND Pex Hn V) as [V' [Ed [Es [W' [Dn' [S0 S1]]]]]].
    assert (ET : T = current u (filter (kept (concat t)) (it_descs it'))).
    { unfold T. simpl concat. rewrite filter_kept_app, Ed. reflexivity. }
    destruct sol as [|s0 sr].
    + (* finished: the state is 2^|descs|, every selection over the remaining descriptors lies before it *)
      left.
      assert (E2 : it_state it' = 2 ^ L (it_descs it')).
      { destruct (N.eq_dec (it_state it') (2 ^ L (it_descs it'))) as [E|E]; [exact E|].
        assert (it_state it' = 0) by (apply (current_nil_zero (it_descs it')); [lia | symmetry; exact Es]). lia. }
      assert (In T (O ++ [[]])).
      { rewrite ET. rewrite <- current_expand. apply V'.
        - rewrite E2. pose proof (expand_lt (it_descs it') (concat t) u). lia.
        - rewrite current_expand, <- ET. exact Hne.
        - rewrite current_expand, <- ET. exact Hsat. }
      apply in_app_or in H as [H|[H|[]]]; [exact H | congruence].
    + assert (Hin' : In [] outs') by (destruct Hfin as [F|F]; [discriminate | exact F]).
      rewrite Es in Pt.
      assert (NDp : NoDup (it_descs it')) by (rewrite Ed; apply NoDup_filter_N; exact ND).
      destruct (IH it' outs' (O ++ [s0 :: sr]) W' Dn' NDp V' Hr Pt Hin' u) as [G|G].
      * rewrite <- ET. exact Hne.
      * rewrite <- ET. exact Hsat.
      * rewrite <- ET in G. apply in_app_or in G as [G|[G|[]]]; [left; exact G | right; left; exact G].
      * rewrite <- ET in G. right. right. exact G.
Qed.

Lemma iterator_complete_lemma : forall r descs exs outs,
  NoDup (it_descs (new_iter r descs)) ->
  iter_run r (new_iter r descs) exs = Some outs -> protocol [] exs outs -> In [] outs ->
  forall u, let T := current u (filter (kept (concat exs)) (it_descs (new_iter r descs))) in
            T <> [] -> satisfied r T = true -> In T outs.
Proof.
  intros r descs exs outs ND H P Hfin u T Hne Hsat.
  destruct (complete_gen r exs (new_iter r descs) outs [] (new_iter_wf r descs) eq_refl ND) with (u := u) as [G|G]; auto.
  - intros v Hv Hc _. simpl in Hv. assert (v = 0) by lia. subst v. simpl in Hc. rewrite current_0 in Hc. congruence.
  - simpl. rewrite current_0. exact P.
  - contradiction.
Qed.
