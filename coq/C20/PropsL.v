(* C20 — property theorem about createNewCredential at the JSON level (limit_json of JsonPath.v, the function the Lx
   cases of the correspondence run against the real createNewCredential). *)
From Coq Require Import List String ZArith Bool.
Import ListNotations.
From Coq Require Import NArith.
From VF Require Import common.Json C20.Model C20.JsonPath C20.ProofsL C20.ProofsR.
Open Scope string_scope.
Open Scope list_scope.

(* Limit disclosure / predicates reveal only what was requested.  For every repair level, every source credential,
   template and list of fields (any path texts, predicate or not), limit or not: every scalar of the credential
   createNewCredential builds is a scalar of the template (the mandatory members), or it was written for a location
   that EXISTS in the source credential and is an instance of one of the paths of one of the fields, and then it is a
   scalar of the value gjson reads at that location's path text, a predicate's true, or a padding null. *)
Theorem limited_credential_reveals_only_requested_values : forall fx limit src tmpl fs out,
  limit_json fx limit src tmpl fs = Some out ->
  forall x, In x (leaves out) ->
    In x (leaves tmpl) \/
    exists paths pred ps loc v0 p s0,
      In (paths, pred) fs /\ parse_all (nodup_str paths) = Some ps /\
      node_at src loc v0 /\ In p ps /\ loc_match p loc = true /\
      written fx src (snd (text_of fx loc s0)) x.
Proof. exact limit_json_only_requested. Qed.
Print Assumptions limited_credential_reveals_only_requested_values.

(* non-vacuity: a credential with three subject members, a template with the subject id, two fields (one a predicate):
   the limited credential shows the id, the requested element and true; a1 and the other elements are not revealed *)
Example limited_nonvacuous :
  let src := JObj [("type", JArr [JStr "VerifiableCredential"]);
                   ("credentialSubject", JObj [("id", JStr "did:ex:2"); ("a1", JNum 5); ("a6", JArr [JStr "x"; JStr "y"]); ("a2", JNum 30)])] in
  let tmpl := JObj [("type", JArr [JStr "VerifiableCredential"]); ("credentialSubject", JObj [("id", JStr "did:ex:2")])] in
  exists out, limit_json F2 true src tmpl [(["$.credentialSubject.a6[1]"], false); (["$.credentialSubject.a2"], true)] = Some out /\
              leaves out = [JStr "VerifiableCredential"; JStr "did:ex:2"; JStr "y"; JBool true].
Proof. cbv zeta. eexists. split; vm_compute; reflexivity. Qed.

(* REFINEMENT between the two models.  The abstract filter of Model.v (the one verifier_accepts, holder_output_satisfies
   ... talk about) evaluates exactly as the JSON-schema model tied to gojsonschema, on the embedded filter and value, for
   any injective naming of the string codes (hypothesis visible; sname_x is an executable instance). *)
Theorem abstract_filter_refines_json_schema : forall (sname : N -> string),
  (forall a b, sname a = sname b -> a = b) ->
  forall f v, schema_valid (schema_of_filter sname f) (json_of_jv sname v) = filter_ok f v.
Proof. exact filter_refines. Qed.
Print Assumptions abstract_filter_refines_json_schema.

(* ... and the abstract field evaluation IS filterField's JSON-level model whenever the JSON-level engine reads, for
   every path key of the field, the embedded value of the abstract lookup (what the correspondence samples on real
   credentials) and the filter's enum has no repeated item (a rule of gojsonschema the abstract model does not know). *)
Theorem abstract_field_refines_json_field : forall (sname : N -> string),
  (forall a b, sname a = sname b -> a = b) ->
  forall (ptext : N -> string) doc c f,
    filter_compiles sname f ->
    (forall p, In p (f_paths f) -> p_get (ptext p) doc = option_map (json_of_jv sname) (Model.lookup p c)) ->
    field_json_ok doc (option_map (schema_of_filter sname) (f_filter f)) (f_optional f) (map ptext (f_paths f)) = field_ok c f.
Proof. exact field_refines. Qed.
Print Assumptions abstract_field_refines_json_field.

Example naming_instance : forall a b, sname_x a = sname_x b -> a = b.
Proof. exact sname_x_inj. Qed.

(* non-vacuity: the credential {a1: 5, o5: {a1: "s2"}} of the abstract model and its JSON document; a field over both
   path keys with a filter; both evaluations agree and are true *)
Example refinement_nonvacuous :
  let c := {| c_id := 1; c_issuer := 50; c_subject := 60; c_ctx := 1; c_types := [1%N]; c_proofs := []; c_jwt := 0;
              c_sd := false; c_rawsubj := false; c_attrs := [(1%N, VNum 5); (501%N, VStr 2)] |} in
  let doc := JObj [("credentialSubject", JObj [("a1", JNum 5); ("o5", JObj [("a1", JStr (sname_x 2))])])] in
  let ptext := fun k : N => if N.eqb k 1 then "$.credentialSubject.a1" else "$.credentialSubject.o5.a1" in
  let f := {| f_paths := [501%N; 1%N]; f_filter := Some {| ft_type := 2; ft_const := Some (VStr 2); ft_min := None; ft_max := None; ft_enum := [] |};
              f_optional := false; f_pred := false |} in
  field_ok c f = true /\
  field_json_ok doc (option_map (schema_of_filter sname_x) (f_filter f)) false (map ptext (f_paths f)) = true.
Proof. vm_compute. split; reflexivity. Qed.
