(* C20 — property theorems about the JSONPath / JSON-schema layer (JsonPath.v): the functions the correspondence
   runs against the two real JSONPath engines, compactArrayPaths and filterField (cases Jx / Fx of Corr.v). *)
From Coq Require Import List String ZArith Bool.
Import ListNotations.
From VF Require Import common.Json C20.JsonPath C20.ProofsJ.
Open Scope string_scope.
Open Scope list_scope.

(* A path selects only existing nodes: whatever the steps (names, indices, both wildcards, recursive descent) and the
   dialect, every (location, value) selected is a node of the document at that location. *)
Theorem jsonpath_selects_only_existing_nodes : forall any st doc l v,
  In (l, v) (select any st [([], doc)]) -> node_at doc l v.
Proof. exact select_sound. Qed.
Print Assumptions jsonpath_selects_only_existing_nodes.

(* A path made of names and indices only selects at most one node. *)
Theorem jsonpath_definite_path_selects_at_most_one : forall any st cur,
  definite st = true -> (List.length cur <= 1)%nat -> (List.length (select any st cur) <= 1)%nat.
Proof. exact select_definite. Qed.
Print Assumptions jsonpath_definite_path_selects_at_most_one.

(* What the filter engine hands to the JSON-schema filter, for every path TEXT and document: an existing node, or
   (wildcard / recursive descent) an array made of existing nodes. *)
Theorem filter_engine_yields_existing_nodes : forall path doc v, p_get path doc = Some v ->
  (exists l, node_at doc l v) \/ (exists vs, v = JArr vs /\ forall x, In x vs -> exists l, node_at doc l x).
Proof. exact p_get_sound. Qed.
Print Assumptions filter_engine_yields_existing_nodes.

(* The streaming engine of limit disclosure reports only existing nodes, each an instance of one of the paths (so of
   that path's length: it never reports a node above or below the one the path names). *)
Theorem stream_reports_only_existing_requested_nodes : forall paths doc l, In l (k_stream paths doc) ->
  exists v p, node_at doc l v /\ In p paths /\ loc_match p l = true.
Proof. exact stream_sound. Qed.
Print Assumptions stream_reports_only_existing_requested_nodes.

Theorem stream_match_has_path_length : forall p l, loc_match p l = true -> List.length p = List.length l.
Proof. exact loc_match_length. Qed.
Print Assumptions stream_match_has_path_length.

(* filterField: a satisfied non-optional field with a filter has a path that selects a value the filter accepts, and
   the filter compiles. *)
Theorem satisfied_field_has_accepted_value : forall doc s paths, paths <> [] ->
  field_json_ok doc (Some s) false paths = true ->
  exists p v, In p paths /\ p_get p doc = Some v /\ schema_wf s = true /\ schema_valid s v = true.
Proof. exact field_json_ok_sound. Qed.
Print Assumptions satisfied_field_has_accepted_value.

(* The path TEXT createNewCredential hands to gjson / sjson (repaired code, fix cd5ac52): for every location, whatever
   characters its member names contain, the dot-joined text of the escaped names is read back as exactly those names. *)
Theorem path_text_roundtrip : forall comps, comps <> [] -> split_esc (join (map esc_key comps)) = comps.
Proof. exact path_text_roundtrip_lemma. Qed.
Print Assumptions path_text_roundtrip.

(* As found (names joined unescaped, text split at every dot) the same statement is false: a claim called "x.y". *)
Theorem path_text_roundtrip_asis_refuted : ~ (forall comps, comps <> [] -> split_dots (join comps) = comps).
Proof. intros H. specialize (H ["credentialSubject"; "x.y"]). vm_compute in H. assert (E : ["credentialSubject"; "x.y"] <> []) by discriminate. specialize (H E). discriminate H. Qed.
Print Assumptions path_text_roundtrip_asis_refuted.

(* sjson / gjson on component lists: whatever the document, after a successful Set of v at a path, Get of that path reads v
   (objects, arrays, padding, containers created on the way, scalars replaced on the way). *)
Theorem written_value_is_readable : forall comps v doc doc', sj_set comps v doc = Some doc' -> gj_get comps doc' = Some v.
Proof. exact sj_set_get. Qed.
Print Assumptions written_value_is_readable.

(* A credential with one requested subject member: the limited credential shows that member.  As found this fails for a
   member name with a dot (the witness of corpus/C20/limit-member-name-with-dot.json). *)
Definition single_member_shown (fx : fixlevel) : Prop :=
  forall (k : string) (v : json) path, k_parse path = Some [SName NBr2 "credentialSubject"; SName NBr2 k] ->
    limit_json fx true (JObj [("credentialSubject", JObj [(k, v)])]) (JObj [("credentialSubject", JObj [])]) [([path], false)]
    = Some (JObj [("credentialSubject", JObj [(k, v)])]).
Theorem single_member_shown_asis_refuted : ~ single_member_shown F0.
Proof.
  intros H. specialize (H "x.y" (JNum 7) "$[""credentialSubject""][""x.y""]" eq_refl). vm_compute in H. discriminate H.
Qed.
Print Assumptions single_member_shown_asis_refuted.

Example dotted_member_nonvacuous :
  limit_json F2 true (JObj [("credentialSubject", JObj [("x.y", JNum 7); ("a1", JNum 1)])]) (JObj [("credentialSubject", JObj [])])
             [(["$[""credentialSubject""][""x.y""]"], false)]
  = Some (JObj [("credentialSubject", JObj [("x.y", JNum 7)])]) /\
  limit_json F0 true (JObj [("credentialSubject", JObj [("x.y", JNum 7); ("a1", JNum 1)])]) (JObj [("credentialSubject", JObj [])])
             [(["$[""credentialSubject""][""x.y""]"], false)]
  = Some (JObj [("credentialSubject", JObj [("x", JObj [("y", JNull)])])]).
Proof. vm_compute. split; reflexivity. Qed.

(* getPath's renumbering of kept array elements (repaired code, fix 215a538): the position recorded for an element
   (any key that is not a count; counts end with the separator) is never changed by a later call, whatever the locations
   and the numbering so far. *)
Theorem assigned_position_is_stable : forall keys orig new s s' n o k p,
  get_path F2 keys orig new s = (s', n, o) -> last_is_dot k = false -> set_find k s = Some p -> set_find k s' = Some p.
Proof. exact get_path_stable. Qed.
Print Assumptions assigned_position_is_stable.

(* As found the count of an inner array's kept elements was stored under the inner array's own position key: reporting
   element [0][0] of a nested array moved the recorded position of [0] from 0 to 1. *)
Theorem assigned_position_is_stable_asis_refuted :
  ~ (forall keys orig new s s' n o k p,
       get_path F1 keys orig new s = (s', n, o) -> last_is_dot k = false -> set_find k s = Some p -> set_find k s' = Some p).
Proof.
  intros H.
  specialize (H [LK "n"; LI 0%nat; LI 0%nat] [] [] [("n.0", 0%nat); ("n", 1%nat)] _ _ _ "n.0" 0%nat eq_refl eq_refl eq_refl).
  vm_compute in H. discriminate H.
Qed.
Print Assumptions assigned_position_is_stable_asis_refuted.

Example nested_array_nonvacuous :
  let src := JObj [("credentialSubject", JObj [("n", JArr [JArr [JStr "s3"; JStr "s0"]; JArr [JNum 2]; JArr [JStr "T2"]])])] in
  let tmpl := JObj [("credentialSubject", JObj [])] in
  let fs := [(["$.credentialSubject.n[0][*]"], false); (["$.credentialSubject.n[2][0]"], false)] in
  limit_json F2 true src tmpl fs = Some (JObj [("credentialSubject", JObj [("n", JArr [JArr [JStr "s3"; JStr "s0"]; JArr [JStr "T2"]])])]) /\
  limit_json F1 true src tmpl fs = Some (JObj [("credentialSubject", JObj [("n", JArr [JArr [JStr "s3"]; JArr [JNull; JStr "T2"]])])]).
Proof. vm_compute. split; reflexivity. Qed.

(* non-vacuity: a credential-shaped document; paths inside and outside credentialSubject *)
Definition doc1 : json :=
  JObj [("@context", JArr [JStr "c1"]); ("type", JArr [JStr "VerifiableCredential"; JStr "T2"]);
        ("issuer", JObj [("id", JStr "did:ex:1")]);
        ("credentialSubject", JObj [("a1", JNum 5); ("a6", JArr [JStr "x"; JStr "y"; JStr "z"]);
                                    ("o5", JObj [("a1", JStr "in")])])].

Example engines_nonvacuous :
  p_get "$.type[1]" doc1 = Some (JStr "T2") /\
  p_get "$.issuer.id" doc1 = Some (JStr "did:ex:1") /\
  p_get "$.credentialSubject['a1']" doc1 = None /\           (* a single-quoted name of two characters is refused *)
  p_get "$[""credentialSubject""].a6[2]" doc1 = Some (JStr "z") /\
  p_get "$..a1" doc1 = Some (JArr [JStr "in"; JNum 5]) /\   (* as a multiset: the engine walks Go maps *)
  p_get "$.credentialSubject.a6[3]" doc1 = None /\
  (* the streaming engine: elements of a6 are reported in document order whatever the order of the paths, the
     element before its array, and positions are renumbered from 0 *)
  option_map fst (k_compact F2 ["$.credentialSubject.a6[2]"; "$.credentialSubject.a6[0]"; "$.credentialSubject.a6"; "$.type[1]"] doc1 [])
    = Some [("type.0", "type.1"); ("credentialSubject.a6.0", "credentialSubject.a6.0");
            ("credentialSubject.a6.1", "credentialSubject.a6.2"); ("credentialSubject.a6", "credentialSubject.a6")] /\
  k_compact F2 ["$.credentialSubject['a6']"] doc1 [] = None.
Proof. vm_compute. repeat split; reflexivity. Qed.

Example field_nonvacuous :
  let s := Schema "string" None [] None None None None 2 0 (Some (Schema "" (Some (JStr "zz")) [] None None None None 0 0 None None)) None in
  field_json_ok doc1 (Some s) false ["$.credentialSubject.a6[0]"; "$.credentialSubject.o5.a1"] = true /\
  field_json_ok doc1 (Some s) false ["$.credentialSubject.a6[0]"; "$.credentialSubject.a1"] = false /\
  (* minLength > maxLength does not compile: nothing is accepted *)
  field_json_ok doc1 (Some (Schema "" None [] None None None None 3 2 None None)) false ["$.credentialSubject.a1"] = false.
Proof. vm_compute. repeat split; reflexivity. Qed.
