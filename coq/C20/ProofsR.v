(* C20 — the abstract filter of Model.v (filter_ok on jv) is the JSON-schema model of JsonPath.v (schema_valid on json)
   restricted to its grammar: a refinement, for any injective naming of the string codes. *)
From Coq Require Import List String Ascii ZArith Bool NArith Arith Lia.
Import ListNotations.
From VF Require Import common.Json C20.Model C20.JsonPath.
Open Scope list_scope.

(* nested induction for jv *)
Section JvInd.
  Variable P : jv -> Prop.
  Hypothesis Hn : forall z, P (VNum z).
  Hypothesis Hs : forall s, P (VStr s).
  Hypothesis Hb : forall b, P (VBool b).
  Hypothesis Ha : forall l, Forall P l -> P (VArr l).
  Fixpoint jv_ind' (v : jv) : P v :=
    match v with
    | VNum z => Hn z | VStr s => Hs s | VBool b => Hb b
    | VArr l => Ha l ((fix go (l : list jv) : Forall P l :=
                         match l with [] => Forall_nil _ | x :: r => Forall_cons _ (jv_ind' x) (go r) end) l)
    end.
End JvInd.

Section Refine.
  Variable sname : N -> string.
  Hypothesis sname_inj : forall a b, sname a = sname b -> a = b.

  Fixpoint json_of_jv (v : jv) : json :=
    match v with
    | VNum z => JNum z
    | VStr s => JStr (sname s)
    | VBool b => JBool b
    | VArr l => JArr (map json_of_jv l)
    end.

  Definition tname (t : N) : string :=
    match t with 0%N => "" | 1%N => "number" | 2%N => "string" | 3%N => "boolean" | _ => "?" end%string.

  Definition schema_of_filter (f : jfilter) : schema :=
    Schema (tname (ft_type f)) (option_map json_of_jv (ft_const f)) (map json_of_jv (ft_enum f))
           (ft_min f) (ft_max f) None None 0 0 None None.

  Lemma sname_eqb : forall a b, String.eqb (sname a) (sname b) = N.eqb a b.
  Proof.
    intros a b. destruct (N.eqb a b) eqn:E.
    - apply N.eqb_eq in E. subst. apply String.eqb_refl.
    - apply String.eqb_neq. intros H. apply sname_inj in H. apply N.eqb_neq in E. contradiction.
  Qed.

  Lemma json_jv_eqb : forall a b, json_eqb (json_of_jv a) (json_of_jv b) = jv_eqb a b.
  Proof.
    induction a using jv_ind'; intros w; destruct w; cbn [json_of_jv json_eqb jv_eqb]; try reflexivity.
    - apply sname_eqb.
    - revert l0. induction H as [|x l Hx HF IH]; intros l0; destruct l0 as [|y l0]; cbn [map]; try reflexivity.
      rewrite Hx. rewrite IH. reflexivity.
  Qed.

  Lemma jv_eqb_sym : forall a b, jv_eqb a b = jv_eqb b a.
  Proof.
    induction a using jv_ind'; intros w; destruct w; cbn [jv_eqb]; try reflexivity.
    - apply Z.eqb_sym.
    - apply N.eqb_sym.
    - destruct b, b0; reflexivity.
    - revert l0. induction H as [|x l Hx HF IH]; intros l0; destruct l0 as [|y l0]; try reflexivity.
      rewrite Hx. rewrite IH. reflexivity.
  Qed.

  Lemma type_refines : forall t v, type_matches (tname t) (json_of_jv v) = type_ok t v.
  Proof.
    intros t v. destruct t as [|p]; [destruct v; reflexivity|].
    destruct p as [[p|p|]|[p|p|]|]; destruct v; reflexivity.
  Qed.

  (* the abstract filter evaluates exactly as the JSON-schema model on the embedded filter and value *)
  Lemma filter_refines : forall f v, schema_valid (schema_of_filter f) (json_of_jv v) = filter_ok f v.
  Proof.
    intros f v. unfold schema_of_filter, filter_ok. cbn [schema_valid]. rewrite type_refines.
    assert (C : match option_map json_of_jv (ft_const f) with Some x => json_eqb x (json_of_jv v) | None => true end =
                match ft_const f with None => true | Some c => jv_eqb c v end).
    { destruct (ft_const f); cbn; [apply json_jv_eqb|reflexivity]. }
    assert (E : match map json_of_jv (ft_enum f) with [] => true | _ => existsb (fun e => json_eqb e (json_of_jv v)) (map json_of_jv (ft_enum f)) end =
                match ft_enum f with [] => true | l => existsb (jv_eqb v) l end).
    { assert (G : forall l1, existsb (fun e1 => json_eqb e1 (json_of_jv v)) (map json_of_jv l1) = existsb (jv_eqb v) l1).
      { induction l1 as [|y l1 IH]; [reflexivity|]. cbn [map existsb]. rewrite json_jv_eqb, jv_eqb_sym, IH. reflexivity. }
      destruct (ft_enum f) as [|e l]; [reflexivity|]. cbn [map]. apply (G (e :: l)). }
    rewrite C, E. clear C E.
    remember (type_ok (ft_type f) v) as A eqn:HA.
    remember (match ft_const f with None => true | Some c => jv_eqb c v end) as B eqn:HB.
    remember (match ft_enum f with [] => true | l => existsb (jv_eqb v) l end) as D eqn:HD.
    clear HA HB HD.
    destruct v; cbn [json_of_jv zopt]; destruct (ft_min f), (ft_max f); cbn [zopt];
      destruct A, B, D; cbn;
      repeat match goal with |- context [Z.leb ?a ?b] => destruct (Z.leb a b) end; reflexivity.
  Qed.
End Refine.

(* an executable injective naming: the hypothesis is satisfiable *)
Fixpoint xs (n : nat) : string := match n with O => EmptyString | S m => String "x"%char (xs m) end.
Lemma xs_len : forall n, String.length (xs n) = n.
Proof. induction n as [|n IH]; cbn; auto. Qed.
Definition sname_x (n : N) : string := xs (N.to_nat n).
Lemma sname_x_inj : forall a b, sname_x a = sname_x b -> a = b.
Proof.
  intros a b H. unfold sname_x in H. apply (f_equal String.length) in H. rewrite !xs_len in H. apply N2Nat.inj. exact H.
Qed.

(* the field loop: when the JSON-level engine reads, for every path key of the field, the embedded value the abstract
   lookup gives (what the correspondence samples), and the filter's enum has no repeated item (gojsonschema refuses
   those; the abstract model does not know that rule), the abstract field evaluation IS the JSON-level one *)
Section FieldRefine.
  Variable sname : N -> string.
  Hypothesis sname_inj : forall a b, sname a = sname b -> a = b.
  Variable ptext : N -> string.

  Definition filter_compiles (f : field) : Prop :=
    match f_filter f with Some ft => nodup_json (map (json_of_jv sname) (ft_enum ft)) = true | None => True end.

  Lemma field_paths_refines : forall doc c f paths last,
    filter_compiles f ->
    (forall p, In p paths -> p_get (ptext p) doc = option_map (json_of_jv sname) (lookup p c)) ->
    field_paths_json doc (option_map (schema_of_filter sname) (f_filter f)) (f_optional f) (map ptext paths) last
    = field_paths_ok f c paths last.
  Proof.
    intros doc c f paths. induction paths as [|p r IH]; intros last Hc Hp; cbn [map field_paths_json field_paths_ok]; [reflexivity|].
    rewrite (Hp p (or_introl eq_refl)). destruct (lookup p c) as [v|]; cbn [option_map].
    - assert (A : match option_map (schema_of_filter sname) (f_filter f) with
                  | Some s => schema_accepts s (json_of_jv sname v) | None => true end =
                  match f_filter f with None => true | Some ft => filter_ok ft v end).
      { unfold filter_compiles in Hc. destruct (f_filter f) as [ft|]; cbn [option_map]; [|reflexivity].
        unfold schema_accepts. rewrite (filter_refines sname sname_inj).
        assert (W : schema_wf (schema_of_filter sname ft) = true).
        { unfold schema_of_filter. cbn [schema_wf]. rewrite Hc. reflexivity. }
        rewrite W. reflexivity. }
      rewrite A. destruct (match f_filter f with None => true | Some ft => filter_ok ft v end); [reflexivity|].
      apply IH; auto. intros q Hq. apply Hp. right. exact Hq.
    - destruct (f_optional f); [reflexivity|]. apply IH; auto. intros q Hq. apply Hp. right. exact Hq.
  Qed.

  Lemma field_refines : forall doc c f,
    filter_compiles f ->
    (forall p, In p (f_paths f) -> p_get (ptext p) doc = option_map (json_of_jv sname) (lookup p c)) ->
    field_json_ok doc (option_map (schema_of_filter sname) (f_filter f)) (f_optional f) (map ptext (f_paths f)) = field_ok c f.
  Proof. intros doc c f Hc Hp. unfold field_json_ok, field_ok. apply field_paths_refines; auto. Qed.
End FieldRefine.
